"""Generated source modules + stubs for the `apply` properties (C15, C16)."""
import ast
import importlib
import os
import sys

HELPERS = {
    "shapes.py": "class Circle:\n    def __init__(self, r=1):\n        self.r = r\n\n    def __repr__(self):\n        return 'Circle(%r)' % self.r\n\n\nclass Square:\n    pass\n",
    "geo/__init__.py": "",
    "geo/points.py": "class Point:\n    pass\n",
    "tvars.py": "from typing import TypeVar\n\nNumber = TypeVar('Number', int, float)\n",
}

IMPORT_CHOICES = [
    ("import collections\n", "collections.Counter('ab')"),
    ("import os.path\n", "os.path.basename('a/b')"),
    ("from collections import OrderedDict as OD\n", "OD(a=1)"),
    ("from typing import List\n", None),
    ("from shapes import *\n", "Square"),
    ("import json as js, sys\n", "js.dumps([1])"),
    ("from typing import Any, Sequence\n", None),          # typing names nothing uses (e.g. only in `# type:` comments)
    ("from geo import *\n", None),                         # a star import of the PACKAGE whose submodule the stub imports `Point` from
]


def gen_source(rng, idx):
    """returns (source, spec) — spec describes what is in the module"""
    header = rng.choice(["", '"""Module docstring."""\n', "# a leading comment\n", "from __future__ import annotations\n",
                         '"""Doc."""\nfrom __future__ import annotations\n'])
    if idx % 3 == 2:
        # the sources that get an import-free stub (see traces_for(plain=True)): no `from __future__` of their own, so that the
        # one `--pep_563` has to add is visible
        header = rng.choice(["", '"""Module docstring."""\n', "# a leading comment\n"])
    picks = [c for c in IMPORT_CHOICES if rng.random() < 0.5]
    imports = "".join(p[0] for p in picks)
    uses = [p[1] for p in picks if p[1]]
    existing_tc = rng.random() < 0.35
    tc_block = "from typing import TYPE_CHECKING\nif TYPE_CHECKING:\n    from geo.points import Point\n" if existing_tc else ""
    local_import = rng.random() < 0.5
    if idx % 10 == 0 and not any("from shapes import *" in p[0] for p in picks):
        # deterministically: a source that star-imports the module the stub needs `Circle` from, and relies on it
        picks.append(next(c for c in IMPORT_CHOICES if "from shapes import *" in c[0]))
        imports = "".join(p[0] for p in picks)
        uses = [p[1] for p in picks if p[1]]
    if idx % 10 == 7 and not any("from geo import *" in p[0] for p in picks):
        # deterministically: a star import of the package `geo`; `from geo.points import Point` is still a new import
        picks.append(next(c for c in IMPORT_CHOICES if "from geo import *" in c[0]))
        imports = "".join(p[0] for p in picks)
    star = any("from shapes import *" in p[0] for p in picks)
    make_local = not (star and (idx % 10 == 0 or rng.random() < 0.5))       # with the star import `make` may rely on it for Circle
    if idx % 10 == 0:
        local_import = False
    # an import of Point that a later import of the same name shadows in libcst's per-symbol table
    shadow = "none" if existing_tc else rng.choice(["none", "none", "try", "local"])
    if idx % 10 == 1:
        existing_tc, tc_block, shadow = False, "", "try"          # deterministically: the shadowed-import shapes
    elif idx % 10 == 3:
        existing_tc, tc_block, shadow = False, "", "local"
    if shadow == "try":
        imports += "from geo.points import Point\ntry:\n    from fastgeo import Point\nexcept ImportError:\n    pass\n"
        uses.append("Point.__name__")
    elif shadow == "local":
        imports += "from geo.points import Point\n"
        uses.append("Point.__name__")
    ann_a = rng.choice(["", ": 'Circle'", ": int"])
    ann_ret = rng.choice(["", " -> str"])
    body = []
    body.append("LIMIT = 3  # module level code\n\n")
    body.append("def deco(f):\n    return f\n\n")
    body.append("@deco\ndef area(shape%s, scale=None)%s:\n    # comment inside\n%s    return repr(shape) + str(scale)\n\n"
                % (ann_a, ann_ret, "    from shapes import Circle\n    _ = Circle\n" if local_import else ""))
    body.append("def make(n, tags=None):\n%s    def inner(k):\n        return k * 2\n    return [Circle(inner(n))]\n\n"
                % ("    from shapes import Circle\n" if make_local else ""))
    if shadow == "local":
        body.append("def other():\n    from shapes import Square as Point\n    return Point\n\n")
    # the name TYPE_CHECKING imported, but only inside a function body (nothing binds it at module level)
    nested_tc = (not existing_tc) and (idx % 10 == 5 or rng.random() < 0.15)
    body.append("def config(opts):\n%s%s    return sorted(opts)\n\n" % (
        "    from typing import Deque  # unused, local\n" if rng.random() < 0.3 else "",
        "    from typing import TYPE_CHECKING\n    if TYPE_CHECKING:\n        pass\n" if nested_tc else ""))
    # an existing annotation that MonkeyType renders differently in a replicating stub (Optional[...] for a None default)
    qty = rng.choice(["qty: int = 1", "qty: int = None", "qty: 'int' = 1"])
    if idx % 3 == 2:
        qty = "qty: int = 1"           # no None default: the replicating stub needs no `Optional`, hence no import at all
    body.append("class Shop:\n    rate = 2\n\n    def price(self, item, %s):\n        \"\"\"Doc.\"\"\"\n        return self.rate * qty\n\n" % qty +
                "    @staticmethod\n    def util(x):\n        return [x]\n\n")
    # a function annotated with a type variable the module imports from elsewhere (or makes with `typing.TypeVar(...)`): the kept
    # annotation needs nothing new in the module - in particular no new `Number = TypeVar(...)` statement
    tvar = idx % 4 == 2          # an even index: the stub is built in the default (replicating) mode, so the annotation is kept
    if tvar:
        if idx % 8 == 2:
            imports += "from tvars import Number\n"
        else:
            imports += "import typing\n"
            body.append("Number = typing.TypeVar('Number', int, float)\n\n")
        body.append("def scale(v: Number, k=2) -> Number:\n    return v * k\n\n")
    body.append("def run():\n    out = [area(make(1)[0]), config({'b': 1, 'a': 2}), Shop().price('x', 2), Shop.util(1)]\n"
                + ("    out.append(scale(2))\n" if tvar else "")
                + "".join("    out.append(repr(%s))\n" % u for u in uses) + "    return repr(out)\n")
    src = header + imports + tc_block + "\n" + "".join(body)
    return src, {"existing_tc": existing_tc, "local_import": local_import, "picks": [p[0].strip() for p in picks], "header": header,
                 "make_local": make_local, "shadow": shadow, "nested_tc": nested_tc}


def traces_for(mod, k, plain=False):
    """hand-made traces using classes of the helper modules, typing generics, collections.OrderedDict and (k>0) dicts;
    plain: builtin classes only, so that the stub has no import at all"""
    import collections
    import typing
    from monkeytype.tracing import CallTrace
    from monkeytype.typing import get_type
    import shapes
    from geo import points
    od = collections.OrderedDict
    area = mod.area.__wrapped__ if hasattr(mod.area, "__wrapped__") else mod.area
    extra = [CallTrace(mod.scale, {"v": int, "k": int}, int)] if hasattr(mod, "scale") else []
    if plain:
        return extra + [
            # (functions with a None default are left out: the stub of such a function imports typing.Optional, used or not)
            CallTrace(mod.config, {"opts": str}, str),
            CallTrace(mod.Shop.price, {"self": mod.Shop, "item": str, "qty": int}, int),
            CallTrace(mod.Shop.__dict__["util"].__func__, {"x": int}, float),
        ]
    tr = [
        CallTrace(area, {"shape": shapes.Circle, "scale": type(None)}, str),
        CallTrace(area, {"shape": shapes.Circle, "scale": od}, str),
        CallTrace(mod.make, {"n": int, "tags": typing.List[points.Point]}, typing.List[shapes.Circle]),
        CallTrace(mod.config, {"opts": get_type({"b": 1, "a": 2}, k)}, typing.List[str]),
        CallTrace(mod.Shop.price, {"self": mod.Shop, "item": str, "qty": int}, int),
        CallTrace(mod.Shop.__dict__["util"].__func__, {"x": typing.Optional[int]}, typing.List[int]),
    ]
    return tr + extra


def annotations_of(tree):
    """{(qualname, position): unparsed annotation} for every def in an ast"""
    out = {}

    def walk(node, path):
        for n in getattr(node, "body", []):
            if isinstance(n, ast.ClassDef):
                walk(n, path + [n.name])
            elif isinstance(n, (ast.FunctionDef, ast.AsyncFunctionDef)):
                q = ".".join(path + [n.name])
                a = n.args
                for x in a.posonlyargs + a.args + a.kwonlyargs + ([a.vararg] if a.vararg else []) + ([a.kwarg] if a.kwarg else []):
                    out[(q, x.arg)] = None if x.annotation is None else ast.unparse(x.annotation)
                out[(q, "return")] = None if n.returns is None else ast.unparse(n.returns)
                walk(n, path + [n.name])
    walk(tree, [])
    return out


def import_stmts(tree):
    """[(path, stmt)] for every import statement at any depth"""
    out = []

    def walk(node, path):
        kids = getattr(node, "body", []) + getattr(node, "orelse", []) + getattr(node, "finalbody", [])
        for h in getattr(node, "handlers", []):
            kids = kids + h.body
        for i, n in enumerate(kids):
            if isinstance(n, (ast.Import, ast.ImportFrom)):
                out.append((tuple(path), n))
            elif hasattr(n, "body"):
                name = getattr(n, "name", None) or ("if:" + ast.unparse(n.test) if isinstance(n, ast.If) else type(n).__name__)
                walk(n, path + [name])
    walk(tree, [])
    return out


def is_type_checking_if(n):
    return isinstance(n, ast.If) and ast.unparse(n.test) in ("TYPE_CHECKING", "typing.TYPE_CHECKING")


def erase(tree, original_imports, original_tc=None):
    """drop annotations, import names the original did not have *at that nesting path*, TYPE_CHECKING blocks left empty,
    generated TypedDict classes.  `original_imports`: set of (path, kind, module, name, asname)"""
    class E(ast.NodeTransformer):
        def __init__(self):
            self.path = []

        def _nest(self, node, name):
            self.path.append(name)
            self.generic_visit(node)
            self.path.pop()
            return node

        def visit_FunctionDef(self, node):
            self._nest(node, node.name)
            a = node.args
            for x in a.posonlyargs + a.args + a.kwonlyargs + ([a.vararg] if a.vararg else []) + ([a.kwarg] if a.kwarg else []):
                x.annotation = None
            node.returns = None
            return node
        visit_AsyncFunctionDef = visit_FunctionDef

        def visit_ClassDef(self, node):
            if "__RENAME_ME__" in node.name:
                return None
            return self._nest(node, node.name)

        def visit_Try(self, node):
            return self._nest(node, type(node).__name__)
        visit_With = visit_For = visit_While = visit_Try

        def visit_Import(self, node):
            keep = [al for al in node.names if (tuple(self.path), "import", None, al.name, al.asname) in original_imports]
            if not keep:
                return None
            node.names = keep
            return node

        def visit_ImportFrom(self, node):
            keep = [al for al in node.names if (tuple(self.path), "from", node.module, al.name, al.asname) in original_imports]
            if not keep:
                return None
            node.names = keep
            return node

        def visit_If(self, node):
            self._nest(node, "if:" + ast.unparse(node.test))
            if is_type_checking_if(node) and not node.body:
                return None
            if not node.body:
                node.body = [ast.Pass()]
            return node
    t = E().visit(tree)
    ast.fix_missing_locations(t)
    return t


def import_keys(tree):
    keys = set()
    for path, n in import_stmts(tree):
        for al in n.names:
            keys.add((tuple(path), "import", None, al.name, al.asname) if isinstance(n, ast.Import)
                     else (tuple(path), "from", n.module, al.name, al.asname))
    return keys


class Fixture:
    def __init__(self, pd, tag):
        self.root = os.path.join(pd.dir, tag)
        os.makedirs(os.path.join(self.root, "geo"), exist_ok=True)
        for rel, src in HELPERS.items():
            with open(os.path.join(self.root, rel), "w") as f:
                f.write(src)
        sys.path.insert(0, self.root)
        importlib.invalidate_caches()
        for n in ("shapes", "geo", "geo.points", "tvars"):
            sys.modules.pop(n, None)

    def load(self, name, source):
        path = os.path.join(self.root, name + ".py")
        with open(path, "w") as f:
            f.write(source)
        importlib.invalidate_caches()
        sys.modules.pop(name, None)
        return importlib.import_module(name)

    def close(self):
        if self.root in sys.path:
            sys.path.remove(self.root)
        for n in [m for m in sys.modules if m in ("shapes", "geo", "geo.points", "tvars") or m.startswith("applymod_")]:
            sys.modules.pop(n, None)


# ---------------------------------------------------------------------------------------------------
# statement trees for the remover correspondence (model `Imports.Stmt` <-> source text <-> ast)

MODS = ["shapes", "geo.points", "collections", "typing", "mypy_extensions", "os.path", "a", "a.b"]
NAMES = ["Circle", "Point", "OrderedDict", "List", "TypedDict", "join", "X", "Y"]
ALIASES = [None, None, None, "C", "OD", "P"]


def gen_stmt_tree(rng, depth=3, n=None):
    """list of model statements; every block body contains at least one non-import statement"""
    out = []
    counter = gen_stmt_tree.counter
    for _ in range(n if n is not None else rng.randrange(1, 6)):
        r = rng.random()
        if r < 0.22:
            out.append(("importMod",) + tuple((rng.choice(MODS), rng.choice(ALIASES)) for _ in range(rng.choice([1, 1, 2, 3]))))
        elif r < 0.55:
            # one in five is a relative import (`from .m import n`, `from ..m import n`, `from . import n`): never what a stub
            # imports, even when the dotted tail is the module of a moved item
            rel = rng.choice(["", "", "", "", rng.choice([".", "..", None])])
            out.append(("importFrom", "." if rel is None else rel + rng.choice(MODS)) + tuple((rng.choice(NAMES), rng.choice(ALIASES)) for _ in range(rng.choice([1, 1, 2, 3]))))
        elif r < 0.6:
            out.append(("importStar", rng.choice(MODS)))
        elif r < 0.8 or depth == 0:
            counter[0] += 1
            out.append(("other", counter[0]))
        else:
            counter[0] += 1
            i = counter[0]
            counter[0] += 1
            out.append(("block", i, ("other", counter[0])) + tuple(gen_stmt_tree(rng, depth - 1)))
    return out


gen_stmt_tree.counter = [0]


def stmts_to_source(stmts, indent=""):
    lines = []
    for s in stmts:
        h = s[0]
        if h == "importMod":
            lines.append(indent + "import " + ", ".join(n + (" as " + a if a else "") for n, a in s[1:]))
        elif h == "importFrom":
            lines.append(indent + "from %s import " % s[1] + ", ".join(n + (" as " + a if a else "") for n, a in s[2:]))
        elif h == "importStar":
            lines.append(indent + "from %s import *" % s[1])
        elif h == "other":
            lines.append(indent + "_v = %d" % s[1])
        else:
            i = s[1]
            head = ["def f_%d():", "if c_%d:", "class C_%d:", "while w_%d:", "with m_%d:"][i % 5] % i
            lines.append(indent + head)
            lines.append(stmts_to_source(s[2:], indent + "    "))
    return "\n".join(lines)


def source_to_stmts(text):
    def conv(body):
        out = []
        for n in body:
            if isinstance(n, ast.Import):
                out.append(("importMod",) + tuple((a.name, a.asname) for a in n.names))
            elif isinstance(n, ast.ImportFrom):
                if any(a.name == "*" for a in n.names):
                    out.append(("importStar", "." * n.level + (n.module or "")))
                else:
                    out.append(("importFrom", "." * n.level + (n.module or "")) + tuple((a.name, a.asname) for a in n.names))
            elif isinstance(n, ast.Assign):
                out.append(("other", n.value.value))
            elif isinstance(n, ast.Pass):
                out.append(("pass",))
            else:
                if isinstance(n, (ast.FunctionDef, ast.ClassDef)):
                    i = int(n.name.split("_")[1])
                elif isinstance(n, (ast.If, ast.While)):
                    i = int(n.test.id.split("_")[1])
                else:
                    i = int(n.items[0].context_expr.id.split("_")[1])
                out.append(("block", i) + tuple(conv(n.body)))
        return out
    return conv(ast.parse(text).body)


def stmt_items(stmts):
    out = []
    for s in stmts:
        if s[0] == "importMod":
            out += [(n, None, a) for n, a in s[1:]]
        elif s[0] == "importFrom":
            out += [(s[1], n, a) for n, a in s[2:]]
        elif s[0] == "block":
            out += stmt_items(s[2:])
    return out
