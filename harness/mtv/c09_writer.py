"""Writer process for the C09 concurrency / kill experiments.
usage: c09_writer.py <repo> <db> <writer_id> <n_batches> <batch_size> [kill_batch kill_after_steps]
Prints one line per batch: 'committed <i>' / 'failed <i> <error>'. With kill arguments the process SIGKILLs itself
from inside SQLite's progress handler during batch <kill_batch>, after <kill_after_steps> VM steps."""
import os
import signal
import sys

repo, db, wid, nb, bs = sys.argv[1], sys.argv[2], sys.argv[3], int(sys.argv[4]), int(sys.argv[5])
kill_batch = int(sys.argv[6]) if len(sys.argv) > 6 else -1
kill_after = int(sys.argv[7]) if len(sys.argv) > 7 else 0
sys.dont_write_bytecode = True
sys.path.insert(0, repo)
from monkeytype.db.sqlite import SQLiteStore  # noqa: E402
from monkeytype.tracing import CallTrace  # noqa: E402


def mkfunc(module, qualname):
    def f():
        pass
    f.__module__ = module
    f.__qualname__ = qualname
    return f


store = SQLiteStore.make_store(db)
for i in range(nb):
    traces = [CallTrace(mkfunc("w%s" % wid, "b%d.f%d" % (i, j)), {"a": int}, int) for j in range(bs)]
    if i == kill_batch:
        steps = [0]

        def handler():
            steps[0] += 1
            if steps[0] > kill_after:
                os.kill(os.getpid(), signal.SIGKILL)
            return 0
        store.conn.set_progress_handler(handler, 1)
    try:
        store.add(traces)
        print("committed %d" % i, flush=True)
    except Exception as e:  # e.g. database is locked
        print("failed %d %r" % (i, e), flush=True)
