"""C01 — emitted annotations admit every value seen at runtime (run -> store -> stub)."""
import ast
import io
import json
import os

from .. import classes, framework, leanio, oracle, programs, recorder, sexp, stubeval, tyconv, values
from ..sexp import Q

RULE = ("programs = generated target modules (module functions with every exit kind, positional-only / keyword-only / *args / **kwargs "
        "parameters, a functools.wraps decorator, recursion, closures, caller-catches-callee, generators incl. `yield from` and a "
        "raising one, coroutines with real suspensions, instance / class / static methods, a property, inheritance, a generator "
        "method), every function's parameters renamed apart, some with truthful existing `object` annotations x call histories whose "
        "arguments are drawn from the value grammar (atoms, user classes with single / multiple inheritance and container subclasses, "
        "class objects, callables, generator objects, nested list/set/tuple/dict/defaultdict, empty containers, None, record-shaped "
        "dicts that merge into TypedDicts) x max_typed_dict_size in {0,1,2,3,10} (trace time and stub time) x rewriter in {NoOp, each "
        "shipped rewriter, default chain} x flags in {default, --ignore-existing-annotations, --omit-existing-annotations, "
        "--disable-type-rewriting}. The workload runs under monkeytype.trace(config) into a real SQLiteStore; `stub` is run through "
        "cli.main; stdout is parsed, its import block executed in an empty namespace, its TypedDict classes registered, every "
        "annotation evaluated; each value the generated function itself reported for that position must be a member (reference "
        "conformance oracle). Non-trivial = a checked position with at least one container / user-class / None value; distinct = "
        "distinct (program, k, rewriter, flags, position).")

HOLDER = None        # the config object `-c <cfgmodule>:CONFIG` resolves to; its fields are set per run

CFG_SRC = "import mtv.checks.c01 as _h\nCONFIG = _h.HOLDER\n"

FLAGS = {"default": [], "ignore": ["--ignore-existing-annotations"], "omit": ["--omit-existing-annotations"]}


class RichVals:
    """workload arguments from the value grammar; the same generator also yields `rng` for the shape builders"""
    def __init__(self, rng, gen, builder):
        self.rng = rng
        self.gen = gen
        self.builder = builder
        self.pool = []

    def __call__(self):
        rng = self.rng
        for _ in range(20):
            r = rng.random()
            if self.pool and r < 0.12:
                d = rng.choice(self.pool)                      # the same shape again (duplicates in the store)
            elif self.pool and r < 0.26:
                d = self.gen.mutate(rng.choice(self.pool), 2)  # a sibling shape: merges
            elif self.pool and r < 0.40:
                d = self.same_kind(rng.choice(self.pool))      # same outer container, unrelated content
            elif r < 0.55:
                d = self.gen.record_struct()
            elif r < 0.63:
                d = rng.choice([("list",), ("dict",), ("set",), ("tuple",), ("inst", values.NONE), ("ddict",)])
            elif r < 0.72:
                d = rng.choice(NESTED_EMPTIES)                 # containers that hold nothing but empty containers
            else:
                d = self.gen.value(rng.choice([1, 2, 2, 3]))
            try:
                obj, _ = self.builder.build(d)
            except values.Retry:
                continue
            if len(self.pool) < 40:
                self.pool.append(d)
            return obj
        return None

    def same_kind(self, d):
        """a value with the same outermost container kind (and, for tuples, length) as `d` but shallow unrelated content"""
        rng = self.rng
        if isinstance(d, str) or d[0] in ("inst", "str", "classObj"):
            return self.gen.atom()
        h = d[0]
        atom = lambda hashable=False: self.gen.atom(hashable) if rng.random() < 0.8 else rng.choice([("list",), ("tuple",), ("inst", values.NONE)] if not hashable else [("tuple",), ("inst", values.NONE)])
        if h == "tuple":
            return ("tuple",) + tuple(atom() for _ in d[1:])
        if h == "list":
            return ("list",) + tuple(atom() for _ in range(rng.choice([1, 1, 2, 3])))
        if h == "set":
            return ("set", ("inst", values.INT)) if rng.random() < 0.5 else ("set", ("str", Q("s")), ("inst", values.INT))
        n = rng.choice([1, 1, 2])
        keys = [("str", Q(k)) for k in rng.sample(["a", "b", "zz"], n)] if rng.random() < 0.6 else [("inst", values.INT)]
        return (h,) + tuple((k, atom()) for k in keys)


NESTED_EMPTIES = [
    ("tuple", ("list",), ("dict",)), ("tuple", ("list",)), ("tuple", ("set",)), ("tuple", ("tuple",), ("list",)),
    ("list", ("list",)), ("list", ("dict",)), ("list", ("list",), ("list",)), ("list", ("tuple",)), ("list", ("set",)),
    ("dict", (("inst", values.INT), ("list",))), ("dict", (("tuple",), ("dict",))), ("set", ("tuple",)),
    ("ddict", (("inst", values.INT), ("list",))), ("list", ("list", ("list",))), ("tuple", ("tuple", ("list",), ("dict",))),
]


def gen_mini(rng, name):
    """a module with one or two functions only: nothing else in the stub can supply a missing import or class"""
    P = programs
    src = ["import mtv.recorder as _r\n\n"]
    funcs = []
    kinds = rng.sample(["function", "generator", "method", "coroutine"], rng.choice([1, 1, 2]))
    for kind in kinds:
        if kind == "function":
            src.append("def fn(a, b=None):\n" + P.enter_line("fn", ["a", "b"]) + "    return _r.ret(_t, a if b is None else b)\n\n")
            funcs.append({"qual": "fn", "call": "fn", "kind": "function", "mk": lambda v: ((v(),), {}) if v.rng.random() < 0.5 else ((v(), v()), {}),
                          "exit": "expr", "params": ["a", "b"]})
        elif kind == "generator":
            src.append("def gn(a):\n" + P.enter_line("gn", ["a"]) + "    yield _r.yielded(_t, a)\n    yield _r.yielded(_t, [a])\n    _r.ret(_t, None)\n\n")
            funcs.append({"qual": "gn", "call": "gn", "kind": "generator", "mk": P.PARAM_SHAPES[0][2], "exit": "gen", "params": ["a"]})
        elif kind == "coroutine":
            src.append("async def co(a):\n" + P.enter_line("co", ["a"]) + "    await _r.Suspend()\n    return _r.ret(_t, (a,))\n\n")
            funcs.append({"qual": "co", "call": "co", "kind": "coroutine", "mk": P.PARAM_SHAPES[0][2], "exit": "coro", "params": ["a"]})
        else:
            src.append("class K:\n    def m(self, x, *, y=0):\n" + P.enter_line("K.m", ["self", "x", "y"], "        ") + "        return _r.ret(_t, {'x': x})\n\n")
            funcs.append({"qual": "K.m", "call": "K().m", "kind": "method", "mk": lambda v: ((v(),), {"y": v()} if v.rng.random() < 0.5 else {}),
                          "exit": "expr", "params": ["self", "x", "y"]})
    return "".join(src), funcs


def rewriters():
    from monkeytype import typing as mt
    return [("default", mt.DEFAULT_REWRITER), ("noop", mt.NoOpRewriter()), ("RemoveEmptyContainers", mt.RemoveEmptyContainers()),
            ("RewriteConfigDict", mt.RewriteConfigDict()), ("RewriteLargeUnion", mt.RewriteLargeUnion()),
            ("RewriteGenerator", mt.RewriteGenerator()), ("RewriteMostSpecificCommonBase", mt.RewriteMostSpecificCommonBase()),
            ("RewriteAnonymousTypedDictToDict", mt.RewriteAnonymousTypedDictToDict())]


def interesting(v):
    return v is None or type(v) in (list, set, tuple, dict) or type(v).__module__ not in ("builtins",)


def annotation_nodes(fn):
    """position -> (annotation node, traced?) ; MonkeyType does not trace *args / **kwargs (tracing.py handle_call)"""
    a = fn.args
    out = {}
    for x in a.posonlyargs + a.args + a.kwonlyargs:
        out[x.arg] = (x.annotation, True)
    for x in ([a.vararg] if a.vararg else []) + ([a.kwarg] if a.kwarg else []):
        out[x.arg] = (x.annotation, False)
    out["return"] = (fn.returns, True)
    return out


def check_stub(chk, case, text, ev_own, rec_values, tbl, annotated, flag, stats):
    """every recorded value against the annotation the stub emits for its position"""
    try:
        ev = stubeval.EvaluatedStub(text, ev_own, tolerant=True)
    except stubeval.StubError as e:
        chk.fail("stub-" + e.clause, dict(case, detail=e.detail, stub=text[:1500]))
        return
    dup = set(ev.duplicate_classes)
    # names the import block binds from two different modules (`from shapes import Set` and `from typing import Set`): the
    # later import shadows the earlier one (KF-C11-same-name-two-modules)
    bound = {}
    for n in ev.tree.body:
        if isinstance(n, ast.ImportFrom):
            for a in n.names:
                bound.setdefault(a.asname or a.name, set()).add(n.module)
    clash_names = {k for k, v in bound.items() if len(v) > 1}
    for qual, fn in ev.funcs.items():
        nodes = annotation_nodes(fn)
        for pos, (node, traced) in nodes.items():
            if pos == "return":
                yields = rec_values.get((qual, "yield"), [])
                rets = rec_values.get((qual, "return"), [])
                if not yields and not rets:
                    continue
            else:
                vals = rec_values.get((qual, pos), [])
                if not vals:
                    continue
            if node is None:
                # no annotation emitted: only legitimate for an omitted existing annotation / the receiver
                if not traced or pos in ("self", "cls") or ((qual, pos) in annotated and flag == "omit"):
                    continue
                chk.fail("annotation-missing", dict(case, position=[qual, pos], stub=text[:1200]))
                continue
            src = ast.unparse(node)
            mentions_dup = any(d in src for d in dup) or any(d in ast.dump(node) for d in dup)
            kf = "KF-C01-td-class-name-collision" if (dup and _reaches_dup(ev, node, dup)) else None
            if kf is None and clash_names and _reaches_dup(ev, node, clash_names):
                kf = "KF-C01-same-name-two-modules"
            try:
                tree = ev.resolve(ev.annotation(node), tbl)
                ty = tyconv.tree_to_ty(tree, tbl)
            except stubeval.StubError as e:
                chk.fail("stub-" + e.clause, dict(case, position=[qual, pos], annotation=src, detail=e.detail, stub=text[:1500]), finding=kf)
                continue
            except tyconv.Unrepresentable as e:
                stats["unrepresentable"] = stats.get("unrepresentable", 0) + 1
                continue
            except Exception as e:
                chk.fail("annotation-unreadable", dict(case, position=[qual, pos], annotation=src, error=repr(e)[:300]), finding=kf)
                continue
            stats["positions"] = stats.get("positions", 0) + 1
            if pos == "return":
                bad = _check_return(tree, ty, yields, rets, tbl)
            else:
                bad = next((("value", v) for v in vals if not oracle.conforms(v, ty)), None)
                stats["values"] = stats.get("values", 0) + len(vals)
                if any(interesting(v) for v in vals):
                    chk.nontriv("%s|%s|%s|%s|%s|%s" % (case["program"], case["k"], case["rewriter"], case["flags"], qual, pos))
            if bad is not None:
                kind, v = bad
                chk.fail("not-admitted", dict(case, position=[qual, pos], annotation=src, component=kind, value=repr(v)[:300],
                                              value_type=type(v).__name__, stub=text[:1500]), finding=kf)


def _reaches_dup(ev, node, dup):
    """the annotation refers (directly or through fields of generated classes) to a class name the stub defines twice"""
    seen, todo = set(), [n.value if isinstance(n, ast.Constant) else n.id for n in ast.walk(node)
                         if (isinstance(n, ast.Constant) and isinstance(n.value, str)) or isinstance(n, ast.Name)]
    while todo:
        name = todo.pop()
        if name in seen:
            continue
        seen.add(name)
        if name in dup:
            return True
        for c in ev.class_nodes.get(name, []):
            for n in ast.walk(c):
                if isinstance(n, ast.Constant) and isinstance(n.value, str):
                    todo.append(n.value)
                elif isinstance(n, ast.Name):
                    todo.append(n.id)
    return False


def _check_return(tree, ty, yields, rets, tbl):
    """function return annotation: Iterator[Y] / Generator[Y, S, R] are split into their components when the function yielded"""
    if yields:
        if isinstance(tree, tuple) and tree[0] == "iterator":
            y, r = tyconv.tree_to_ty(tree[1], tbl), type(None)
        elif isinstance(tree, tuple) and tree[0] == "generator":
            y, r = tyconv.tree_to_ty(tree[1], tbl), tyconv.tree_to_ty(tree[3], tbl)
        elif tree == ("cls", "10") or tree == "any":
            return None                                     # an existing `object` annotation kept, or Any
        else:
            return ("generator-annotation-shape", yields[0])
        for v in yields:
            if not oracle.conforms(v, y):
                return ("yield", v)
        for v in rets:
            if not oracle.conforms(v, r):
                return ("return", v)
        return None
    for v in rets:
        if not oracle.conforms(v, ty):
            return ("return", v)
    return None


def run(pid, tier, seed):
    global HOLDER
    chk = framework.Check(pid, tier, seed)
    chk.rule = RULE
    chk.assumptions = ["histories stay below the store's query limit (2000 distinct rows per module): beyond it `stub` sees a subset of the traces by design",
                       "names the stub provides = its own import block (really executed) + builtins + the target module's own classes",
                       "ground truth = what each generated function reports about itself (mtv.recorder), taken at entry / yield / return; "
                       "`*args` / `**kwargs` are not traced parameters (tracing.py handle_call) and get no annotation",
                       "REPLICATE keeps an existing annotation: the generated existing annotations are truthful (`object`)"]
    chk.partial = ("the composition theorem (pipeline_sound) ends at the type handed to the renderer; that the rendered text evaluated with the stub's "
                   "names is that type is checked on every generated stub (here and in C11), not proved")
    proof = framework.lean_check(pid, extra_props=("C04", "C05", "C07", "C08", "C11", "C13"))
    quick = tier == "quick"
    import monkeytype
    from monkeytype import cli
    from monkeytype.config import DefaultConfig
    from monkeytype.db.sqlite import SQLiteStore

    class Holder(DefaultConfig):
        db = None
        k = 0
        rewriter = None
        path = None

        def trace_store(self):
            return SQLiteStore.make_store(self.db)

        def max_typed_dict_size(self):
            return self.k

        def type_rewriter(self):
            return self.rewriter

        def code_filter(self):
            p = self.path
            return lambda code: code.co_filename == p

        def sample_rate(self):
            return None

    HOLDER = Holder()
    import mtv.checks.c01 as me
    me.HOLDER = HOLDER
    tbl = classes.ClassTable()
    drv = leanio.LeanDriver()
    pd = programs.ProgramDir("mtv_c01_")
    stats = {}
    try:
        cfgname = "c01cfg_%d" % (seed % 100000)
        pd.load(cfgname, CFG_SRC)
        rws = rewriters()
        nprog = 4 if quick else 24
        ks = (0, 1, 2, 3, 10)
        nmini = 10 if quick else 120
        for pi in range(nprog + nmini):
            mini = pi >= nprog
            name = "c01mod_%d_%d" % (seed % 100000, pi)
            gen = values.Gen(tbl, chk.rng)
            builder = values.Builder(tbl)
            rv = RichVals(chk.rng, gen, builder)
            if mini:
                src, funcs = gen_mini(chk.rng, name)
                annotated = set()
                steps = programs.make_workload(chk.rng, funcs, chk.rng.randrange(3, 12), vals=rv)
            else:
                src0, funcs0 = programs.gen_module(chk.rng, name, with_async_gen=True)
                src, funcs, maps, annotated = programs.uniquify_params(src0, funcs0, chk.rng, 0.12)
                steps = programs.make_workload(chk.rng, funcs, chk.rng.randrange(200, 320) if quick else chk.rng.randrange(250, 600), vals=rv)
            mod, path = pd.load(name, src)
            own = {n: getattr(mod, n) for n in ("K", "Base") if hasattr(mod, n)}
            for k in ((chk.rng.choice([0, 1]), chk.rng.choice([2, 3, 10])) if mini else ks):
                HOLDER.db = os.path.join(pd.dir, "%s_k%d.sqlite3" % (name, k))
                HOLDER.k = k
                HOLDER.path = path
                HOLDER.rewriter = rws[0][1]
                rec = recorder.install(lambda v: None)
                with monkeytype.trace(HOLDER):
                    programs.run_workload(mod, steps)
                rec_values = rec.values
                stats["calls"] = stats.get("calls", 0) + len(rec.finished)
                # rewriter x flags: every rewriter with the default flags, every flag with the default rewriter, and random pairs
                combos = [(rn, "default") for rn, _ in rws] + [("default", f) for f in ("ignore", "omit", "norewrite")]
                others = [(rn, f) for rn, _ in rws[1:] for f in ("ignore", "omit", "norewrite")]
                chk.rng.shuffle(others)
                combos += others[: (2 if quick else 8)]
                if mini:
                    combos = [("default", "default"), ("noop", "default"), chk.rng.choice(combos)]
                for rn, flag in combos:
                    HOLDER.rewriter = dict(rws)[rn]
                    argv = ["-v", "-c", cfgname + ":CONFIG"] + (["--disable-type-rewriting"] if flag == "norewrite" else []) + ["stub", name] + FLAGS.get(flag, [])
                    out, err = io.StringIO(), io.StringIO()
                    case = {"program": name, "k": k, "rewriter": rn, "flags": flag}
                    chk.evaluations += 1
                    try:
                        rc = cli.main(argv, out, err)
                    except BaseException as e:
                        chk.fail("stub-command-raised", dict(case, error=repr(e)[:500]))
                        continue
                    text = out.getvalue()
                    if rc != 0 or not text.strip():
                        chk.fail("stub-command-failed", dict(case, rc=rc, stderr=err.getvalue()[-500:]))
                        continue
                    # functions defined in a local scope cannot be found again by name (C10: skipped); anything else that
                    # fails to decode takes observed values out of the stub
                    bad_rows = [l for l in err.getvalue().splitlines() if "Failed decoding trace" in l and "<locals>" not in l]
                    stats["skipped_local_function_rows"] = stats.get("skipped_local_function_rows", 0) + err.getvalue().count("<locals>")
                    if bad_rows:
                        chk.fail("rows-failed-to-decode", dict(case, stderr="\n".join(bad_rows)[-600:]))
                    check_stub(chk, case, text, own, rec_values, tbl, annotated, flag, stats)
                    if len(chk.samples) < 2 and k == 3 and flag == "default" and "TypedDict" in text:
                        chk.sample(dict(case, stub_head=text[:700]))
        for k2, v in sorted(stats.items()):
            chk.count(k2, v)
        # model <-> implementation on the composition itself: the type MonkeyType's library pipeline computes for a position
        # from a bag of values equals the model's positionType (relation over infer + rewrite, as in C04/C07, kept small here)
        _pipeline_correspondence(chk, drv, tbl, quick)
        # ... and on whole functions (definition_arg_sound / definition_yield_sound / definition_return_sound speak about
        # Model/FuncDef's shrinkTraced / updatedDefinition): the real shrink_traced_types / get_updated_definition against them
        from .. import funcdef_corr
        funcdef_corr.run(chk, drv, tbl, pd, seed, "corr.C01", 60 if quick else 2000)
        if stats.get("positions", 0) < 50:
            chk.notes.append("few positions checked: %r" % stats)
            chk.rel("coverage.C01.positions", False, {"stats": stats})
    finally:
        pd.close()
        drv.close()
    return chk.finish(proof, None)


def _pipeline_correspondence(chk, drv, tbl, quick):
    """infer k vs, then the default chain: implementation (get_type / shrink_types / DEFAULT_REWRITER) vs the Lean model"""
    from monkeytype.typing import DEFAULT_REWRITER, NoOpRewriter, get_type, shrink_types
    gen = values.Gen(tbl, chk.rng)
    builder = values.Builder(tbl)
    reqs, meta = [], []
    items = []
    for i in range(60 if quick else 600):
        k = chk.rng.choice([0, 1, 2, 3, 10])
        descs = gen.record_multiset() if chk.rng.random() < 0.5 else gen.multiset(4, 2)
        try:
            built = [builder.build(d) for d in descs]
        except values.Retry:
            continue
        if not built:
            continue
        items.append((k, built))
    drv.ask(tbl.hier())
    for k, built in items:
        objs = [b[0] for b in built]
        ds = tuple(b[1] for b in built)
        try:
            impl = DEFAULT_REWRITER.rewrite(shrink_types([get_type(o, k) for o in objs], k))
            impl_tree = tyconv.canon(tyconv.ty_to_tree(impl, tbl))
        except tyconv.Unrepresentable:
            continue
        except Exception as e:
            chk.fail("inference-raised", {"k": k, "values": sexp.dumps(ds)[:600], "error": repr(e)[:300]})
            continue
        reqs.append(("inferRewrite", str(k), ds))
        meta.append(({"k": k, "values": sexp.dumps(ds)[:600]}, impl_tree))
    try:
        answers = drv.ask_many(reqs)
    except Exception as e:
        chk.rel("corr.C01.pipeline", False, {"error": repr(e)[:300]})
        return
    for g, (case, impl_tree) in zip(answers, meta):
        chk.rel("corr.C01.pipeline", tyconv.canon(g) == impl_tree, dict(case, impl=sexp.dumps(impl_tree)[:600], model=sexp.dumps(tyconv.canon(g))[:600]))


def replay(path, args):
    data = json.load(open(path))
    print(json.dumps(data.get("case") or data.get("disagreements"), indent=1, default=str)[:4000])
    return 1
