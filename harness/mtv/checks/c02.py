"""C02 — every completed call yields exactly one faithful call trace."""
import json
import time

from .. import classes, envmodel, framework, leanio, programs, recorder, sexp, tracerun, tyconv
from ..sexp import Q

RULE = ("programs = generated modules (module functions with every exit kind and parameter shape incl. positional-only / keyword-only / "
        "defaults / *args / **kwargs, functools.wraps, recursion, closures over arguments, caller catching the callee's exception, "
        "instance/class/static methods, property, inherited and overridden methods with super(), generators incl. yield from, a "
        "generator method, coroutines that really suspend) x seeded random workloads (30..80 steps; live generators advanced in random "
        "interleavings; values of 10 kinds) x k in {0,3}. The event stream the real tracer saw is recorded from outside and replayed "
        "through the Lean state machine; the real log is compared with the model's log and with the ground truth every function "
        "records about itself. Non-trivial = a logged trace of a generator, coroutine, nested/recursive or raising call; "
        "distinct = distinct (qualname, arg types, return, yield).")

IGNORED_PARAMS = ("args", "kwargs", "kw")


def expected_from_recorder(rec, tbl, union):
    out = []
    for r in rec.finished:
        ys = r["yields"]
        out.append({"qualname": r["qualname"], "args": {k: v for k, v in r["args"].items() if k not in IGNORED_PARAMS},
                    "ret": r["ret"] if r["exit"] == "return" else None, "yield": union(ys) if ys else None, "exit": r["exit"]})
    return out


def align_closed(exp, got):
    """exp: ground-truth records in order of completion, some with exit == 'closed' (a generator the workload dropped while it was
    suspended: CPython closes it, the GeneratorExit ends the call).  Such a call finished by raising: it is expected in the log
    like any call that raised - once, without a return type, with the yield type of what it had yielded (fix 4a9731f)."""
    return [dict(e, ret=None) if e["exit"] == "closed" else e for e in exp]


def compare_with_truth(chk, logger, expected, tbl, unresolved, case):
    """the property, on the implementation: one faithful trace per completed call, in order of completion"""
    exp = [e for e in expected if e["qualname"] not in unresolved]
    got = logger.traces
    # a generator that was dropped while suspended did not return; CPython closes it: a call that ended by an exception
    exp = align_closed(exp, [(t.func.__code__.co_qualname, t.return_type is None) for t in got])
    if len(got) != len(exp):
        chk.fail("count", dict(case, detail="%d traces logged, %d calls of resolvable functions completed" % (len(got), len(exp)),
                               logged=[t.func.__code__.co_qualname for t in got][:40], completed=[e["qualname"] for e in exp][:40]))
        return
    ct = lambda x: None if x is None else sexp.dumps(tyconv.canon(tyconv.ty_to_tree(x, tbl)))
    for i, (t, e) in enumerate(zip(got, exp)):
        bad = []
        if t.func.__code__.co_qualname != e["qualname"]:
            bad.append("attributed to %s, completed call was %s" % (t.func.__code__.co_qualname, e["qualname"]))
        else:
            ga = {n: ct(v) for n, v in t.arg_types.items() if n not in IGNORED_PARAMS}
            if ga != e["args"]:
                bad.append("argument types %r, values at entry had %r" % (ga, e["args"]))
            if ct(t.return_type) != e["ret"]:
                bad.append("return type %r, call %s with %r" % (ct(t.return_type), e["exit"], e["ret"]))
            if ct(t.yield_type) != e["yield"]:
                bad.append("yield type %r, yielded values had %r" % (ct(t.yield_type), e["yield"]))
        for b in bad:
            chk.fail(b.split(",")[0].split(" ")[0], dict(case, index=i, qualname=e["qualname"], detail=b,
                                                         logged_positions=[j for j, x in enumerate(got) if x.func.__code__.co_qualname == e["qualname"]],
                                                         completed_positions=[(j, x["exit"]) for j, x in enumerate(exp) if x["qualname"] == e["qualname"]],
                                                         logged_around=[x.func.__code__.co_qualname for x in got[max(0, i - 3):i + 6]],
                                                         completed_around=["%s (%s)" % (x["qualname"], x["exit"]) for x in exp[max(0, i - 3):i + 6]]))
            return


def run(pid, tier, seed):
    chk = framework.Check(pid, tier, seed)
    chk.rule = RULE
    chk.assumptions = ["CPython 3.12 delivers a well-formed profile event stream and the opcode/flag classification recorded from outside "
                       "(RESUME argument, last opcode, CO_COROUTINE) is what the tracer reads; monitored on every run (malformed streams are reported)",
                       "the function a code object resolves to is read from the real tracer's cache and passed to the model as data (get_func itself is checked "
                       "directly: every trace must be attributed to the function whose code ran)",
                       "async generators are not generated (CPython gives their awaits and yields the same opcode and no coroutine flag)"]
    chk.partial = "the mapping from a Python program to its profile events and opcodes is CPython's and is observed, not proved"
    proof = framework.lean_check(pid)
    quick = tier == "quick"
    from monkeytype.typing import get_type
    tbl = classes.ClassTable()
    ft = envmodel.FuncTable()
    drv = leanio.LeanDriver()
    pd = programs.ProgramDir("mtv_c02_")
    try:
        for pi in range(12 if quick else 1500):
            k = (0, 3)[pi % 2]
            name = "c02prog_%d_%d" % (seed % 1000, pi)
            src, funcs = programs.gen_module(chk.rng, name, with_async_gen=True)
            typer = lambda v: sexp.dumps(tyconv.canon(tyconv.ty_to_tree(get_type(v, k), tbl)))
            rec = recorder.install(typer)
            mod, path = pd.load(name, src)
            steps = programs.make_workload(chk.rng, funcs, chk.rng.randrange(30, 80), abandon=(pi % 3 != 0))
            admit = lambda code, path=path: code.co_filename == path
            logger, er, tracer, draws, _ = tracerun.run_traced(lambda: programs.run_workload(mod, steps), admit, tbl, k)
            chk.evaluations += 1
            case = {"program": name, "seed": seed, "k": k, "steps": len(steps)}
            if er.malformed:
                chk.rel("corr.C02.stream_wellformed", False, dict(case, detail=er.malformed[:3]))
            else:
                chk.rel("corr.C02.stream_wellformed", True)
            if tracer.traces or getattr(tracer, "thrown_into", None):
                chk.fail("residue", dict(case, detail="%d per-call entries left in the tracer" % (len(tracer.traces) + len(getattr(tracer, "thrown_into", ())))))
            unresolved = {c.co_qualname for c in er.codes if tracerun.resolved(tracer, c) is None}
            for q in unresolved:
                chk.count("unresolved." + q)

            def union(ys):
                import typing
                # the same canonical text the recorder produced per value, merged as a set
                trees = sorted({y for y in ys})
                if len(trees) == 1:
                    return trees[0]
                return sexp.dumps(tyconv.canon(("union",) + tuple(sexp.loads(t) for t in trees)))
            compare_with_truth(chk, logger, expected_from_recorder(rec, tbl, union), tbl, unresolved, case)
            for t in logger.traces:
                q = t.func.__code__.co_qualname
                chk.count("logged." + ("generator" if t.yield_type is not None else "raised" if t.return_type is None else "returned"))
                if t.yield_type is not None or t.return_type is None or "<locals>" in q or q in ("recur", "coro", "coro_raise", "K.over"):
                    chk.nontriv(sexp.dumps(tracerun.trace_tree(t, tbl, ft)))
            # model
            drv.ask(tbl.hier())
            g = drv.ask(tracerun.model_request(er, tracer, ft, None, draws))
            mlog = [tracerun.canon_model_trace(t) for t in g[0]]
            ilog = [tracerun.trace_tree(t, tbl, ft) for t in logger.traces]
            chk.rel("corr.C02.tracer", mlog == ilog and int(g[1]) == len(tracer.traces),
                    dict(case, events=len(er.events), impl=[sexp.dumps(t) for t in ilog[:5]], model=[sexp.dumps(t) for t in mlog[:5]],
                         first_diff=next((i for i, (a, b) in enumerate(zip(mlog, ilog)) if a != b), min(len(mlog), len(ilog)))))
            chk.count("events", len(er.events))
            if pi == 0:
                chk.sample({"program": name, "events": [sexp.dumps(e) for e in er.events[:6]], "log": [sexp.dumps(t) for t in ilog[:3]]})
        twin_modules(chk, pd)
        untypable_values(chk, pd, seed)
    finally:
        pd.close()
        drv.close()
    return chk.finish(proof, None)


TWIN_SRC = ("import functools\n\n\ndef plain(x):\n    return x\n\n\ndef deco(f):\n    @functools.wraps(f)\n    def wrapper(*a):\n        return f(*a)\n"
            "    return wrapper\n\n\n@deco\ndef wrapped(x):\n    return [x]\n\n\ndef gen(x):\n    yield x\n\n\n"
            "class K:\n    def meth(self, x):\n        return x\n\n    @classmethod\n    def cmeth(cls, x):\n        return x\n\n"
            "    @staticmethod\n    def smeth(x):\n        return x\n")


DEEP_SRC = (
    "def deep(n):\n    d = [1]\n    for _ in range(n):\n        d = [d]\n    return d\n\n\n"
    "def deep_ret(n):\n    return deep(n)\n\n\n"
    "def deep_arg(d):\n    return 1\n\n\n"
    "def deep_gen(n):\n    yield 1\n    yield deep(n)\n    yield 2\n    return 3\n\n\n"
    "def ok(x):\n    return [x]\n\n\n"
    "def run():\n    out = [len(deep_ret(20000)), deep_arg(deep(20000)), [type(v).__name__ for v in deep_gen(20000)], ok(1), ok('s')]\n    return repr(out)\n")


def untypable_values(chk, pd, seed):
    """values no type can be inferred for (lists nested deeper than the interpreter's recursion limit), returned, passed and yielded:
    the failure stays inside the tracer (C03), the calls around are logged as ever, and afterwards the tracer keeps no per-call
    state - a call that cannot be described is not described, and not remembered either (fix 046cc64)"""
    import sys as _sys
    from monkeytype.tracing import trace_calls
    from .. import tracerun
    mod, path = pd.load("c02deep_%d" % (seed % 1000), DEEP_SRC)
    want = mod.run()
    for k in (0, 3):
        chk.evaluations += 1
        logger = tracerun.ListLogger()
        case = {"workload": "values nested 20000 deep: returned, passed, yielded", "k": k}
        try:
            with trace_calls(logger, k, lambda code: code.co_filename == path):
                tracer = _sys.getprofile()
                got = mod.run()
        except BaseException as e:
            chk.fail("residue", dict(case, detail="the failure to type a value reached the program", error=repr(e)[:200]))
            continue
        left = len(tracer.traces) + len(getattr(tracer, "thrown_into", ()))
        names = [t.func.__name__ for t in logger.traces]
        if got != want:
            chk.fail("residue", dict(case, detail="the program computed something else under tracing", traced=got[:200], untraced=want[:200]))
        if left:
            chk.fail("residue", dict(case, detail="%d per-call entries left in the tracer after calls whose values could not be typed" % left,
                                     functions=[t.func.__name__ for t in tracer.traces.values()]))
        if names.count("ok") != 2 or names.count("run") != 1:
            chk.fail("count", dict(case, detail="the calls around the untypable ones were not logged once each", logged=names))
        chk.nontriv("untypable|%d" % k)


def twin_modules(chk, pd):
    """'attributed to the function whose code ran': the same source in two files (a vendored copy, a generated module)
    gives code objects that compare EQUAL; calls of either copy must be logged under that copy's function."""
    from monkeytype.tracing import CallTraceLogger, trace_calls

    class Collect(CallTraceLogger):
        def __init__(self):
            self.traces = []

        def log(self, trace):
            self.traces.append(trace)

    import os
    for rep in range(2 if chk.tier == "quick" else 40):
        names = ["c02twin_%d_%d_%s" % (chk.seed % 1000, rep, c) for c in "ab"]
        mods = []
        for n in names:
            os.makedirs(os.path.join(pd.dir, n + "_d"), exist_ok=True)
            mods.append(pd.load(n, TWIN_SRC))
        paths = {p for _, p in mods}
        calls = [(chk.rng.randrange(2), chk.rng.choice(["plain", "wrapped", "gen", "K.meth", "K.cmeth", "K.smeth"]), chk.rng.choice([1, "s", None, 2.5]))
                 for _ in range(chk.rng.randrange(4, 16))]
        logger = Collect()
        with trace_calls(logger, 0, code_filter=lambda code: code.co_filename in paths):
            for mi, q, v in calls:
                m = mods[mi][0]
                if q == "gen":
                    list(m.gen(v))
                elif q == "K.meth":
                    m.K().meth(v)
                elif q.startswith("K."):
                    getattr(m.K, q[2:])(v)
                else:
                    getattr(m, q)(v)
        chk.evaluations += 1
        want = []
        for mi, q, v in calls:
            if q == "wrapped":
                want.append((names[mi], "wrapped", type(v).__name__))      # (the wrapper itself is not resolvable: not logged)
            else:
                want.append((names[mi], q, type(v).__name__))
        got = [(t.func.__module__, t.func.__code__.co_qualname,
                None if t.func.__code__.co_qualname.endswith("wrapper") else getattr(t.arg_types.get("x"), "__name__", None)) for t in logger.traces]
        if got != want:
            i = next((j for j, (a, b) in enumerate(zip(got, want)) if a != b), min(len(got), len(want)))
            chk.fail("attributed-twin", {"modules": names, "calls": [[names[mi], q, repr(v)] for mi, q, v in calls], "index": i,
                                         "logged": got[i:i + 3], "completed": want[i:i + 3],
                                         "detail": "two modules with identical source: a call is attributed to the other module's function"})
        chk.nontriv("twin|%d" % rep)


def replay(path, args):
    data = json.load(open(path))
    print(json.dumps(data.get("case") or data.get("disagreements"), indent=1, default=str)[:3000])
    return 1
