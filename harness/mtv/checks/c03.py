"""C03 — tracing never changes what the traced program does."""
import contextlib
import io
import json
import sys

from .. import classes, envmodel, framework, leanio, programs, sexp, tracerun, tripwires, tyconv
from ..sexp import Q

RULE = ("workloads over a tripwire module (objects overriding __getattribute__ / __getattr__ / __class__, side-effecting descriptors and "
        "lazy properties, list/dict/set/tuple/defaultdict subclasses overriding __iter__/__len__/keys/items/values/__contains__, objects "
        "with journalling __hash__/__eq__/__bool__/__repr__/__len__, a metaclass with __instancecheck__/__subclasscheck__) used as "
        "arguments, returns, yields, inside containers, as dict keys, as module globals and as callable locals of outer frames (static "
        "method / nested function lookups) x max_typed_dict_size in {0, 3, 10} x logger faults {none, log raises on call 1 / 2 / every "
        "call, flush raises, both} x exit of the traced block by return and by exception x a pre-installed profiler. Each workload is run "
        "untraced and traced; journal of hook invocations, results, exceptions and stdout must be identical; profiler restored; exactly "
        "one flush. Non-trivial = a configuration with a fault or k>0; distinct = distinct (workload, k, fault, exit).")

WORKLOADS = [
    ("arg", "lambda m, i: m.passthrough(m.make(i))"),
    ("two_args", "lambda m, i: m.two(m.make(i), m.make(i + 1), m.make(i + 2), kw=m.make(i + 3))"),
    ("return", "lambda m, i: m.returns_tripwire(i)"),
    ("yield", "lambda m, i: list(m.yields_tripwires(4))"),
    ("containers", "lambda m, i: m.in_containers(i)"),
    ("dict_key", "lambda m, i: m.as_dict_key(i)"),
    ("only_keys", "lambda m, i: m.as_only_key(i)"),
    ("staticmethod", "lambda m, i: m.K.smeth(m.make(i))"),
    ("classmethod", "lambda m, i: m.K.cmeth(m.make(i))"),
    ("method", "lambda m, i: m.K().meth(m.make(i))"),
    ("property", "lambda m, i: m.K().prop"),
    ("outer_locals", "lambda m, i: m.via_outer_locals(i)"),
    ("raises", "lambda m, i: m.raises(i)"),
    ("prints", "lambda m, i: m.prints(i)"),
    ("eqmeta_bare", "lambda m, i: m.eqmeta_bare(i)"),
]
# workloads on which the unchanged tracer is known to differ (open findings), each with the one difference that is attributed
KF_WORKLOADS = [
    ("metaclass_hash", "lambda m, i: m.takes_class(i)", "KF-C03-metaclass-hash"),
    ("metaclass_eq_in_generic", "lambda m, i: m.eqmeta_in_container(i)", "KF-C03-metaclass-eq-in-generic"),
    ("locals_snapshot", "lambda m, i: m.locals_snapshot(i)", "KF-C03-locals-snapshot-refreshed"),
    ("finalizer_order", "lambda m, i: m.finalizer_order(i)", "KF-C03-function-cache-delays-finalizers"),
]


def known_difference(name, base, got):
    """the finding id if (base, got) differ in exactly the recorded way, else None"""
    same_rest = got["stdout"] == base["stdout"] and got["lazy"] == base["lazy"]
    if name == "metaclass_hash":
        extra = [j for j in got["journal"] if j not in base["journal"]]
        if same_rest and got["result"] == base["result"] and extra and set(extra) == {("HashMeta.__hash__",)}:
            return "KF-C03-metaclass-hash"
    if name == "metaclass_eq_in_generic":
        extra = [j for j in got["journal"] if j not in base["journal"]]
        if same_rest and got["result"] == base["result"] and extra and set(extra) == {("EqMeta.__eq__",)}:
            return "KF-C03-metaclass-eq-in-generic"
    if name == "locals_snapshot":
        if same_rest and got["journal"] == base["journal"] and base["result"] == ("ok", describe(2)) and got["result"] == ("ok", describe(1)):
            return "KF-C03-locals-snapshot-refreshed"
    if name == "finalizer_order":
        # the finalizer runs after the print, or only once the logged traces (which refer to the function) are dropped too
        if same_rest and got["result"] == base["result"] and base["journal"] == [("Fin.__del__",), ("after outer",)] and \
                got["journal"] in ([("after outer",), ("Fin.__del__",)], [("after outer",)]):
            return "KF-C03-function-cache-delays-finalizers"
    return None


FAULTS = [("none", (), False), ("log1", (1,), False), ("log2", (2,), False), ("log_all", tuple(range(1, 200)), False),
          ("flush", (), True), ("log1+flush", (1,), True)]


def describe(v, depth=0):
    """a comparison key for results that does not call user-defined code"""
    t = type(v)
    is_one_of = lambda ts: any(t is x for x in ts)      # by identity: `in` would run a metaclass __eq__
    if is_one_of((int, str, float, bool, type(None), bytes)):
        return repr(v)
    if depth > 4:
        return type.__getattribute__(t, "__name__")
    if is_one_of((list, tuple)):
        return (t.__name__, tuple(describe(x, depth + 1) for x in v))
    if t is dict:
        return ("dict", tuple((describe(k, depth + 1), describe(x, depth + 1)) for k, x in dict.items(v)))
    return t.__name__


def execute(mod, wl, i, traced, k, fault, tbl, rate=None, seed_first=None):
    """run one workload; returns the observable behaviour"""
    if seed_first is not None:
        # the program seeded the shared generator long before the tracing context is created, entered or left
        import random
        random.seed(seed_first)
    mod.JOURNAL.clear()
    mod.Lazy.resolved = 0
    out = io.StringIO()
    marker = lambda *a: None          # a pre-installed profiler
    earlier = lambda *a: None         # the profiler that is installed while the context manager is only being created
    logger = None
    cm = None
    if traced:
        # the context manager is created first and entered later, after the program has installed another profiler: the one
        # to put back is the one found at entry
        from monkeytype.tracing import trace_calls
        logger = tracerun.ListLogger(fail_log_at=fault[1], fail_flush=fault[2])
        admit = lambda code: code.co_filename == mod.__file__
        sys.setprofile(earlier if i % 2 else None)
        cm = trace_calls(logger, k, admit, rate)
    sys.setprofile(marker)
    try:
        f = eval(wl, {})
        with contextlib.redirect_stdout(out):
            res = ("nothing", "the block neither returned nor raised: the tracing context swallowed the program's exception")
            try:
                if traced:
                    with cm:
                        res = ("ok", describe(f(mod, i)))
                else:
                    res = ("ok", describe(f(mod, i)))
            except BaseException as e:
                res = ("exc", type(e).__name__, str(e)[:80])
        after = sys.getprofile()
    finally:
        sys.setprofile(None)
    if seed_first is not None:
        import random
        res = (res, "drawn after the context", random.random(), random.randrange(10 ** 6))
    return {"result": res, "stdout": out.getvalue(), "journal": list(mod.JOURNAL), "lazy": mod.Lazy.resolved,
            "profiler_restored": after is marker, "flushes": None if logger is None else logger.flushes,
            "log_attempts": None if logger is None else logger.logs}


def run(pid, tier, seed):
    chk = framework.Check(pid, tier, seed)
    chk.rule = RULE
    chk.assumptions = ["traced and untraced runs happen in one interpreter on freshly imported copies of the tripwire module (not separate processes)",
                       "results are compared through a description that itself calls no user-defined code"]
    chk.partial = ("'same results, exceptions and output with and without tracing' is observed on the tripwire workloads and the C02 programs; "
                   "Lean proves the two channels (operations applied to objects, exception propagation / profiler restore / flush count)")
    proof = framework.lean_check(pid)
    quick = tier == "quick"
    drv = leanio.LeanDriver()
    pd = programs.ProgramDir("mtv_c03_")
    tbl = classes.ClassTable()
    try:
        mod, _ = pd.load("c03trip_%d" % (seed % 1000), tripwires.SOURCE)
        reps = range(11 if quick else 80)   # 11 = one round through every tripwire kind of the module
        for name, wl, kf_id in [(n, w, None) for n, w in WORKLOADS] + KF_WORKLOADS:
            for i in (reps if kf_id is None else range(2)):
                base = execute(mod, wl, i, False, 0, FAULTS[0], tbl)
                for k in (0, 3, 10):
                    for fault in (FAULTS if (k == 0 or i == 0 or not quick) else FAULTS[:1]):
                        chk.evaluations += 1
                        got = execute(mod, wl, i, True, k, fault, tbl)
                        case = {"workload": name, "i": i, "k": k, "fault": fault[0]}
                        chk.count("workload." + name)
                        kf = known_difference(name, base, got) if kf_id else None
                        if got["journal"] != base["journal"] or got["lazy"] != base["lazy"]:
                            extra = [j for j in got["journal"] if j not in base["journal"]]
                            chk.fail("user-code-executed", dict(case, detail="the tracer invoked hooks of the program's objects (or changed their order)",
                                                                hooks=extra[:6], traced_journal=got["journal"][:8], untraced_journal=base["journal"][:8]),
                                     finding=kf)
                        if got["result"] != base["result"]:
                            chk.fail("result-changed", dict(case, traced=got["result"], untraced=base["result"]), finding=kf)
                        if got["stdout"] != base["stdout"]:
                            chk.fail("output-changed", dict(case, traced=got["stdout"], untraced=base["stdout"]))
                        if not got["profiler_restored"]:
                            chk.fail("profiler-not-restored", case)
                        if got["flushes"] != 1:
                            chk.fail("flush-count", dict(case, flushes=got["flushes"]))
                        if fault[0] != "none" or k > 0:
                            chk.nontriv("%s|%d|%d|%s" % (name, i, k, fault[0]))
                        body = "ok" if base["result"][0] == "ok" else "exc"
                        g = drv.ask(("traceCalls", body, "exc" if fault[2] else "ok"))
                        impl = ("true" if got["profiler_restored"] else "false", str(got["flushes"]),
                                "ok" if got["result"][0] == "ok" else "exc")
                        chk.rel("corr.C03.traceCalls", tuple(g) == impl, dict(case, impl=impl, model=sexp.dumps(g)))
        # the program's own state: a seeded use of the `random` module gives the same numbers with and without tracing, at
        # every sampling rate (the sampler must not draw from the program's generator)
        wl = "lambda m, i: m.uses_random(i)"
        for i in range(3 if quick else 40):
            base = execute(mod, wl, i, False, 0, FAULTS[0], tbl)
            for rate in (None, 1, 2, 3, 10, 100):
                chk.evaluations += 1
                got = execute(mod, wl, i, True, 0, FAULTS[0], tbl, rate)
                case = {"workload": "uses_random", "i": i, "sample_rate": rate}
                if got["result"] != base["result"]:
                    chk.fail("result-changed", dict(case, traced=got["result"], untraced=base["result"],
                                                    detail="random.seed(i) ... traced calls ... random.random(): the numbers differ under tracing"))
                chk.nontriv("uses_random|%d|%s" % (i, rate))
        # ... also when the program seeded the generator before the tracing context was even created (creating, entering and
        # leaving the context must not draw from it either), drawing inside the block and after it
        wl = "lambda m, i: m.draws_random(i)"
        for i in range(3 if quick else 40):
            base = execute(mod, wl, i, False, 0, FAULTS[0], tbl, None, seed_first=1000 + i)
            for rate in (None, 1, 2, 3, 10, 100):
                chk.evaluations += 1
                got = execute(mod, wl, i, True, 0, FAULTS[0], tbl, rate, seed_first=1000 + i)
                case = {"workload": "draws_random (seeded before the context)", "i": i, "sample_rate": rate}
                if got["result"] != base["result"]:
                    chk.fail("result-changed", dict(case, traced=got["result"], untraced=base["result"],
                                                    detail="random.seed(n); with trace(): calls, random.random(); random.random(): the numbers differ under tracing"))
                chk.nontriv("draws_random|%d|%s" % (i, rate))
        # the model's probe list contains no unsafe operation for any generated value (and the journal above was empty)
        from .. import values
        vgen = values.Gen(tbl, chk.rng)
        reqs = [("probes", vgen.value(3)) for _ in range(200 if quick else 30000)]

        def class_objects(d):
            if isinstance(d, str):
                return 0
            if d[0] == "classObj":
                return 1
            if d[0] in ("inst", "str"):
                return 0
            if d[0] in ("dict", "ddict"):
                return sum(class_objects(k) + class_objects(v) for k, v in d[1:])
            return sum(class_objects(x) for x in d[1:])
        for (_, d), g in zip(reqs, drv.ask_many(reqs)):
            # no unsafe probe; class objects are hashed (typing's cache) exactly where the value is a class object
            chk.rel("corr.C03.probes", g[1] == "0" and int(g[2]) == class_objects(d), {"model": sexp.dumps(g), "value": sexp.dumps(d)})
        chk.sample({"workloads": [w for w, _ in WORKLOADS], "faults": [f[0] for f in FAULTS]})
    finally:
        pd.close()
        drv.close()
    return chk.finish(proof, None)


def replay(path, args):
    data = json.load(open(path))
    print(json.dumps(data.get("case") or data.get("disagreements"), indent=1, default=str)[:3000])
    return 1
