"""C04 — inferred types admit every observed value, for every TypedDict size limit."""
import json
import time

from .. import framework, oracle, sexp, shrinker, tyconv
from . import infer_common as ic

RULE = ("cases = multisets of value-grammar descriptors: exhaustive small scope (all single values up to the stated size, "
        "all pairs of the smaller ones) + seeded random multisets (0..6 values, depth <= 3, same-shape mutations) + a dict-heavy "
        "stream (0..12 keys); each case is run for every k in {0,1,2,3,10,200}. A (case,k) is non-trivial when the inferred type "
        "is not a bare class/Any (it contains a container, union or TypedDict); distinct = distinct canonical (k, values) text.")


def direct(eng, chk, objs, ds, k, impl_t=None):
    """the property itself, evaluated on the implementation. Returns list of failed clauses."""
    bad = []
    try:
        t = impl_t if impl_t is not None else eng.impl_infer(objs, k)
    except Exception as e:
        return ["no-error: %r" % (e,)]
    for o, d in zip(objs, ds):
        try:
            if not oracle.conforms(o, t):
                bad.append("member: %s not admitted by %r" % (sexp.dumps(d), t))
                break
        except Exception as e:
            bad.append("oracle-error %r" % (e,))
    return bad


def perm_dup(eng, chk, objs, k, base_tree):
    try:
        return _perm_dup(eng, chk, objs, k, base_tree)
    except Exception as e:
        return ["no-error: a permutation / duplication of the values raised %r" % (e,)]


def _perm_dup(eng, chk, objs, k, base_tree):
    bad = []
    if len(objs) >= 2:
        idx = list(range(len(objs)))
        chk.rng.shuffle(idx)
        t2 = eng.impl_tree([objs[i] for i in idx], k)
        if t2 != base_tree:
            bad.append("order: permutation %s gives %s instead of %s" % (idx, sexp.dumps(t2), sexp.dumps(base_tree)))
        t3 = eng.impl_tree(list(reversed(objs)), k)
        if t3 != base_tree:
            bad.append("order: reversal gives %s instead of %s" % (sexp.dumps(t3), sexp.dumps(base_tree)))
    if objs:
        j = chk.rng.randrange(len(objs))
        dup = objs[:j + 1] + [objs[j]] + objs[j + 1:]
        # duplicate the *type* (same object observed twice) and an equal value observed twice
        t4 = eng.impl_tree(dup, k)
        if t4 != base_tree:
            bad.append("multiplicity: duplicating value %d gives %s instead of %s" % (j, sexp.dumps(t4), sexp.dumps(base_tree)))
    return bad


def run(pid, tier, seed):
    chk = framework.Check(pid, tier, seed)
    chk.rule = RULE
    chk.assumptions = ["values are built from grammar descriptors by harness/mtv/values.py; Val.wf (distinct str keys) holds by construction of Python dicts",
                       "order/multiplicity independence is checked on the implementation directly (canonical equality across permutations/duplications); the Lean theorems cover soundness, well-formedness and ==-soundness"]
    chk.partial = None      # soundness, totality and order / multiplicity independence are all theorems of Props/C04.lean
    proof = framework.lean_check(pid)
    eng = ic.Engine(chk)
    quick = tier == "quick"
    n_random = 500 if quick else 6000
    small = 3 if quick else 4
    pair_limit = 1500 if quick else 20000
    ks = ic.KS_ALL
    pending = []      # (k, ds, impl_tree, kind)
    state = {"realised": []}

    def flush():
        if not pending:
            return
        model = eng.model_trees([(k, ds) for k, ds, _, _ in pending])
        for (k, ds, it, kind), mt in zip(pending, model):
            chk.rel("corr.C04.infer", it == mt, {"k": k, "values": [sexp.dumps(d) for d in ds],
                                                 "impl": sexp.dumps(it), "model": sexp.dumps(mt)})
        pending.clear()

    for kind, descs in eng.cases(tier, n_random, small, pair_limit):
        r = eng.realise(descs)
        if r is None:
            continue
        objs, ds = r
        chk.count("case." + kind)
        chk.count("multiset_size.%d" % min(len(ds), 6))
        state["realised"].append((objs, ds))
        for k in ks:
            chk.evaluations += 1
            try:
                t = eng.impl_infer(objs, k)
                it = tyconv.canon(tyconv.ty_to_tree(t, eng.tbl))
            except Exception as e:
                chk.fail("no-error", dict(ic.case_json(k, ds), error=repr(e)))
                continue
            for b in direct(eng, chk, objs, ds, k, t):
                chk.fail(b.split(":")[0], dict(ic.case_json(k, ds), detail=b))
            if kind != "small1" or k in (0, 3):
                for b in perm_dup(eng, chk, objs, k, it):
                    chk.fail(b.split(":")[0], dict(ic.case_json(k, ds), detail=b))
            chk.count("shape." + ic.shape(it))
            chk.count("depth.%d" % min(ic.tree_depth(it), 5))
            if not (isinstance(it, str) or it[0] == "cls"):
                chk.nontriv("%d|%s" % (k, "|".join(sexp.dumps(d) for d in ds)))
            pending.append((k, ds, it, kind))
            if len(chk.samples) < 4 and kind == "random" and len(ds) >= 2 and k == 3:
                chk.sample(dict(ic.case_json(k, ds), inferred=sexp.dumps(it)))
        if len(pending) >= 600:
            flush()
    flush()
    chk.count("retries", eng.retries)

    # corr.oracle.conforms: the Python oracle and the Lean `conforms` agree (true and false answers)
    rs = state["realised"]
    reqs, expect = [], []
    for i in range(0, len(rs), max(1, len(rs) // (300 if quick else 3000))):
        objs, ds = rs[i]
        objs2, ds2 = rs[(i * 7 + 3) % len(rs)]
        if not objs:
            continue
        k = ks[i % len(ks)]
        try:
            t = eng.impl_infer(objs, k)
            tree = tyconv.ty_to_tree(t, eng.tbl)
        except Exception as e:
            chk.fail("raised", dict(ic.case_json(k, ds), error=repr(e)[:300]))
            continue
        for o, d in list(zip(objs, ds))[:2] + list(zip(objs2, ds2))[:3]:
            reqs.append(("conforms", tree, d))
            expect.append((oracle.conforms(o, t), sexp.dumps(tree), sexp.dumps(d)))
    got = eng.drv.ask_many(reqs)
    for g, (e, tt, dd) in zip(got, expect):
        chk.rel("corr.oracle.conforms", (g == "true") == e, {"type": tt, "value": dd, "python": e, "lean": g})
        chk.count("oracle.%s" % ("true" if e else "false"))

    # values that contain themselves (outside the model's value grammar, which is a grammar of trees): inference must still
    # terminate without error and admit the value (`conforms` follows the finite type, so it terminates on a cyclic value)
    import collections

    def cyclic_values():
        l = [1]; l.append(l)
        d = {"kids": [], "up": None}; c = {"kids": [], "up": d}; d["kids"].append(c)
        t = ([],); t[0].append(t)
        dd = collections.defaultdict(list); dd["x"].append(dd)
        m = {1: None}; m[1] = [m, "s"]
        root = []; child = [root]; root.append(child)
        holder = {"items": None, "n": 1}; inner = [holder]; holder["items"] = inner
        return [("list-in-itself", l), ("dict-tree-with-parent-links", d), ("tuple-list-cycle", t), ("defaultdict-cycle", dd),
                ("int-keyed-dict-cycle", m), ("two-cyclic-values", [l, d]), ("parent-child-lists", root), ("cycle-below-a-dict", holder)]
    # each alone, and merged with acyclic values of a similar shape (the cut-off of a cycle next to real element types)
    companions = [[1], [[1]], [[[1]]], [[[[1]]]], {"items": [{"items": [], "n": 2}], "n": 3}, {"kids": [], "up": None}, ([[2]],)]
    for name, v in cyclic_values():
        for k in (0, 3, 10):
            for comp in [None] + companions:
                chk.evaluations += 1
                chk.count("cyclic." + name)
                vs = [v] if comp is None else [v, comp]
                try:
                    t = eng.impl_infer(vs, k)
                    for x in vs:
                        if not oracle.conforms(x, t):
                            chk.fail("member", {"k": k, "cyclic_value": name, "merged_with": repr(comp), "type": repr(t)[:300],
                                                "detail": "the value%s is not a member of the inferred type" % ("" if x is v else " merged with it")})
                            break
                except BaseException as e:
                    chk.fail("terminates", {"k": k, "cyclic_value": name, "merged_with": repr(comp), "error": repr(e)[:200]})

    def search(broken):
        """intensified failing-input search after a broken obligation / correspondence"""
        t0 = time.time()
        seeds = [c for name, c in chk.disagreements if name == "corr.C04.infer" and c][:5]
        tried = 0
        for c in seeds:
            ds0 = [sexp.loads(s) for s in c["values"]]

            def disagrees(ds):
                r = eng.realise(ds)
                if r is None:
                    return False
                o, d2 = r
                try:
                    it = eng.impl_tree(o, c["k"])
                except Exception:
                    return True
                return it != eng.model_trees([(c["k"], d2)])[0]
            small_ds = shrinker.shrink_list(ds0, disagrees, 300)
            chk.notes.append("shrunk disagreement: k=%s values=%s" % (c["k"], [sexp.dumps(d) for d in small_ds]))
            subsets = [small_ds] + [small_ds[:i] + small_ds[i + 1:] for i in range(len(small_ds))] + [[d, d] for d in small_ds]
            for ds in subsets:
                r = eng.realise(ds)
                if r is None:
                    continue
                o, d2 = r
                for k in list(range(0, 13)) + [200]:
                    tried += 1
                    for b in direct(eng, chk, o, d2, k):
                        chk.fail(b.split(":")[0], dict(ic.case_json(k, d2), detail=b, found_by="intensified-search"))
                    try:
                        for b in perm_dup(eng, chk, o, k, eng.impl_tree(o, k)):
                            chk.fail(b.split(":")[0], dict(ic.case_json(k, d2), detail=b, found_by="intensified-search"))
                    except Exception:
                        pass
        while time.time() - t0 < 120 and not chk.failures and tried < 60000:
            ds = eng.gen.multiset(6, 4)
            r = eng.realise(ds)
            if r is None:
                continue
            o, d2 = r
            for k in ks:
                tried += 1
                for b in direct(eng, chk, o, d2, k):
                    chk.fail(b.split(":")[0], dict(ic.case_json(k, d2), detail=b, found_by="intensified-search"))
                try:
                    for b in perm_dup(eng, chk, o, k, eng.impl_tree(o, k)):
                        chk.fail(b.split(":")[0], dict(ic.case_json(k, d2), detail=b, found_by="intensified-search"))
                except Exception as e:
                    chk.fail("no-error", dict(ic.case_json(k, d2), error=repr(e)))
        chk.notes.append("intensified search tried %d (case,k) evaluations in %.0fs" % (tried, time.time() - t0))

    rc = chk.finish(proof, search)
    eng.close()
    return rc


def replay(path, args):
    framework.setup_repo_path()
    data = json.load(open(path))
    chk = framework.Check(data.get("property", "C04"), "quick", 0)
    eng = ic.Engine(chk)
    case = data.get("case") or (data.get("disagreements") or [[None, None]])[0][1]
    if not case:
        print("replay file names a broken obligation without a case:", data.get("obligations"))
        return 1
    ds = [sexp.loads(s) for s in case["values"]]
    objs, d2 = eng.realise(ds)
    k = case["k"]
    print("k =", k, "values =", [sexp.dumps(d) for d in d2])
    try:
        t = eng.impl_infer(objs, k)
        print("implementation:", t)
        print("model         :", sexp.dumps(eng.model_trees([(k, d2)])[0]))
        bad = direct(eng, chk, objs, d2, k, t) + perm_dup(eng, chk, objs, k, eng.impl_tree(objs, k))
    except Exception as e:
        bad = ["no-error: %r" % (e,)]
    print("failed clauses:", bad)
    eng.close()
    return 1 if bad else 0
