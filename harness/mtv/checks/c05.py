"""C05 — inferred types are tight: every alternative is witnessed by an observed value."""
import json
import time

from .. import framework, oracle, sexp, shrinker, tyconv
from . import infer_common as ic

RULE = ("same space as C04: exhaustive small scope + seeded random multisets + record streams (second-stage TypedDict merges, "
        "heterogeneous unions) x k in {0,1,2,3,10,200}; the witness oracle walks the inferred type in lock-step with the values. "
        "Non-trivial = the inferred type contains a union, a TypedDict or Any; distinct = distinct canonical (k, values) text.")


def direct(eng, objs, ds, k, t=None):
    t = t if t is not None else eng.impl_infer(objs, k)
    if not objs:
        return [] if t is __import__("typing").Any else ["empty: no values but inferred %r" % (t,)]
    try:
        ok = oracle.witnessed(False, objs, t)
    except Exception as e:
        return ["oracle-error: %r" % (e,)]
    return [] if ok else ["tight: %r has an alternative / Any / TypedDict key not witnessed by the observed values" % (t,)]


def interesting(tree):
    if isinstance(tree, str):
        return tree == "any"
    if tree[0] in ("union", "td"):
        return True
    if tree[0] in ("cls", "typeOf"):
        return False
    return any(interesting(a) for a in tree[1:])


def run(pid, tier, seed):
    chk = framework.Check(pid, tier, seed)
    chk.rule = RULE
    chk.partial = None      # the full witness statement is a theorem (MT.C05.inferWitnessed_holds)
    proof = framework.lean_check(pid)
    eng = ic.Engine(chk)
    quick = tier == "quick"
    pending = []

    def flush():
        if not pending:
            return
        model = eng.model_trees([(k, ds) for k, ds, _, _, _ in pending])
        wit = eng.drv.ask_many([("witnessed", raw) + tuple(ds) for _, ds, _, raw, _ in pending])
        for (k, ds, it, raw, pyw), mt, w in zip(pending, model, wit):
            cj = {"k": k, "values": [sexp.dumps(d) for d in ds], "impl": sexp.dumps(it), "model": sexp.dumps(mt)}
            chk.rel("corr.C05.infer", it == mt, cj)
            chk.rel("corr.oracle.witnessed", (w == "true") == pyw, dict(cj, lean=w, python=pyw))
        pending.clear()

    for kind, descs in eng.cases(tier, 400 if quick else 5000, 3 if quick else 4, 800 if quick else 10000,
                                 n_dicts=300 if quick else 4000, n_records=600 if quick else 8000):
        r = eng.realise(descs)
        if r is None:
            continue
        objs, ds = r
        chk.count("case." + kind)
        for k in ic.KS_ALL:
            chk.evaluations += 1
            try:
                t = eng.impl_infer(objs, k)
                raw = tyconv.ty_to_tree(t, eng.tbl)
                it = tyconv.canon(raw)
            except Exception as e:
                chk.fail("no-error", dict(ic.case_json(k, ds), error=repr(e)))
                continue
            bad = direct(eng, objs, ds, k, t)
            for b in bad:
                chk.fail(b.split(":")[0], dict(ic.case_json(k, ds), detail=b))
            chk.count("shape." + ic.shape(it))
            if interesting(it):
                chk.nontriv("%d|%s" % (k, "|".join(sexp.dumps(d) for d in ds)))
                if kind == "records" and k == 3:
                    chk.sample(dict(ic.case_json(k, ds), inferred=sexp.dumps(it)))
            if objs:
                pending.append((k, ds, it, raw, not bad))
        if len(pending) >= 600:
            flush()
    flush()

    # negative controls for the witness oracle pair: widened types must be rejected by both
    import typing
    neg = []
    for objs, ds in [eng.realise(eng.gen.record_multiset()) or ([], []) for _ in range(60 if quick else 600)]:
        if not objs:
            continue
        t = eng.impl_infer(objs, 3)
        for wide in (typing.Union[t, float], typing.List[t], typing.Optional[t]):
            try:
                raw = tyconv.ty_to_tree(wide, eng.tbl)
            except Exception:
                continue
            neg.append((("witnessed", raw) + tuple(ds), oracle.witnessed(False, objs, wide), sexp.dumps(raw)))
    got = eng.drv.ask_many([n[0] for n in neg])
    for g, (_, py, tt) in zip(got, neg):
        chk.rel("corr.oracle.witnessed", (g == "true") == py, {"type": tt, "lean": g, "python": py})
        chk.count("oracle.widened.%s" % py)

    def search(broken):
        t0 = time.time()
        tried = 0
        for c in [c for name, c in chk.disagreements if c and "values" in c][:5]:
            ds0 = [sexp.loads(s) for s in c["values"]]

            def disagrees(ds):
                r = eng.realise(ds)
                if r is None:
                    return False
                try:
                    return eng.impl_tree(r[0], c["k"]) != eng.model_trees([(c["k"], r[1])])[0]
                except Exception:
                    return True
            small_ds = shrinker.shrink_list(ds0, disagrees, 300)
            chk.notes.append("shrunk disagreement: k=%s values=%s" % (c["k"], [sexp.dumps(d) for d in small_ds]))
            r = eng.realise(small_ds)
            if r:
                for k in list(range(0, 13)) + [200]:
                    tried += 1
                    try:
                        for b in direct(eng, r[0], r[1], k):
                            chk.fail(b.split(":")[0], dict(ic.case_json(k, r[1]), detail=b, found_by="intensified-search"))
                    except Exception as e:
                        chk.fail("no-error", dict(ic.case_json(k, r[1]), error=repr(e)))
        while time.time() - t0 < 120 and not chk.failures and tried < 60000:
            ms = eng.gen.record_multiset() if chk.rng.random() < 0.6 else eng.gen.multiset(6, 4)
            r = eng.realise(ms)
            if r is None:
                continue
            for k in ic.KS_ALL:
                tried += 1
                try:
                    for b in direct(eng, r[0], r[1], k):
                        chk.fail(b.split(":")[0], dict(ic.case_json(k, r[1]), detail=b, found_by="intensified-search"))
                except Exception as e:
                    chk.fail("no-error", dict(ic.case_json(k, r[1]), error=repr(e)))
        chk.notes.append("intensified search tried %d evaluations in %.0fs" % (tried, time.time() - t0))

    # a container walk that fails (RecursionError on a list nested deeper than the interpreter's limit): either nothing is
    # inferred at all (the error propagates; the tracer logs nothing for that call) or what is inferred is tight - never a
    # bare `List[Any]` for a list that was not empty
    deep = [1]
    for _ in range(20000):
        deep = [deep]
    chk.evaluations += 1
    try:
        t = eng.get_type(deep, 0)
    except RecursionError:
        chk.count("deep.refused")
    except BaseException as e:
        chk.fail("deep-nesting", {"error": repr(e)[:200]})
    else:
        import typing
        v, depth = deep, 0
        while typing.get_origin(t) is list and type(v) is list and v:
            (t,), v, depth = t.__args__, v[0], depth + 1
        if t is typing.Any:
            chk.fail("any-only-for-empty", {"detail": "a list nested 20000 deep, none of them empty, was typed List[...List[Any]]: "
                                                      "Any %d levels down where no empty container was observed" % depth})
        chk.count("deep.typed")
    concurrent_typing(chk, eng)
    rc = chk.finish(proof, search)
    eng.close()
    return rc


def concurrent_typing(chk, eng):
    """two threads traced at the same time type values that share a container: what one thread is in the middle of walking is, to
    the other thread, an ordinary non-empty container - not `Any`.  The interleaving is forced: thread A is parked inside its
    walk of the shared list (in typing's hashing of a class-object element, through a metaclass __hash__) while thread B types
    the same list from start to end."""
    import threading
    inside, release = threading.Event(), threading.Event()

    class ParkingMeta(type):
        def __hash__(cls):
            if threading.current_thread().name == "mtv-parked" and not inside.is_set():
                inside.set()
                release.wait(20)
            return type.__hash__(cls)

        def __eq__(cls, other):
            return cls is other

    class Marker(metaclass=ParkingMeta):
        pass

    for k in (0, 3):
        inside.clear(); release.clear()
        shared = [1, 2, Marker, 3]
        outer_a, outer_b = {"cfg": shared, "n": 1}, (shared, "b")
        want_a, want_b = eng.get_type(outer_a, k), eng.get_type(outer_b, k)      # sequentially
        got = {}

        def run_a():
            try:
                got["a"] = eng.get_type(outer_a, k)
            except BaseException as e:
                got["a"] = e
            release.set()

        def run_b():
            inside.wait(20)
            try:
                got["b"] = eng.get_type(outer_b, k)
            except BaseException as e:
                got["b"] = e
            release.set()
        ta, tb = threading.Thread(target=run_a, name="mtv-parked"), threading.Thread(target=run_b, name="mtv-other")
        ta.start(); tb.start(); ta.join(60); tb.join(60)
        chk.evaluations += 1
        for who, want in (("a", want_a), ("b", want_b)):
            g = got.get(who)
            if g is None or isinstance(g, BaseException) or g != want:
                chk.fail("any-only-for-empty", {"k": k, "thread": who, "sequential": repr(want), "concurrent": repr(g),
                                                "detail": "a container another thread was in the middle of typing was not typed as it is typed alone"})
        chk.nontriv("concurrent|%d" % k)


def replay(path, args):
    data = json.load(open(path))
    chk = framework.Check("C05", "quick", 0)
    eng = ic.Engine(chk)
    case = data.get("case") or (data.get("disagreements") or [[None, None]])[0][1]
    if not case or "values" not in case:
        print("replay file names a broken obligation without a case:", data.get("obligations"))
        return 1
    ds = [sexp.loads(s) for s in case["values"]]
    objs, d2 = eng.realise(ds)
    k = case["k"]
    t = eng.impl_infer(objs, k)
    print("k =", k, "values =", [sexp.dumps(d) for d in d2])
    print("implementation:", t)
    print("model         :", sexp.dumps(eng.model_trees([(k, d2)])[0]))
    bad = direct(eng, objs, d2, k, t)
    print("failed clauses:", bad)
    eng.close()
    return 1 if bad else 0
