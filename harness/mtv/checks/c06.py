"""C06 — the TypedDict size limit is honoured end to end; zero disables TypedDicts."""
import json
import re
import time

from .. import framework, oracle, sexp, shrinker, tyconv
from ..tyconv import is_anon_td, td_fields
from . import infer_common as ic

KS = (0, 1, 2, 3, 10)
RULE = ("same generator as C04 (exhaustive small scope + seeded random multisets) plus a dict-heavy stream with 0..12 string / "
        "non-string / mixed keys nested in every container kind; every case is run for k in {0,1,2,3,10} through get_type, "
        "shrink_types, the JSON round trip and ReplaceTypedDictsWithStubs. Non-trivial = the case contains a dict value; "
        "distinct = distinct canonical (k, values) text.")


def td_nodes(t, out):
    if is_anon_td(t):
        req, opt = td_fields(t)
        out.append((len(req), len(opt)))
        for x in list(req.values()) + list(opt.values()):
            td_nodes(x, out)
        return
    for a in getattr(t, "__args__", None) or ():
        if a is not Ellipsis and a != ():
            td_nodes(a, out)


def has_dict(d):
    if isinstance(d, str) or d[0] in ("inst", "str", "classObj"):
        return False
    if d[0] in ("dict", "ddict"):
        return True
    return any(has_dict(e) for e in d[1:])


def may_be_td(d, k):
    """the property's own reading: ONLY an exact dict that is non-empty, has all-str keys and at most k of them becomes a TypedDict"""
    return (not isinstance(d, str)) and d[0] == "dict" and len(d) > 1 and len(d) - 1 <= k and all(
        (not isinstance(kv[0], str)) and kv[0][0] == "str" for kv in d[1:])


def expect_td(d, k):
    """what the code does (and the model's `getType`): such a dict does become one when its keys are identifiers, the only
    strings the class syntax of a generated TypedDict can express"""
    import keyword
    return may_be_td(d, k) and all(str(kv[0][1]).isidentifier() and not keyword.iskeyword(str(kv[0][1])) for kv in d[1:])


def stub_class_sizes(stubs):
    """ClassStub list of ReplaceTypedDictsWithStubs (emission order) -> [(class name, total number of keys incl. inherited)],
    one entry per generated TypedDict; a `...NonTotal` class subsumes the base emitted just before it.  Two classes may
    carry the same name (the C11 class-name-collision finding): they are counted separately here."""
    out = []            # [name, total, subsumed?]
    last = {}           # name -> index in out of the latest class with that name
    for s in stubs:
        m = re.match(r"^(\w+)\((\w+)(, total=False)?\)$", s.name)
        if not m:
            raise ValueError("unexpected class stub header %r" % s.name)
        name, base = m.group(1), m.group(2)
        own = len(list(s.attribute_stubs))
        if base != "TypedDict":
            if base not in last:
                raise ValueError("class stub %r before its base" % s.name)
            b = out[last[base]]
            b[2] = True
            own += b[1]
        last[name] = len(out)
        out.append([name, own, False])
    return [(n, v) for n, v, sub in out if not sub]


def _traced(a):
    return a


def limit_changed(eng, chk, objs, ds, k1, k2):
    """per-value types taken at limit k1 (what the store holds), merged by `shrink_traced_types` at limit k2 < k1: the result
    has no TypedDict with more than k2 keys (none at all at 0) at any depth, still admits every value, and is what the model's
    `shrink k2 (map (enforce k2))` gives"""
    from monkeytype.stubs import shrink_traced_types
    from monkeytype.tracing import CallTrace
    case = dict(ic.case_json(k1, ds), stub_limit=k2)
    try:
        stored = [eng.get_type(o, k1) for o in objs]
        raws = [tyconv.ty_to_tree(t, eng.tbl) for t in stored]
        out = shrink_traced_types([CallTrace(_traced, {"a": t}) for t in stored], k2)[0]["a"]
        out_c = tyconv.canon(tyconv.ty_to_tree(out, eng.tbl))
    except tyconv.Unrepresentable:
        return [], []
    except Exception as e:
        chk.fail("no-error", dict(case, error=repr(e)[:300]))
        return [], []
    chk.evaluations += 1
    nodes = []
    td_nodes(out, nodes)
    for r, o in nodes:
        if r + o > k2 or r + o == 0:
            chk.fail("size", dict(case, detail="size: TypedDict with %d keys in a stub type generated at limit %d from traces recorded at limit %d: %r"
                                  % (r + o, k2, k1, out)))
            break
    if k2 == 0 and nodes:
        chk.fail("zero", dict(case, detail="zero: TypedDict in a stub type generated at limit 0 from traces recorded at limit %d: %r" % (k1, out)))
    for o_, d in zip(objs, ds):
        try:
            if not oracle.conforms(o_, out):
                chk.fail("member", dict(case, detail="member: %s is not admitted by %r" % (sexp.dumps(d), out)))
                break
        except Exception:
            pass
    chk.count("limit_changed.k%d_to_k%d" % (k1, k2))
    return [("stubShrink", str(k2)) + tuple(raws)], [(case, out_c)]


def direct(eng, objs, ds, k, t=None):
    from monkeytype.encoding import type_from_json, type_to_json
    from monkeytype.stubs import ReplaceTypedDictsWithStubs
    bad = []
    t = t if t is not None else eng.impl_infer(objs, k)
    nodes = []
    td_nodes(t, nodes)
    for r, o in nodes:
        if r + o > k:
            bad.append("size: TypedDict with %d keys at limit %d in %r" % (r + o, k, t))
        if r + o == 0:
            bad.append("empty: empty TypedDict in %r" % (t,))
    if k == 0 and nodes:
        bad.append("zero: TypedDict present at limit 0 in %r" % (t,))
    for o, d in zip(objs, ds):
        st = eng.get_type(o, k)
        if is_anon_td(st) and not may_be_td(d, k):
            bad.append("which: get_type(%s,%d) is a TypedDict" % (sexp.dumps(d), k))
        if is_anon_td(st) != expect_td(d, k):
            eng.chk.rel("corr.C06.which", False, {"k": k, "value": sexp.dumps(d), "impl": is_anon_td(st), "expected": expect_td(d, k)})
        else:
            eng.chk.rel("corr.C06.which", True, {})
    # store round trip keeps the bound
    try:
        t2 = type_from_json(type_to_json(t))
        n2 = []
        td_nodes(t2, n2)
        if sorted(n2) != sorted((r + o, 0) if False else (r, o) for r, o in nodes):
            # decode reconstructs the required/optional split via nested TypedDicts; compare totals
            if sorted(a + b for a, b in n2) != sorted(a + b for a, b in nodes):
                bad.append("store: TypedDict sizes %s became %s after the JSON round trip" % (sorted(nodes), sorted(n2)))
    except Exception as e:
        bad.append("store: %r" % (e,))
    # stub classes
    try:
        _, stubs = ReplaceTypedDictsWithStubs.rewrite_and_get_stubs(t, class_name_hint="x")
        sizes = stub_class_sizes(stubs)
        if k == 0 and stubs:
            bad.append("stub-zero: class stubs emitted at limit 0")
        for n, v in sizes:
            if v > k or v == 0:
                bad.append("stub-size: class %s has %d keys at limit %d" % (n, v, k))
        if len(sizes) != len(nodes):
            bad.append("stub-count: %d TypedDict nodes but %d class stubs" % (len(nodes), len(sizes)))
    except Exception as e:
        bad.append("stub: %r" % (e,))
    return bad


def trace_stage(eng, objs, k):
    """the bound inside a recorded trace: the values as the successive yields of one generator call (`CallTrace.add_yield_type`),
    plain and wrapped in lists, then through `build_module_stubs_from_traces`"""
    from monkeytype.stubs import build_module_stubs_from_traces
    from monkeytype.tracing import CallTrace
    from .. import fixture_funcs
    bad = []
    for wrap in (False, True):
        tr = CallTrace(fixture_funcs.module_func, {})
        for o in objs:
            tr.add_yield_type(eng.get_type([o] if wrap else o, k))
        if tr.yield_type is None:
            continue
        nodes = []
        td_nodes(tr.yield_type, nodes)
        for r, o in nodes:
            if r + o > k or r + o == 0:
                bad.append("trace-size: yield type of one call has a TypedDict with %d keys at limit %d: %r" % (r + o, k, tr.yield_type))
        from monkeytype.typing import DEFAULT_REWRITER
        for rname, rw in (("no rewriter", None), ("default rewriter", DEFAULT_REWRITER)):
            try:
                stubs = build_module_stubs_from_traces([tr], k, rewriter=rw)
                for ms in stubs.values():
                    for n, v in stub_class_sizes(ms.typed_dict_class_stubs):
                        if v > k or v == 0:
                            bad.append("trace-stub-size: class %s has %d keys at limit %d (yields%s, %s)" % (n, v, k, " in lists" if wrap else "", rname))
            except Exception as e:
                bad.append("trace-stub: %r" % (e,))
    return bad


def run(pid, tier, seed):
    chk = framework.Check(pid, tier, seed)
    chk.rule = RULE
    chk.assumptions = ["the JSON round trip and ReplaceTypedDictsWithStubs clauses are evaluated on the real code; their Lean models arrive with C08/C11",
                       "the trace store itself (SQLite) is covered by C09; here the encoded text is round-tripped in memory"]
    chk.partial = "store round trip and stub-class clauses are observed on the implementation (direct oracle) on generated cases; inference clauses are theorems"
    proof = framework.lean_check(pid)
    eng = ic.Engine(chk)
    quick = tier == "quick"
    pending = []

    def flush():
        if not pending:
            return
        model = eng.model_trees([(k, ds) for k, ds, _, _ in pending])
        oks = eng.drv.ask_many([("tdOk", str(k), raw) for k, _, _, raw in pending])
        for (k, ds, it, raw), mt, ok in zip(pending, model, oks):
            cj = {"k": k, "values": [sexp.dumps(d) for d in ds], "impl": sexp.dumps(it), "model": sexp.dumps(mt)}
            chk.rel("corr.C06.infer", it == mt, cj)
            chk.rel("corr.C06.tdOk", ok == "true", dict(cj, lean_tdOk=ok))
        pending.clear()

    pend_limit = []
    for kind, descs in eng.cases(tier, 300 if quick else 4000, 3 if quick else 4, 400 if quick else 6000, n_dicts=900 if quick else 12000):
        r = eng.realise(descs)
        if r is None:
            continue
        objs, ds = r
        chk.count("case." + kind)
        nt = any(has_dict(d) for d in ds)
        for k in KS:
            chk.evaluations += 1
            try:
                t = eng.impl_infer(objs, k)
                raw = tyconv.ty_to_tree(t, eng.tbl)
                it = tyconv.canon(raw)
            except Exception as e:
                chk.fail("no-error", dict(ic.case_json(k, ds), error=repr(e)))
                continue
            for b in direct(eng, objs, ds, k, t):
                chk.fail(b.split(":")[0], dict(ic.case_json(k, ds), detail=b))
            if nt and len(objs) >= 2:
                for b in trace_stage(eng, objs, k):
                    chk.fail(b.split(":")[0], dict(ic.case_json(k, ds), detail=b))
            if nt and k in (3, 10):
                # traces recorded under limit k, the stub generated under a smaller one: `shrink_traced_types` at k2
                for k2 in ((0, 1, 2) if k == 3 else (0, 2, 3)):
                    lreqs, lmeta = limit_changed(eng, chk, objs, ds, k, k2)
                    pend_limit.extend(zip(lreqs, lmeta))
            nodes = []
            td_nodes(t, nodes)
            chk.count("k%d.td_nodes.%d" % (k, min(len(nodes), 3)))
            if nodes:
                chk.count("max_keys.%d" % max(a + b for a, b in nodes))
            if nt:
                chk.nontriv("%d|%s" % (k, "|".join(sexp.dumps(d) for d in ds)))
            pending.append((k, ds, it, raw))
            if kind == "dicts" and k == 3 and nodes:
                chk.sample(dict(ic.case_json(k, ds), inferred=sexp.dumps(it)))
        if len(pending) >= 600:
            flush()
    flush()

    for i in range(0, len(pend_limit), 1000):
        chunk = pend_limit[i:i + 1000]
        for g, (_, (case, impl)) in zip(eng.drv.ask_many([r for r, _ in chunk]), chunk):
            mc = tyconv.canon(g)
            chk.rel("corr.C06.stubShrink", mc == impl, dict(case, impl=sexp.dumps(impl), model=sexp.dumps(mc)))

    def search(broken):
        t0 = time.time()
        tried = 0
        seeds = [c for name, c in chk.disagreements if c][:5]
        for c in seeds:
            ds0 = [sexp.loads(s) for s in c["values"]]

            def disagrees(ds):
                r = eng.realise(ds)
                if r is None:
                    return False
                o, d2 = r
                try:
                    return eng.impl_tree(o, c["k"]) != eng.model_trees([(c["k"], d2)])[0]
                except Exception:
                    return True
            small_ds = shrinker.shrink_list(ds0, disagrees, 300)
            chk.notes.append("shrunk disagreement: k=%s values=%s" % (c["k"], [sexp.dumps(d) for d in small_ds]))
            r = eng.realise(small_ds)
            if r:
                for k in range(0, 14):
                    tried += 1
                    try:
                        for b in direct(eng, r[0], r[1], k):
                            chk.fail(b.split(":")[0], dict(ic.case_json(k, r[1]), detail=b, found_by="intensified-search"))
                    except Exception as e:
                        chk.fail("no-error", dict(ic.case_json(k, r[1]), error=repr(e)))
        while time.time() - t0 < 120 and not chk.failures and tried < 40000:
            n = chk.rng.randrange(0, 13)
            base = eng.gen.dict_value("dict", 3, nkeys=n)
            ms = [base] + [eng.gen.mutate(base, 3) for _ in range(chk.rng.randrange(0, 4))]
            r = eng.realise(ms if chk.rng.random() < 0.6 else [("list",) + tuple(ms)])
            if r is None:
                continue
            for k in range(0, 12):
                tried += 1
                try:
                    for b in direct(eng, r[0], r[1], k):
                        chk.fail(b.split(":")[0], dict(ic.case_json(k, r[1]), detail=b, found_by="intensified-search"))
                except Exception as e:
                    chk.fail("no-error", dict(ic.case_json(k, r[1]), error=repr(e)))
        chk.notes.append("intensified search tried %d evaluations in %.0fs" % (tried, time.time() - t0))

    rc = chk.finish(proof, search)
    eng.close()
    return rc


def replay(path, args):
    data = json.load(open(path))
    chk = framework.Check("C06", "quick", 0)
    eng = ic.Engine(chk)
    case = data.get("case") or (data.get("disagreements") or [[None, None]])[0][1]
    if not case:
        print("replay file names a broken obligation without a case:", data.get("obligations"))
        return 1
    ds = [sexp.loads(s) for s in case["values"]]
    objs, d2 = eng.realise(ds)
    k = case["k"]
    t = eng.impl_infer(objs, k)
    print("k =", k, "values =", [sexp.dumps(d) for d in d2])
    print("implementation:", t)
    print("model         :", sexp.dumps(eng.model_trees([(k, d2)])[0]))
    bad = direct(eng, objs, d2, k, t)
    print("failed clauses:", bad)
    eng.close()
    return 1 if bad else 0
