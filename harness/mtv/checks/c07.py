"""C07 — shipped rewriters never narrow, never crash, and fire only on their trigger."""
import itertools
import json
import time

from ..sexp import Q
from .. import classes, framework, leanio, oracle, sexp, tyconv, types_gen, values
from . import infer_common as ic

RULE = ("types = exhaustive small scope of the type grammar (all trees up to the stated size over int/None/two sibling classes/Any, "
        "every container kind, unions) + seeded random trees (unions of 2..8 members in five styles: classes, one-key dicts, "
        "one-element tuples, empties next to non-empties, mixed; depth <= 3) + every type inferred from generated value multisets "
        "together with those values. Each type is rewritten by the 7 base rewriters, the default chain and sampled ordered pairs. "
        "Non-trivial = the rewriter's output differs from its input; distinct = distinct (rewriter, canonical type) text.")

BASE = ["removeEmpty", "configDict", "largeUnion2", "largeUnion5", "mscb", "generator", "noop"]


def make_rewriters():
    from monkeytype.typing import (DEFAULT_REWRITER, ChainedRewriter, NoOpRewriter, RemoveEmptyContainers,
                                   RewriteConfigDict, RewriteGenerator, RewriteLargeUnion,
                                   RewriteMostSpecificCommonBase)
    mk = {
        "removeEmpty": (RemoveEmptyContainers, ["removeEmpty"]),
        "configDict": (RewriteConfigDict, ["configDict"]),
        "largeUnion2": (lambda: RewriteLargeUnion(2), [("largeUnion", "2")]),
        "largeUnion5": (lambda: RewriteLargeUnion(5), [("largeUnion", "5")]),
        "mscb": (RewriteMostSpecificCommonBase, ["mscb"]),
        "generator": (RewriteGenerator, ["generator"]),
        "noop": (NoOpRewriter, []),
    }
    out = {n: (f(), tuple(m)) for n, (f, m) in mk.items()}
    out["default"] = (DEFAULT_REWRITER, ("removeEmpty", "configDict", ("largeUnion", "5"), "generator"))
    for a, b in itertools.product(BASE, BASE):
        out[a + "+" + b] = (ChainedRewriter([mk[a][0](), mk[b][0]()]), tuple(mk[a][1] + mk[b][1]))
    return out


def trig_name(n):
    return {"largeUnion2": ("largeUnion", "2"), "largeUnion5": ("largeUnion", "5")}.get(n, n)


def triggered(name, raw):
    if name == "noop":
        return False
    if name == "default":
        return any(types_gen.trigger(r, raw) for r in ("removeEmpty", "configDict", ("largeUnion", "5"), "generator"))
    if "+" in name:
        return True   # the first rewriter may create the second one's trigger; pairs are only checked for crash/narrowing
    return types_gen.trigger(trig_name(name), raw)


def run(pid, tier, seed):
    chk = framework.Check(pid, tier, seed)
    chk.rule = RULE
    chk.assumptions = ["RemoveEmptyContainers is judged under the tight reading of Any (an inferred C[Any] stands for the empty C): "
                       "witness values are tight inhabitants of the input type, and must be admitted by the output under the usual reading",
                       "class table (MRO, direct bases) is computed by CPython and passed to the model as data"]
    proof = framework.lean_check(pid)
    quick = tier == "quick"
    tbl = classes.ClassTable()
    gen = types_gen.TypeGen(tbl, chk.rng)
    vgen = values.Gen(tbl, chk.rng)
    builder = values.Builder(tbl)
    drv = leanio.LeanDriver()
    from monkeytype.typing import get_type, shrink_types
    rws = make_rewriters()
    pair_names = [n for n in rws if "+" in n]

    # ---- inputs: (raw tree, python type, witness objects, origin)
    inputs = []

    def add(tree, origin, wit_descs=None):
        try:
            py = tyconv.tree_to_ty(tree, tbl)
            raw = tyconv.ty_to_tree(py, tbl)
        except Exception as e:
            chk.count("unbuildable")
            return
        wd = wit_descs if wit_descs is not None else types_gen.witnesses(raw, tbl)
        objs = []
        for d in wd:
            try:
                o, _ = builder.build(d)
            except values.Retry:
                continue
            try:
                if oracle.conforms(o, py):
                    objs.append((o, d))
                else:
                    chk.count("witness_rejected_by_input")
            except Exception:
                pass
        inputs.append((raw, py, objs, origin))

    small = types_gen.small_types(tbl, 4 if quick else 5)
    for t in small:
        add(t, "small")
    chk.extra["small_scope"] = {"max_size": 4 if quick else 5, "types": len(small)}
    for _ in range(700 if quick else 8000):
        add(gen.ty(3), "random")
    # unions of many tuples, each homogeneous in itself (what RewriteLargeUnion turns into Tuple[X, ...] when — and only when —
    # they all agree on X): agreeing and disagreeing families, of 3..8 members
    atoms = [("cls", str(tbl.of(c))) for c in (int, str, float, bytes, type(None))]
    for _ in range(60 if quick else 1500):
        n = chk.rng.choice([3, 5, 6, 6, 7, 8])
        agree = chk.rng.random() < 0.4
        x0 = chk.rng.choice(atoms)
        members = []
        while len(members) < n:
            x = x0 if agree else chk.rng.choice(atoms[:3])
            m = ("tuple",) + (x,) * chk.rng.randrange(1, 5)
            if m not in members:
                members.append(m)
            elif len(members) >= 3 and chk.rng.random() < 0.3:
                break
        if chk.rng.random() < 0.2:
            members.append(chk.rng.choice(atoms))          # a non-tuple member: no Tuple[X, ...]
        tree = ("union",) + tuple(members)
        add(tree if chk.rng.random() < 0.7 else ("list", tree), "tuple-family")
    eng_k = (0, 3)
    for _ in range(250 if quick else 3000):
        ds = vgen.record_multiset() if chk.rng.random() < 0.4 else vgen.multiset()
        try:
            built = [builder.build(d) for d in ds]
        except values.Retry:
            continue
        objs = [b[0] for b in built]
        k = chk.rng.choice(eng_k)
        try:
            t = shrink_types([get_type(o, k) for o in objs], k)
        except Exception as e:
            # shrink_types runs a rewriter itself (TypedDicts -> Dict in the mixed branch): a crash there is a rewriter crash
            chk.fail("crash-in-inference", {"k": k, "values": [sexp.dumps(b[1]) for b in built], "error": repr(e)[:300]})
            continue
        try:
            raw = tyconv.ty_to_tree(t, tbl)
        except tyconv.Unrepresentable:
            continue
        inputs.append((raw, t, [(o, d) for o, d in zip(objs, [b[1] for b in built])], "inferred"))
        if k and len(objs) > 1:
            # what one generator call's successive yields give (`CallTrace.add_yield_type`): the plain Union of the value
            # types, TypedDicts not merged — the only way a union of TypedDicts reaches a rewriter
            import typing
            tys = [get_type(o, k) for o in objs[:4]]
            # Python's Union keeps structurally equal TypedDict classes apart (their hash is id-based), the model's union has
            # no notion of object identity: the union as the tracer builds it is judged by the direct oracle only
            # ("yield-union-raw"); with `==` duplicates removed it is also compared with the model ("yield-union")
            dedup = []
            for t in tys:
                if not any(t == u for u in dedup):
                    dedup.append(t)
            wit = [(o, d) for o, d in zip(objs[:4], [b[1] for b in built[:4]])]
            for members, origin in ((dedup, "yield-union"), (tys, "yield-union-raw")):
                if origin == "yield-union-raw" and len(dedup) == len(tys):
                    continue
                try:
                    u = typing.Union[tuple(members)]
                    uraw = tyconv.ty_to_tree(u, tbl)
                except (tyconv.Unrepresentable, TypeError):
                    continue
                inputs.append((uraw, u, wit, origin))
    # values that contain themselves (oracle only: the model's values are trees): the type get_type gives them, through every
    # rewriter, must still admit them
    import collections as _c

    def cyclic_values():
        l = [1]; l.append(l)
        d = {}; d[1] = d; d[2] = {3: 4}
        e = {"a": None, "b": {"x": 1}}; e["a"] = e
        t = ([],); t[0].append(t); t[0].append([2])
        s_ = _c.defaultdict(list); s_["x"].append(s_); s_["y"].append(1)
        return [("list-in-itself", l), ("dict-with-itself-and-a-dict", d), ("str-keyed-dict-with-itself", e), ("tuple-list-cycle", t),
                ("defaultdict-cycle", s_)]
    for cname, v in cyclic_values():
        for k in (0, 3):
            try:
                ct = get_type(v, k)
                craw = tyconv.ty_to_tree(ct, tbl)
            except Exception as e:
                chk.fail("crash-in-inference", {"cyclic_value": cname, "k": k, "error": repr(e)[:200]})
                continue
            inputs.append((craw, ct, [(v, Q("<" + cname + ">"))], "yield-union-raw"))
            chk.count("input.cyclic")
    drv.ask(tbl.hier())
    hier_ok = drv.ask(("hierOk",))
    chk.extra["class_table_hypotheses_hold"] = hier_ok
    if hier_ok != "true":
        chk.rel("corr.C07.hier", False, {"detail": "reflexivity/transitivity/base hypotheses fail on the fixture class table"})
    # the formal trigger / normal-form predicates agree with the property's reading on every input
    treqs, tmeta = [], []
    for raw, py, objs, origin in inputs:
        if origin == "yield-union-raw":
            continue
        if origin != "yield-union":      # (a plain Union of per-value types is not what shrink_types builds: not a normal form)
            treqs.append(("normal", raw))
            tmeta.append(("normal", raw, True))
        for name in BASE:
            if name == "noop":
                continue
            treqs.append(("trig", rws[name][1][0], raw))
            tmeta.append((name, raw, types_gen.trigger(trig_name(name), raw)))
    for g, (name, raw, expect) in zip(drv.ask_many(treqs), tmeta):
        chk.rel("corr.C07.trigger" if name != "normal" else "corr.C07.normal", (g == "true") == expect,
                {"what": name, "type": sexp.dumps(raw), "lean": g, "python": expect})

    reqs, meta = [], []
    hung = set()
    for raw, py, objs, origin in inputs:
        chk.count("input." + origin)
        names = BASE + ["default"] + (pair_names if not quick else chk.rng.sample(pair_names, 5))
        for name in names:
            if name in hung:
                continue
            rw, model_chain = rws[name]
            chk.evaluations += 1
            case = {"rewriter": name, "type": sexp.dumps(raw)}
            try:
                with framework.time_limit(20):
                    out = rw.rewrite(py)
                out_raw = tyconv.ty_to_tree(out, tbl)
                out_c = tyconv.canon(out_raw)
            except framework.DidNotTerminate as e:
                chk.fail("no-crash", dict(case, error=repr(e), detail="rewriting does not complete (no result after 20 s)"))
                hung.add(name)          # one failing input per rewriter is enough; the check itself must complete
                continue
            except tyconv.Unrepresentable as e:
                chk.count("unrepresentable_output")
                continue
            except Exception as e:
                chk.fail("no-crash", dict(case, error=repr(e)))
                if origin != "yield-union-raw":
                    reqs.append(("rewrite", model_chain, raw))
                    meta.append((case, ("raise", type(e).__name__)))
                continue
            in_c = tyconv.canon(raw)
            changed = out_c != in_c
            chk.count("changed.%s" % (name if "+" not in name else "pair") if changed else "unchanged")
            if changed:
                chk.nontriv(name + "|" + sexp.dumps(in_c))
                if "+" not in name and len(chk.samples) < 6 and origin != "small":
                    chk.sample(dict(case, result=sexp.dumps(out_c)))
            # never narrows: every (tight) inhabitant of the input is admitted by the output
            for o, d in objs:
                try:
                    if not oracle.conforms(o, out):
                        chk.fail("narrowed", dict(case, result=sexp.dumps(out_c), witness=sexp.dumps(d)))
                        break
                except Exception as e:
                    chk.fail("oracle-error", dict(case, error=repr(e)))
            # fires only on its trigger
            if changed and not triggered(name, raw):
                chk.fail("trigger", dict(case, result=sexp.dumps(out_c), detail="changed without its documented trigger"))
            if origin != "yield-union-raw":
                reqs.append(("rewrite", model_chain, raw))
                meta.append((case, out_c))
    for i in range(0, len(reqs), 2000):
        got = drv.ask_many(reqs[i:i + 2000])
        for g, (case, expect) in zip(got, meta[i:i + 2000]):
            mc = tyconv.canon(g)
            chk.rel("corr.C07." + ("pair" if "+" in case["rewriter"] else case["rewriter"]), mc == expect,
                    dict(case, impl=sexp.dumps(expect), model=sexp.dumps(mc)))

    def search(broken):
        t0 = time.time()
        n = 0
        # re-run the direct oracle on a larger random budget, all pairs
        while time.time() - t0 < 120 and not chk.failures:
            t = gen.ty(3)
            try:
                py = tyconv.tree_to_ty(t, tbl)
                raw = tyconv.ty_to_tree(py, tbl)
            except Exception:
                continue
            objs = []
            for d in types_gen.witnesses(raw, tbl):
                try:
                    o, _ = builder.build(d)
                    if oracle.conforms(o, py):
                        objs.append((o, d))
                except Exception:
                    pass
            for name, (rw, _) in rws.items():
                n += 1
                case = {"rewriter": name, "type": sexp.dumps(raw), "found_by": "intensified-search"}
                try:
                    with framework.time_limit(20):
                        out = rw.rewrite(py)
                    out_c = tyconv.canon(tyconv.ty_to_tree(out, tbl))
                except framework.DidNotTerminate as e:
                    chk.fail("no-crash", dict(case, error=repr(e), detail="rewriting does not complete"))
                    continue
                except tyconv.Unrepresentable:
                    continue
                except Exception as e:
                    chk.fail("no-crash", dict(case, error=repr(e)))
                    continue
                for o, d in objs:
                    if not oracle.conforms(o, out):
                        chk.fail("narrowed", dict(case, result=sexp.dumps(out_c), witness=sexp.dumps(d)))
                        break
                if out_c != tyconv.canon(raw) and not triggered(name, raw):
                    chk.fail("trigger", dict(case, result=sexp.dumps(out_c)))
        chk.notes.append("intensified search: %d rewrites in %.0fs" % (n, time.time() - t0))

    rc = chk.finish(proof, search)
    drv.close()
    return rc


def replay(path, args):
    data = json.load(open(path))
    case = data.get("case") or (data.get("disagreements") or [[None, None]])[0][1]
    if not case:
        print("replay file names a broken obligation without a case:", data.get("obligations"))
        return 1
    tbl = classes.ClassTable()
    vgen = values.Gen(tbl, __import__("random").Random(0))  # registers fixture classes in the same order
    types_gen.TypeGen(tbl, None)
    rws = make_rewriters()
    raw = sexp.loads(case["type"])
    py = tyconv.tree_to_ty(raw, tbl)
    rw, chain = rws[case["rewriter"]]
    print("rewriter:", case["rewriter"], "input:", py)
    try:
        out = rw.rewrite(py)
        print("implementation:", out)
    except Exception as e:
        print("implementation raised:", repr(e))
        return 1
    drv = leanio.LeanDriver()
    drv.ask(tbl.hier())
    print("model:", sexp.dumps(drv.ask(("rewrite", chain, raw))))
    bad = 0
    if "witness" in case:
        o, _ = values.Builder(tbl).build(sexp.loads(case["witness"]))
        ok = oracle.conforms(o, out)
        print("witness", case["witness"], "admitted by output:", ok)
        bad += not ok
    if tyconv.canon(tyconv.ty_to_tree(out, tbl)) != tyconv.canon(raw) and not triggered(case["rewriter"], raw):
        print("changed without trigger")
        bad += 1
    return 1 if bad else 0
