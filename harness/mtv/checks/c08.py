"""C08 — types and call traces survive serialisation unchanged."""
import json
import time

from .. import classes, envmodel, framework, leanio, oracle, sexp, tyconv, types_gen, values
from .. import fixture_funcs as ff
from ..sexp import Q

RULE = ("types = every type inferred from generated value multisets (k in {0,1,2,3,10,200}) + their rewritten forms (each shipped "
        "rewriter and the default chain) + seeded random trees of the type grammar (incl. Tuple[()], Tuple[T, ...], Type[C], Callable, "
        "Iterator, Generator, nested and optional-key TypedDicts) ; traces = every function kind of the fixture package x argument "
        "types from those x return/yield each absent / NoneType / a type; plus a corrupted-JSON stream (missing module, missing "
        "attribute, name bound to a non-type) compared for the error class only. Non-trivial = a type with at least one container "
        "or a trace with at least one argument; distinct = distinct canonical text.")

FM = "mtv.fixture_funcs"


def setup(rng):
    tbl = classes.ClassTable()
    values.Gen(tbl, rng)          # registers the fixture classes
    ft = envmodel.FuncTable()
    funcs = [f for _, f in ff.TRACEABLE]
    extra = [(FM, q) for q in ff.NOT_FUNCTIONS + ff.MISSING + [q for q, _ in ff.TRACEABLE]]
    names, env = envmodel.names_and_env(tbl, ft, funcs, extra)
    return tbl, ft, names, env


def corrupt(rng, tree):
    """replace the (module, qualname) of one random name node of a JSON tree by something stale"""
    nodes = []

    def walk(t, path):
        if isinstance(t, tuple) and t and t[0] == "obj":
            keys = [str(k) for k, _ in t[1:]]
            if "module" in keys and "qualname" in keys and "is_typed_dict" not in keys:
                nodes.append(path)
            for i, (k, v) in enumerate(t[1:]):
                walk(v, path + (i + 1, 1))
        elif isinstance(t, tuple) and t and t[0] == "arr":
            for i, v in enumerate(t[1:]):
                walk(v, path + (i + 1,))
    walk(tree, ())
    if not nodes:
        return None
    path = rng.choice(nodes)
    kind = rng.choice(["nomodule", "nomodule_deep", "nosubpkg", "nosubpkg_deep", "noattr", "noattr_nested", "nontype", "function"])
    repl = {"nomodule": ("mtv_no_such_module_xyz", "Foo"), "noattr": ("mtv.fixture_classes", "NoSuchClass"),
            "nomodule_deep": ("mtv_no_such_vendor.api.models", "Foo"), "nosubpkg": ("mtv.gone", "Foo"),
            "nosubpkg_deep": ("mtv.gone.reports.models", "Foo"), "noattr_nested": ("mtv.fixture_classes", "Outer.Nope.Deeper"),
            "nontype": (FM, "not_a_function"), "function": (FM, "module_func")}[kind]

    def rebuild(t, path):
        if not path:
            out = []
            for k, v in t[1:]:
                if str(k) == "module":
                    v = ("s", Q(repl[0]))
                elif str(k) == "qualname":
                    v = ("s", Q(repl[1]))
                out.append((k, v))
            return ("obj",) + tuple(out)
        i = path[0]
        items = list(t)
        if t[0] == "obj":
            k, v = items[i]
            items[i] = (k, rebuild(v, path[2:]))
        else:
            items[i] = rebuild(items[i], path[1:])
        return tuple(items)
    return kind, rebuild(tree, path)


def errname(e):
    from monkeytype.exceptions import InvalidTypeError, NameLookupError
    if isinstance(e, NameLookupError):
        return "NameLookupError"
    if isinstance(e, InvalidTypeError):
        return "InvalidTypeError"
    return "Malformed"


def run(pid, tier, seed):
    chk = framework.Check(pid, tier, seed)
    chk.rule = RULE
    chk.assumptions = ["the import system is abstracted as a lookup table (module, qualname) -> object kind built by the harness from the live fixture package",
                       "JSON text is compared after json.loads (object member order = the sorted order json.dumps wrote)"]
    proof = framework.lean_check(pid)
    quick = tier == "quick"
    from monkeytype.encoding import CallTraceRow, type_from_dict, type_from_json, type_to_json
    from monkeytype.tracing import CallTrace
    from .. import fixture_classes as fx
    from monkeytype.typing import get_type, shrink_types
    from .c07 import make_rewriters, BASE
    tbl, ft, names, env = setup(chk.rng)
    drv = leanio.LeanDriver()
    drv.ask(tbl.hier())
    vgen = values.Gen(tbl, chk.rng)
    builder = values.Builder(tbl)
    tgen = types_gen.TypeGen(tbl, chk.rng)
    rws = make_rewriters()

    types = []   # (py, raw, origin)

    def add(py, origin):
        try:
            raw = tyconv.ty_to_tree(py, tbl)
        except tyconv.Unrepresentable:
            chk.count("unrepresentable")
            return
        types.append((py, raw, origin))

    for _ in range(220 if quick else 3000):
        ds = vgen.record_multiset() if chk.rng.random() < 0.4 else vgen.multiset()
        try:
            objs = [builder.build(d)[0] for d in ds]
        except values.Retry:
            continue
        k = chk.rng.choice((0, 1, 2, 3, 10, 200))
        t = shrink_types([get_type(o, k) for o in objs], k)
        add(t, "inferred")
        name = chk.rng.choice(BASE + ["default"])
        try:
            add(rws[name][0].rewrite(t), "rewritten")
        except Exception:
            pass
    for _ in range(250 if quick else 3000):
        try:
            add(tyconv.tree_to_ty(tgen.ty(3), tbl), "random")
        except Exception:
            pass
    for t in [("tuple",), ("tupleOf", ("cls", "11")), ("list", ("tuple",)), ("union", ("tuple",), ("cls", "9")),
              ("dict", ("cls", "0"), ("tuple",)), ("tuple", ("tuple",), ("cls", "11")), ("ddict", ("cls", "0"), ("tuple",)),
              ("td", ((Q("a"), ("list", ("tuple",))),), ((Q("b"), ("tupleOf", ("union", ("cls", "0"), ("cls", "9")))),)),
              ("td", (), ((Q("z"), ("cls", "11")), (Q("a"), ("td", ((Q("q"), "any"),), ())))),
              ("typeOf", str(tbl.of(values.fx.Outer.Inner))), ("cls", str(tbl.of(values.fx.Outer.Inner)))]:
        add(tyconv.tree_to_ty(t, tbl), "corpus")
    # class names / env must be sent after every class has been registered
    names, env = envmodel.names_and_env(tbl, ft, [f for _, f in ff.TRACEABLE],
                                        [(FM, q) for q in ff.NOT_FUNCTIONS + ff.MISSING])
    drv.ask(tbl.hier())
    drv.ask(names)
    drv.ask(env)

    # ---- types
    enc = drv.ask_many([("encode", raw) for _, raw, _ in types])
    dec_reqs, dec_meta = [], []
    for (py, raw, origin), mj in zip(types, enc):
        chk.evaluations += 1
        chk.count("type." + origin)
        case = {"type": sexp.dumps(raw), "origin": origin}
        try:
            text = type_to_json(py)
            ij = envmodel.json_to_tree(json.loads(text))
        except Exception as e:
            chk.fail("encode-error", dict(case, error=repr(e)))
            chk.rel("corr.C08.encode", False, dict(case, impl="raise " + repr(e), model=sexp.dumps(mj)))
            continue
        chk.rel("corr.C08.encode", ij == envmodel.jcanon(mj), dict(case, impl=sexp.dumps(ij), model=sexp.dumps(envmodel.jcanon(mj))))
        try:
            back = type_from_json(text)
        except Exception as e:
            chk.fail("roundtrip-error", dict(case, error=repr(e)))
            back = None
            bt = ("raise", errname(e))
        if back is not None:
            try:
                bt = tyconv.canon(tyconv.ty_to_tree(back, tbl))
            except tyconv.Unrepresentable as e:
                bt = ("unrepresentable", Q(repr(back)))
        if bt != tyconv.canon(raw):
            chk.fail("roundtrip", dict(case, json=text, came_back=sexp.dumps(bt)))
        elif back is not None:
            # encoding is a function of the structure: the decoded type is structurally identical, so it encodes to the same JSON
            # (up to the order of union members: typing's caches may hand back an equal `Union` whose members were given in
            # another order - `List[Union[int, str]]` and `List[Union[str, int]]` are one cached object)
            def unordered(j):
                if isinstance(j, dict):
                    j = {k: unordered(v) for k, v in j.items()}
                    if j.get("qualname") == "Union" and j.get("module") == "typing" and isinstance(j.get("elem_types"), list):
                        j["elem_types"] = sorted(j["elem_types"], key=lambda x: json.dumps(x, sort_keys=True))
                    return j
                if isinstance(j, list):
                    return [unordered(x) for x in j]
                return j
            try:
                again = envmodel.json_to_tree(unordered(json.loads(type_to_json(back))))
                if again != envmodel.json_to_tree(unordered(json.loads(text))):
                    chk.fail("structure-only", dict(case, detail="encode(decode(encode(t))) differs from encode(t)", first=sexp.dumps(ij), again=sexp.dumps(again)))
            except Exception as e:
                chk.fail("structure-only", dict(case, error=repr(e)[:200]))
        if not isinstance(raw, str) and raw[0] not in ("cls",):
            chk.nontriv(sexp.dumps(tyconv.canon(raw)))
        if origin == "inferred":
            chk.sample(dict(case, json=text), 3)
        dec_reqs.append(("decode", ij))
        dec_meta.append((case, ("ok", bt)))
        # structure only: a structurally identical, separately built object encodes identically
        try:
            twin = tyconv.tree_to_ty(reverse_fields(raw), tbl)
            if type_to_json(twin) != text and tyconv.canon(tyconv.ty_to_tree(twin, tbl)) == tyconv.canon(raw) \
                    and tyconv.ty_to_tree(twin, tbl) == reverse_fields(raw) and not has_union(raw):
                chk.fail("structure-only", dict(case, json=text, twin_json=type_to_json(twin)))
        except Exception:
            pass
        # corrupted stream
        c = corrupt(chk.rng, ij)
        if c is not None:
            kind, cj = c
            try:
                r = type_from_dict(envmodel.tree_to_json(cj))
                res = ("ok", tyconv.canon(tyconv.ty_to_tree(r, tbl)))
            except tyconv.Unrepresentable:
                continue
            except Exception as e:
                res = ("err", errname(e))
            chk.count("corrupt." + kind + "." + (res[1] if res[0] == "err" else "ok"))
            dec_reqs.append(("decode", cj))
            dec_meta.append((dict(case, corrupted=kind, json=sexp.dumps(cj)), res))
    for g, (case, expect) in zip(drv.ask_many(dec_reqs), dec_meta):
        got = ("ok", tyconv.canon(g[1])) if g[0] == "ok" else ("err", g[1])
        chk.rel("corr.C08.decode", got == expect, dict(case, impl=sexp.dumps(expect), model=sexp.dumps(got)))

    # ---- traces
    none_t = type(None)
    pool = [t for t in types if t[2] in ("inferred", "corpus")] or types
    treqs, tmeta = [], []
    for qual, func in ff.TRACEABLE:
        for _ in range(6 if quick else 60):
            nargs = chk.rng.choice([0, 1, 2, 3])
            args = {("p%d" % i if chk.rng.random() < 0.8 else chk.rng.choice(["self", "zeta", "alpha"])): chk.rng.choice(pool)
                    for i in range(nargs)}
            # "falsy": a class whose class object is falsy (metaclass with __len__ == 0) as the whole return / yield type
            rsel = chk.rng.choice(["absent", "none", "type", "type", "falsy"])
            ysel = chk.rng.choice(["absent", "absent", "none", "type", "falsy"])
            falsy_t = (fx.Falsy, ("cls", str(tbl.of(fx.Falsy))))
            pick = lambda sel: None if sel == "absent" else ((none_t, ("cls", "9")) if sel == "none" else
                                                             falsy_t if sel == "falsy" else chk.rng.choice(pool)[:2])
            ret, yld = pick(rsel), pick(ysel)
            trace = CallTrace(func, {n: t[0] for n, t in args.items()}, ret[0] if ret else None, yld[0] if yld else None)
            mtrace = ("trace", str(ft.of(func)), tuple((Q(n), t[1]) for n, t in args.items()),
                      ret[1] if ret else "none", yld[1] if yld else "none")
            chk.evaluations += 1
            chk.count("trace.%s.ret_%s.yield_%s" % (qual.split(".")[-1], rsel, ysel))
            case = {"function": qual, "trace": sexp.dumps(mtrace)}
            try:
                row = CallTraceRow.from_trace(trace)
                irow = ("row", Q(row.module), Q(row.qualname), envmodel.json_to_tree(json.loads(row.arg_types)),
                        "NULL" if row.return_type is None else envmodel.json_to_tree(json.loads(row.return_type)),
                        "NULL" if row.yield_type is None else envmodel.json_to_tree(json.loads(row.yield_type)))
                back = row.to_trace()
            except Exception as e:
                chk.fail("trace-roundtrip-error", dict(case, error=repr(e)))
                continue
            try:
                for t_ in list(back.arg_types.values()) + [x for x in (back.return_type, back.yield_type) if x is not None]:
                    tyconv.ty_to_tree(t_, tbl)
            except tyconv.Unrepresentable as e:
                chk.fail("trace-roundtrip", dict(case, detail="a type came back as %s" % (e,)))
                continue
            bad = []
            if back.func is not func:
                bad.append("function: got %r" % (back.func,))
            if set(back.arg_types) != set(trace.arg_types) or any(
                    tyconv.canon(tyconv.ty_to_tree(back.arg_types[n], tbl)) != tyconv.canon(args[n][1]) for n in args):
                bad.append("arg types differ")
            for nm, a, b in (("return", back.return_type, ret), ("yield", back.yield_type, yld)):
                if (a is None) != (b is None):
                    bad.append("%s: absent/present confused (%r)" % (nm, a))
                elif a is not None and tyconv.canon(tyconv.ty_to_tree(a, tbl)) != tyconv.canon(b[1]):
                    bad.append("%s type differs" % nm)
            for b in bad:
                chk.fail("trace-roundtrip", dict(case, detail=b))
            if nargs:
                chk.nontriv(sexp.dumps(mtrace))
            treqs.append(("rowOfTrace", mtrace))
            tmeta.append(("corr.C08.rowOfTrace", case, irow))
            btrace = ("ok", ("trace", str(ft.of(back.func)), tuple(sorted((Q(n), tyconv.canon(tyconv.ty_to_tree(t, tbl)))
                                                                         for n, t in back.arg_types.items())),
                             "none" if back.return_type is None else tyconv.canon(tyconv.ty_to_tree(back.return_type, tbl)),
                             "none" if back.yield_type is None else tyconv.canon(tyconv.ty_to_tree(back.yield_type, tbl))))
            treqs.append(("traceOfRow", irow))
            tmeta.append(("corr.C08.traceOfRow", case, btrace))
    # rows naming things that are not (or no longer) functions
    empty_args = ("obj",)
    for q in ff.NOT_FUNCTIONS + ff.MISSING:
        row = CallTraceRow(FM, q, "{}", None, None)
        try:
            row.to_trace()
            res = ("ok",)
        except Exception as e:
            res = ("err", errname(e))
        treqs.append(("traceOfRow", ("row", Q(FM), Q(q), empty_args, "NULL", "NULL")))
        tmeta.append(("corr.C08.traceOfRow", {"function": q, "stale": True}, res))
        chk.count("stale.%s" % (res[1] if len(res) > 1 else "ok"))
    for g, (rel, case, expect) in zip(drv.ask_many(treqs), tmeta):
        if rel == "corr.C08.traceOfRow" and g[0] == "ok":
            tr = g[1]
            g = ("ok", ("trace", tr[1], tuple(sorted((k, tyconv.canon(v)) for k, v in tr[2])),
                        tr[3] if tr[3] == "none" else tyconv.canon(tr[3]), tr[4] if tr[4] == "none" else tyconv.canon(tr[4])))
        if rel == "corr.C08.rowOfTrace":
            g = envmodel.jcanon(g)
        if rel == "corr.C08.traceOfRow" and expect[0] == "ok" and len(expect) == 1:
            agree = g[0] == "ok"
        else:
            agree = g == expect
        chk.rel(rel, agree, dict(case, impl=sexp.dumps(expect), model=sexp.dumps(g)))

    rc = chk.finish(proof, None)
    drv.close()
    return rc


def reverse_fields(t):
    if isinstance(t, str) or t[0] in ("cls", "typeOf"):
        return t
    if t[0] == "td":
        return ("td", tuple(reversed([(k, reverse_fields(v)) for k, v in t[1]])),
                tuple(reversed([(k, reverse_fields(v)) for k, v in t[2]])))
    return (t[0],) + tuple(reverse_fields(a) for a in t[1:])


def has_union(t):
    if isinstance(t, str) or t[0] in ("cls", "typeOf"):
        return False
    if t[0] == "union":
        return True
    if t[0] == "td":
        return any(has_union(v) for _, v in t[1] + t[2])
    return any(has_union(a) for a in t[1:])


def replay(path, args):
    data = json.load(open(path))
    case = data.get("case") or (data.get("disagreements") or [[None, None]])[0][1]
    print(json.dumps(case, indent=1))
    if not case or "type" not in case:
        return 1
    import random
    from monkeytype.encoding import type_from_json, type_to_json
    tbl, ft, names, env = setup(random.Random(0))
    raw = sexp.loads(case["type"])
    py = tyconv.tree_to_ty(raw, tbl)
    text = type_to_json(py)
    print("json:", text)
    try:
        back = type_from_json(text)
        print("came back:", back)
        ok = tyconv.canon(tyconv.ty_to_tree(back, tbl)) == tyconv.canon(raw)
    except Exception as e:
        print("decode raised", repr(e))
        ok = False
    return 0 if ok else 1
