"""C09 — the trace store returns exactly what was added: deduplicated, filtered, bounded."""
import itertools
import json
import os
import shutil
import sqlite3
import subprocess
import sys
import tempfile
import time

from .. import framework, leanio, sexp
from ..sexp import Q

RULE = ("histories = operation sequences add(batch) / interrupted add (SQLite progress-handler abort after n VM steps, every n up to "
        "the batch's step count) / reopen, issued through several connections to one database file, over modules {m, M, m2, ''} and "
        "qualnames {my_func, myXfunc, MY_FUNC, Foo.bar, foo, a%b, aXb, a_b}; exhaustive to the stated length over a reduced alphabet, "
        "seeded random to length 40; batches contain unserialisable traces at every position. After every step a panel of queries "
        "(filter with each prefix incl. wildcard characters and case variants, limits 0/1/2/1000, list_modules) is compared with the "
        "Lean state machine and with an independent Python set oracle. Plus writer processes adding concurrently to one file and "
        "writers SIGKILLed inside the insert at chosen VM steps (integrity_check, all-or-nothing, earlier batches intact). "
        "Non-trivial = a query on a non-empty store; distinct = distinct (history prefix, query).")

MODULES = ["m", "M", "m2", ""]
QUALS = ["my_func", "myXfunc", "MY_FUNC", "Foo.bar", "foo", "a%b", "aXb", "a_b", "a*b", "a?b", "get[int]"]
PREFIXES = [None, "", "my_func", "my_", "MY", "foo", "Foo", "Foo.", "a%", "a_", "a%b", "aX", "%", "_", "my_funcX",
            "my?func", "my*", "a?b", "a*", "get[", "[a-z]", "*", "?"]      # GLOB / regexp metacharacters are literal too
LIMITS = [0, 1, 2, 1000]
UNSER = "UNSERIALISABLE"


def mkfunc(module, qualname):
    def f():
        pass
    f.__module__ = module
    f.__qualname__ = qualname
    return f


class Real:
    def __init__(self, nconn):
        from monkeytype.db.sqlite import SQLiteStore
        self.S = SQLiteStore
        self.dir = tempfile.mkdtemp(prefix="mtv_c09_")
        self.path = os.path.join(self.dir, "t.sqlite3")
        self.stores = [self.S.make_store(self.path) for _ in range(nconn)]

    def trace(self, spec):
        from monkeytype.tracing import CallTrace
        if spec == UNSER:
            return CallTrace(mkfunc("m", "bad"), {"a": object()}, None)   # an instance is not a type: serialisation fails
        m, q, av, ret, *rest = spec
        yld = (None, int, str)[rest[0]] if rest else None      # rows that differ in the yield type only are distinct rows
        return CallTrace(mkfunc(m, q), {"a": int} if av else {}, int if ret else None, yld)

    def row(self, spec):
        from monkeytype.encoding import CallTraceRow
        if spec == UNSER:
            return None
        r = CallTraceRow.from_trace(self.trace(spec))
        return (r.module, r.qualname, r.arg_types, r.return_type, r.yield_type)

    def add(self, c, batch):
        self.stores[c].add([self.trace(s) for s in batch])

    def add_interrupted(self, c, batch, n):
        """abort after n progress callbacks; returns True if the write really was interrupted"""
        steps = [0]

        def handler():
            # one-shot abort: the (n+1)-th VM step of the write is interrupted; the rollback that follows is not
            steps[0] += 1
            return 1 if steps[0] == n + 1 else 0
        conn = self.stores[c].conn
        conn.set_progress_handler(handler, 1)
        try:
            self.stores[c].add([self.trace(s) for s in batch])
            return False
        except sqlite3.OperationalError:
            return True
        finally:
            conn.set_progress_handler(None, 1)

    def filter(self, c, m, p, n):
        return [(r.module, r.qualname, r.arg_types, r.return_type, r.yield_type) for r in self.stores[c].filter(m, p, n)]

    def modules(self, c):
        return list(self.stores[c].list_modules())

    def reopen(self, c):
        self.stores[c].conn.close()
        self.stores[c] = self.S.make_store(self.path)

    def raw_count(self):
        conn = sqlite3.connect(self.path)
        try:
            return conn.execute("select count(*) from monkeytype_call_traces").fetchone()[0], \
                conn.execute("pragma integrity_check").fetchone()[0]
        finally:
            conn.close()

    def close(self):
        for s in self.stores:
            try:
                s.conn.close()
            except Exception:
                pass
        shutil.rmtree(self.dir, ignore_errors=True)


def mrow(r):
    if r is None:
        return "none"
    return ("r", Q(r[0]), Q(r[1]), Q(r[2]), "NULL" if r[3] is None else Q(r[3]), "NULL" if r[4] is None else Q(r[4]))


def from_mrow(t):
    return (str(t[1]), str(t[2]), str(t[3]), None if t[4] == "NULL" else str(t[4]), None if t[5] == "NULL" else str(t[5]))


def run_history(chk, drv, hist, nconn, queries_after_each=True, tag="random"):
    """hist: list of ops ('add', conn, batch) / ('addInt', conn, batch, n) / ('reopen', conn)"""
    real = Real(nconn)
    committed = []        # python set oracle: list of row tuples, in commit order
    mops = []             # model ops so far
    reqs, meta = [], []
    try:
        for step, op in enumerate(hist):
            case = {"history": [repr(o) for o in hist[:step + 1]]}
            try:
                if op[0] == "add":
                    real.add(op[1], op[2])
                    rows = [real.row(s) for s in op[2]]
                    committed += [r for r in rows if r is not None]
                    mops.append(("add",) + tuple(mrow(r) for r in rows))
                elif op[0] == "addInt":
                    before = real.raw_count()[0]
                    interrupted = real.add_interrupted(op[1], op[2], op[3])
                    rows = [real.row(s) for s in op[2]]
                    after, integ = real.raw_count()
                    nser = len([r for r in rows if r is not None])
                    chk.count("interrupted.%s" % interrupted)
                    if interrupted and after - before == nser and nser > 0:
                        # the abort arrived when the COMMIT had already taken effect: add() raised, the whole batch is there.
                        # "All of its serialisable traces or none" holds; the model is told which of the two happened.
                        chk.count("interrupted.after_commit")
                        committed += [r for r in rows if r is not None]
                        mops.append(("add",) + tuple(mrow(r) for r in rows))
                    elif interrupted:
                        if after != before:
                            chk.fail("atomic", dict(case, detail="interrupted batch left %d of %d rows" % (after - before, nser)))
                        mops.append(("addInt", str(op[3])) + tuple(mrow(r) for r in rows))
                    else:
                        committed += [r for r in rows if r is not None]
                        mops.append(("add",) + tuple(mrow(r) for r in rows))
                    if integ != "ok":
                        chk.fail("integrity", dict(case, detail=integ))
                elif op[0] == "reopen":
                    real.reopen(op[1])
                    mops.append("reopen")
            except Exception as e:
                chk.fail("op-error", dict(case, error=repr(e)))
                break
            if not queries_after_each and step != len(hist) - 1:
                continue
            # query panel on a rotating connection
            c = step % nconn
            panel = []
            mods = sorted({r[0] for r in committed}) or ["m"]
            for m in (mods + ["nomod"])[:4]:
                for p in (PREFIXES if step == len(hist) - 1 or tag != "random" else chk.rng.sample(PREFIXES, 4)):
                    for n in (LIMITS if step == len(hist) - 1 else [1000, 1]):
                        panel.append((m, p, n))
            for m, p, n in panel:
                chk.evaluations += 1
                q = {"module": m, "prefix": p, "limit": n}
                try:
                    got = real.filter(c, m, p, n)
                except Exception as e:
                    chk.fail("filter-error", dict(case, query=q, error=repr(e)))
                    continue
                want = {r for r in committed if r[0] == m and (p is None or r[1].startswith(p))}
                d = len(want)
                bad = None
                if len(got) != min(n, d):
                    bad = "returned %d rows, expected min(%d, %d)" % (len(got), n, d)
                elif len(set(got)) != len(got):
                    bad = "duplicate rows returned"
                elif not set(got) <= want:
                    bad = "returned a row that was not committed or does not match: %r" % (sorted(set(got) - want, key=repr)[:2],)
                if bad:
                    chk.fail("filter", dict(case, query=q, detail=bad, got=got[:6]))
                if committed:
                    chk.nontriv("%s|%r" % (";".join(repr(o) for o in hist[:step + 1]), (m, p, n)))
                reqs.append(("store", tuple(mops), ("filter", Q(m), "none" if p is None else Q(p), str(n))))
                meta.append(("filter", case, q, got))
            chk.evaluations += 1
            try:
                gm = real.modules(c)
                wantm = {r[0] for r in committed if r[0]}
                if set(gm) != wantm or len(gm) != len(set(gm)):
                    chk.fail("list-modules", dict(case, got=gm, expected=sorted(wantm)))
                reqs.append(("store", tuple(mops), ("modules",)))
                meta.append(("modules", case, None, gm))
            except Exception as e:
                chk.fail("list-modules-error", dict(case, error=repr(e)))
    finally:
        real.close()
    for g, (kind, case, q, got) in zip(drv.ask_many(reqs), meta):
        if kind == "modules":
            chk.rel("corr.C09.listModules", sorted(str(x) for x in g) == sorted(got), dict(case, impl=got, model=sexp.dumps(g)))
        else:
            d, limited, full = int(g[0]), [from_mrow(t) for t in g[1]], {from_mrow(t) for t in g[2]}
            agree = len(got) == len(limited) and set(got) <= full and (d > q["limit"] or set(got) == set(limited))
            chk.rel("corr.C09.filter", agree, dict(case, query=q, impl=got[:6], model=sexp.dumps(g)[:400]))


def small_histories(max_len):
    A, B, C = ("m", "my_func", 1, 1), ("m", "myXfunc", 0, 0), ("M", "MY_FUNC", 1, 0)
    D, E = A + (1,), A + (2,)      # the same call signature as A with yield types int / str: three distinct rows
    ops = [("add", 0, [A]), ("add", 1, [B, UNSER, A, D]), ("add", 0, [C, B, E]), ("addInt", 1, [A, B, C], 3), ("reopen", 0),
           ("add", 1, [UNSER])]
    for n in range(1, max_len + 1):
        for seq in itertools.product(ops, repeat=n):
            yield list(seq)


def random_history(rng, maxlen, nconn):
    hist = []
    for _ in range(rng.randrange(1, maxlen + 1)):
        r = rng.random()
        c = rng.randrange(nconn)
        mk = lambda: UNSER if rng.random() < 0.12 else (rng.choice(MODULES[:3]) if rng.random() < 0.93 else "",
                                                        rng.choice(QUALS), rng.randrange(2), rng.randrange(2), rng.choice([0, 0, 1, 2]))
        batch = [mk() for _ in range(rng.choice([1, 1, 2, 3, 5, 8]))]
        if r < 0.6:
            hist.append(("add", c, batch))
        elif r < 0.85:
            hist.append(("addInt", c, batch, rng.choice([0, 1, 2, 3, 5, 8, 13, 21, 34, 60, 100, 200])))
        else:
            hist.append(("reopen", c))
    return hist


def processes(chk, quick):
    """writer processes on one file: concurrent adds, and writers SIGKILLed inside the insert"""
    writer = os.path.join(os.path.dirname(os.path.dirname(os.path.abspath(__file__))), "c09_writer.py")
    d = tempfile.mkdtemp(prefix="mtv_c09p_")
    try:
        for nproc in ([2, 4] if quick else [2, 4, 8, 16]):
            db = os.path.join(d, "conc%d.sqlite3" % nproc)
            nb, bs = (4, 6) if quick else (12, 10)
            ps = [subprocess.Popen([sys.executable, writer, framework.REPO, db, str(i), str(nb), str(bs)],
                                   stdout=subprocess.PIPE, text=True) for i in range(nproc)]
            outs = [p.communicate(timeout=300)[0] for p in ps]
            chk.evaluations += 1
            conn = sqlite3.connect(db)
            for i, out in enumerate(outs):
                ok = [int(l.split()[1]) for l in out.splitlines() if l.startswith("committed")]
                failed = [l for l in out.splitlines() if l.startswith("failed")]
                chk.count("proc.batches_committed", len(ok))
                chk.count("proc.batches_failed", len(failed))
                for b in range(nb):
                    n = conn.execute("select count(*) from monkeytype_call_traces where module=? and qualname like ?",
                                     ("w%d" % i, "b%d.%%" % b)).fetchone()[0]
                    expect = bs if b in ok else 0
                    if n != expect:
                        chk.fail("concurrent-atomic", {"writers": nproc, "writer": i, "batch": b, "rows": n, "expected": expect})
            integ = conn.execute("pragma integrity_check").fetchone()[0]
            conn.close()
            if integ != "ok":
                chk.fail("integrity", {"writers": nproc, "detail": integ})
            chk.nontriv("proc|%d" % nproc)
        for after in ([0, 3, 10, 40, 150] if quick else [0, 1, 2, 3, 5, 8, 13, 21, 34, 55, 89, 144, 233, 377]):
            db = os.path.join(d, "kill%d.sqlite3" % after)
            p = subprocess.run([sys.executable, writer, framework.REPO, db, "k", "3", "8", "1", str(after)],
                               stdout=subprocess.PIPE, text=True, timeout=120)
            chk.evaluations += 1
            chk.count("kill.rc%s" % p.returncode)
            conn = sqlite3.connect(db)
            counts = [conn.execute("select count(*) from monkeytype_call_traces where qualname like ?", ("b%d.%%" % b,)).fetchone()[0]
                      for b in range(3)]
            integ = conn.execute("pragma integrity_check").fetchone()[0]
            conn.close()
            killed = p.returncode != 0
            case = {"kill_after_vm_steps": after, "rows_per_batch": counts, "returncode": p.returncode}
            if counts[0] != 8:
                chk.fail("durable", dict(case, detail="the batch committed before the kill is incomplete"))
            if killed and counts[1] not in (0, 8):
                chk.fail("kill-atomic", dict(case, detail="killed batch partially visible"))
            if integ != "ok":
                chk.fail("integrity", dict(case, detail=integ))
            chk.nontriv("kill|%d" % after)
    finally:
        shutil.rmtree(d, ignore_errors=True)


def run(pid, tier, seed):
    chk = framework.Check(pid, tier, seed)
    chk.rule = RULE
    chk.assumptions = ["one add = one atomic step in the model: SQLite's transaction semantics (rollback on interrupt/kill, serialisation of "
                       "concurrent writers) are assumed by the theorems and exercised on the real engine at the enumerated interruption points",
                       "which rows a LIMIT keeps when more match is unspecified by the query (date ties); compared as subset + count"]
    chk.partial = "crash/concurrency clauses are observed on the real SQLite engine, not proved (the model assumes transactional add)"
    proof = framework.lean_check(pid)
    quick = tier == "quick"
    drv = leanio.LeanDriver()
    n = 0
    for hist in small_histories(2 if quick else 3):
        run_history(chk, drv, hist, 2, queries_after_each=False, tag="small")
        n += 1
    chk.extra["small_scope"] = {"max_len": 2 if quick else 3, "histories": n}
    for i in range(25 if quick else 400):
        run_history(chk, drv, random_history(chk.rng, 12 if quick else 40, 3), 3)
    # every interruption point of one batch
    A, B, C = ("m", "my_func", 1, 1), ("m", "myXfunc", 0, 0), ("M", "MY_FUNC", 1, 0)
    for nsteps in range(0, 40 if quick else 200):
        run_history(chk, drv, [("add", 0, [A]), ("addInt", 1, [B, UNSER, C, A, ("m2", "foo", 1, 1)], nsteps), ("reopen", 0)], 2,
                    queries_after_each=False, tag="small")
    processes(chk, quick)
    chk.sample({"history": ["('add', 0, [A])", "('addInt', 1, [B, UNSER, C, A], 7)", "('reopen', 0)"],
                "query": {"module": "m", "prefix": "my_", "limit": 1000}})
    rc = chk.finish(proof, None)
    drv.close()
    return rc


def replay(path, args):
    data = json.load(open(path))
    case = data.get("case") or (data.get("disagreements") or [[None, None]])[0][1]
    print(json.dumps(case, indent=1, default=str))
    if not case or "history" not in case:
        return 1
    chk = framework.Check("C09", "quick", 0)
    drv = leanio.LeanDriver()
    hist = [eval(o, {"UNSER": UNSER}) for o in case["history"]]
    run_history(chk, drv, hist, 3)
    drv.close()
    print("failures:", chk.failures[:3])
    return 1 if chk.failures else 0
