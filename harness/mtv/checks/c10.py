"""C10 — stale or undecodable stored traces are skipped, never fatal."""
import importlib
import io
import itertools
import json
import os
import re
import shutil
import sqlite3
import sys
import tempfile
import time

from .. import classes, envmodel, framework, leanio, sexp
from ..sexp import Q

RULE = ("stores = rows of a fixture package written to a temporary directory, inserted directly into a SQLite file: 5 kinds of valid "
        "rows (incl. parameter names that no longer exist) interleaved at every position with 12 kinds of stale row (module / "
        "submodule / package two levels up removed, function removed / now a non-function / a class / a settable property / "
        "defined in a local scope, argument / return / yield class removed, class name bound to a non-type): every single stale "
        "kind at every position among valid rows, all-stale stores, and seeded random subsets and orders; each store is run through "
        "`stub` (with and without -v) and a sample through `apply`. Non-trivial = the store contains at least one stale row; "
        "distinct = distinct row sequence x flags.")

CORE = '''
class Arg:
    pass


class Other:
    pass


NOT_A_TYPE = 5
NOT_FUNC = 7


def keep(a, b=None):
    return a


def keep2(x):
    return x


class K:
    def meth(self, x):
        return x

    @property
    def settable(self):
        return 1

    @settable.setter
    def settable(self, v):
        pass


def _nowraps(f):
    def wrapper(*a, **k):
        return f(*a, **k)
    return wrapper


class Shop:
    # traced as `Shop.create` / `Shop.size` before the edit: the names are still a classmethod and a read-only property, but of
    # other functions now (a decorator without functools.wraps under @classmethod; `size = property(_count)`)
    @classmethod
    @_nowraps
    def create(cls, a):
        return cls()

    def _count(self):
        return 1

    size = property(_count)


@_nowraps
def rewrapped(a):
    # traced as `rewrapped` before it was decorated: the name is bound to `_nowraps.<locals>.wrapper` now
    return a


def outer():
    def inner(z):
        return z
    return inner


# names that used to be functions of this module and are builtins now (one without an introspectable signature, one with)
from builtins import getattr    # noqa: E402,F401
from builtins import len        # noqa: E402,F401
'''

CFG = '''
import os
from monkeytype.config import DefaultConfig
from monkeytype.db.sqlite import SQLiteStore


class Cfg(DefaultConfig):
    def trace_store(self):
        return SQLiteStore.make_store(os.environ["C10_DB"])


CONFIG = Cfg()
'''


def J(module, qualname, elems=None):
    d = {"module": module, "qualname": qualname}
    if elems is not None:
        d["elem_types"] = elems
    return d


INT, STR, NONE = J("builtins", "int"), J("builtins", "str"), J("builtins", "NoneType")


def rows_for(pkg):
    core = pkg + ".core"
    arg, k = J(core, "Arg"), J(core, "K")
    lst = J("typing", "List", [INT])
    good = {
        "g_keep_int": (core, "keep", {"a": INT}, INT, None),
        "g_keep_arg": (core, "keep", {"a": arg, "b": NONE}, arg, None),
        "g_keep2": (core, "keep2", {"x": lst}, lst, None),
        "g_meth": (core, "K.meth", {"self": k, "x": STR}, STR, None),
        "g_param_gone": (core, "keep", {"a": STR, "zzz_removed_param": INT}, STR, None),
    }
    stale = {
        "s_func_removed": (core, "removed_func", {"a": INT}, INT, None),
        "s_func_now_value": (core, "NOT_FUNC", {"a": INT}, None, None),
        "s_func_now_class": (core, "K", {"a": INT}, None, None),
        "s_func_now_settable_property": (core, "K.settable", {"self": k}, INT, None),
        "s_func_now_another_function": (core, "rewrapped", {"a": INT}, INT, None),
        "s_func_local_scope": (core, "outer.<locals>.inner", {"z": INT}, INT, None),
        "s_classmethod_now_of_another_function": (core, "Shop.create", {"a": INT}, None, None),
        "s_property_now_of_another_function": (core, "Shop.size", {}, INT, None),
        "s_func_now_builtin_without_signature": (core, "getattr", {"a": INT}, INT, None),
        "s_func_now_builtin": (core, "len", {"a": STR}, INT, None),
        "s_arg_class_removed": (core, "keep", {"a": J(core, "RemovedClass")}, INT, None),
        "s_return_module_removed": (core, "keep", {"a": INT}, J(pkg + ".gone_mod", "Thing"), None),
        "s_yield_submodule_removed": (core, "keep2", {"x": INT}, None, J(pkg + ".core.gone", "Thing")),
        "s_arg_top_package_removed_deep": (core, "keep", {"a": J("c10vendor_gone.api.models", "Thing")}, None, None),
        "s_ret_subpackage_removed_deep": (core, "keep2", {"x": STR}, J(pkg + ".gone.reports.models", "T"), None),
        "s_class_now_non_type": (core, "keep", {"a": J(core, "NOT_A_TYPE")}, None, None),
        "s_nested_arg_class_removed": (core, "keep2", {"x": J("typing", "List", [J(core, "AlsoRemoved")])}, None, None),
    }
    return good, stale


def enc(row):
    m, q, args, ret, yld = row
    return (m, q, json.dumps(args, sort_keys=True), None if ret is None else json.dumps(ret, sort_keys=True),
            None if yld is None else json.dumps(yld, sort_keys=True))


def model_row(row):
    m, q, a, r, y = enc(row)
    t = lambda s: "NULL" if s is None else envmodel.json_to_tree(json.loads(s))
    return ("row", Q(m), Q(q), t(a), t(r), t(y))


class Fixture:
    def __init__(self, seed):
        self.dir = tempfile.mkdtemp(prefix="mtv_c10_")
        self.pkg = "c10pkg_%d_%d" % (os.getpid(), seed % 100000)
        os.makedirs(os.path.join(self.dir, self.pkg))
        open(os.path.join(self.dir, self.pkg, "__init__.py"), "w").close()
        self.core_path = os.path.join(self.dir, self.pkg, "core.py")
        open(self.core_path, "w").write(CORE)
        self.cfgmod = "c10cfg_%d_%d" % (os.getpid(), seed % 100000)
        open(os.path.join(self.dir, self.cfgmod + ".py"), "w").write(CFG)
        sys.path.insert(0, self.dir)
        importlib.invalidate_caches()
        self.n = 0

    def db(self, rows):
        self.n += 1
        path = os.path.join(self.dir, "db%d.sqlite3" % self.n)
        from monkeytype.db.sqlite import create_call_trace_table
        conn = sqlite3.connect(path)
        create_call_trace_table(conn)
        with conn:
            for i, r in enumerate(rows):
                conn.execute("INSERT INTO monkeytype_call_traces VALUES (?, ?, ?, ?, ?, ?)",
                             ("2024-01-%02d 00:00:00" % (1 + i % 27),) + enc(r))
        conn.close()
        return path

    def run(self, cmd, rows, verbose, target=None):
        from monkeytype import cli
        os.environ["C10_DB"] = self.db(rows)
        out, err = io.StringIO(), io.StringIO()
        argv = (["-v"] if verbose else []) + ["-c", self.cfgmod + ":CONFIG", cmd, target or (self.pkg + ".core")]
        open(self.core_path, "w").write(CORE)
        try:
            rc = cli.main(argv, out, err)
            exc = None
        except BaseException as e:   # the command died
            rc, exc = None, e
        src = open(self.core_path).read()
        open(self.core_path, "w").write(CORE)
        os.unlink(os.environ["C10_DB"])
        return rc, out.getvalue(), err.getvalue(), exc, src

    def close(self):
        sys.path.remove(self.dir)
        for m in [m for m in sys.modules if m.startswith(self.pkg) or m == self.cfgmod]:
            del sys.modules[m]
        shutil.rmtree(self.dir, ignore_errors=True)


def parse_stderr(err):
    lines = [l for l in err.splitlines() if l.strip()]
    out = {"warnings": 0, "summary": None, "no_traces": False, "other": []}
    for l in lines:
        if l.startswith("WARNING: Failed decoding trace:"):
            out["warnings"] += 1
        elif re.match(r"^\d+ traces failed to decode; use -v for details$", l):
            out["summary"] = int(l.split()[0])
        elif l.startswith("No traces found"):
            out["no_traces"] = True
        else:
            out["other"].append(l)
    return out


def run(pid, tier, seed):
    chk = framework.Check(pid, tier, seed)
    chk.rule = RULE
    chk.assumptions = ["rows are inserted directly (the store itself is C09); the import system is the live fixture package, abstracted for the model as a lookup table"]
    proof = framework.lean_check(pid)
    quick = tier == "quick"
    fx = Fixture(seed)
    try:
        good, stale = rows_for(fx.pkg)
        core = importlib.import_module(fx.pkg + ".core")
        # model environment
        tbl = classes.ClassTable()
        for c in (core.Arg, core.Other, core.K):
            tbl.of(c)
        ft = envmodel.FuncTable()
        funcs = [core.keep, core.keep2, core.K.__dict__["meth"]]
        lookups = set()
        for r in list(good.values()) + list(stale.values()):
            lookups.add((r[0], r[1]))

            def names_in(j):
                if isinstance(j, dict):
                    if "module" in j and "qualname" in j:
                        lookups.add((j["module"], j["qualname"]))
                    for v in j.values():
                        names_in(v)
                elif isinstance(j, list):
                    for v in j:
                        names_in(v)
            names_in(r[2]); names_in(r[3]); names_in(r[4])
        names, env = envmodel.names_and_env(tbl, ft, funcs, sorted(lookups))
        drv = leanio.LeanDriver()
        drv.ask(tbl.hier()); drv.ask(names); drv.ask(env)

        # stores
        cases = []
        gk, sk = sorted(good), sorted(stale)
        for s in sk:                                   # each stale kind at every position among two valid rows
            for pos in range(3):
                seq = ["g_keep_int", "g_meth"]
                seq.insert(pos, s)
                cases.append(seq)
            cases.append([s])                          # alone: nothing decodable
        cases.append(sk)                               # only stale rows
        cases.append(gk)                               # only valid rows
        cases.append([])                               # empty store
        for _ in range(40 if quick else 600):
            ng, nb = chk.rng.randrange(0, 4), chk.rng.randrange(0, 4)
            seq = chk.rng.sample(gk, ng) + chk.rng.sample(sk, nb)
            chk.rng.shuffle(seq)
            cases.append(seq)
        allrows = dict(good); allrows.update(stale)
        base_cache = {}
        reqs, meta = [], []
        for ci, seq in enumerate(cases):
            rows = [allrows[n] for n in seq]
            goods = [n for n in seq if n in good]
            nbad = len(seq) - len(goods)
            for verbose in (False, True):
                cmds = ["stub"] + (["apply"] if (ci % 7 == 0) else [])
                for cmd in cmds:
                    chk.evaluations += 1
                    chk.count("%s.bad%d.good%d" % (cmd, min(nbad, 3), min(len(goods), 3)))
                    case = {"cmd": cmd, "verbose": verbose, "rows": seq}
                    rc, out, err, exc, src = fx.run(cmd, rows, verbose)
                    key = (cmd, tuple(sorted(goods)))
                    if key not in base_cache:
                        base_cache[key] = fx.run(cmd, [allrows[n] for n in goods], False)
                    brc, bout, berr, bexc, bsrc = base_cache[key]
                    pe = parse_stderr(err)
                    if exc is not None:
                        chk.fail("fatal", dict(case, error=repr(exc)))
                    else:
                        if rc != 0:
                            chk.fail("exit-status", dict(case, rc=rc, stderr=err))
                        if out != bout or src != bsrc:
                            chk.fail("output", dict(case, stdout=out, expected=bout))
                        if verbose and pe["warnings"] != nbad:
                            chk.fail("report-v", dict(case, stderr=err, expected_warnings=nbad))
                        if not verbose and ((pe["summary"] or 0) != nbad or pe["warnings"]):
                            chk.fail("report", dict(case, stderr=err, expected_skipped=nbad))
                        if (not goods) != pe["no_traces"]:
                            chk.fail("no-traces", dict(case, stderr=err))
                        if pe["other"]:
                            chk.fail("stderr-noise", dict(case, stderr=err))
                    if nbad:
                        chk.nontriv("%s|%s|%s" % (cmd, verbose, ",".join(seq)))
                        if len(chk.samples) < 3 and len(seq) > 2:
                            chk.sample(dict(case, stderr=err.strip().splitlines()))
                    if cmd == "stub":
                        reqs.append(("getStub", "true" if verbose else "false") + tuple(model_row(r) for r in rows))
                        meta.append((case, exc, rc, pe, len(goods)))
        for g, (case, exc, rc, pe, ngood) in zip(drv.ask_many(reqs), meta):
            if g[0] == "crash":
                agree = exc is not None
                m = "crash"
            else:
                ml = g[3]
                mw = sum(1 for l in ml if isinstance(l, tuple) and l[0] == "warning")
                ms = next((int(l[1]) for l in ml if isinstance(l, tuple) and l[0] == "summary"), None)
                mn = "noTraces" in ml
                agree = (exc is None and rc == int(g[2]) and mw == pe["warnings"] and ms == pe["summary"]
                         and mn == pe["no_traces"] and int(g[1]) == ngood)
                m = sexp.dumps(g)
            chk.rel("corr.C10.getStub", agree, dict(case, model=m, impl={"rc": rc, "exc": repr(exc), "stderr": pe}))
        # the module itself is gone: everything fails, "No traces found", success
        gone = [(fx.pkg + ".gone_mod", "f", {"a": INT}, INT, None), (fx.pkg + ".gone_mod", "g", {}, None, None)]
        for verbose in (False, True):
            for cmd in ("stub", "apply"):
                chk.evaluations += 1
                rc, out, err, exc, _ = fx.run(cmd, gone, verbose, target=fx.pkg + ".gone_mod")
                pe = parse_stderr(err)
                case = {"cmd": cmd, "verbose": verbose, "rows": ["module removed x2"]}
                if exc is not None or rc != 0 or out.strip() or not pe["no_traces"] or pe["other"] or \
                        (pe["warnings"] if verbose else (pe["summary"] or 0)) != 2:
                    chk.fail("module-removed", dict(case, rc=rc, error=repr(exc), stdout=out, stderr=err))
                chk.nontriv("module-removed|%s|%s" % (cmd, verbose))
        drv.close()
    finally:
        fx.close()
    return chk.finish(proof, None)


def replay(path, args):
    data = json.load(open(path))
    case = data.get("case") or (data.get("disagreements") or [[None, None]])[0][1]
    print(json.dumps(case, indent=1, default=str))
    if not case or "rows" not in case:
        return 1
    fx = Fixture(0)
    try:
        good, stale = rows_for(fx.pkg)
        allrows = dict(good); allrows.update(stale)
        rows = [allrows[n] for n in case["rows"] if n in allrows]
        rc, out, err, exc, _ = fx.run(case["cmd"], rows, case["verbose"])
        print("rc", rc, "exception", repr(exc)); print(out); print(err)
        return 1 if (exc is not None or rc != 0) else 0
    finally:
        fx.close()
