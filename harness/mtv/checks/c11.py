"""C11 — rendered annotations denote the inferred type and stubs are self-contained."""
import importlib
import json
import os

from .. import classes, envmodel, framework, leanio, programs, sexp, stubeval, tyconv, types_gen
from ..sexp import Q

RULE = ("types = seeded random trees over classes spread across a fixture package whose module names are dotted / textual suffixes "
        "of one another (utils / pkg / pkg.utils, foo / barfoo), nested classes, a class named like its module, a class called "
        "NoneTypeHolder, _io types, NoneType / Optional (2 and 3+ members), Type[C], Callable, Iterator, Generator, DefaultDict, "
        "Tuple[()], Tuple[T, ...], with anonymous TypedDicts (required, optional, nested) at every container position; each rendered "
        "through a ModuleStub for a two-parameter function, a generator and a method of the target module. The stub's import block is "
        "executed in an empty namespace, its TypedDict classes registered, each annotation evaluated and compared structurally with "
        "the type that was rendered. Non-trivial = the type mentions a non-builtin class or a TypedDict; distinct = distinct canonical type.")

FILES = {
    "utils.py": "class A:\n    pass\n\n\nclass B:\n    pass\n",
    "pkg/__init__.py": "class PkgCls:\n    pass\n",
    "pkg/utils.py": "class B:\n    pass\n\n\nclass C:\n    pass\n",
    # a class named like its module, with a nested class: `foo.foo.Inner` must lose one `foo.` only
    "foo.py": "class foo:\n    class Inner:\n        pass\n\n\nclass Baz:\n    pass\n",
    "barfoo.py": "class Bar:\n    pass\n\n\nclass NoneTypeHolder:\n    pass\n",
    "nest.py": ("class Outer:\n    class Inner:\n        class Deep:\n            pass\n\n\n"
                # an outer class whose name ends like the module `foo`: `foo.` occurs inside `Myfoo.Inner`
                "class Myfoo:\n    class Inner:\n        pass\n"),
    # ordinary classes that share their names with typing constructs
    "shapes.py": "class List:\n    pass\n\n\nclass Set:\n    pass\n\n\nclass Union:\n    pass\n\n\nclass TypedDict:\n    pass\n\n\nclass Generator:\n    pass\n\n\nclass Any:\n    pass\n",
    # modules whose names end in "typing"
    "mytyping.py": "class Foo:\n    pass\n",
    "pkg/typing.py": "class Proto:\n    pass\n",
    "target.py": ("class Own:\n    pass\n\n\ndef f(a, b):\n    return a\n\n\ndef g(n):\n    yield n\n\n\n"
                  "class K:\n    def m(self, x):\n        return x\n"),
}


def setup_fixture(pd, tag):
    """writes the package under unique top-level names; returns {logical module name: module object}"""
    import sys
    mods = {}
    root = os.path.join(pd.dir, tag)
    os.makedirs(os.path.join(root, "pkg"), exist_ok=True)
    # modules are imported as top-level names from a private directory so that `utils`/`foo` etc. really are their names
    for rel, src in FILES.items():
        with open(os.path.join(root, rel), "w") as f:
            f.write(src)
    sys.path.insert(0, root)
    importlib.invalidate_caches()
    for name in ("utils", "pkg", "pkg.utils", "pkg.typing", "mytyping", "foo", "barfoo", "nest", "shapes", "target"):
        sys.modules.pop(name, None)
    for name in ("utils", "pkg", "pkg.utils", "pkg.typing", "mytyping", "foo", "barfoo", "nest", "shapes", "target"):
        mods[name] = importlib.import_module(name)
    return root, mods


def teardown_fixture(root):
    import sys
    if root in sys.path:
        sys.path.remove(root)
    for name in ("utils", "pkg", "pkg.utils", "pkg.typing", "mytyping", "foo", "barfoo", "nest", "shapes", "target"):
        sys.modules.pop(name, None)


class Gen(types_gen.TypeGen):
    def __init__(self, tbl, rng, mods):
        import io
        self.tbl = tbl
        self.rng = rng
        cid = lambda c: ("cls", str(tbl.of(c)))
        user = [mods["utils"].A, mods["utils"].B, mods["pkg"].PkgCls, mods["pkg.utils"].B, mods["pkg.utils"].C,
                mods["foo"].foo, mods["foo"].foo.Inner, mods["foo"].Baz, mods["barfoo"].Bar, mods["barfoo"].NoneTypeHolder,
                mods["nest"].Outer, mods["nest"].Outer.Inner, mods["nest"].Outer.Inner.Deep, mods["nest"].Myfoo.Inner,
                mods["target"].Own, io.StringIO, io.BytesIO,
                mods["shapes"].List, mods["shapes"].Set, mods["shapes"].Union, mods["shapes"].TypedDict, mods["shapes"].Generator,
                mods["shapes"].Any, mods["mytyping"].Foo, mods["pkg.typing"].Proto]
        self.atoms = [cid(int), cid(str), cid(type(None)), cid(float), cid(bool)]
        self.classes = [cid(c) for c in user]
        self.type_of = [("typeOf", str(tbl.of(c))) for c in (mods["utils"].A, mods["pkg.utils"].B, int, mods["nest"].Outer.Inner)]

    def td(self, depth):
        keys = self.rng.sample(["a", "b", "c", "x_y", "k2"], self.rng.choice([1, 1, 2, 3]))
        nreq = self.rng.randrange(0, len(keys) + 1)
        def f(k):
            r = self.rng.random()
            if r < 0.6:
                return (Q(k), self.rng.choice(self.atoms))
            if r < 0.75 and depth > 1:
                return (Q(k), self.td(depth - 1))
            return (Q(k), self.ty(depth - 1) if r < 0.9 else self.leaf())
        return ("td", tuple(f(k) for k in keys[:nreq]), tuple(f(k) for k in keys[nreq:]))

    def ty(self, depth=3, in_union=False, tds=True):
        r = self.rng.random()
        if tds and depth > 0 and r < 0.18 and not in_union:
            return self.td(depth)
        if depth > 0 and r < 0.26:
            return ("tupleOf", self.ty(depth - 1))
        if depth > 0 and r < 0.34 and not in_union:
            ms = [self.leaf() for _ in range(self.rng.choice([1, 2, 3]))] + [("cls", "9")]
            self.rng.shuffle(ms)
            return ("union",) + tuple(ms)
        return super().ty(depth, in_union)


def ast_text(node):
    import ast
    return ast.dump(node)


def norm_text(text):
    import ast
    try:
        return ast.dump(ast.parse(text, mode="eval").body)
    except SyntaxError:
        return "<unparsable: %s>" % text


def td_free_parts(t):
    """the maximal TypedDict-free subtrees of a type"""
    if isinstance(t, str) or t[0] in ("cls", "typeOf"):
        return [t]
    if not has_td(t):
        return [t]
    if t[0] == "td":
        return [p for _, ft in list(t[1]) + list(t[2]) for p in td_free_parts(ft)]
    return [p for a in t[1:] for p in td_free_parts(a)]


def has_td(t):
    if isinstance(t, str) or t[0] in ("cls", "typeOf"):
        return False
    if t[0] == "td":
        return True
    return any(has_td(a) for a in t[1:])


def run(pid, tier, seed):
    chk = framework.Check(pid, tier, seed)
    chk.rule = RULE
    chk.assumptions = ["names the stub provides = its own import block (really executed) + builtins + the target module's own classes",
                       "that annotation text parses to the expression the model prints is CPython's (ast / eval), observed"]
    chk.partial = ("the expression-level rendering is modelled and compared as text; that evaluating it with the stub's names gives back the type is "
                   "checked directly on every generated stub, not proved; two open known findings (generated class-name collision, same class name from two modules)")
    proof = framework.lean_check(pid)
    quick = tier == "quick"
    from monkeytype.stubs import (ReplaceTypedDictsWithStubs, build_module_stubs_from_traces, get_imports_for_annotation,
                                  render_annotation)
    from monkeytype.tracing import CallTrace
    tbl = classes.ClassTable()
    drv = leanio.LeanDriver()
    pd = programs.ProgramDir("mtv_c11_")
    root, mods = setup_fixture(pd, "fx%d" % (seed % 1000))
    try:
        # first of all (nothing has been stubbed in this process yet): source annotations kept next to traced types that are ==
        # to them (PEP 604 / 585 spellings need no typing import, the traced spelling does): every name used is provided
        from .. import keptmix
        keptmix.run(chk, pd, seed, "names-provided-kept-and-traced")
        # ... and annotations kept from the source that mention classes of another module inside PEP 585 / 604 forms
        from . import c13 as _c13
        _c13.kept_text(chk, pd, seed)
        gen = Gen(tbl, chk.rng, mods)
        target = mods["target"]
        own = {"Own": target.Own, "K": target.K}
        ft = envmodel.FuncTable()
        names, env = envmodel.names_and_env(tbl, ft, [target.f])
        drv.ask(tbl.hier()); drv.ask(names)
        reqs, meta = [], []
        # a fixed corpus of the situations the property names: module names that overlap textually (pkg / pkg.utils / utils,
        # foo / barfoo, typing / mytyping / pkg.typing), nested classes, a class named like its module, inside containers
        cc = lambda c: ("cls", str(tbl.of(c)))
        PkgCls, PUB, PUC, UA, UB = mods["pkg"].PkgCls, mods["pkg.utils"].B, mods["pkg.utils"].C, mods["utils"].A, mods["utils"].B
        Foo, FooInner, Baz, Bar = mods["foo"].foo, mods["foo"].foo.Inner, mods["foo"].Baz, mods["barfoo"].Bar
        Deep, MyfooInner = mods["nest"].Outer.Inner.Deep, mods["nest"].Myfoo.Inner
        MyT, Proto = mods["mytyping"].Foo, mods["pkg.typing"].Proto
        corpus = [
            [("tuple", cc(PkgCls), cc(PUC)), cc(int), cc(PUC)],
            [("dict", cc(str), ("list", cc(PUC))), cc(PkgCls), cc(int)],
            [cc(PUC), ("list", cc(UA)), cc(PkgCls)],
            [("union", cc(PkgCls), cc(PUC), cc(type(None))), cc(int), ("list", cc(PkgCls))],
            [("tuple", cc(FooInner), cc(Baz)), cc(Bar), cc(Foo)],
            [("list", cc(Bar)), cc(FooInner), cc(Bar)],
            [("dict", cc(str), cc(Deep)), cc(MyfooInner), cc(FooInner)],
            [("list", cc(MyT)), ("union", cc(Proto), cc(type(None))), cc(MyT)],
            [("typeOf", str(tbl.of(PUC))), cc(PkgCls), ("typeOf", str(tbl.of(PkgCls)))],
            [("set", cc(Proto)), cc(PkgCls), ("tuple", cc(MyT), cc(Proto))],
            [("tupleOf", cc(PUC)), cc(PkgCls), cc(int)],
            [cc(UA), cc(PUC), cc(PkgCls)],
        ]
        for i in range(150 if quick else 20000):
            trees = [gen.ty(3), gen.ty(2), gen.ty(2)]
            if i < len(corpus):
                trees = corpus[i]          # the overlapping-name situations first, deterministically
            try:
                pys = [tyconv.tree_to_ty(t, tbl) for t in trees]
                raws = [tyconv.ty_to_tree(p, tbl) for p in pys]
            except Exception:
                chk.count("unbuildable")
                continue
            chk.evaluations += 1
            case = {"a": sexp.dumps(raws[0]), "b": sexp.dumps(raws[1]), "ret": sexp.dumps(raws[2])}
            which = i % 4
            # comps: (function, position, class-name hint, type, index of the component inside the return annotation or None)
            if which == 0:
                traces = [CallTrace(target.f, {"a": pys[0], "b": pys[1]}, pys[2])]
                expect = {("f", "a"): raws[0], ("f", "b"): raws[1], ("f", "return"): raws[2]}
                comps = [("f", "a", "a", raws[0], None), ("f", "b", "b", raws[1], None), ("f", "return", "f", raws[2], None)]
            elif which == 1:
                traces = [CallTrace(target.g, {"n": pys[0]}, None, pys[1])]
                expect = {("g", "n"): raws[0], ("g", "return"): ("iterator", raws[1])}
                comps = [("g", "n", "n", raws[0], None), ("g", "return", "gYield", raws[1], 0)]
            elif which == 2:
                traces = [CallTrace(target.K.m, {"self": target.K, "x": pys[0]}, pys[2])]
                expect = {("K.m", "x"): raws[0], ("K.m", "return"): raws[2]}
                comps = [("K.m", "x", "x", raws[0], None), ("K.m", "return", "K_m", raws[2], None)]
            elif raws[2] == ("cls", "9"):
                # (a generator whose only return value is None is an Iterator[Y], as above)
                traces = [CallTrace(target.g, {"n": pys[0]}, pys[2], pys[1])]
                expect = {("g", "n"): raws[0], ("g", "return"): ("iterator", raws[1])}
                comps = [("g", "n", "n", raws[0], None), ("g", "return", "gYield", raws[1], 0)]
            else:
                # a generator that yields and returns: Generator[Y, None, R], the two parts rewritten under different hints
                traces = [CallTrace(target.g, {"n": pys[0]}, pys[2], pys[1])]
                expect = {("g", "n"): raws[0], ("g", "return"): ("generator", raws[1], ("cls", "9"), raws[2])}
                comps = [("g", "n", "n", raws[0], None), ("g", "return", "g", raws[2], 2), ("g", "return", "gYield", raws[1], 0)]
            k = 10
            try:
                text = build_module_stubs_from_traces(traces, k)["target"].render()
            except Exception as e:
                chk.fail("render-error", dict(case, error=repr(e)))
                continue
            # known-finding predicates, evaluated by the Lean model
            kf = []
            for fn, pos, hint, craw, _ in comps:
                g = drv.ask(("tdNames", Q(hint), craw))
                kf.append([str(x) for x in g[0]])
            all_names = [n for ns in kf for n in ns]
            collision = len(set(all_names)) != len(all_names)
            clash = drv.ask(("rootClash", Q("target")) + tuple(raws[:2] + [raws[2]] if which != 1 else raws[:2])) == "true"
            # model of the namespace + evaluator (Model/EvalAnno.lean): for every TypedDict-free position, what the model says
            # the stripped annotation text is, whether every name in it denotes what was rendered, and what it evaluates to
            sig_raws = list(expect.values())
            denote = {}
            for (fn, pos), raw in expect.items():
                if not has_td(raw):
                    g = drv.ask(("denote", Q("target"), tuple(sig_raws), raw))
                    denote[(fn, pos)] = (g[0] == "true", str(g[1]), None if g[2] == "none" else tyconv.canon(g[2]))
            names_bad = any(not ok for ok, _, _ in denote.values())
            # positions with generated classes: the same question for every TypedDict-free part (field types, members)
            for raw in expect.values():
                if has_td(raw):
                    for part in td_free_parts(raw):
                        if drv.ask(("denote", Q("target"), tuple(sig_raws), part))[0] != "true":
                            names_bad = True
            # the model with generated classes (Model/TDStub.lean): every component rendered under its hint, the classes of the
            # whole stub as the environment
            sig = tuple((Q(h), craw) for _, _, h, craw, _ in comps)
            tdm = []
            for ci in range(len(comps)):
                g = drv.ask(("denoteT", Q("target"), sig, str(ci), tuple(expect.values())))
                tdm.append({"namesOk": g[0] == "true", "classesIn": g[1] == "true", "text": str(g[2]),
                            "tree": None if g[3] == "none" else tyconv.canon(g[3]), "classes": [str(x) for x in g[4]]})
                if g[0] != "true":
                    names_bad = True
                if g[5] == "true":
                    clash = True      # (the import block of this stub, `from mypy_extensions import TypedDict` included)
            real = {}
            try:
                ev = stubeval.EvaluatedStub(text, own)
                # generated classes: the model's class texts, in stub order, against the class blocks of the real stub
                import ast as _ast
                real_classes = [_ast.dump(n) for n in _ast.parse(text).body
                                if isinstance(n, _ast.ClassDef) and "TypedDict__RENAME_ME__" in n.name]
                try:
                    model_classes = [_ast.dump(_ast.parse(c).body[0]) for c in (tdm[0]["classes"] if tdm else [])]
                except SyntaxError:
                    model_classes = ["<unparsable>"]
                if any(has_td(c[3]) for c in comps):
                    chk.rel("corr.C11.tdClasses", model_classes == real_classes,
                            dict(case, model=(tdm[0]["classes"] if tdm else []), stub=text[:1500]))
                all_in = all(m["classesIn"] for m in tdm)
                for (fn, pos, hint, craw, idx), m in zip(comps, tdm):
                    node = ev.funcs[fn]
                    an = node.returns if pos == "return" else next(
                        a.annotation for a in node.args.posonlyargs + node.args.args + node.args.kwonlyargs if a.arg == pos)
                    if an is None:
                        continue
                    if idx is not None:
                        sl = an.slice
                        an = sl.elts[idx] if isinstance(sl, _ast.Tuple) else sl
                    c2 = dict(case, position=[fn, pos, hint], impl=_ast.unparse(an), model=m["text"])
                    chk.rel("corr.C11.stubTextTD", norm_text(m["text"]) == ast_text(an), c2)
                    try:
                        rtree = tyconv.canon(ev.resolve(ev.annotation(an), tbl))
                    except stubeval.StubError:
                        rtree = None
                    if all_in:
                        # (with a class-name collision the stub's meaning depends on definition order and Python resolves the
                        # base class at definition time, the model at the end: only compared when every class is in place)
                        chk.rel("corr.C11.evalTD", m["tree"] == rtree,
                                dict(c2, impl=None if rtree is None else sexp.dumps(rtree),
                                     model=None if m["tree"] is None else sexp.dumps(m["tree"])))
                    chk.count("namesOkT.%s.classesIn.%s" % (m["namesOk"], m["classesIn"]))
                    if m["namesOk"] and m["classesIn"] and rtree != tyconv.canon(craw):
                        # hypotheses of MT.C11.rendered_denotes hold in the model, the implementation's annotation does not denote the type
                        chk.rel("corr.C11.namesOkT", False, dict(c2, denotes=None if rtree is None else sexp.dumps(rtree)))
                    elif m["namesOk"] and m["classesIn"]:
                        chk.rel("corr.C11.namesOkT", True, c2)
            except stubeval.StubError:
                pass
            try:
                ev = stubeval.EvaluatedStub(text, own)
                for (fn, pos), raw in expect.items():
                    node = ev.funcs[fn]
                    an = node.returns if pos == "return" else next(
                        a.annotation for a in node.args.posonlyargs + node.args.args + node.args.kwonlyargs if a.arg == pos)
                    if an is None:
                        continue
                    try:
                        real[(fn, pos)] = (ast_text(an), tyconv.canon(ev.resolve(ev.annotation(an), tbl)))
                    except stubeval.StubError:
                        real[(fn, pos)] = (ast_text(an), None)
            except stubeval.StubError:
                pass
            for key, (ok, mtext, mtree) in denote.items():
                if key not in real:
                    continue
                rtext, rtree = real[key]
                chk.rel("corr.C11.stubText", norm_text(mtext) == rtext, dict(case, position=list(key), impl=rtext, model=mtext))
                chk.rel("corr.C11.eval", mtree == rtree, dict(case, position=list(key), text=rtext,
                                                              impl=None if rtree is None else sexp.dumps(rtree),
                                                              model=None if mtree is None else sexp.dumps(mtree)))
                chk.count("namesOk.%s" % ok)
                if ok and rtree != tyconv.canon(expect[key]):
                    # the theorem's hypothesis holds in the model and the implementation's annotation does not denote the type
                    chk.rel("corr.C11.namesOk", False, dict(case, position=list(key), text=rtext))
            try:
                ev = stubeval.EvaluatedStub(text, own)
                if ev.duplicate_classes:
                    raise stubeval.StubError("duplicate-class", "class %s defined twice" % ev.duplicate_classes[0])
                for (fn, pos), raw in expect.items():
                    node = ev.funcs[fn]
                    if pos == "return":
                        an = node.returns
                    else:
                        an = next(a.annotation for a in node.args.posonlyargs + node.args.args + node.args.kwonlyargs if a.arg == pos)
                    if an is None:
                        raise stubeval.StubError("missing", "%s.%s has no annotation" % (fn, pos))
                    got = tyconv.canon(ev.resolve(ev.annotation(an), tbl))
                    if got != tyconv.canon(raw):
                        raise stubeval.StubError("denotes", "%s.%s: annotation %s denotes %s, rendered type was %s" % (
                            fn, pos, __import__("ast").unparse(an), sexp.dumps(got), sexp.dumps(tyconv.canon(raw))))
            except stubeval.StubError as e:
                finding = None
                if collision and e.clause in ("duplicate-class", "denotes"):
                    finding = "KF-C11-td-class-name-collision"
                elif clash and names_bad and e.clause in ("denotes", "class-body", "annotation"):
                    # both: two modules contribute one imported name (rootClash) and the model's namespace resolves some name of
                    # the rendered annotation to something else than what was rendered (¬ namesOk, the excluded hypothesis of
                    # MT.C11.rendered_denotes)
                    finding = "KF-C11-same-name-two-modules"
                chk.fail(e.clause, dict(case, detail=e.detail, stub=text[:1200]), finding=finding)
                chk.count("failed." + e.clause)
            if any(has_td(r) for r in raws) or any(c in sexp.dumps(raws[0]) for c in ("(cls 3", "(cls 4", "(cls 5")):
                chk.nontriv(sexp.dumps(tyconv.canon(raws[0])))
            if len(chk.samples) < 2 and has_td(raws[0]):
                chk.sample(dict(case, stub=text[:500]))
            # correspondence: annotation text, imports, generated class names
            for raw, py in zip(raws, pys):
                if not has_td(raw):
                    reqs.append(("render", raw))
                    meta.append(("corr.C11.render", dict(case, type=sexp.dumps(raw)), render_annotation(py)))
                    reqs.append(("imports", raw))
                    imp = get_imports_for_annotation(py)
                    meta.append(("corr.C11.imports", dict(case, type=sexp.dumps(raw)), sorted((m, n) for m, ns in imp.items() for n in ns)))
                else:
                    # the import block of a stub whose only annotation is this type (fields of generated classes included)
                    ms = build_module_stubs_from_traces([CallTrace(target.f, {"a": py}, type(None))], k)["target"]
                    reqs.append(("imports", raw))
                    meta.append(("corr.C11.stubImports", dict(case, type=sexp.dumps(raw)),
                                 sorted((m, n) for m, ns in ms.imports_stub.imports.items() for n in ns)))
                    _, stubs = ReplaceTypedDictsWithStubs.rewrite_and_get_stubs(py, "hint_x")
                    reqs.append(("tdNames", Q("hint_x"), raw))
                    meta.append(("corr.C11.tdNames", dict(case, type=sexp.dumps(raw)), [s.name.split("(")[0] for s in stubs]))
        for g, (rel, case, impl) in zip(drv.ask_many(reqs), meta):
            if rel == "corr.C11.render":
                chk.rel(rel, str(g) == impl, dict(case, impl=impl, model=str(g)))
            elif rel == "corr.C11.imports":
                got = sorted((str(m), str(n)) for m, n in g)
                chk.rel(rel, got == impl, dict(case, impl=impl, model=got))
            elif rel == "corr.C11.stubImports":
                got = sorted({(str(m), str(n)) for m, n in g if str(m) != "target"} | {("mypy_extensions", "TypedDict")})
                chk.rel(rel, got == impl, dict(case, impl=impl, model=got))
            else:
                got = [str(x) for x in g[0]]
                chk.rel(rel, got == impl, dict(case, impl=impl, model=got))
    finally:
        teardown_fixture(root)
        pd.close()
        drv.close()
    return chk.finish(proof, None)


def replay(path, args):
    data = json.load(open(path))
    print(json.dumps(data.get("case") or data.get("disagreements"), indent=1, default=str)[:3000])
    return 1
