"""C12 — stubs are valid Python and mirror the traced functions' real signatures."""
import ast
import inspect
import itertools
import json

from .. import classes, framework, leanio, programs, sexp
from ..sexp import Q

RULE = ("modules = generated sources with functions and methods of every kind (module function, instance / class / static method, "
        "property, coroutine function, generator; coroutine and generator methods too) in classes one and two levels deep, each with a parameter list drawn from: all valid "
        "kind sequences up to 4 parameters over {positional-only, positional-or-keyword, *args, keyword-only, **kwargs} (exhaustive), "
        "random ones up to 8, defaults (None and other) in every legal position, names long enough to force wrapping at 120 columns; "
        "x random subsets of the functions traced. The stub is parsed with ast (CPython's judgement of validity) and compared with "
        "inspect.signature of the live function; the rendered parameter list is lexed and compared with the model's tokens. "
        "Non-trivial = a parameter list with a '/' or '*' separator or a wrapped signature; distinct = distinct parameter-kind "
        "sequence x function kind.")

KINDS = ["posOnly", "posOrKw", "varPos", "kwOnly", "varKw"]
RANK = {k: i for i, k in enumerate(KINDS)}


def valid_kind_seqs(n):
    for seq in itertools.product(KINDS, repeat=n):
        ok = all(RANK[a] < RANK[b] or (a == b and a not in ("varPos", "varKw")) for a, b in zip(seq, seq[1:]))
        if ok:
            yield seq


def param_list(rng, kinds, long_names):
    """returns (python source of the parameter list, [(name, kind, has_default)])"""
    out, meta = [], []
    seen_default = False
    slash_done = star_done = False
    for i, k in enumerate(kinds):
        name = ("p%d" % i) + ("_a_rather_long_parameter_name_to_force_wrapping" if long_names else "")
        if k != "posOnly" and not slash_done and any(m[1] == "posOnly" for m in meta):
            out.append("/")
            slash_done = True
        if k == "kwOnly" and not star_done and not any(m[1] == "varPos" for m in meta):
            out.append("*")
            star_done = True
        default = None
        if k in ("posOnly", "posOrKw"):
            if seen_default or rng.random() < 0.3:
                default = rng.choice(["None", "3"])
                seen_default = True
        elif k == "kwOnly" and rng.random() < 0.5:
            default = rng.choice(["None", "'x'"])
        # a third of the parameters are annotated in the source (kept, dropped or overridden in the stub according to the flags:
        # whatever happens to the annotation, name, kind and default stay)
        anno = rng.choice([": float", ": 'str'", ": bytes"]) if rng.random() < 0.33 else ""
        text = {"varPos": "*", "varKw": "**"}.get(k, "") + name + anno + ((" = " if anno else "=") + default if default else "")
        out.append(text)
        meta.append((name, k, default is not None))
    if not slash_done and any(m[1] == "posOnly" for m in meta):
        out.append("/")
    return ", ".join(out), meta


FKINDS = ["function", "method", "classmethod", "staticmethod", "async", "generator", "nested_method", "property",
          "async_method", "async_classmethod", "async_nested_method", "generator_method", "async_staticmethod",
          "nested_classmethod", "nested_staticmethod", "nested_property"]
ASYNC_KINDS = {"async", "async_method", "async_classmethod", "async_nested_method", "async_staticmethod"}


def gen_source(rng, specs):
    """specs: list of (fkind, kinds, long) -> source, metas"""
    top, cls_k, cls_outer_inner = [], [], []
    metas = []
    for i, (fk, kinds, long_names) in enumerate(specs):
        plist, pm = param_list(rng, kinds if fk != "property" else (), long_names)
        name = "f%d" % i
        # a third of the module-level functions sit behind a synchronous decorator that uses functools.wraps: the traced function
        # is the one inside (its kind of `def`, its parameters)
        deco = "@_deco\n" if (fk == "async" or rng.random() < 0.34) else ""
        if fk == "function":
            top.append(deco + "def %s(%s):\n    return 1\n" % (name, plist))
            metas.append({"qual": name, "fkind": fk, "params": pm})
        elif fk == "async":
            top.append(deco + "async def %s(%s):\n    return 1\n" % (name, plist))
            metas.append({"qual": name, "fkind": fk, "params": pm})
        elif fk == "generator":
            top.append("def %s(%s):\n    yield 1\n" % (name, plist))
            metas.append({"qual": name, "fkind": fk, "params": pm})
        elif fk in ("method", "classmethod", "staticmethod", "property", "async_method", "async_classmethod", "async_staticmethod",
                    "generator_method"):
            base = fk.replace("async_", "").replace("generator_", "")
            recv = {"method": "self", "classmethod": "cls", "property": "self"}.get(base)
            deco = {"classmethod": "    @classmethod\n", "staticmethod": "    @staticmethod\n", "property": "    @property\n"}.get(base, "")
            full = ", ".join(x for x in [recv, plist] if x)
            kw = "async def" if fk.startswith("async_") else "def"
            body = "yield 1" if fk == "generator_method" else "return 1"
            cls_k.append("%s    %s %s(%s):\n        %s\n" % (deco, kw, name, full, body))
            metas.append({"qual": "K." + name, "fkind": fk, "params": ([(recv, "recv", False)] if recv else []) + pm})
        elif fk in ("nested_classmethod", "nested_staticmethod", "nested_property"):
            base = fk.replace("nested_", "")
            recv = {"classmethod": "cls", "property": "self"}.get(base)
            if base == "property":
                plist, pm = "", []
            full = ", ".join(x for x in [recv, plist] if x)
            cls_outer_inner.append("        @%s\n        def %s(%s):\n            return 1\n" % (base, name, full))
            metas.append({"qual": "Outer.Inner." + name, "fkind": fk, "params": ([(recv, "recv", False)] if recv else []) + pm})
        else:
            full = ", ".join(x for x in ["self", plist] if x)
            kw = "async def" if fk.startswith("async_") else "def"
            cls_outer_inner.append("        %s %s(%s):\n            return 1\n" % (kw, name, full))
            metas.append({"qual": "Outer.Inner." + name, "fkind": fk, "params": [("self", "recv", False)] + pm})
    # one function whose existing annotations put type variables inside generics that have no renderer of their own
    top.append("def tv(a: Iterable[_T], b: Type[_T], c: Callable[[_T], _T] = None, *, d: Sequence[_T_co] = ()) -> Mapping[str, _T]:\n"
               "    return {}\n")
    metas.append({"qual": "tv", "fkind": "function",
                  "params": [("a", "posOrKw", False), ("b", "posOrKw", False), ("c", "posOrKw", True), ("d", "kwOnly", True)]})
    src = ("import functools\nfrom typing import Callable, Iterable, Mapping, Sequence, Type, TypeVar\n\n_T = TypeVar('_T')\n"
           "_T_co = TypeVar('_T_co', covariant=True)\n\n\n"
           "def _deco(f):\n    @functools.wraps(f)\n    def wrapper(*a, **k):\n        return f(*a, **k)\n    return wrapper\n\n\n")
    src += "\n\n".join(top) + "\n\n"
    src += "class K:\n" + ("\n".join(cls_k) if cls_k else "    pass\n") + "\n\n"
    src += "class Outer:\n    class Inner:\n" + ("\n".join(cls_outer_inner) if cls_outer_inner else "        pass\n") + "\n"
    return src, metas


def real_params(func):
    out = []
    km = {inspect.Parameter.POSITIONAL_ONLY: "posOnly", inspect.Parameter.POSITIONAL_OR_KEYWORD: "posOrKw",
          inspect.Parameter.VAR_POSITIONAL: "varPos", inspect.Parameter.KEYWORD_ONLY: "kwOnly", inspect.Parameter.VAR_KEYWORD: "varKw"}
    for p in inspect.signature(func).parameters.values():
        out.append((p.name, km[p.kind], p.default is not inspect.Parameter.empty))
    return out


def stub_params(fn):
    a = fn.args
    out = []
    npos = len(a.posonlyargs) + len(a.args)
    ndef = len(a.defaults)
    for i, x in enumerate(a.posonlyargs + a.args):
        out.append((x.arg, "posOnly" if i < len(a.posonlyargs) else "posOrKw", i >= npos - ndef, x.annotation))
    if a.vararg:
        out.append((a.vararg.arg, "varPos", False, a.vararg.annotation))
    for x, d in zip(a.kwonlyargs, a.kw_defaults):
        out.append((x.arg, "kwOnly", d is not None, x.annotation))
    if a.kwarg:
        out.append((a.kwarg.arg, "varKw", False, a.kwarg.annotation))
    return out


def lex_params(text):
    """top-level comma split of a rendered '(…)' parameter list -> model tokens"""
    inner = text[text.index("(") + 1: text.rindex(")")]
    parts, depth, cur = [], 0, ""
    for ch in inner:
        if ch in "[(":
            depth += 1
        elif ch in "])":
            depth -= 1
        if ch == "," and depth == 0:
            parts.append(cur)
            cur = ""
        else:
            cur += ch
    if cur.strip():
        parts.append(cur)
    toks = []
    for p in (x.strip() for x in parts):
        if p == "/" or p == "*":
            toks.append(p)
            continue
        stars = len(p) - len(p.lstrip("*"))
        p2 = p.lstrip("*")
        has_def = p2.endswith("= ...")
        if has_def:
            p2 = p2[: -len("= ...")].rstrip()
        name, _, anno = p2.partition(":")
        toks.append((str(stars), Q(name.strip()), Q(anno.strip()) if anno.strip() else "none", "true" if has_def else "false"))
    return toks


def run(pid, tier, seed):
    chk = framework.Check(pid, tier, seed)
    chk.rule = RULE
    chk.assumptions = ["validity of the whole stub text is CPython's judgement (ast.parse), observed on every generated stub",
                       "the rendered parameter list is lexed by the harness (top-level comma split) before it is compared with the model's tokens"]
    chk.partial = "the parameter-list round trip is proved on tokens; that the stub text as a whole parses is observed with CPython's parser"
    proof = framework.lean_check(pid)
    quick = tier == "quick"
    from monkeytype.stubs import build_module_stubs_from_traces, render_signature
    from monkeytype.tracing import CallTrace
    import typing as _t
    from .. import fixture_classes as fx
    # traced types: mostly int; containers, a nested class, and ordinary classes that share their names with typing constructs
    trace_types = [int] * 6 + [str, _t.List[int], _t.Optional[str], _t.Dict[str, fx.Iterator], fx.Outer.Inner, fx.List, fx.Set, fx.Tuple,
                               fx.Generator, fx.Union, fx.TypedDict, _t.Tuple[fx.Set, fx.List]]
    drv = leanio.LeanDriver()
    pd = programs.ProgramDir("mtv_c12_")
    seqs = [s for n in range(0, 5 if quick else 6) for s in valid_kind_seqs(n)]
    chk.extra["small_scope"] = {"kind_sequences_up_to": 4 if quick else 5, "count": len(seqs)}
    for _ in range(30 if quick else 4000):
        n = chk.rng.randrange(5, 9)
        kinds = sorted((chk.rng.choice(["posOnly", "posOrKw", "posOrKw", "kwOnly", "kwOnly"]) for _ in range(n)), key=RANK.get)
        if chk.rng.random() < 0.4:
            kinds = [k for k in kinds if k != "kwOnly" or True]
            idx = next((i for i, k in enumerate(kinds) if RANK[k] > 1), len(kinds))
            kinds.insert(idx, "varPos")
        if chk.rng.random() < 0.4:
            kinds.append("varKw")
        seqs.append(tuple(kinds))
    reqs, meta = [], []
    breqs, bmeta = [], []
    prev_name, prev_traces, prev_want = None, [], set()
    try:
        chunk = 24
        for ci in range(0, len(seqs), chunk):
            specs = []
            for j, kinds in enumerate(seqs[ci:ci + chunk]):
                fk = FKINDS[(ci + j) % len(FKINDS)]
                specs.append((fk, kinds, chk.rng.random() < 0.25))
            name = "c12mod_%d_%d" % (seed % 1000, ci)
            src, metas = gen_source(chk.rng, specs)
            try:
                mod, path = pd.load(name, src)
            except SyntaxError as e:
                chk.notes.append("generator produced invalid source: %r" % (e,))
                continue
            traced = [m for m in metas if chk.rng.random() < 0.7] or metas[:1]
            traces = []
            for m in traced:
                obj = mod
                for part in m["qual"].split("."):
                    obj = inspect.getattr_static(obj, part) if isinstance(obj, type) else getattr(obj, part)
                func = obj.__func__ if isinstance(obj, (classmethod, staticmethod)) else (obj.fget if isinstance(obj, property) else obj)
                func = inspect.unwrap(func)          # the function whose code ran, not a functools.wraps wrapper around it
                m["func"] = func
                args = {p[0]: chk.rng.choice(trace_types) for p in m["params"] if p[1] not in ("recv",)}
                if m["params"] and m["params"][0][1] == "recv":
                    # the real tracer records the receiver like any other argument: the instance's class / Type[class]
                    owner = mod
                    for part in m["qual"].split(".")[:-1]:
                        owner = getattr(owner, part)
                    import typing
                    args = dict({m["params"][0][0]: owner if m["params"][0][0] == "self" else typing.Type[owner]}, **args)
                traces.append(CallTrace(func, args, chk.rng.choice(trace_types),
                                        chk.rng.choice(trace_types) if m["fkind"] in ("generator", "generator_method") else None))
            if (ci // chunk) % 2 == 1:
                # every other module: the traces as `stub` gets them - encoded, stored as rows, decoded (the function is looked up
                # again by module and qualified name)
                from monkeytype.encoding import CallTraceRow
                try:
                    traces = [CallTraceRow.from_trace(t).to_trace() for t in traces]
                except Exception as e:
                    chk.fail("error", {"module": name, "error": "round trip through the store's row format: " + repr(e)[:300]})
                    continue
            chk.evaluations += 1
            case = {"module": name, "traced": [m["qual"] for m in traced], "through_rows": (ci // chunk) % 2 == 1}
            try:
                # one build for this module and the previous one: both have classes `K` and `Outer.Inner`
                joint = build_module_stubs_from_traces(prev_traces + traces, 0)
                stub = joint[name]
                text = stub.render()
            except Exception as e:
                chk.fail("error", dict(case, error=repr(e)))
                continue
            # where the function stubs went: the tree of class stubs against the model's `build` (Model/ModuleBuild.lean)
            order = []
            for t in traces:
                if t.func not in order:
                    order.append(t.func)
            try:
                quals = [next(m["qual"] for m in traced if m["func"] is f) for f in order]
            except StopIteration:
                strangers = [getattr(f, "__qualname__", repr(f)) for f in order if not any(m["func"] is f for m in traced)]
                chk.fail("each-once", dict(case, detail="a stored trace decoded to a function object that is not the traced function "
                                                        "(e.g. a functools.wraps wrapper instead of the function inside)", functions=strangers))
                continue
            entries = tuple((tuple(Q(p) for p in q.split(".")[:-1]), Q(q.split(".")[-1])) for q in quals)

            def shape_of(st):
                return ([n for n in st.function_stubs], [(n, shape_of(c)) for n, c in st.class_stubs.items()])

            def shape_of_model(g):
                return ([str(kv[0]) for kv in g[0]], [(str(kc[0]), shape_of_model(kc[1])) for kc in g[1]])
            breqs.append(("buildTree",) + entries)
            bmeta.append((dict(case, entries=quals), shape_of(stub)))
            if prev_name is not None:
                # the previous module's stub out of the same build holds exactly its own traced functions
                pfound = set()

                def pwalk(st, path):
                    for n in st.function_stubs:
                        pfound.add(".".join(path + [n]))
                    for n, c in st.class_stubs.items():
                        pwalk(c, path + [n])
                if prev_name in joint:
                    pwalk(joint[prev_name], [])
                if pfound != prev_want:
                    chk.fail("each-once", dict(case, detail="two modules built together: the stub of %s" % prev_name,
                                               in_stub=sorted(pfound), expected=sorted(prev_want)))
            prev_name, prev_traces, prev_want = name, traces, {m["qual"] for m in traced}
            try:
                tree = ast.parse(text)
            except SyntaxError as e:
                chk.fail("invalid-python", dict(case, error=repr(e), stub=text[:1500]))
                continue
            # collect every def with its class path
            found = {}

            def walk(node, path):
                for n in node.body:
                    if isinstance(n, ast.ClassDef):
                        walk(n, path + [n.name])
                    elif isinstance(n, (ast.FunctionDef, ast.AsyncFunctionDef)):
                        found.setdefault(".".join(path + [n.name]), []).append(n)
            walk(tree, [])
            want = {m["qual"] for m in traced}
            if set(found) != want or any(len(v) != 1 for v in found.values()):
                chk.fail("each-once", dict(case, in_stub=sorted(found), expected=sorted(want),
                                           duplicates=[k for k, v in found.items() if len(v) != 1]))
                continue
            for m in traced:
                fn = found[m["qual"]][0]
                c2 = dict(case, function=m["qual"], kind=m["fkind"])
                decos = [ast.unparse(d) for d in fn.decorator_list]
                wantd = {"classmethod": ["classmethod"], "staticmethod": ["staticmethod"], "property": ["property"]}.get(
                    m["fkind"].replace("async_", "").replace("nested_", ""), [])
                if decos != wantd:
                    chk.fail("decorator", dict(c2, got=decos, expected=wantd))
                if isinstance(fn, ast.AsyncFunctionDef) != (m["fkind"] in ASYNC_KINDS):
                    chk.fail("async", c2)
                sp = stub_params(fn)
                rp = real_params(m["func"])
                if [(a, b, c) for a, b, c, _ in sp] != rp:
                    chk.fail("signature", dict(c2, stub=[(a, b, c) for a, b, c, _ in sp], real=rp))
                if m["params"] and m["params"][0][1] == "recv" and sp and sp[0][3] is not None:
                    chk.fail("receiver-annotated", c2)
                kinds = tuple(p[1] for p in rp)
                wrapped = "\n" in text[text.index("def " + fn.name):].split(": ...")[0]
                if wrapped or "posOnly" in kinds or ("kwOnly" in kinds and "varPos" not in kinds):
                    chk.nontriv("%s|%s|%s" % (m["fkind"], ",".join(kinds), wrapped))
                chk.count("fkind." + m["fkind"])
                chk.count("wrapped.%s" % wrapped)
                # model: tokens of render_signature for the updated signature
                from monkeytype.stubs import get_updated_definition
                defn = get_updated_definition(m["func"], [t for t in traces if t.func is m["func"]], 0)
                for width in (None, 20, 120):
                    rendered = render_signature(defn.signature, width, "    ")
                    toks = lex_params(rendered)
                    mp = []
                    for p in defn.signature.parameters.values():
                        from monkeytype.stubs import render_annotation, _is_optional
                        import typing
                        if p.annotation is inspect.Parameter.empty:
                            an = "none"
                        else:
                            a = p.annotation
                            if not _is_optional(a) and p.default is None:
                                a = typing.Optional[a]
                            an = Q(render_annotation(a))
                        mp.append((Q(p.name), {0: "posOnly", 1: "posOrKw", 2: "varPos", 3: "kwOnly", 4: "varKw"}[int(p.kind)],
                                   "true" if p.default is not inspect.Parameter.empty else "false", an))
                    reqs.append(("renderToks",) + tuple(mp))
                    meta.append((dict(c2, width=width, rendered=rendered), toks))
            # the same module under the other two annotation flags: names, kinds, order, defaults, decorators and async are those
            # of the real functions whatever is done with the source's annotations
            from monkeytype.stubs import ExistingAnnotationStrategy as _S
            for sname, sval in (("omit", _S.OMIT), ("ignore", _S.IGNORE)):
                chk.evaluations += 1
                c3 = dict(case, strategy=sname)
                try:
                    text2 = build_module_stubs_from_traces(traces, 0, sval)[name].render()
                    tree2 = ast.parse(text2)
                except Exception as e:
                    chk.fail("error-" + sname, dict(c3, error=repr(e)[:300]))
                    continue
                found2 = {}

                def walk2(node, path):
                    for n in node.body:
                        if isinstance(n, ast.ClassDef):
                            walk2(n, path + [n.name])
                        elif isinstance(n, (ast.FunctionDef, ast.AsyncFunctionDef)):
                            found2.setdefault(".".join(path + [n.name]), []).append(n)
                walk2(tree2, [])
                if set(found2) != want or any(len(v) != 1 for v in found2.values()):
                    chk.fail("each-once", dict(c3, in_stub=sorted(found2), expected=sorted(want)))
                    continue
                for m in traced:
                    fn = found2[m["qual"]][0]
                    sp = stub_params(fn)
                    rp = real_params(m["func"])
                    if [(a, b, c) for a, b, c, _ in sp] != rp:
                        chk.fail("signature", dict(c3, function=m["qual"], stub=[(a, b, c) for a, b, c, _ in sp], real=rp))
                    if isinstance(fn, ast.AsyncFunctionDef) != (m["fkind"] in ASYNC_KINDS):
                        chk.fail("async", dict(c3, function=m["qual"]))
                    if m["params"] and m["params"][0][1] == "recv" and sp and sp[0][3] is not None:
                        chk.fail("receiver-annotated", dict(c3, function=m["qual"]))
                chk.nontriv("strategy|%s|%d" % (sname, ci))
            if len(chk.samples) < 2:
                chk.sample({"module": name, "stub": text[:600]})
        from .. import funcdef_corr
        funcdef_corr.kinds(chk, drv, pd, seed, "corr.C12.kind")
        for g, (case, toks) in zip(drv.ask_many(reqs), meta):
            mt = [t if isinstance(t, str) else tuple(t) for t in g[0]]
            it = [t if isinstance(t, str) else tuple(t) for t in toks]
            chk.rel("corr.C12.renderToks", mt == it and g[1] == "true" and g[2] == "true",
                    dict(case, impl=sexp.dumps(tuple(it)), model=sexp.dumps(g)))
        # the same relation on random entry lists (class paths of depth 0-3 over a small alphabet, repeated qualified names,
        # a function and a class of one name), straight through `build_module_stubs`
        from monkeytype.stubs import FunctionDefinition, FunctionKind, build_module_stubs
        for _ in range(300 if quick else 6000):
            n = chk.rng.randrange(0, 9)
            quals = []
            for _ in range(n):
                depth = chk.rng.choice([0, 0, 1, 1, 2, 3])
                quals.append(".".join([chk.rng.choice(["A", "B", "f", "Inner"]) for _ in range(depth)] + [chk.rng.choice(["f", "g", "A", "m"])]))
            defs = [FunctionDefinition("m", q, FunctionKind.MODULE, inspect.Signature()) for q in quals]
            chk.evaluations += 1
            try:
                ms = build_module_stubs(defs).get("m")
            except Exception as e:
                chk.fail("error", {"entries": quals, "error": repr(e)})
                continue

            def shape_of(st):
                return ([n for n in st.function_stubs], [(n, shape_of(c)) for n, c in st.class_stubs.items()])
            breqs.append(("buildTree",) + tuple((tuple(Q(p) for p in q.split(".")[:-1]), Q(q.split(".")[-1])) for q in quals))
            bmeta.append(({"entries": quals}, shape_of(ms) if ms is not None else ([], [])))
        for g, (case, impl) in zip(drv.ask_many(breqs), bmeta):
            def shape_of_model(g):
                return ([str(kv[0]) for kv in g[0]], [(str(kc[0]), shape_of_model(kc[1])) for kc in g[1]])
            chk.rel("corr.C12.moduleTree", shape_of_model(g) == impl, dict(case, impl=repr(impl)[:800], model=repr(shape_of_model(g))[:800]))
    finally:
        pd.close()
        drv.close()
    return chk.finish(proof, None)


def replay(path, args):
    data = json.load(open(path))
    print(json.dumps(data.get("case") or data.get("disagreements"), indent=1, default=str)[:3000])
    return 1
