"""C13 — existing source annotations are kept, omitted or overridden exactly as requested."""
import ast
import inspect
import io
import json
import os

from .. import classes, framework, leanio, programs, sexp, tyconv
from ..sexp import Q

RULE = ("signatures = generated modules of functions and methods with 0..5 parameters (every kind, with and without defaults, None "
        "defaults), every parameter and the return independently annotated in source with a class / generic / Optional / string / "
        "NewType annotation or not; x random subsets of positions traced x strategies {REPLICATE, OMIT, IGNORE} x {return only, yield "
        "only, yield+return, yield+None return, exception only (nothing)}; through get_updated_definition, render_parameter and (for a "
        "sample) the real `stub` CLI with each flag. Non-trivial = a position that is annotated in source or traced; distinct = distinct "
        "(strategy, source-annotated?, traced?, receiver?, outcome) x (return combination).")

ANNOS = ["int", "List[int]", "Optional[str]", "'Fwd'", "UserId", "Cls", "Dict[str, Cls]"]
HEADER = ("from typing import Dict, List, NewType, Optional\n\nUserId = NewType('UserId', int)\n\n\nclass Cls:\n    pass\n\n\n"
          "class Fwd:\n    pass\n\n\n")


def gen_source(rng, n_funcs):
    src = [HEADER]
    metas = []
    for i in range(n_funcs):
        method = rng.random() < 0.4
        n = rng.randrange(0, 6)
        params, meta = [], []
        kinds = sorted(rng.choice(["pos", "pos", "pos", "kw"]) for _ in range(n))
        star = False
        for j, kd in enumerate(kinds):
            name = "p%d" % j
            anno = rng.choice(ANNOS) if rng.random() < 0.5 else None
            default = rng.choice([None, None, "None", "1"])
            if kd == "kw" and not star:
                params.append("*")
                star = True
            if kd == "pos" and any(m["default"] for m in meta) and default is None:
                default = "1"          # non-default after default is a syntax error
            params.append(name + (": " + anno if anno else "") + ((" = " if anno else "=") + default if default else ""))
            meta.append({"name": name, "anno": anno, "default": default})
        ret_anno = rng.choice(ANNOS + ["None"]) if rng.random() < 0.5 else None
        # the receiver is sometimes annotated in the source too (`self: 'C0'`)
        recv_anno = rng.choice([None, None, "'C%d'" % i, "object"]) if method else None
        sig = ", ".join((["self" + (": " + recv_anno if recv_anno else "")] if method else []) + params)
        body = "        return None\n" if method else "    return None\n"
        head = "def f%d(%s)%s:\n" % (i, sig, " -> " + ret_anno if ret_anno else "")
        if method:
            src.append("class C%d:\n    %s%s\n\n" % (i, head, body))
        else:
            src.append(head + body + "\n\n")
        metas.append({"qual": ("C%d.f%d" % (i, i)) if method else "f%d" % i, "method": method, "params": meta, "ret": ret_anno})
    # systematic part: every kind of source annotation once with a None default, once with another default, once without
    for a_i, anno in enumerate(ANNOS):
        i = n_funcs + a_i
        src.append("def f%d(p0: %s = None, p1: %s = 1, *, p2: %s, p3=None) -> %s:\n    return None\n\n\n" % (i, anno, anno, anno, anno))
        metas.append({"qual": "f%d" % i, "method": False, "ret": anno,
                      "params": [{"name": "p0", "anno": anno, "default": "None"}, {"name": "p1", "anno": anno, "default": "1"},
                                 {"name": "p2", "anno": anno, "default": None}, {"name": "p3", "anno": None, "default": "None"}]})
    return "".join(src), metas


RET_COMBOS = ["return", "yield", "yield+return", "yield+none", "nothing"]


def classify(anno, empty, src_obj, tbl):
    if anno is empty:
        return "none"
    if src_obj is not empty and anno is src_obj:
        return ("src", "0")
    return ("ty", tyconv.canon(tyconv.ty_to_tree(anno, tbl)))


KEPT_SRC = ("from typing import Callable, Dict, Iterable, List, Mapping, Optional, Sequence, Type, TypeVar\n\n"
            "_T = TypeVar('_T')\n_T_co = TypeVar('_T_co', covariant=True)\n_T_contra = TypeVar('_T_contra', contravariant=True)\n\n\n"
            "class Cls:\n    pass\n\n\n")
KEPT_ANNOS = ["int", "List[int]", "Optional[str]", "Dict[str, Cls]", "Iterable[_T]", "Type[_T]", "Callable[[_T], _T]", "Sequence[_T_co]",
              "Mapping[str, _T]", "List[_T]", "Callable[[_T_contra], _T_co]", "Dict[str, Iterable[_T]]", "Optional[Iterable[_T]]"]


def kept_text(chk, pd, seed):
    """an annotation that is kept is kept AS WRITTEN: the annotation text in the rendered stub, parsed, is the source's
    annotation (wrapped in Optional when the default is None) — also when it mentions type variables inside generics that
    MonkeyType has no renderer of its own for"""
    import ast
    from monkeytype.stubs import build_module_stubs_from_traces
    from monkeytype.tracing import CallTrace
    src = [KEPT_SRC]
    for i, a in enumerate(KEPT_ANNOS):
        src.append("def k%d(p0: %s, p1: %s = None, *, p2: %s = 1, p3=None) -> %s:\n    return None\n\n\n" % (i, a, a, a, a))
    # ... and classes of another module inside builtin generics and `|` unions (PEP 585 / 604), which must be imported
    oname = "c13other_%d" % (seed % 1000)
    pd.load(oname, "class Foo:\n    pass\n\n\nclass Bar:\n    class Inner:\n        pass\n")
    src[0] = "import collections.abc\nimport %s\n" % oname + src[0]
    cross = ["list[%s.Foo]" % oname, "%s.Foo | None" % oname, "dict[str, %s.Bar.Inner]" % oname, "tuple[%s.Foo, ...]" % oname,
             "List[%s.Foo]" % oname,
             # the parameter list of a PEP 585 Callable is a list inside __args__' flat form: its classes need imports too
             "collections.abc.Callable[[%s.Foo], int]" % oname, "collections.abc.Callable[[int, %s.Bar.Inner], %s.Foo]" % (oname, oname),
             "collections.abc.Callable[..., %s.Foo]" % oname, "type[%s.Foo]" % oname, "list[list[%s.Foo]]" % oname,
             "collections.abc.Iterable[%s.Foo]" % oname]
    for j, a in enumerate(cross):
        src.append("def x%d(p0: %s, p1: %s = None) -> %s:\n    return None\n\n\n" % (j, a, a, a))
    name = "c13kept_%d" % (seed % 1000)
    mod, _ = pd.load(name, "".join(src))
    import builtins
    for j, a in enumerate(cross):
        func = getattr(mod, "x%d" % j)
        chk.evaluations += 1
        case = {"annotation": a, "function": "x%d" % j}
        try:
            text = build_module_stubs_from_traces([CallTrace(func, {"p0": int, "p1": int}, int)], 0)[name].render()
            tree = ast.parse(text)
        except Exception as e:
            chk.fail("kept-text", dict(case, error=repr(e)[:300]))
            continue
        provided = set(dir(builtins)) | {"Cls"}
        for n in tree.body:
            if isinstance(n, ast.ImportFrom):
                provided |= {al.asname or al.name for al in n.names}
            elif isinstance(n, ast.Import):
                provided |= {(al.asname or al.name).split(".")[0] for al in n.names}
        fn = next(n for n in tree.body if isinstance(n, ast.FunctionDef))
        used = set()
        for an in [x.annotation for x in fn.args.args + fn.args.kwonlyargs] + [fn.returns]:
            if an is not None:
                used |= {n.id for n in ast.walk(an) if isinstance(n, ast.Name)}
        missing = sorted(used - provided)
        if missing:
            chk.fail("kept-text", dict(case, detail="the kept annotation uses names the stub does not provide", missing=missing, stub=text[:600]))
        chk.nontriv("kept-text|" + a)
    norm = lambda text: ast.dump(ast.parse(text, mode="eval").body)
    for i, a in enumerate(KEPT_ANNOS):
        func = getattr(mod, "k%d" % i)
        chk.evaluations += 1
        case = {"annotation": a, "function": "k%d" % i}
        try:
            text = build_module_stubs_from_traces([CallTrace(func, {"p0": int, "p1": int, "p2": int, "p3": int}, int)], 0)[name].render()
            fn = next(n for n in ast.parse(text).body if isinstance(n, ast.FunctionDef) and n.name == "k%d" % i)
        except Exception as e:
            chk.fail("kept-text", dict(case, error=repr(e)[:300]))
            continue
        got = {x.arg: x.annotation for x in fn.args.args + fn.args.kwonlyargs}
        got["return"] = fn.returns
        want = {"p0": a, "p1": a if a.startswith("Optional[") else "Optional[%s]" % a, "p2": a, "return": a}
        for pos, w in want.items():
            g = got.get(pos)
            if g is None or ast.dump(g) != norm(w):
                chk.fail("kept-text", dict(case, position=pos, stub_annotation=None if g is None else ast.unparse(g), source_annotation=w))
        chk.nontriv("kept-text|" + a)


def run(pid, tier, seed):
    chk = framework.Check(pid, tier, seed)
    chk.rule = RULE
    proof = framework.lean_check(pid)
    quick = tier == "quick"
    import typing
    from monkeytype.stubs import (ExistingAnnotationStrategy as S, get_updated_definition, render_parameter, _is_optional)
    from monkeytype.tracing import CallTrace
    strategies = [("replicate", S.REPLICATE), ("omit", S.OMIT), ("ignore", S.IGNORE)]
    tbl = classes.ClassTable()
    drv = leanio.LeanDriver()
    pd = programs.ProgramDir("mtv_c13_")
    # traced types are disjoint from the source-annotation pool, so "kept the source annotation" and "received the
    # traced type" can be told apart by object identity
    # ... and include a class whose class object is falsy (`if traced_type:` is not `if traced_type is not None:`)
    from .. import fixture_classes as fx
    traced_types = [(float, ("cls", "13")), (bytes, ("cls", "14")), (typing.List[str], ("list", ("cls", "0"))),
                    (fx.Falsy, ("cls", str(tbl.of(fx.Falsy)))), (type(None), ("cls", "9"))]
    reqs, meta = [], []
    cli_jobs = []
    try:
        for mi in range(4 if quick else 400):
            name = "c13mod_%d_%d" % (seed % 1000, mi)
            src, metas = gen_source(chk.rng, 8)
            mod, path = pd.load(name, src)
            for fm in metas:
                obj = mod
                for part in fm["qual"].split("."):
                    obj = getattr(obj, part)
                func = obj
                sig = inspect.signature(func)
                names = list(sig.parameters)
                for _ in range(3 if quick else 8):
                    traced = {n: chk.rng.choice(traced_types) for n in names if chk.rng.random() < 0.55}
                    combo = chk.rng.choice(RET_COMBOS)
                    ret = chk.rng.choice(traced_types) if combo in ("return", "yield+return") else ((type(None), ("cls", "9")) if combo == "yield+none" else None)
                    yld = chk.rng.choice(traced_types[:4]) if combo.startswith("yield") else None
                    trace = CallTrace(func, {n: t[0] for n, t in traced.items()}, ret[0] if ret else None, yld[0] if yld else None)
                    for sname, sval in strategies:
                        chk.evaluations += 1
                        case = {"module": name, "function": fm["qual"], "strategy": sname, "traced": sorted(traced), "combo": combo}
                        try:
                            defn = get_updated_definition(func, [trace], 0, None, sval)
                        except Exception as e:
                            chk.fail("error", dict(case, error=repr(e)))
                            continue
                        empty = inspect.Parameter.empty
                        for idx, n in enumerate(names):
                            src_obj = sig.parameters[n].annotation
                            annotated = src_obj is not empty
                            is_self = fm["method"] and idx == 0
                            got = classify(defn.signature.parameters[n].annotation, empty, src_obj, tbl)
                            tr = traced.get(n)
                            # the property, per strategy
                            if is_self and tr is not None and got not in ("none", ("src", "0")):
                                chk.fail("receiver", dict(case, param=n, got=got))
                            if is_self and annotated and sname == "omit" and got != "none":
                                # omit: no annotated position carries an annotation in the stub - the receiver included
                                chk.fail("omit", dict(case, param=n, annotated=True, got=sexp.dumps(got), expected="none"))
                            if is_self and annotated and sname == "replicate" and got != ("src", "0"):
                                chk.fail("replicate", dict(case, param=n, annotated=True, got=sexp.dumps(got), expected="(src 0)"))
                            exp = None
                            if not is_self:
                                if sname == "replicate":
                                    exp = ("src", "0") if annotated else (("ty", tyconv.canon(tr[1])) if tr else "none")
                                elif sname == "omit":
                                    exp = "none" if annotated else (("ty", tyconv.canon(tr[1])) if tr else "none")
                                elif tr:
                                    exp = ("ty", tyconv.canon(tr[1]))
                                elif not annotated:
                                    exp = "none"
                            if exp is not None and got != exp:
                                chk.fail(sname, dict(case, param=n, annotated=annotated, got=sexp.dumps(got), expected=sexp.dumps(exp)))
                            # Optional shown for a None default
                            p = defn.signature.parameters[n]
                            if p.annotation is not empty and p.default is None and not _is_optional(p.annotation) and p.annotation is not type(None):
                                if "Optional[" not in render_parameter(p):
                                    chk.fail("optional-none", dict(case, param=n, rendered=render_parameter(p)))
                            if annotated or tr:
                                chk.nontriv("%s|%s|%s|%s|%s" % (sname, annotated, bool(tr), is_self, sexp.dumps(got)[:12]))
                            reqs.append(("updateArg", sname, "0" if annotated else "none", tr[1] if tr else "none", "true" if is_self else "false"))
                            meta.append(("corr.C13.updateArg", dict(case, param=n), got))
                        # return
                        rsrc = sig.return_annotation
                        rann = rsrc is not inspect.Signature.empty
                        gotr = classify(defn.signature.return_annotation, inspect.Signature.empty, rsrc, tbl)
                        if not (rann and sname != "ignore"):
                            if yld and (ret is None or ret[1] == ("cls", "9")):
                                exp = ("ty", ("iterator", tyconv.canon(yld[1])))
                            elif yld:
                                exp = ("ty", ("generator", tyconv.canon(yld[1]), ("cls", "9"), tyconv.canon(ret[1])))
                            elif ret:
                                exp = ("ty", tyconv.canon(ret[1]))
                            else:
                                exp = ("src", "0") if rann else "none"
                        else:
                            exp = ("src", "0") if sname == "replicate" else "none"
                        if gotr != exp:
                            chk.fail("return-" + sname, dict(case, annotated=rann, got=sexp.dumps(gotr), expected=sexp.dumps(exp)))
                        chk.nontriv("ret|%s|%s|%s" % (sname, rann, combo))
                        reqs.append(("updateReturn", sname, "0" if rann else "none", ret[1] if ret else "none", yld[1] if yld else "none"))
                        meta.append(("corr.C13.updateReturn", case, gotr))
                    if len(cli_jobs) < (6 if quick else 200):
                        cli_jobs.append((name, path, fm, trace, traced, combo))
                # a history: the same generator once returning a value and once running off its end (NoneType return); the
                # traced return is Generator[Y, None, Optional[R]] (both observed returns), for an unannotated return in
                # every mode and for an annotated one under `ignore`
                R, Y = chk.rng.choice(traced_types[:4]), chk.rng.choice(traced_types[:4])
                hist = [CallTrace(func, {}, R[0], Y[0]), CallTrace(func, {}, type(None), Y[0])]
                chk.rng.shuffle(hist)
                rsrc = sig.return_annotation
                rann = rsrc is not inspect.Signature.empty
                for sname, sval in strategies:
                    chk.evaluations += 1
                    case = {"module": name, "function": fm["qual"], "strategy": sname, "history": "yield+return, yield+None return"}
                    try:
                        defn = get_updated_definition(func, (t for t in hist), 0, None, sval)      # a one-shot iterable
                    except Exception as e:
                        chk.fail("error", dict(case, error=repr(e)))
                        continue
                    gotr = classify(defn.signature.return_annotation, inspect.Signature.empty, rsrc, tbl)
                    if rann and sname != "ignore":
                        exp = ("src", "0") if sname == "replicate" else "none"
                    else:
                        exp = ("ty", ("generator", tyconv.canon(Y[1]), ("cls", "9"), tyconv.canon(("union", R[1], ("cls", "9")))))
                    if gotr != exp:
                        chk.fail("return-history-" + sname, dict(case, annotated=rann, got=sexp.dumps(gotr), expected=sexp.dumps(exp)))
                    chk.nontriv("ret-history|%s|%s" % (sname, rann))
        for g, (rel, case, got) in zip(drv.ask_many(reqs), meta):
            gm = g if isinstance(g, str) else ((g[0], g[1]) if g[0] == "src" else ("ty", tyconv.canon(g[1])))
            chk.rel(rel, gm == got, dict(case, impl=sexp.dumps(got), model=sexp.dumps(gm)))
        # the real CLI with each flag: presence / absence of annotations per position agrees with the API
        cli_check(chk, pd, cli_jobs)
        kept_text(chk, pd, seed)
        from .. import keptmix
        keptmix.run(chk, pd, seed, "kept-and-traced")
        # whole functions: the real get_updated_definition / shrink_traced_types against Model/FuncDef.lean
        from .. import funcdef_corr
        funcdef_corr.run(chk, drv, tbl, pd, seed, "corr.C13", 150 if quick else 3000)
        chk.sample({"annotations": ANNOS, "return_combinations": RET_COMBOS, "strategies": [s for s, _ in strategies]})
    finally:
        pd.close()
        drv.close()
    return chk.finish(proof, None)


def cli_check(chk, pd, jobs):
    from monkeytype import cli
    from monkeytype.db.sqlite import SQLiteStore
    cfgsrc = ("import os\nfrom monkeytype.config import DefaultConfig\nfrom monkeytype.db.sqlite import SQLiteStore\n\n\n"
              "class Cfg(DefaultConfig):\n    def trace_store(self):\n        return SQLiteStore.make_store(os.environ['C13_DB'])\n\n\nCONFIG = Cfg()\n")
    cfgname = "c13cfg_%d" % os.getpid()
    pd.load(cfgname, cfgsrc)
    for name, path, fm, trace, traced, combo in jobs:
        db = os.path.join(pd.dir, "c13_%s_%s.sqlite3" % (name, fm["qual"].replace(".", "_")))
        if os.path.exists(db):
            os.unlink(db)
        os.environ["C13_DB"] = db
        SQLiteStore.make_store(db).add([trace])
        for flag, sname in (([], "replicate"), (["--omit-existing-annotations"], "omit"), (["--ignore-existing-annotations"], "ignore")):
            out, err = io.StringIO(), io.StringIO()
            chk.evaluations += 1
            rc = cli.main(["-c", cfgname + ":CONFIG", "--disable-type-rewriting", "stub", name + ":" + fm["qual"]] + flag, out, err)
            case = {"module": name, "function": fm["qual"], "flag": flag, "traced": sorted(traced), "combo": combo}
            if rc != 0:
                chk.fail("cli", dict(case, rc=rc, stderr=err.getvalue()[-300:]))
                continue
            try:
                tree = ast.parse(out.getvalue())
            except SyntaxError as e:
                chk.fail("cli-parse", dict(case, stub=out.getvalue(), error=repr(e)))
                continue
            fn = next(n for n in ast.walk(tree) if isinstance(n, (ast.FunctionDef, ast.AsyncFunctionDef)) and n.name == fm["qual"].split(".")[-1])
            args = fn.args.posonlyargs + fn.args.args + fn.args.kwonlyargs
            for a in args:
                pm = next((m for m in fm["params"] if m["name"] == a.arg), None)
                if pm is None:
                    continue
                annotated, tr = pm["anno"] is not None, a.arg in traced
                has = a.annotation is not None
                want = {"replicate": annotated or tr, "omit": (not annotated) and tr, "ignore": tr}[sname]
                if has != want:
                    chk.fail("cli-" + sname, dict(case, param=a.arg, annotated=annotated, traced=tr, has_annotation=has, stub=out.getvalue()))


def replay(path, args):
    data = json.load(open(path))
    print(json.dumps(data.get("case") or data.get("disagreements"), indent=1, default=str)[:3000])
    return 1
