"""C14 — stub content depends only on the set of traces, not their order or process."""
import ast
import concurrent.futures
import itertools
import collections
import json
import sqlite3
import os
import subprocess
import sys

from .. import classes, framework, leanio, programs, sexp, tyconv
from ..sexp import Q

RULE = ("trace multisets = pools of distinct traces of a fixture module (plain values; dicts that become TypedDicts and merge with "
        "required/optional keys; generator, method, Optional, nested containers; two functions whose same-named parameter gets "
        "different TypedDicts; a >5-member union of classes with multiple inheritance) x stores built from permutations, duplications "
        "and batch/connection splits of the pool x k in {0, 3} x {default rewriter, --disable-type-rewriting} x `stub` run in fresh "
        "interpreter processes with different PYTHONHASHSEED values. All runs of one (pool, k, rewriter) must give the same stub up to "
        "the order of union members (ast-canonicalised). Non-trivial = a pool whose stub contains a union, a TypedDict class or an "
        "Optional; distinct = distinct (pool, k, rewriter, store variant, hash seed).")

MODULE = '''
import collections.abc as _abc
import typing as _typing


class P:
    pass


class Q:
    pass


class X(P, Q):
    pass


class Y(Q, P):
    pass


class Z(P, Q):
    pass


class X2(X):
    pass


class Y2(Y):
    pass


class Z2(Z):
    pass


class Drawable(_typing.Protocol):
    def draw(self):
        ...


class Shape:
    pass


class Circle(Shape, Drawable):
    def draw(self):
        return 1


class Line(Shape):
    pass


class Arc(Shape):
    pass


class Dot(Shape):
    pass


class Blob(Shape):
    pass


class Ring(Shape):
    pass


class Sized0(_abc.Sized):
    def __len__(self):
        return 0


class L1:
    def __len__(self):
        return 1


class L2(L1):
    pass


class L3(L1):
    pass


class L4(L1):
    pass


class L5(L1):
    pass


def f(a, b=None):
    return a


def h(a):
    return a


def g(n):
    yield n


class K:
    def m(self, x):
        return x
'''

CFG = '''
import os
from monkeytype.config import DefaultConfig
from monkeytype.db.sqlite import SQLiteStore


class Cfg(DefaultConfig):
    def trace_store(self):
        return SQLiteStore.make_store(os.environ["C14_DB"])

    def max_typed_dict_size(self):
        return int(os.environ["C14_K"])


CONFIG = Cfg()
'''


def pools(mod, k):
    """name -> list of (func, args values dict, return value, yield value or None); types are inferred with get_type"""
    def T(func, args, ret, yld=None):
        return (func, args, ret, yld)
    return {
        "plain": [T(mod.f, {"a": 1, "b": None}, 1), T(mod.f, {"a": "s", "b": 2}, "s"), T(mod.f, {"a": [1, 2], "b": None}, [1]),
                  T(mod.f, {"a": [], "b": 1.5}, None), T(mod.h, {"a": (1, "x")}, (1, "x")), T(mod.h, {"a": {1: "a"}}, {1: "a"})],
        "typed_dicts": [T(mod.f, {"a": {"x": 1}, "b": None}, {"r": 1}), T(mod.f, {"a": {"x": "s", "y": 2}, "b": None}, {"r": None}),
                        T(mod.f, {"a": {"y": 2.5}, "b": [{"q": 1}, {"q": 2, "w": "s"}]}, {"r": 1, "t": [1]}),
                        T(mod.h, {"a": [{"m": 1}, {"n": 2}]}, ({"u": 1}, 3))],
        "kinds": [T(mod.g, {"n": 3}, None, 1), T(mod.g, {"n": "s"}, None, "s"), T(mod.g, {"n": None}, None, None),
                  T(mod.K.m, {"self": mod.K(), "x": {1, 2}}, {1}), T(mod.K.m, {"self": mod.K(), "x": None}, None),
                  T(mod.K.m, {"self": mod.K(), "x": {"k": [None, 1]}}, [])],
        "td_name_collision": [T(mod.f, {"a": {"p": 1}, "b": None}, 1), T(mod.h, {"a": {"z": 1.5}}, 2)],
        # two functions with the same parameter name, each seen with the same partially overlapping dict shapes: at k = 3 both
        # get a generated class of the same name and the same fields, with two optional keys
        "shared_td_param": [T(mod.f, {"a": {"x": 1, "p": 1}, "b": None}, 1), T(mod.f, {"a": {"x": 1, "q": "s"}, "b": None}, 1),
                            T(mod.h, {"a": {"x": 1, "p": 1}}, 2), T(mod.h, {"a": {"x": 1, "q": "s"}}, 2),
                            T(mod.f, {"a": {"x": 1}, "b": None}, 1), T(mod.h, {"a": {"x": 1}}, 2)],
        "mi_large_union": [T(mod.h, {"a": c()}, 0) for c in (mod.X, mod.Y, mod.Z, mod.X2, mod.Y2, mod.Z2)],
        # a Protocol that is not runtime-checkable among the bases of one member (issubclass refuses it), and an ABC with a
        # __subclasshook__ in the MRO of one member only (the others are virtual subclasses)
        "protocol_large_union": [T(mod.h, {"a": c()}, 0) for c in (mod.Circle, mod.Line, mod.Arc, mod.Dot, mod.Blob, mod.Ring)],
        "virtual_abc_union": [T(mod.h, {"a": c()}, 0) for c in (mod.Sized0, mod.L1, mod.L2, mod.L3, mod.L4, mod.L5)],
        # a store that also holds a row of `h` whose argument class no longer exists (inserted below, dated at random): the
        # decodable rows of `h` must reach the stub wherever the stale row comes in the result
        "stale_row": [T(mod.h, {"a": 1}, 1), T(mod.h, {"a": "s"}, None), T(mod.h, {"a": 2.5}, [1]), T(mod.f, {"a": 1, "b": None}, 1)],
        # positions that only ever see containers of two kinds (lists and sets, tuples of two lengths, dict and defaultdict)
        "container_families": [T(mod.h, {"a": [1, 2]}, (1,)), T(mod.h, {"a": {"s"}}, ("s", 2)), T(mod.h, {"a": ["x"]}, {"k": 1}),
                               T(mod.h, {"a": {2.5}}, collections.defaultdict(int, {"k": 1}))],
    }


def canon_stub(text):
    """ast dump with the members of every Union[...] / Optional[Union[...]] subscript sorted"""
    tree = ast.parse(text)

    class Sorter(ast.NodeTransformer):
        def visit_Subscript(self, node):
            self.generic_visit(node)
            if isinstance(node.value, ast.Name) and node.value.id == "Union" and isinstance(node.slice, ast.Tuple):
                node.slice.elts = sorted(node.slice.elts, key=ast.dump)
            return node
    tree = Sorter().visit(tree)
    return ast.dump(tree)


def run(pid, tier, seed):
    chk = framework.Check(pid, tier, seed)
    chk.rule = RULE
    chk.assumptions = ["set/dict iteration order, PYTHONHASHSEED and memory layout are varied by running `stub` in fresh interpreter processes with different hash seeds "
                       "and stores filled in different orders; in the Lean theorems they are an arbitrary permutation / duplication of a list"]
    chk.partial = ("proved up to and including the merge (shrink_set: same members in -> == types out); that the rewriters and the renderer map == types to "
                   "the same text up to member order is observed across processes here, not proved")
    proof = framework.lean_check(pid)
    quick = tier == "quick"
    from monkeytype.db.sqlite import SQLiteStore
    from monkeytype.tracing import CallTrace
    from monkeytype.typing import get_type
    tbl = classes.ClassTable()
    drv = leanio.LeanDriver()
    pd = programs.ProgramDir("mtv_c14_")
    try:
        modname = "c14mod_%d" % (seed % 1000)
        cfgname = "c14cfg_%d" % (seed % 1000)
        mod, _ = pd.load(modname, MODULE)
        pd.load(cfgname, CFG)
        jobs = []
        meta = {}
        for k in (0, 3):
            for pname, pool in pools(mod, k).items():
                traces = [CallTrace(f, {n: get_type(v, k) for n, v in a.items()}, None if (r is None and y is not None) else get_type(r, k),
                                    None if y is None and f is not mod.g else get_type(y, k)) for f, a, r, y in pool]
                variants = []
                perms = list(itertools.permutations(range(len(traces))))
                chk.rng.shuffle(perms)
                for vi, perm in enumerate([tuple(range(len(traces)))] + perms[: (2 if quick else 8)]):
                    order = [traces[i] for i in perm]
                    if vi % 3 == 1:
                        order = order + [order[0], order[-1]]                 # duplicated rows
                    split = chk.rng.randrange(1, len(order) + 1) if vi % 2 else len(order)
                    variants.append((vi, order[:split], order[split:]))
                for vi, b1, b2 in variants:
                    db = os.path.join(pd.dir, "c14_%s_%d_%d.sqlite3" % (pname, k, vi))
                    s1 = SQLiteStore.make_store(db)
                    s1.add(b1)
                    if b2:
                        SQLiteStore.make_store(db).add(b2)                     # second batch through another connection
                    if vi > 0:
                        # recorded on different days: the query orders by date, so the rows come back in another order
                        conn = sqlite3.connect(db)
                        ids = [r[0] for r in conn.execute("select rowid from monkeytype_call_traces")]
                        for rid in ids:
                            conn.execute("update monkeytype_call_traces set created_at = ? where rowid = ?",
                                         ("2024-01-%02d 10:00:00.000000" % chk.rng.randrange(1, 6), rid))
                        conn.commit()
                        conn.close()
                    if pname == "stale_row":
                        conn = sqlite3.connect(db)
                        stale = json.dumps({"a": {"module": modname, "qualname": "GoneClass"}})
                        when = "2000-01-01 10:00:00.000000" if vi == 0 else "2024-01-%02d 10:00:00.000000" % chk.rng.randrange(1, 7)
                        if vi == 1:
                            when = "2030-01-01 10:00:00.000000"       # the stale row is the newest: it comes first
                        conn.execute("insert into monkeytype_call_traces values (?, ?, ?, ?, ?, ?)",
                                     (when, modname, "h", stale, json.dumps({"module": "builtins", "qualname": "int"}), None))
                        conn.commit()
                        conn.close()
                    for rew in ("default", "norewrite"):
                        for hs in ((0, 1) if quick else (0, 1, 2, 3, 7, 11, 42, 123)):
                            jobs.append((pname, k, rew, vi, hs, db, None))
                # the same traces recorded many times over (hot rows first, last, interleaved), queried with `--limit` = the
                # number of DISTINCT traces: duplicates do not count against the limit, so the stub is the same
                from monkeytype.encoding import CallTraceRow
                distinct = len({(r.module, r.qualname, r.arg_types, r.return_type, r.yield_type) for r in map(CallTraceRow.from_trace, traces)})
                for vi, order in ((100, [traces[0]] * 7 + traces[1:]), (101, traces[1:] + [traces[0]] * 7),
                                  (102, [t for t in traces for _ in range(3)]), (103, traces * 3)):
                    db = os.path.join(pd.dir, "c14_%s_%d_%d.sqlite3" % (pname, k, vi))
                    st = SQLiteStore.make_store(db)
                    for t in order:
                        st.add([t])
                    for rew in ("default", "norewrite"):
                        jobs.append((pname, k, rew, vi, 0, db, distinct))
        env0 = dict(os.environ, PYTHONPATH=framework.REPO + os.pathsep + pd.dir)

        def run_job(job):
            pname, k, rew, vi, hs, db, limit = job
            env = dict(env0, C14_DB=db, C14_K=str(k), PYTHONHASHSEED=str(hs))
            argv = ([sys.executable, "-m", "monkeytype", "-c", cfgname + ":CONFIG"] + (["--disable-type-rewriting"] if rew == "norewrite" else []) +
                    (["--limit", str(limit)] if limit is not None else []) + ["stub", modname])
            p = subprocess.run(argv, env=env, capture_output=True, text=True, timeout=120, cwd=pd.dir)
            return job, p.returncode, p.stdout, p.stderr
        with concurrent.futures.ThreadPoolExecutor(max_workers=12) as ex:
            results = list(ex.map(run_job, jobs))
        groups = {}
        for job, rc, out, err in results:
            chk.evaluations += 1
            pname, k, rew, vi, hs, db, limit = job
            case = {"pool": pname, "k": k, "rewriter": rew, "variant": vi, "hashseed": hs, "limit": limit}
            if rc != 0:
                chk.fail("stub-error", dict(case, stderr=err[-400:]))
                continue
            try:
                c = canon_stub(out)
            except SyntaxError as e:
                chk.fail("invalid-python", dict(case, stub=out[:800], error=repr(e)))
                continue
            groups.setdefault((pname, k, rew), []).append((case, c, out))
            chk.nontriv("%s|%d|%s|%d|%d" % (pname, k, rew, vi, hs))
        for (pname, k, rew), runs in sorted(groups.items()):
            ref_case, ref_c, ref_out = runs[0]
            chk.count("pool.%s.k%d.%s.runs" % (pname, k, rew), len(runs))
            distinct = {c for _, c, _ in runs}
            if len(distinct) > 1:
                other = next((case, out) for case, c, out in runs if c != ref_c)
                finding = None   # no open finding: the store returns rows GROUP BY-sorted, which masks the library-level order dependence
                chk.fail("order-dependent", {"pool": pname, "k": k, "rewriter": rew, "distinct_stubs": len(distinct),
                                             "run_a": ref_case, "stub_a": ref_out[:700], "run_b": other[0], "stub_b": other[1][:700]},
                         finding=finding)
            if len(chk.samples) < 2 and pname == "typed_dicts" and k == 3:
                chk.sample({"pool": pname, "k": k, "rewriter": rew, "runs": len(runs), "stub": ref_out[:500]})
        module_render_correspondence(chk, drv, quick)
        # traced_types_depend_on_the_set speaks about Model/FuncDef's shrinkTraced: tied to the real shrink_traced_types here
        from .. import funcdef_corr
        funcdef_corr.run(chk, drv, tbl, pd, seed, "corr.C14", 60 if quick else 2000)
        # the known-finding predicates hold of their pools in the model (so the attribution above is not blind)
        g = drv.ask(("tdNames", Q("a"), ("td", ((Q("p"), ("cls", "11")),), ())))
        g2 = drv.ask(("tdNames", Q("a"), ("td", ((Q("z"), ("cls", "13")),), ())))
        chk.rel("corr.C14.kf_collision_predicate", [str(x) for x in g[0]] == [str(x) for x in g2[0]] and len(g[0]) == 1,
                {"model": sexp.dumps(g)})
    finally:
        pd.close()
        drv.close()
    return chk.finish(proof, None)


def module_render_correspondence(chk, drv, quick):
    """K corr.C14.moduleRender: `ModuleStub.render` against the model's `renderModule` (block order and joining), on module stubs
    whose generated TypedDict classes (same-named ones included), functions and classes are handed over in shuffled order;
    and, on the implementation, every shuffle of one module stub must render the same text."""
    import inspect
    from monkeytype.stubs import AttributeStub, ClassStub, FunctionKind, FunctionStub, ImportBlockStub, ModuleStub
    rng = chk.rng
    names_td = ["ATypedDict__RENAME_ME__", "ATypedDict__RENAME_ME__NonTotal", "BTypedDict__RENAME_ME__", "A2TypedDict__RENAME_ME__", "aTypedDict__RENAME_ME__",
                "ÄTypedDict__RENAME_ME__", "A_TypedDict__RENAME_ME__"]
    fields = ["p", "z", "q", "P", "é", "a1", "a_"]
    tys = [int, str, float, bytes]
    reqs, meta = [], []
    for it in range(40 if quick else 1500):
        tds = []
        for _ in range(rng.randrange(0, 6)):
            n = rng.choice(names_td[:3] if rng.random() < 0.6 else names_td)       # collisions are frequent
            attrs = [AttributeStub(f, rng.choice(tys)) for f in rng.sample(fields, rng.randrange(1, 4))]
            tds.append(ClassStub(n + "(TypedDict)", attribute_stubs=attrs))
        fnames = rng.sample(["f", "g", "F", "f2", "f_", "_f", "é", "ff"], rng.randrange(0, 5))
        funcs = [FunctionStub(n, inspect.Signature([inspect.Parameter("a", inspect.Parameter.POSITIONAL_OR_KEYWORD, annotation=rng.choice(tys))],
                                                   return_annotation=rng.choice(tys)), FunctionKind.MODULE) for n in fnames]
        cnames = rng.sample(["K", "k", "K2", "K_", "Base"], rng.randrange(0, 4))
        classes = [ClassStub(n, function_stubs=[FunctionStub("m", inspect.Signature([inspect.Parameter("self", inspect.Parameter.POSITIONAL_OR_KEYWORD)]),
                                                             FunctionKind.INSTANCE)]) for n in cnames]
        imps = ImportBlockStub({"typing": {"List"}}) if rng.random() < 0.5 else None
        texts = set()
        first = None
        for sh in range(4):
            for l in (tds, funcs, classes):
                rng.shuffle(l)
            text = ModuleStub(function_stubs=list(funcs), class_stubs=list(classes), imports_stub=imps, typed_dict_class_stubs=list(tds)).render()
            texts.add(text)
            first = first or text
            chk.evaluations += 1
        case = {"typed_dict_classes": [(c.name, c.render()) for c in tds], "functions": fnames, "classes": cnames}
        if len(texts) != 1:
            chk.fail("render-order-dependent", dict(case, detail="the same stubs handed to ModuleStub in another order render differently",
                                                    texts=sorted(texts)[:2]))
        pair = lambda st: (Q(st.name), Q(st.render()))
        reqs.append(("renderModule", Q(imps.render()) if imps is not None and imps.imports else "none",
                     tuple(pair(c) for c in tds), tuple(pair(f) for f in funcs), tuple(pair(c) for c in classes)))
        meta.append((case, text))
        if len({c.name for c in tds}) < len(tds):
            chk.nontriv("render|%d" % it)
    for g, (case, text) in zip(drv.ask_many(reqs), meta):
        chk.rel("corr.C14.moduleRender", str(g) == text, dict(case, impl=text[:600], model=str(g)[:600]))


def replay(path, args):
    data = json.load(open(path))
    print(json.dumps(data.get("case") or data.get("disagreements"), indent=1, default=str)[:3000])
    return 1
