"""C15 — apply only adds annotations and imports; the program is otherwise untouched.
   (shares its machinery with C16: `run(pid, ...)` is used for both)"""
import ast
import json

from .. import applygen, framework, leanio, programs, sexp
from ..sexp import Q

RULE15 = ("sources = generated modules (docstring / comment / __future__ headers, a random subset of `import x`, `import a.b`, "
          "`from m import n as k`, star and multi-name imports, an existing TYPE_CHECKING block, function-local imports, decorators, "
          "comments, nested defs, partial existing annotations, defaults, class- and module-level code) x stubs MonkeyType generates from "
          "traces over helper-module classes, typing generics, collections.OrderedDict and (k=3) TypedDicts x overwrite in {False, True} x "
          "k in {0, 3} x confinement in {off, on}. Checked: the result parses; its AST with annotations, added imports, added "
          "TYPE_CHECKING blocks and generated TypedDict classes erased equals the original's; existing annotations unchanged unless "
          "overwriting; every stub annotation for an unannotated position is present; applying twice changes nothing. "
          "Non-trivial = a source with at least one existing annotation or import; distinct = distinct (source, overwrite, k, confinement).")
RULE16 = ("same sources and stubs as C15 with confinement on: the first statement after the docstring is `from __future__ import "
          "annotations`; every import the stub newly introduces that is not a typing name or the TypedDict base sits under "
          "`if TYPE_CHECKING:` and nowhere else; every import statement of the source (top level, after docstrings, inside functions, inside an "
          "existing TYPE_CHECKING block, aliased, star) is still there, unchanged, in place; the resulting module is imported in a fresh "
          "namespace and its workload gives the same result as before. Non-trivial = a source with imports; distinct as C15.")


def item_keys(tree):
    out = []
    for _, n in applygen.import_stmts(tree):
        for al in n.names:
            if isinstance(n, ast.Import):
                out.append((al.name, None, al.asname))
            elif al.name != "*":
                out.append((n.module, al.name, al.asname))
    return out


def to_item(k):
    return (Q(k[0]), "none" if k[1] is None else Q(k[1]), "none" if k[2] is None else Q(k[2]))


def run(pid, tier, seed):
    chk = framework.Check(pid, tier, seed)
    chk.rule = RULE15 if pid == "C15" else RULE16
    chk.assumptions = ["libcst's ApplyTypeAnnotationsVisitor / AddImportsVisitor do the rewriting; the Lean model covers MonkeyType's own logic "
                       "(C16: which imports are new / moved / removed) and the rest is judged on the result with ast",
                       "the module is imported for real (helper modules on sys.path) before and after"]
    chk.partial = ("mostly libcst behaviour, observed on generated cases: the weakest of the proof-level claims" if pid == "C15" else
                   "libcst's placement of imports and 'the module behaves as before' are observed (import + workload); MonkeyType's selection/removal logic is proved")
    proof = framework.lean_check(pid)
    quick = tier == "quick"
    from monkeytype.cli import apply_stub_using_libcst
    from monkeytype.stubs import ExistingAnnotationStrategy as S, build_module_stubs_from_traces
    drv = leanio.LeanDriver()
    pd = programs.ProgramDir("mtv_apply_")
    fx = applygen.Fixture(pd, "fx%d" % (seed % 1000))
    reqs, meta = [], []
    try:
        for si in range(10 if quick else 120):
            name = "applymod_%d_%d" % (seed % 1000, si)
            src, spec = applygen.gen_source(chk.rng, si)
            try:
                mod = fx.load(name, src)
                base_result = mod.run()
            except Exception as e:
                chk.notes.append("generated source unusable: %r" % (e,))
                continue
            orig = ast.parse(src)
            orig_ann = applygen.annotations_of(orig)
            orig_imps = applygen.import_keys(orig)
            for k in (0, 3):
                for overwrite in (False, True):
                    # without overwriting `apply` feeds libcst a stub that replicates the existing annotations (as MonkeyType
                    # renders them); `stub --omit-existing-annotations` leaves them out: both are exercised
                    strategy = S.IGNORE if overwrite else (S.REPLICATE if si % 2 == 0 else S.OMIT)
                    plain = si % 3 == 2          # every third source: a stub over builtins only, i.e. without any import
                    stub_text = build_module_stubs_from_traces(applygen.traces_for(mod, k, plain), k, strategy)[name].render()
                    if si % 5 == 1 and pid == "C16":
                        # a hand-edited stub: one user-module import aliased (C16 only: its clauses are about import items;
                        # libcst may render the annotation through another import of the source, which C15 compares textually)
                        stub_text = alias_one_import(stub_text, src)
                    stub_tree = ast.parse(stub_text)
                    stub_ann = applygen.annotations_of(stub_tree)
                    for confine in ((False, True) if pid == "C15" else (True,)):
                        chk.evaluations += 1
                        case = {"source": name, "k": k, "overwrite": overwrite, "confine": confine, "spec": spec, "plain_stub": plain}
                        try:
                            out = apply_stub_using_libcst(stub_text, src, overwrite, confine)
                        except Exception as e:
                            chk.fail("apply-error", dict(case, error=repr(e)[:500], stub=stub_text[:600]))
                            continue
                        try:
                            res = ast.parse(out)
                        except SyntaxError as e:
                            chk.fail("invalid-python", dict(case, error=repr(e), result=out[:1200]))
                            continue
                        if spec["picks"] or any(v is not None for v in orig_ann.values()):
                            chk.nontriv("%s|%s|%s|%s" % (name, k, overwrite, confine))
                        if pid == "C15":
                            check15(chk, case, src, orig, orig_ann, orig_imps, stub_ann, stub_text, out, res, overwrite, confine, apply_stub_using_libcst)
                        else:
                            check16(chk, case, fx, name, src, orig, stub_tree, out, res, base_result, reqs, meta, si, k, overwrite)
                        if len(chk.samples) < 1 and confine and k == 3:
                            chk.sample(dict(case, result_head=out[:600]))
        remover_correspondence(chk, drv, quick)
        if pid == "C15":
            on_disk(chk, seed)
        for g, (case, in_block) in zip(drv.ask_many(reqs), meta):
            model = sorted((str(i[0]), None if i[1] == "none" else str(i[1])) for i in g)
            chk.rel("corr.C16.movable", model == sorted(in_block), dict(case, impl=sorted(in_block), model=model))
    finally:
        fx.close()
        pd.close()
        drv.close()
    return chk.finish(proof, None)


ON_DISK_CFG = (
    "import os\nfrom monkeytype.config import DefaultConfig\nfrom monkeytype.db.sqlite import SQLiteStore\n\n\n"
    "class Cfg(DefaultConfig):\n    def trace_store(self):\n        return SQLiteStore.make_store(os.environ['C15_DB'])\n\n\nCONFIG = Cfg()\n")


def on_disk(chk, seed):
    """`monkeytype apply` on files as they are on disk (the CLI handler reads and rewrites the file itself): sources in ASCII,
    in UTF-8 with non-ASCII literals, with a BOM, and with a latin-1 / cp1252 coding cookie.  Either the command refuses and
    the file is untouched, or the file - read back the way Python reads it, coding cookie honoured - has the same bodies,
    string literals included."""
    import importlib
    import io
    import os
    import shutil
    import sys
    import tempfile
    import tokenize
    from monkeytype import cli
    from monkeytype.db.sqlite import SQLiteStore
    from monkeytype.tracing import CallTrace
    d = tempfile.mkdtemp(prefix="mtv_c15disk_")
    tag = "c15d%d_%d" % (os.getpid(), seed % 100000)
    body = ('def greet(name, times=1):\n    """Dit bonjour \u00e0 quelqu\'un."""\n    return "caf\u00e9 " + name * times\n\n\n'
            'LABEL = "na\u00efve \u00a3"\n')
    variants = [("ascii", "def greet(name, times=1):\n    return 'hi ' + name * times\n\n\nLABEL = 'x'\n", "ascii", b""),
                ("utf8", body, "utf-8", b""), ("utf8_bom", body, "utf-8", b"\xef\xbb\xbf"),
                ("latin1_cookie", "# -*- coding: latin-1 -*-\n" + body, "latin-1", b""),
                ("cp1252_cookie", "# coding: cp1252\n" + body, "cp1252", b"")]
    sys.path.insert(0, d)
    try:
        open(os.path.join(d, tag + "_cfg.py"), "w").write(ON_DISK_CFG)
        for vname, text, enc, prefix in variants:
            name = "%s_%s" % (tag, vname)
            path = os.path.join(d, name + ".py")
            raw = prefix + text.encode(enc)
            open(path, "wb").write(raw)
            importlib.invalidate_caches()
            mod = importlib.import_module(name)
            db = os.path.join(d, name + ".sqlite3")
            SQLiteStore.make_store(db).add([CallTrace(mod.greet, {"name": str, "times": int}, str)])
            os.environ["C15_DB"] = db
            out, err = io.StringIO(), io.StringIO()
            chk.evaluations += 1
            case = {"on_disk": vname, "encoding": enc}
            try:
                rc, exc = cli.main(["-c", tag + "_cfg:CONFIG", "apply", name], out, err), None
            except BaseException as e:
                rc, exc = None, e
            after = open(path, "rb").read()
            chk.count("on_disk.%s.%s" % (vname, "applied" if rc == 0 else "refused"))
            if rc != 0:
                if after != raw:
                    chk.fail("on-disk-refused-but-changed", dict(case, rc=rc, error=repr(exc)[:200], stderr=err.getvalue()[-300:]))
                continue
            try:
                with tokenize.open(path) as f:
                    new_text = f.read()
                new_tree = ast.parse(new_text)
            except Exception as e:
                chk.fail("on-disk-unreadable", dict(case, error=repr(e)[:300]))
                continue
            old_tree = ast.parse(text)

            def bodies(tree):
                res = {}
                for n in tree.body:
                    if isinstance(n, (ast.FunctionDef, ast.AsyncFunctionDef)):
                        res[n.name] = [ast.dump(x) for x in n.body]
                    elif not isinstance(n, (ast.Import, ast.ImportFrom)):
                        res.setdefault("<module>", []).append(ast.dump(n))
                return res
            if bodies(new_tree) != bodies(old_tree):
                lits = lambda t: [c.value for c in ast.walk(t) if isinstance(c, ast.Constant) and isinstance(c.value, str)]
                chk.fail("on-disk-bodies", dict(case, literals_before=lits(old_tree), literals_after=lits(new_tree)))
            fn = next(n for n in new_tree.body if isinstance(n, ast.FunctionDef))
            if fn.returns is None:
                chk.fail("on-disk-not-applied", dict(case, result=new_text[:400]))
            chk.nontriv("on-disk|" + vname)
    finally:
        sys.path.remove(d)
        for m in [m for m in sys.modules if m.startswith(tag)]:
            del sys.modules[m]
        shutil.rmtree(d, ignore_errors=True)


def alias_one_import(stub_text, src=""):
    """`from m import Name` (m not typing / mypy_extensions) -> `from m import Name as NameFromStub`, references renamed;
    an import of a module the source does not mention is preferred (libcst renders a class of a module the source imports
    as `module.Name`, and the aliased name then goes unused)"""
    import re
    cands = list(re.finditer(r"^from (?!typing\b|mypy_extensions\b)([\w.]+) import (\w+)$", stub_text, re.M))
    plain = set(re.findall(r"^\s*import\s+([\w.]+)", src, re.M)) | {x.strip().split(" ")[0] for l in re.findall(r"^\s*import\s+(.+)$", src, re.M) for x in l.split(",")}
    cands.sort(key=lambda m: (m.group(1) in plain or m.group(1).split(".")[0] in plain, m.group(2) in src))
    for m in cands:
        name = m.group(2)
        alias = name + "FromStub"
        head, tail = stub_text[:m.end()], stub_text[m.end():]
        out = head + " as " + alias + re.sub(r"(?<![\w.])%s\b" % re.escape(name), alias, tail)
        try:
            ast.parse(out)
        except SyntaxError:
            continue
        return out
    return stub_text


def stmt_sexp(s):
    opt = lambda a: "none" if a is None else Q(a)
    h = s[0]
    if h == "importMod":
        return ("importMod",) + tuple((Q(n), opt(a)) for n, a in s[1:])
    if h == "importFrom":
        return ("importFrom", Q(s[1])) + tuple((Q(n), opt(a)) for n, a in s[2:])
    if h == "importStar":
        return ("importStar", Q(s[1]))
    if h == "other":
        return ("other", str(s[1]))
    return ("block", str(s[1])) + tuple(stmt_sexp(x) for x in s[2:])


def sexp_stmt(g):
    opt = lambda a: None if a == "none" else str(a)
    h = str(g[0])
    if h == "importMod":
        return ("importMod",) + tuple((str(n), opt(a)) for n, a in g[1:])
    if h == "importFrom":
        return ("importFrom", str(g[1])) + tuple((str(n), opt(a)) for n, a in g[2:])
    if h == "importStar":
        return ("importStar", str(g[1]))
    if h == "other":
        return ("other", int(g[1]))
    return ("block", int(g[1])) + tuple(sexp_stmt(x) for x in g[2:])


def remover_correspondence(chk, drv, quick):
    """RemoveImportsTransformer (real, through libcst) vs the Lean `removeStmts` on random statement trees of any nesting and
    random item lists (items of the tree, module items, aliased variants, unrelated ones)"""
    import libcst
    from libcst.codemod.visitors import ImportItem
    from monkeytype.type_checking_imports_transformer import RemoveImportsTransformer
    rng = chk.rng
    reqs, meta = [], []
    for _ in range(150 if quick else 3000):
        tree = applygen.gen_stmt_tree(rng, 3)
        present = applygen.stmt_items(tree)
        moved = []
        for _ in range(rng.choice([0, 1, 2, 3, 5])):
            r = rng.random()
            if present and r < 0.6:
                m, o, a = rng.choice(present)
                m = m.lstrip(".") or rng.choice(applygen.MODS)     # a stub's imports are absolute
                if rng.random() < 0.25:
                    a = rng.choice(applygen.ALIASES)          # same item, other alias
                if rng.random() < 0.15:
                    o = None if o is not None else rng.choice(applygen.NAMES)
                moved.append((m, o, a))
            else:
                moved.append((rng.choice(applygen.MODS), rng.choice([None] + applygen.NAMES), rng.choice(applygen.ALIASES)))
        src = applygen.stmts_to_source(tree) + "\n"
        try:
            out = libcst.parse_module(src).visit(RemoveImportsTransformer(
                [ImportItem(m, obj_name=o, alias=a) for m, o, a in moved])).code
            impl = applygen.source_to_stmts(out)
        except Exception as e:
            impl = ("error", repr(e)[:200])
        reqs.append(("removeStmts", tuple(to_item(i) for i in moved), tuple(stmt_sexp(x) for x in tree)))
        meta.append(({"source": src[:800], "moved": [list(i) for i in moved]}, impl))
    for g, (case, impl) in zip(drv.ask_many(reqs), meta):
        model = [sexp_stmt(x) for x in g]
        chk.rel("corr.C16.removeStmts", model == list(impl), dict(case, impl=repr(impl)[:800], model=repr(model)[:800]))


def check15(chk, case, src, orig, orig_ann, orig_imps, stub_ann, stub_text, out, res, overwrite, confine, apply_fn):
    orig_tc = None
    a = ast.dump(applygen.erase(ast.parse(src), orig_imps, orig_tc))
    b = ast.dump(applygen.erase(ast.parse(out), orig_imps, orig_tc))
    if a != b:
        chk.fail("program-changed", dict(case, detail="AST differs beyond annotations / added imports / generated TypedDict classes",
                                         result=out[:1500]))
    res_ann = applygen.annotations_of(res)
    for pos, oa in orig_ann.items():
        ra = res_ann.get(pos, "<missing def>")
        sa = stub_ann.get(pos)
        if oa is not None and not overwrite and unq(ra) != unq(oa):
            chk.fail("existing-annotation-changed", dict(case, position=list(pos), before=oa, after=ra))
        if oa is None and sa is not None and unq(ra) != unq(sa):
            chk.fail("stub-annotation-missing", dict(case, position=list(pos), stub=sa, after=ra))
        if oa is not None and overwrite and sa is not None and unq(ra) != unq(sa):
            chk.fail("overwrite-not-applied", dict(case, position=list(pos), stub=sa, after=ra))
    try:
        again = apply_fn(stub_text, out, overwrite, confine)
        if again != out:
            import difflib
            d = "".join(list(difflib.unified_diff(out.splitlines(True), again.splitlines(True)))[:30])
            chk.fail("not-idempotent", dict(case, diff=d),
                     finding="KF-C15-overwrite-confined-reapply" if (overwrite and confine and readds_confined(out, again)) else None)
    except Exception as e:
        chk.fail("second-apply-error", dict(case, error=repr(e)[:400]))


def readds_confined(out, again):
    """the known re-application behaviour and nothing else: apart from top-level imports the two results are
    the same program, no top-level import item is lost, and every top-level import item the second result gains
    is one the first result already has inside an `if TYPE_CHECKING:` block"""
    def items(stmts):
        r = set()
        for x in stmts:
            if isinstance(x, ast.Import):
                r |= {("import", a.name, a.asname) for a in x.names}
            elif isinstance(x, ast.ImportFrom):
                r |= {(x.module, a.name, a.asname) for a in x.names}
        return r
    def split(text):
        body = ast.parse(text).body
        confined = set()
        for n in body:
            if isinstance(n, ast.If) and "TYPE_CHECKING" in ast.unparse(n.test):
                confined |= items(n.body)
        rest = [ast.dump(n) for n in body if not isinstance(n, (ast.Import, ast.ImportFrom))]
        return items(body), confined, rest
    t1, c1, r1 = split(out)
    t2, _, r2 = split(again)
    return r1 == r2 and t1 <= t2 and bool(t2 - t1) and (t2 - t1) <= c1


def unq(s):
    """annotation text modulo the quotes of forward references and the module qualification of names
    (libcst writes collections.OrderedDict when the source has `import collections`)"""
    import re
    return None if s is None else re.sub(r"\b(?:[A-Za-z_]\w*\.)+([A-Za-z_]\w*)", r"\1", s.replace("'", "").replace('"', ""))


def check16(chk, case, fx, name, src, orig, stub_tree, out, res, base_result, reqs, meta, si, k, overwrite):
    body = [n for n in res.body if not (isinstance(n, ast.Expr) and isinstance(getattr(n, "value", None), ast.Constant)
                                        and isinstance(n.value.value, str))]
    first = body[0] if body else None
    if not (isinstance(first, ast.ImportFrom) and first.module == "__future__" and any(a.name == "annotations" for a in first.names)):
        chk.fail("future-first", dict(case, first=ast.unparse(first) if first else None))
    # source imports stay where they were
    oi = [(p, ast.dump(n)) for p, n in applygen.import_stmts(orig) if not (isinstance(n, ast.ImportFrom) and n.module == "__future__")]
    ri = [(p, n) for p, n in applygen.import_stmts(res)]
    pos = 0
    for p, d in oi:
        on = next(n for pp, n in applygen.import_stmts(orig) if ast.dump(n) == d and pp == p)
        found = False
        while pos < len(ri):
            rp, rn = ri[pos]
            pos += 1
            if rp == p and type(rn) is type(on) and getattr(rn, "module", None) == getattr(on, "module", None) and \
                    all(any(a.name == b.name and a.asname == b.asname for b in rn.names) for a in on.names):
                found = True
                break
        if not found:
            chk.fail("source-import-moved-or-removed", dict(case, statement=ast.unparse(on), at=list(p), result=out[:1500]))
            break
    # newly introduced imports: confined unless typing / TypedDict
    src_items = set(item_keys(orig))
    stub_items = [i for i in item_keys(stub_tree)]
    stars = sorted({n.module for _, n in applygen.import_stmts(orig) if isinstance(n, ast.ImportFrom) and any(a.name == "*" for a in n.names)})
    # a name of a module the source star-imports is not newly introduced: the source already has it
    new = [i for i in stub_items if i not in src_items and not (i[1] is not None and i[0] in stars)]
    tc_names = []
    top_names = []
    for p, n in ri:
        under_new_tc = any(str(x).startswith("if:TYPE_CHECKING") for x in p)
        for al in n.names:
            key = (getattr(n, "module", None) if isinstance(n, ast.ImportFrom) else al.name, al.name if isinstance(n, ast.ImportFrom) else None, al.asname)
            if under_new_tc and not any(pp == p and ast.dump(on) == ast.dump(n) for pp, on in applygen.import_stmts(orig)):
                tc_names.append(key)
            elif not p:
                top_names.append(key)
    # names the result actually uses outside import statements (annotations, base classes, ...): an import the stub lists but
    # nothing needs (get_imports_for_signature adds Optional for every None default, annotated or not) need not appear
    used = {n.id for n in ast.walk(res) if isinstance(n, ast.Name)} | \
           {w for n in ast.walk(res) if isinstance(n, ast.Constant) and isinstance(n.value, str) for w in __import__("re").findall(r"[A-Za-z_]\w*", n.value)}
    for i in new:
        if (i[2] or i[1] or i[0].split(".")[0]) not in used:
            continue
        movable = i[0] != "typing" and not (i[0] == "mypy_extensions" and i[1] == "TypedDict")
        if movable and (i not in tc_names or i in top_names):
            chk.fail("new-import-not-confined", dict(case, item=list(i), result=out[:1500]))
        if not movable and i not in top_names:
            chk.fail("runtime-import-missing", dict(case, item=list(i), result=out[:1500]))
    # an import the stub needs and the source has only in a nested place (under an existing `if TYPE_CHECKING:`, in a function
    # body, in a try): MonkeyType does not count it as new, libcst adds it at module top level all the same
    orig_top = set()
    for p, n in applygen.import_stmts(orig):
        if not p:
            for al in n.names:
                orig_top.add((getattr(n, "module", None) if isinstance(n, ast.ImportFrom) else al.name,
                              al.name if isinstance(n, ast.ImportFrom) else None, al.asname))
    for i in sorted(set(top_names), key=repr):
        movable = i[0] not in ("typing", "__future__") and not (i[0] == "mypy_extensions" and i[1] == "TypedDict")
        if movable and i not in orig_top and i in src_items and i in stub_items:
            chk.fail("new-import-not-confined", dict(case, item=list(i), detail="the source has this import only in a nested place; "
                                                     "the result has it at module top level too, unconfined", result=out[:1500]),
                     finding="KF-C16-nested-source-import")
    reqs.append(("movable", tuple(to_item(i) for i in stub_items), tuple(to_item(i) for i in src_items), tuple(Q(m) for m in stars)))
    meta.append((case, sorted({(i[0], i[1]) for i in tc_names})))
    # the module imports and behaves as before
    try:
        m2 = fx.load(name + "_applied_%d_%d" % (k, int(overwrite)), out)
        r2 = m2.run()
        if r2 != base_result:
            chk.fail("behaviour-changed", dict(case, before=base_result[:300], after=r2[:300]))
    except Exception as e:
        chk.fail("not-importable", dict(case, error=repr(e)[:400], result=out[:1500]))


def replay(path, args):
    data = json.load(open(path))
    print(json.dumps(data.get("case") or data.get("disagreements"), indent=1, default=str)[:3000])
    return 1
