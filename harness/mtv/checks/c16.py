"""C16 — --pep_563 confines only annotation-only imports and keeps the module importable (machinery in c15.py)."""
from .c15 import run, replay  # noqa: F401
