"""C17 — only code the filter admits, outside __main__, is ever recorded."""
import importlib.util
import json
import os
import pathlib
import pkgutil
import shutil
import sqlite3
import subprocess
import sys
import sysconfig
import tempfile
import types

from .. import classes, envmodel, framework, leanio, programs, recorder, sexp, tracerun, tyconv
from ..sexp import Q
from . import c02

RULE = ("code objects = every code object obtained by compiling the source of importable standard-library and site-packages modules "
        "(quick: a fixed sample by hash of the module name; thorough: all) + generated user modules in temporary directories reached "
        "directly, through a symlinked file and through a symlinked directory (also pointing INTO the standard library) + synthetic "
        "file names (<string>, <frozen …>, empty) + pairs of equal code objects compiled under two file names in both call orders; "
        "allow-lists of 0..3 names; custom filters over random subsets of a generated program's functions (C02 machinery); generated "
        "scripts run with `monkeytype run` for the __main__ clause. Non-trivial = a code object outside the plain 'stdlib file => "
        "rejected' case; distinct = distinct (resolved path, allow-list).")


def code_objects(code):
    yield code
    for c in code.co_consts:
        if isinstance(c, types.CodeType):
            yield from code_objects(c)


def lib_roots():
    roots = set()
    for n in ("stdlib", "purelib", "platlib"):
        p = sysconfig.get_path(n)
        if p:
            roots.add(os.path.realpath(p))
    return sorted(roots)


def oracle_default(filename, roots):
    """independent of pathlib: realpath + string prefix"""
    if not filename or filename[0] == "<":
        return False
    real = os.path.realpath(filename)
    return not any(real == r or real.startswith(r.rstrip(os.sep) + os.sep) for r in roots)


def oracle_allow(filename, roots, names, user_roots):
    """the property's reading: the file belongs to a listed module or package (components of its import path)"""
    if not filename or filename[0] == "<":
        return False
    real = os.path.realpath(filename)
    for r in list(roots) + list(user_roots):
        rr = r.rstrip(os.sep) + os.sep
        if real.startswith(rr):
            rel = real[len(rr):].split(os.sep)
            comps = rel[:-1] + [os.path.splitext(rel[-1])[0]]
            return any(n in comps for n in names)
    return None   # not under any known import root: no opinion


def info(filename):
    p = pathlib.Path(filename).resolve()
    return (Q(filename), tuple(Q(x) for x in p.parts), Q(p.stem))


def run(pid, tier, seed):
    chk = framework.Check(pid, tier, seed)
    chk.rule = RULE
    chk.assumptions = ["pathlib resolution (symlinks), sysconfig and the environment are inputs of the model (components of the resolved path, stem, library roots)",
                       "code objects are obtained by compiling module sources under their real file names (no import side effects)"]
    chk.partial = "path resolution, sysconfig and os.environ are the runtime's; the decision logic on resolved components is what is proved"
    proof = framework.lean_check(pid)
    quick = tier == "quick"
    from monkeytype import config as mtconfig
    drv = leanio.LeanDriver()
    roots = lib_roots()
    model_libs = tuple(tuple(Q(x) for x in p.parts) for p in mtconfig.LIB_PATHS)
    if sorted(str(p) for p in mtconfig.LIB_PATHS) != roots:
        chk.fail("lib-paths", {"detail": "LIB_PATHS %r differ from the resolved sysconfig stdlib/purelib/platlib %r" % (mtconfig.LIB_PATHS, roots)})
    work = tempfile.mkdtemp(prefix="mtv_c17_")
    user_root = os.path.realpath(work)
    saved_env = os.environ.pop("MONKEYTYPE_TRACE_MODULES", None)
    try:
        # ---- files
        files = []
        for m in sorted(sys.stdlib_module_names):
            try:
                spec = importlib.util.find_spec(m)
            except Exception:
                continue
            if spec and spec.origin and spec.origin.endswith(".py"):
                files.append(("stdlib", spec.origin))
            if spec and spec.submodule_search_locations:
                for sub in pkgutil.iter_modules(list(spec.submodule_search_locations)):
                    p = os.path.join(list(spec.submodule_search_locations)[0], sub.name + ".py")
                    if os.path.exists(p):
                        files.append(("stdlib", p))
        for sp in {sysconfig.get_path("purelib"), sysconfig.get_path("platlib")}:
            for mod in pkgutil.iter_modules([sp]):
                p = os.path.join(sp, mod.name + ".py")
                if os.path.exists(p):
                    files.append(("site", p))
                d = os.path.join(sp, mod.name)
                if os.path.isdir(d):
                    for sub in list(pkgutil.iter_modules([d]))[:6]:
                        q = os.path.join(d, sub.name + ".py")
                        if os.path.exists(q):
                            files.append(("site", q))
        if quick:
            files = [f for f in files if hash_of(f[1]) % 12 == seed % 12][:120]
        # generated user modules, symlinks
        os.makedirs(os.path.join(work, "pkg", "sub"))
        os.makedirs(os.path.join(work, "real"))
        usrc = "def uf(a):\n    return a\n\nclass UK:\n    def um(self):\n        return [x for x in (1, 2)]\n"
        for rel in ("pkg/__init__.py", "pkg/mod.py", "pkg/sub/__init__.py", "pkg/sub/deep.py", "real/target.py", "json.py"):
            with open(os.path.join(work, rel), "w") as f:
                f.write(usrc)
        os.symlink(os.path.join(work, "real", "target.py"), os.path.join(work, "pkg", "linked_file.py"))
        os.symlink(os.path.join(work, "real"), os.path.join(work, "linked_dir"))
        os.symlink(sysconfig.get_path("stdlib"), os.path.join(work, "vendored_stdlib"))
        os.symlink(os.path.join(sysconfig.get_path("stdlib"), "shlex.py"), os.path.join(work, "shlex_link.py"))
        for rel in ("pkg/mod.py", "pkg/sub/deep.py", "pkg/linked_file.py", "linked_dir/target.py", "json.py"):
            files.append(("user", os.path.join(work, rel)))
        files.append(("stdlib-via-dir-symlink", os.path.join(work, "vendored_stdlib", "shlex.py")))
        files.append(("stdlib-via-dir-symlink", os.path.join(work, "vendored_stdlib", "json", "decoder.py")))
        files.append(("stdlib-via-file-symlink", os.path.join(work, "shlex_link.py")))

        allowlists = [None, [], ["json"], ["pkg"], ["mod", "shlex"], ["sub", "email", "six"], ["decoder"], ["nosuchmodule"]]
        reqs, meta = [], []
        for kind, path in files:
            try:
                with open(path, "rb") as f:
                    code = compile(f.read(), path, "exec", dont_inherit=True)
            except Exception:
                chk.count("uncompilable")
                continue
            cos = list(code_objects(code))
            chk.count("files." + kind)
            chk.count("code_objects." + kind, len(cos))
            for al in (allowlists if kind != "stdlib" and kind != "site" else chk.rng.sample(allowlists, 3) + [None]):
                if al is None:
                    os.environ.pop("MONKEYTYPE_TRACE_MODULES", None)
                else:
                    os.environ["MONKEYTYPE_TRACE_MODULES"] = ",".join(al)
                mtconfig.default_code_filter.cache_clear()
                answers = set()
                for co in (cos if kind.startswith("user") or kind.startswith("stdlib-via") else cos[:40]):
                    chk.evaluations += 1
                    answers.add(bool(mtconfig.default_code_filter(co)))
                case = {"file": path, "kind": kind, "allow": al}
                if len(answers) != 1:
                    chk.fail("inconsistent", dict(case, detail="code objects of one file get different answers"))
                    continue
                got = answers.pop()
                if al is None:
                    want = oracle_default(path, roots)
                    if got != want:
                        chk.fail("default", dict(case, got=got, expected=want, real=os.path.realpath(path)))
                else:
                    want = oracle_allow(path, roots, al, [user_root])
                    if want is not None and got != want:
                        chk.fail("allow-list", dict(case, got=got, expected=want, real=os.path.realpath(path)))
                if kind.startswith("user") and al is not None:
                    # where the program was started from is not part of the rule: with the package directory itself (or a
                    # directory inside or above it) on sys.path - `python pkg/run.py` - the answer is the same
                    for extra in (os.path.join(work, "pkg"), os.path.join(work, "pkg", "sub"), work, os.path.dirname(os.path.realpath(path))):
                        sys.path.insert(0, extra)
                        try:
                            mtconfig.default_code_filter.cache_clear()
                            chk.evaluations += 1
                            again = bool(mtconfig.default_code_filter(cos[0]))
                        finally:
                            sys.path.remove(extra)
                        if again != got:
                            chk.fail("allow-list", dict(case, got=again, expected=got, sys_path_entry=extra,
                                                        detail="the filter's answer depends on sys.path"))
                    mtconfig.default_code_filter.cache_clear()
                if kind.startswith("user"):
                    # ... nor is which file happens to be running as the `__main__` script: the same file imported under its
                    # real name (`python app.py` with `import app` elsewhere) is an ordinary project module
                    main_mod = sys.modules["__main__"]
                    had, old_file = hasattr(main_mod, "__file__"), getattr(main_mod, "__file__", None)
                    try:
                        main_mod.__file__ = path
                        mtconfig.default_code_filter.cache_clear()
                        chk.evaluations += 1
                        again = bool(mtconfig.default_code_filter(cos[0]))
                    finally:
                        if had:
                            main_mod.__file__ = old_file
                        else:
                            del main_mod.__file__
                        mtconfig.default_code_filter.cache_clear()
                    if again != got:
                        chk.fail("allow-list" if al is not None else "default",
                                 dict(case, got=again, expected=got, detail="the filter's answer depends on which file is running as __main__"))
                if kind != "stdlib" or al is not None:
                    chk.nontriv("%s|%r" % (os.path.realpath(path), al))
                reqs.append(("codeFilter", model_libs, "none" if al is None else tuple(Q(x) for x in al), info(path)))
                meta.append((case, got))
        os.environ.pop("MONKEYTYPE_TRACE_MODULES", None)
        # synthetic names
        for fn in ("<string>", "<frozen importlib._bootstrap>", "<stdin>", ""):
            for al in (None, ["json"], ["string"]):
                if al is None:
                    os.environ.pop("MONKEYTYPE_TRACE_MODULES", None)
                else:
                    os.environ["MONKEYTYPE_TRACE_MODULES"] = ",".join(al)
                mtconfig.default_code_filter.cache_clear()
                co = compile("def g():\n    pass\n", fn, "exec").co_consts[0]
                chk.evaluations += 1
                got = bool(mtconfig.default_code_filter(co))
                if got:
                    chk.fail("synthetic", {"file": fn, "allow": al, "detail": "code with a synthetic file name was admitted"})
                chk.nontriv("synthetic|%s|%r" % (fn, al))
                p = pathlib.Path(fn).resolve() if fn else pathlib.Path(".").resolve()
                reqs.append(("codeFilter", model_libs, "none" if al is None else tuple(Q(x) for x in al),
                             (Q(fn), tuple(Q(x) for x in p.parts), Q(p.stem))))
                meta.append(({"file": fn, "allow": al}, got))
        os.environ.pop("MONKEYTYPE_TRACE_MODULES", None)
        # equal code objects under two file names, both call orders
        src = "def twin(x):\n    return x\n"
        a = os.path.join(sysconfig.get_path("stdlib"), "zz_mtv_twin.py")
        b = os.path.join(work, "zz_mtv_twin.py")
        for first, second in ((a, b), (b, a)):
            mtconfig.default_code_filter.cache_clear()
            c1 = compile(src, first, "exec").co_consts[0]
            c2 = compile(src, second, "exec").co_consts[0]
            chk.evaluations += 2
            r1, r2 = bool(mtconfig.default_code_filter(c1)), bool(mtconfig.default_code_filter(c2))
            if r1 != oracle_default(first, roots) or r2 != oracle_default(second, roots):
                chk.fail("equal-code-objects", {"first": first, "second": second, "answers": [r1, r2],
                                                "detail": "identical functions from two files share one cached answer"})
            chk.nontriv("twin|%s" % first)
        # the same twins executed under ONE tracer (one trace_calls block), both orders of first execution, with a custom
        # file-name filter and with the default filter under an allow-list: the verdict belongs to the file, not to the
        # (equal) code object
        twin_under_one_tracer(chk, work, mtconfig)
        for g, (case, got) in zip(drv.ask_many(reqs), meta):
            chk.rel("corr.C17.defaultFilter", (g == "true") == got, dict(case, impl=got, model=g))

        # ---- custom filters over random subsets of a program's functions
        from monkeytype.typing import get_type
        tbl = classes.ClassTable()
        pd = programs.ProgramDir("mtv_c17p_")
        try:
            for pi in range(3 if quick else 150):
                name = "c17prog_%d_%d" % (seed % 1000, pi)
                src, funcs = programs.gen_module(chk.rng, name)
                typer = lambda v: sexp.dumps(tyconv.canon(tyconv.ty_to_tree(get_type(v, 0), tbl)))
                rec = recorder.install(typer)
                mod, path = pd.load(name, src)
                steps = programs.make_workload(chk.rng, funcs, 60)
                quals = sorted({f["qual"] for f in funcs} | {"thrower", "_sub", "outer.<locals>.inner", "Base.over", "deco.<locals>.wrapper"})
                subset = set(chk.rng.sample(quals, len(quals) // 2))
                admit = lambda code, path=path, subset=subset: code.co_filename == path and code.co_qualname in subset
                logger, er, tracer, draws, _ = tracerun.run_traced(lambda: programs.run_workload(mod, steps), admit, tbl, 0)
                chk.evaluations += 1
                case = {"program": name, "accepted": sorted(subset)}
                by_code = {c.co_qualname for c in er.codes}
                logged_codes = [t.func.__code__.co_qualname for t in logger.traces]
                bad = [q for q in logged_codes if q not in subset]
                if bad:
                    chk.fail("custom-reject", dict(case, detail="functions the filter rejects reached the logger: %r" % bad[:4]))
                # every completed call of an accepted function is logged
                wrapper_quals = {"wrapped"}
                want = [r["qualname"] for r in rec.finished if code_qual(r["qualname"], mod) in subset]
                got = [t.func.__code__.co_qualname for t in logger.traces]
                if sorted(want) != sorted(got):
                    chk.fail("custom-accept", dict(case, detail="completed calls of accepted functions %d, logged %d" % (len(want), len(got)),
                                                   missing=sorted(set(want) - set(got))[:5], extra=sorted(set(got) - set(want))[:5]))
                chk.nontriv("custom|%s" % name)
        finally:
            pd.close()

        # ---- `monkeytype run`: functions of __main__ are never stored, imported user code is, the standard library is not
        for i in range(1 if quick else 4):
            d = os.path.join(work, "run%d" % i)
            os.makedirs(d)
            with open(os.path.join(d, "usermod_%d.py" % i), "w") as f:
                f.write("import shlex\n\ndef lib_user(x):\n    return shlex.quote(x)\n")
            with open(os.path.join(d, "script.py"), "w") as f:
                f.write("import usermod_%d\n\ndef in_main(a):\n    return usermod_%d.lib_user(a)\n\nclass M:\n    def meth(self):\n        return in_main('x y')\n\n"
                        "if __name__ == '__main__':\n    print(M().meth())\n" % (i, i))
            env = dict(os.environ, MT_DB_PATH=os.path.join(d, "db.sqlite3"), PYTHONPATH=framework.REPO + os.pathsep + d)
            env.pop("MONKEYTYPE_TRACE_MODULES", None)
            p = subprocess.run([sys.executable, "-m", "monkeytype", "run", "script.py"], cwd=d, env=env, capture_output=True, text=True, timeout=120)
            chk.evaluations += 1
            case = {"script": "script.py", "returncode": p.returncode, "stdout": p.stdout[-200:], "stderr": p.stderr[-300:]}
            if p.returncode != 0:
                chk.fail("run", case)
                continue
            conn = sqlite3.connect(os.path.join(d, "db.sqlite3"))
            rows = conn.execute("select module, qualname from monkeytype_call_traces").fetchall()
            conn.close()
            mods = {m for m, _ in rows}
            if "__main__" in mods:
                chk.fail("main-recorded", dict(case, rows=rows[:5]))
            if ("usermod_%d" % i, "lib_user") not in rows:
                chk.fail("user-not-recorded", dict(case, rows=rows[:5]))
            if any(m in ("shlex", "re", "os") for m in mods):
                chk.fail("stdlib-recorded", dict(case, rows=rows[:5]))
            chk.nontriv("run|%d" % i)
        got = drv.ask_many([("storeKeeps", Q("__main__")), ("storeKeeps", Q("usermod")), ("storeKeeps", Q("__main__x"))])
        chk.rel("corr.C17.storeKeeps", got == ["false", "true", "true"], {"model": got})
        chk.sample({"lib_roots": roots, "files": len(files), "allowlists": [repr(a) for a in allowlists]})
    finally:
        if saved_env is not None:
            os.environ["MONKEYTYPE_TRACE_MODULES"] = saved_env
        else:
            os.environ.pop("MONKEYTYPE_TRACE_MODULES", None)
        try:
            mtconfig.default_code_filter.cache_clear()
        except Exception:
            pass
        shutil.rmtree(work, ignore_errors=True)
        drv.close()
    return chk.finish(proof, None)


TWIN_SRC = ("def twin(x):\n    return x\n\n\nclass TK:\n    def tm(self, y):\n        return [y]\n\n\n"
            "def gen(n):\n    for i in range(n):\n        yield i\n")


def twin_under_one_tracer(chk, work, mtconfig):
    from monkeytype.tracing import CallTraceLogger, trace_calls

    class Collect(CallTraceLogger):
        def __init__(self):
            self.traces = []

        def log(self, trace):
            self.traces.append(trace)

    mods = {}
    for d in ("adm", "rej"):
        os.makedirs(os.path.join(work, "twins", d), exist_ok=True)
        path = os.path.join(work, "twins", d, "zz_mtv_twinmod.py")
        with open(path, "w") as f:
            f.write(TWIN_SRC)
        name = "mtv_c17_twin_%s_%d" % (d, os.getpid())
        spec = importlib.util.spec_from_file_location(name, path)
        m = importlib.util.module_from_spec(spec)
        sys.modules[name] = m
        spec.loader.exec_module(m)
        mods[d] = (m, path)
    try:
        def use(m, v):
            m.twin(v)
            m.TK().tm(v)
            list(m.gen(2))

        adm_path = mods["adm"][1]
        filters = [("custom-by-file", lambda code: code.co_filename == adm_path, None),
                   ("default+allow-list", mtconfig.default_code_filter, "adm"),
                   ("custom-reject-all-but-one-file-method", lambda code: code.co_filename == adm_path and code.co_name == "tm", None)]
        for fname, flt, allow in filters:
            for order in (("adm", "rej"), ("rej", "adm"), ("rej", "adm", "rej", "adm")):
                if allow is None:
                    os.environ.pop("MONKEYTYPE_TRACE_MODULES", None)
                else:
                    os.environ["MONKEYTYPE_TRACE_MODULES"] = allow
                mtconfig.default_code_filter.cache_clear()
                logger = Collect()
                with trace_calls(logger, 0, code_filter=flt):
                    for k, d in enumerate(order):
                        use(mods[d][0], "s" if d == "adm" else k)
                chk.evaluations += 1
                got = sorted((t.func.__module__, t.func.__qualname__, sorted((a, getattr(ty, "__name__", repr(ty))) for a, ty in t.arg_types.items() if a != "self"))
                             for t in logger.traces)
                n_adm = sum(1 for d in order if d == "adm")
                names = ["TK.tm"] if "method" in fname else ["TK.tm", "gen", "twin"]
                argn = {"TK.tm": "y", "gen": "n", "twin": "x"}
                want = sorted((mods["adm"][0].__name__, q, [(argn[q], "int" if q == "gen" else "str")]) for q in names for _ in range(n_adm))
                if got != want:
                    chk.fail("equal-code-objects-one-tracer",
                             {"filter": fname, "order": list(order), "logged": got[:8], "expected": want[:8],
                              "detail": "identical functions in an admitted and a rejected file, run under one tracer: the logged calls must be "
                                        "exactly the admitted file's"})
                chk.nontriv("twin-tracer|%s|%s" % (fname, "".join(o[0] for o in order)))
        os.environ.pop("MONKEYTYPE_TRACE_MODULES", None)
    finally:
        for m, _ in mods.values():
            sys.modules.pop(m.__name__, None)


def code_qual(rec_qual, mod):
    """co_qualname of the code that reports under this (functools.wraps-copied) qualname"""
    return rec_qual


def hash_of(s):
    import hashlib
    return int(hashlib.sha1(s.encode()).hexdigest()[:8], 16)


def replay(path, args):
    data = json.load(open(path))
    print(json.dumps(data.get("case") or data.get("disagreements"), indent=1, default=str)[:3000])
    return 1
