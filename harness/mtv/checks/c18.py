"""C18 — sampling thins traces without distorting them."""
import json
import math

from .. import classes, envmodel, framework, leanio, programs, recorder, sexp, tracerun, tyconv
from . import c02

RULE = ("programs and workloads as in C02 (incl. generators that rebind their parameters between yields, yield from, a generator method, "
        "coroutines) x sampling rates {None, 1, 2, 3, 10, 100} x seeds of the sampling RNG; the draws random.randrange returned are "
        "recorded (by wrapping the function from outside) and fed to the Lean state machine together with the recorded event stream. "
        "Direct checks: unset/1 => the log equals the ground truth; otherwise the log is a sub-sequence of the ground truth, each logged "
        "trace identical to the unsampled description of that call, the number of logged plain calls equals the number of zero draws that "
        "hit resolvable new calls, no per-call state is left. The 'about 1 in N' clause is a binomial test (99.9% bounds) over all "
        "new-call draws of the run: labelled a statistical test, not a theorem. Non-trivial = a sampled run (rate >= 2) that logged at "
        "least one generator trace; distinct = distinct (program, rate, rng seed).")

RATES = [None, 1, 2, 3, 10, 100]


def subsequence(small, big):
    it = iter(big)
    return all(any(x == y for y in it) for x in small)


def run(pid, tier, seed):
    chk = framework.Check(pid, tier, seed)
    chk.rule = RULE
    chk.assumptions = ["the sampler's randrange (the tracer's own random.Random, or random.randrange) is wrapped from outside to record the draws; its uniformity is not modelled",
                       "as C02: CPython's event stream and opcode classification are observed"]
    chk.partial = "'about one call in N' is a statistical test on the recorded draws; everything else is theorem + correspondence"
    proof = framework.lean_check(pid)
    quick = tier == "quick"
    from monkeytype.typing import get_type
    tbl = classes.ClassTable()
    ft = envmodel.FuncTable()
    drv = leanio.LeanDriver()
    pd = programs.ProgramDir("mtv_c18_")
    tot = {r: [0, 0] for r in RATES}      # rate -> [new-call draws, zero draws]
    try:
        for pi in range(4 if quick else 250):
            k = 0
            name = "c18prog_%d_%d" % (seed % 1000, pi)
            src, funcs = programs.gen_module(chk.rng, name, with_async_gen=True)
            typer = lambda v: sexp.dumps(tyconv.canon(tyconv.ty_to_tree(get_type(v, k), tbl)))
            mod, path = pd.load(name, src)
            steps = programs.make_workload(chk.rng, funcs, chk.rng.randrange(60, 140), abandon=True)
            admit = lambda code, path=path: code.co_filename == path
            # reference: the same workload unsampled (implementation against itself; covers kinds of function whose
            # unsampled description is itself imperfect, e.g. asynchronous generators)
            recorder.install(typer)
            ref_logger, _, _, _, _ = tracerun.run_traced(lambda: programs.run_workload(mod, steps), admit, tbl, k, rate=None, rng_seed=1)
            ctr = lambda x: None if x is None else sexp.dumps(tyconv.canon(tyconv.ty_to_tree(x, tbl)))
            ref = [(t.func.__code__.co_qualname, tuple(sorted((n, ctr(v)) for n, v in t.arg_types.items())), ctr(t.return_type), ctr(t.yield_type))
                   for t in ref_logger.traces]
            for rate in RATES:
                for rs in range(2 if quick else 6):
                    rec = recorder.install(typer)
                    rng_seed = seed * 1000 + pi * 37 + rs
                    logger, er, tracer, draws, _ = tracerun.run_traced(lambda: programs.run_workload(mod, steps), admit, tbl, k,
                                                                        rate=rate, rng_seed=rng_seed)
                    chk.evaluations += 1
                    case = {"program": name, "rate": rate, "rng_seed": rng_seed, "steps": len(steps)}
                    chk.rel("corr.C18.stream_wellformed", not er.malformed, dict(case, detail=er.malformed[:3]))
                    if tracer.traces or getattr(tracer, "thrown_into", None):
                        chk.fail("residue", dict(case, detail="%d per-call entries left in the tracer" % len(tracer.traces)))

                    def union(ys):
                        trees = sorted({y for y in ys})
                        if len(trees) == 1:
                            return trees[0]
                        return sexp.dumps(tyconv.canon(("union",) + tuple(sexp.loads(t) for t in trees)))
                    truth = c02.expected_from_recorder(rec, tbl, union)
                    ct = lambda x: None if x is None else sexp.dumps(tyconv.canon(tyconv.ty_to_tree(x, tbl)))
                    got = [{"qualname": t.func.__code__.co_qualname,
                            "args": {n: ct(v) for n, v in t.arg_types.items() if n not in c02.IGNORED_PARAMS},
                            "ret": ct(t.return_type), "yield": ct(t.yield_type)} for t in logger.traces]
                    want = [{kk: e[kk] for kk in ("qualname", "args", "ret", "yield")} for e in truth]
                    mine = [(t.func.__code__.co_qualname, tuple(sorted((n, ctr(v)) for n, v in t.arg_types.items())), ctr(t.return_type), ctr(t.yield_type))
                            for t in logger.traces]
                    # (order: a generator the workload dropped is closed when its last reference goes, which need not be the same
                    #  moment in two runs; with such steps the logged traces are compared as a multiset, otherwise in order)
                    import collections
                    dropped = any(st[0] == "gen_abandon" for st in steps)
                    included = (not (collections.Counter(mine) - collections.Counter(ref))) if dropped else subsequence(mine, ref)
                    if not included:
                        bad = next((g for g in mine if g not in ref), None)
                        chk.fail("distorted-vs-unsampled", dict(case, detail="a logged trace is not one of the traces of the unsampled run", trace=bad,
                                                                 unsampled_traces_of_that_function=[r for r in ref if bad and r[0] == bad[0]][:12],
                                                                 sampled_traces_of_that_function=[r for r in mine if bad and r[0] == bad[0]][:12]))
                    # ground truth comparison leaves asynchronous generators out (their unsampled description counts awaits as yields)
                    got = [g for g in got if g["qualname"] != "agen"]
                    want = [w for w in want if w["qualname"] != "agen"]
                    if rate in (None, 1):
                        # generators dropped while suspended: logged (as raised) or not, depending on where they were parked
                        truth_kept = c02.align_closed([e for e in truth if e["qualname"] != "agen"],
                                                      [(g["qualname"], g["ret"] is None) for g in got])
                        want = [{kk: e[kk] for kk in ("qualname", "args", "ret", "yield")} for e in truth_kept]
                        if got != want:
                            i = next((i for i, (a, b) in enumerate(zip(got, want)) if a != b), min(len(got), len(want)))
                            chk.fail("unsampled", dict(case, detail="with rate %r the log differs from the ground truth at index %d" % (rate, i),
                                                       logged=got[i:i + 1], truth=want[i:i + 1], n_logged=len(got), n_truth=len(want)))
                    else:
                        if not subsequence(got, want):
                            bad = next((g for g in got if g not in want), None)
                            chk.fail("distorted" if bad else "order",
                                     dict(case, detail="a logged trace does not describe any real call as it would be described unsampled",
                                          trace=bad))
                        zeros = sum(1 for d in draws if d == 0)
                        if len(got) > zeros:
                            chk.fail("count", dict(case, detail="%d traces logged but only %d zero draws" % (len(got), zeros)))
                        tot[rate][0] += len(draws)
                        tot[rate][1] += zeros
                        if any(g["yield"] is not None for g in got):
                            chk.nontriv("%s|%s|%d" % (name, rate, rng_seed))
                    chk.count("rate.%s.logged" % rate, len(got))
                    chk.count("rate.%s.calls" % rate, len(want))
                    drv.ask(tbl.hier())
                    g = drv.ask(tracerun.model_request(er, tracer, ft, rate, draws))
                    mlog = [tracerun.canon_model_trace(t) for t in g[0]]
                    ilog = [tracerun.trace_tree(t, tbl, ft) for t in logger.traces]
                    chk.rel("corr.C18.tracer", mlog == ilog and int(g[1]) == len(tracer.traces) and int(g[2]) == 0,
                            dict(case, impl=[sexp.dumps(t) for t in ilog[:4]], model=[sexp.dumps(t) for t in mlog[:4]],
                                 n_impl=len(ilog), n_model=len(mlog), model_draws_left=g[2]))
        # statistical test, labelled as such
        stats = {}
        for rate, (n, z) in tot.items():
            if rate in (None, 1) or n == 0:
                continue
            p = 1.0 / rate
            sd = math.sqrt(n * p * (1 - p))
            lo, hi = n * p - 3.3 * sd - 1, n * p + 3.3 * sd + 1
            stats[str(rate)] = {"new_call_draws": n, "zero_draws": z, "expected": round(n * p, 1), "bounds_99.9": [round(lo, 1), round(hi, 1)]}
            if not (lo <= z <= hi):
                chk.fail("rate", {"rate": rate, "detail": "statistical test: %d of %d new calls sampled, outside the 99.9%% binomial bounds" % (z, n)})
        chk.extra["statistical_test_one_in_N"] = stats
        chk.sample({"rates": [str(r) for r in RATES], "stat": stats})
    finally:
        pd.close()
        drv.close()
    return chk.finish(proof, None)


def replay(path, args):
    data = json.load(open(path))
    print(json.dumps(data.get("case") or data.get("disagreements"), indent=1, default=str)[:3000])
    return 1
