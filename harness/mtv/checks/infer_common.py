"""Shared engine of C04/C05/C06: value multisets -> real get_type/shrink_types vs the Lean `infer`."""
import itertools

from .. import classes, framework, leanio, oracle, sexp, shrinker, tyconv, values
from ..sexp import Q

KS_ALL = (0, 1, 2, 3, 10, 200)


def small_values(tbl, max_size):
    """every descriptor of size <= max_size over a reduced alphabet (exhaustive small scope)"""
    from .. import fixture_classes as fx
    B = str(tbl.of(fx.B))
    atoms = [("inst", values.INT), ("inst", values.NONE), ("str", Q("a")), ("inst", B),
             ("classObj", str(tbl.of(fx.A))), "func", ("inst", str(tbl.of(fx.MyList)))]
    keys = [("str", Q("a")), ("str", Q("b")), ("inst", values.INT)]
    by_size = {1: list(atoms)}

    def seqs(total, n, hashable_only=False):
        """all n-tuples of values with sizes summing to total"""
        if n == 0:
            if total == 0:
                yield ()
            return
        for s in range(1, total - (n - 1) + 1):
            for first in by_size.get(s, []):
                if hashable_only and not values.hashable(first):
                    continue
                for rest in seqs(total - s, n - 1, hashable_only):
                    yield (first,) + rest

    for size in range(1, max_size + 1):
        out = list(atoms) if size == 1 else []
        if size >= 1:
            body = size - 1
            for n in range(0, body + 1):
                if n == 0 and body != 0:
                    continue
                for kind in ("list", "tuple"):
                    for s in seqs(body, n):
                        out.append((kind,) + s)
                for s in seqs(body, n, True):
                    if len(set(s)) == len(s) or n <= 1:
                        out.append(("set",) + s)
            # dicts: n entries, each key costs 1
            for n in range(0, body // 2 + 1):
                if body - n < n:
                    continue
                if n == 0 and body != 0:
                    continue
                for ks in itertools.combinations(keys, n):
                    for vs in seqs(body - n, n):
                        for kind in ("dict", "ddict"):
                            out.append((kind,) + tuple(zip(ks, vs)))
        by_size[size] = out if size > 1 else out
    res = []
    for s in range(1, max_size + 1):
        res.extend(by_size[s])
    # size-1 list contains both atoms and empty containers
    return res


class Engine:
    def __init__(self, chk):
        from monkeytype.typing import get_type, shrink_types
        self.get_type = get_type
        self.shrink_types = shrink_types
        self.chk = chk
        self.tbl = classes.ClassTable()
        self.gen = values.Gen(self.tbl, chk.rng)
        self.builder = values.Builder(self.tbl)
        self.drv = leanio.LeanDriver()
        self.drv.ask(self.tbl.hier())
        self.retries = 0

    def close(self):
        self.drv.close()

    def realise(self, descs):
        """list of descriptors -> (python objects, descriptors in real iteration order) or None"""
        objs, ds = [], []
        # half of the cases realise equal container descriptors as one shared object (aliasing inside and across values)
        self.builder.memo = {} if self.chk.rng.random() < 0.5 else None
        before = self.builder.shared
        try:
            for d in descs:
                o, d2 = self.builder.build(d)
                objs.append(o)
                ds.append(d2)
        except values.Retry:
            self.retries += 1
            return None
        finally:
            self.builder.memo = None
        if self.builder.shared > before:
            self.chk.count("aliased_containers")
        return objs, ds

    def impl_infer(self, objs, k):
        # "inference terminates": a call that loops is a failing input (DidNotTerminate), not a timeout of the whole check
        with framework.time_limit(30):
            return self.shrink_types([self.get_type(o, k) for o in objs], k)

    def impl_tree(self, objs, k):
        return tyconv.canon(tyconv.ty_to_tree(self.impl_infer(objs, k), self.tbl))

    def model_trees(self, reqs):
        """reqs: list of (k, descs) -> canonical model trees"""
        out = self.drv.ask_many([("infer", str(k)) + tuple(ds) for k, ds in reqs])
        return [tyconv.canon(t) for t in out]

    def cases(self, tier, n_random, small_size, pair_limit, n_dicts=None, n_records=None):
        """yield lists of descriptors: corpus-like fixed cases, exhaustive small scope, random multisets"""
        sv = small_values(self.tbl, small_size)
        self.chk.extra["small_scope"] = {"max_size": small_size, "singletons": len(sv)}
        for d in sv:
            yield "small1", [d]
        pairs = 0
        small2 = [d for d in sv if values.size(d) <= max(2, small_size - 1)]
        for a, b in itertools.combinations_with_replacement(small2, 2):
            if pairs >= pair_limit:
                break
            pairs += 1
            yield "small2", [a, b]
        self.chk.extra["small_scope"]["pairs"] = pairs
        self.chk.extra["small_scope"]["pairs_exhaustive"] = pairs < pair_limit
        for _ in range(n_random):
            yield "random", self.gen.multiset()
        for _ in range(n_random if n_records is None else n_records):
            yield "records", self.gen.record_multiset()
        # containers whose elements all have ONE runtime class but different types: class objects (`[int, str]` is
        # List[Union[Type[int], Type[str]]]), and same-kind containers of different contents
        rng = self.chk.rng
        for _ in range(max(20, n_random // 10)):
            n = rng.choice([2, 2, 3, 4])
            if rng.random() < 0.7:
                elems = [("classObj", c) for c in rng.sample(self.gen.classobjs, n)]
            else:
                kind = rng.choice(["list", "tuple"])
                elems = [(kind,) + tuple(self.gen.atom(True) for _ in range(rng.choice([1, 1, 2]))) for _ in range(n)]
            hashable = all(e[0] in ("classObj", "tuple") for e in elems)
            shape_ = rng.choice(["list", "tuple", "dictvals", "ddictvals"] + (["set"] if hashable else []))
            if shape_ in ("list", "tuple", "set"):
                v = (shape_,) + tuple(elems)
            else:
                v = ("dict" if shape_ == "dictvals" else "ddict",) + tuple((("inst", values.INT) if i else ("inst", values.NONE), e) for i, e in enumerate(elems[:2]))
            yield "same_class_elems", [v] if rng.random() < 0.6 else [v, self.gen.value(2)]
        # dict-heavy stream around each k (C06): 0..12 keys
        for _ in range(n_random // 3 if n_dicts is None else n_dicts):
            n = self.chk.rng.choice([0, 1, 1, 2, 2, 3, 3, 3, 4, 4, 5, 6, 7, 9, 10, 11, 12])
            base = self.gen.dict_value(self.chk.rng.choice(["dict", "dict", "dict", "ddict"]), 2, nkeys=n)
            ms = [base] + [self.gen.mutate(base, 2) for _ in range(self.chk.rng.randrange(0, 4))]
            if self.chk.rng.random() < 0.3:
                ms = [("list",) + tuple(ms)]
            yield "dicts", ms


def shape(tree):
    return tree if isinstance(tree, str) else tree[0]


def tree_depth(t):
    if isinstance(t, str) or t[0] in ("cls", "typeOf"):
        return 0
    if t[0] == "td":
        return 1 + max([tree_depth(v) for _, v in t[1] + t[2]] or [0])
    return 1 + max([tree_depth(a) for a in t[1:]] or [0])


def case_json(k, ds):
    return {"k": k, "values": [sexp.dumps(d) for d in ds]}
