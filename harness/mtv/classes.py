"""Class table shared by the harness and the Lean model: Python class <-> ClassId, MROs."""
import collections
import types

# fixed ids, must agree with lean/MTVerif/Model/Ty.lean
FIXED = {
    str: 0, list: 1, set: 2, tuple: 3, dict: 4, collections.defaultdict: 5, type: 6,
    types.FunctionType: 7, types.GeneratorType: 8, type(None): 9, object: 10,
    int: 11, bool: 12, float: 13, bytes: 14,
}
FIRST_USER = 32


def refuses_issubclass(c):
    """issubclass(_, c) raises TypeError (a typing.Protocol that is not runtime-checkable)"""
    try:
        issubclass(object, c)
        return False
    except TypeError:
        return True


class ClassTable:
    def __init__(self):
        self.id = dict(FIXED)
        self.cls = {v: k for k, v in FIXED.items()}
        self.next = FIRST_USER
        for c in list(FIXED):
            self._close(c)

    def _close(self, c):
        for b in c.__mro__:
            self.of(b)

    def of(self, c):
        if c not in self.id:
            self.id[c] = self.next
            self.cls[self.next] = c
            self.next += 1
            self._close(c)
        return self.id[c]

    def hier(self):
        """(hier (c (b1 ...) (m1 m2 ...)) ...): direct bases and MRO of every known class, as ids"""
        # 4th element: the position of the class by (__module__, __qualname__), the key RewriteLargeUnion breaks ties with
        # (every class is registered together with its whole MRO, so the table is closed)
        order = sorted(self.id, key=lambda c: (getattr(c, "__module__", ""), getattr(c, "__qualname__", ""), self.id[c]))
        rank = {c: r for r, c in enumerate(order)}
        out = ["hier"]
        for c, i in sorted(self.id.items(), key=lambda kv: kv[1]):
            out.append((str(i), tuple(str(self.of(b)) for b in c.__bases__), tuple(str(self.of(b)) for b in c.__mro__), str(rank[c]),
                        "true" if refuses_issubclass(c) else "false"))
        return tuple(out)
