"""The abstract import system handed to the Lean decoder: names of classes/functions, what a lookup finds."""
import importlib
import types

from .sexp import Q


class FuncTable:
    def __init__(self):
        self.id = {}
        self.obj = {}

    def of(self, f):
        if id(f) not in self.id:
            n = len(self.id) + 1
            self.id[id(f)] = n
            self.obj[n] = f
        return self.id[id(f)]


def classify(obj, tbl, ft):
    """what kind of object a lookup found (the model's `Obj`)"""
    if isinstance(obj, type):
        return ("cls", str(tbl.of(obj)))
    if isinstance(obj, types.BuiltinFunctionType):
        return "other"          # never what a trace was recorded for: the tracer only sees Python functions (fix b39e831)
    if isinstance(obj, types.FunctionType):
        inner = obj.__dict__.get("__wrapped__") if hasattr(obj, "__dict__") else None
        if inner is not None:
            return ("wrapped", str(ft.of(obj)), classify(inner, tbl, ft))
        return ("func", str(ft.of(obj)))
    if isinstance(obj, types.MethodType):
        return ("method", str(ft.of(obj.__func__)))
    if isinstance(obj, property):
        return ("prop", "none" if obj.fget is None else str(ft.of(obj.fget)),
                "true" if obj.fset is not None else "false", "true" if obj.fdel is not None else "false")
    return "other"


def resolve(module, qualname):
    """independent re-implementation of 'import module, walk the dotted name'; returns (found, obj)"""
    try:
        obj = importlib.import_module(module)
    except ModuleNotFoundError:
        return False, None
    for part in qualname.split("."):
        try:
            obj = getattr(obj, part)
        except AttributeError:
            return False, None
    return True, obj


def names_and_env(tbl, ft, funcs, extra_lookups=()):
    """(names …) and (env …) requests for the class table + the given function objects.
    `extra_lookups`: additional (module, qualname) pairs whose lookup result should be in the env."""
    cls_names, env = [], {}
    for c, i in sorted(tbl.id.items(), key=lambda kv: kv[1]):
        m, q = c.__module__, c.__qualname__
        cls_names.append((str(i), Q(m), Q(q)))
        if m == "builtins" and q in ("NoneType", "NotImplementedType", "mappingproxy"):
            env[(m, q)] = ("cls", str(i))           # the hidden-builtins table of encoding.py
            continue
        ok, obj = resolve(m, q)
        if ok:
            env[(m, q)] = classify(obj, tbl, ft)
    func_names = []
    for f in funcs:
        func_names.append((str(ft.of(f)), Q(f.__module__), Q(f.__qualname__)))
        ok, obj = resolve(f.__module__, f.__qualname__)
        if ok:
            env[(f.__module__, f.__qualname__)] = classify(obj, tbl, ft)
    for m, q in extra_lookups:
        ok, obj = resolve(m, q)
        if ok:
            env[(m, q)] = classify(obj, tbl, ft)
    names = ("names", ("cls",) + tuple(cls_names), ("func",) + tuple(func_names))
    envreq = ("env",) + tuple((Q(m), Q(q), o) for (m, q), o in sorted(env.items()))
    return names, envreq


def json_to_tree(j):
    """parsed JSON (json.loads) -> model sexp, object members in the dict's own order"""
    if j is None:
        return "null"
    if j is True:
        return "true"
    if j is False:
        return "false"
    if isinstance(j, str):
        return ("s", Q(j))
    if isinstance(j, list):
        return ("arr",) + tuple(json_to_tree(x) for x in j)
    if isinstance(j, dict):
        return ("obj",) + tuple((Q(k), json_to_tree(v)) for k, v in j.items())
    raise ValueError("json number/other not modelled: %r" % (j,))


def tree_to_json(t):
    if t == "null":
        return None
    if t == "true":
        return True
    if t == "false":
        return False
    if t[0] == "s":
        return str(t[1])
    if t[0] == "arr":
        return [tree_to_json(x) for x in t[1:]]
    if t[0] == "obj":
        return {str(k): tree_to_json(v) for k, v in t[1:]}
    raise ValueError(t)


def jcanon(t):
    """canonical JSON tree: object members sorted by key (json.dumps(sort_keys=True) order)"""
    if isinstance(t, tuple) and t and t[0] == "obj":
        return ("obj",) + tuple(sorted(((k, jcanon(v)) for k, v in t[1:]), key=lambda kv: str(kv[0])))
    if isinstance(t, tuple) and t and t[0] == "arr":
        return ("arr",) + tuple(jcanon(x) for x in t[1:])
    if isinstance(t, tuple) and t and t[0] == "row":
        return t[:3] + tuple(x if isinstance(x, str) else jcanon(x) for x in t[3:])
    return t
