"""User classes of the value grammar: single and multiple inheritance, container subclasses, tripwire-free."""
import collections
import typing as _typing


class A:
    pass


class B(A):
    pass


class C(A):
    pass


class D(B, C):
    pass


class E:
    pass


class F(E):
    pass


class P:
    pass


class Q_:
    pass


class X(P, Q_):
    pass


class Y(Q_, P):
    pass


class Z(P, Q_):
    pass


class MyList(list):
    pass


class MySet(set):
    pass


class MyTuple(tuple):
    pass


class MyDict(dict):
    pass


class MyDefaultDict(collections.defaultdict):
    pass


class MyStr(str):
    pass


class MyInt(int):
    pass


class Outer:
    class Inner:
        pass


def module_function(x):
    return x


class WithMethods:
    def method(self):
        return 1

    @classmethod
    def cmethod(cls):
        return 2

    @staticmethod
    def smethod():
        return 3


# --- a Protocol that is not runtime-checkable among the bases: issubclass(_, Drawable) raises TypeError
class Drawable(_typing.Protocol):
    def draw(self):
        ...


class Shape:
    pass


class Circle(Shape, Drawable):
    def draw(self):
        return 1


class Square(Shape, Drawable):
    def draw(self):
        return 2


class Line(Shape):
    pass


class Arc(Shape):
    pass


class Dot(Shape):
    pass


class Blob(Shape):
    pass


class Ring(Circle):
    pass


# --- ordinary classes that merely share their names with typing constructs
class List:
    pass


class Set:
    pass


class Tuple:
    pass


class Union:
    pass


class Generator:
    pass


class TypedDict:
    pass


class Iterator(Union):
    pass


# --- a class whose class object is falsy (a registry-like metaclass with __len__ == 0)
class _EmptyMeta(type):
    def __len__(cls):
        return 0


class Falsy(metaclass=_EmptyMeta):
    pass


SHAPES = [Shape, Circle, Square, Line, Arc, Dot, Blob, Ring]
NAME_CLASH = [List, Set, Tuple, Union, Generator, TypedDict, Iterator]
PLAIN = [A, B, C, D, E, F, P, Q_, X, Y, Z, Outer, Outer.Inner] + SHAPES + NAME_CLASH + [Falsy]
CONTAINER_SUBS = [MyList, MySet, MyTuple, MyDict, MyDefaultDict, MyStr, MyInt]
