"""User classes of the value grammar: single and multiple inheritance, container subclasses, tripwire-free."""
import collections


class A:
    pass


class B(A):
    pass


class C(A):
    pass


class D(B, C):
    pass


class E:
    pass


class F(E):
    pass


class P:
    pass


class Q_:
    pass


class X(P, Q_):
    pass


class Y(Q_, P):
    pass


class Z(P, Q_):
    pass


class MyList(list):
    pass


class MySet(set):
    pass


class MyTuple(tuple):
    pass


class MyDict(dict):
    pass


class MyDefaultDict(collections.defaultdict):
    pass


class MyStr(str):
    pass


class MyInt(int):
    pass


class Outer:
    class Inner:
        pass


def module_function(x):
    return x


class WithMethods:
    def method(self):
        return 1

    @classmethod
    def cmethod(cls):
        return 2

    @staticmethod
    def smethod():
        return 3


PLAIN = [A, B, C, D, E, F, P, Q_, X, Y, Z, Outer, Outer.Inner]
CONTAINER_SUBS = [MyList, MySet, MyTuple, MyDict, MyDefaultDict, MyStr, MyInt]
