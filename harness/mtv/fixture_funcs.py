"""Functions of every kind the store has to find again: module functions, methods, class/static methods,
read-only and settable properties, functools.wraps decorators, nested classes, non-functions."""
import functools


def deco(f):
    @functools.wraps(f)
    def wrapper(*args, **kwargs):
        return f(*args, **kwargs)
    return wrapper


def module_func(a, b=1):
    return a


@deco
def wrapped_func(x):
    return x


@deco
@deco
def double_wrapped(x, y=None):
    return x


def gen_func(n):
    for i in range(n):
        yield i


async def coro_func(x):
    return x


class K:
    def method(self, x):
        return x

    @classmethod
    def cmeth(cls, x):
        return x

    @staticmethod
    def smeth(x):
        return x

    @property
    def ro_prop(self):
        return 1

    @property
    def rw_prop(self):
        return 2

    @rw_prop.setter
    def rw_prop(self, v):
        pass

    @deco
    def wrapped_method(self, x):
        return x

    class Nested:
        def nmeth(self, x):
            return x

        class Deeper:
            def dmeth(self):
                return 0


class Sub(K):
    def method(self, x):
        return super().method(x)


not_a_function = 3
a_class_instance = K()

# (qualname, how to get the function object a tracer would record)
TRACEABLE = [
    ("module_func", module_func),
    ("wrapped_func", wrapped_func.__wrapped__),
    ("double_wrapped", double_wrapped.__wrapped__.__wrapped__),
    ("gen_func", gen_func),
    ("coro_func", coro_func),
    ("K.method", K.__dict__["method"]),
    ("K.cmeth", K.__dict__["cmeth"].__func__),
    ("K.smeth", K.__dict__["smeth"].__func__),
    ("K.ro_prop", K.__dict__["ro_prop"].fget),
    ("K.wrapped_method", K.__dict__["wrapped_method"].__wrapped__),
    ("K.Nested.nmeth", K.Nested.__dict__["nmeth"]),
    ("K.Nested.Deeper.dmeth", K.Nested.Deeper.__dict__["dmeth"]),
    ("Sub.method", Sub.__dict__["method"]),
]
# names that exist but are not traceable functions
NOT_FUNCTIONS = ["not_a_function", "a_class_instance", "K", "K.rw_prop", "K.Nested"]
MISSING = ["nope", "K.nope", "K.Nested.nope", "nope.deeper"]
