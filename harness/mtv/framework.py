"""Shared machinery of every check: Lean build + axiom audit, evidence, known findings, violation reports."""
import hashlib
import json
import os
import random
import re
import subprocess
import sys
import time

VERIF = os.path.dirname(os.path.dirname(os.path.dirname(os.path.abspath(__file__))))
LEAN_DIR = os.path.join(VERIF, "lean")
REPO = os.environ.get("VERIF_REPO", "/repo")
ALLOWED_AXIOMS = {"propext", "Classical.choice", "Quot.sound"}
FORBIDDEN = re.compile(r"\bsorry\b|\badmit\b|^\s*axiom\s|native_decide|bv_decide|implemented_by|\bunsafe\s|maxHeartbeats\s+0\b")

TRUSTED_BASE = [
    "Lean 4.33.0 kernel and elaborator; axioms allowed: propext, Classical.choice, Quot.sound (audited by #print axioms on every run)",
    "hand-written Lean model (lean/MTVerif/Model/*): modelled, not verified; tied to /repo only by the correspondence relations of this check",
    "harness: S-expression codec, canonicaliser (tyconv.canon), value/type generators, Python reference oracles (oracle.py, themselves compared with the Lean definitions)",
    "CPython 3.12.1 + typing/mypy_extensions as the implementation's substrate",
]


DEFER_BROKEN = False     # set by ./check in the quick tier
PENDING = []             # the lines of a deferred broken-obligation report


def strip_comments(src):
    """remove /- ... -/ (nested) and -- comments from Lean source"""
    out = []
    i, n, depth = 0, len(src), 0
    while i < n:
        if src.startswith("/-", i):
            depth += 1
            i += 2
        elif depth and src.startswith("-/", i):
            depth -= 1
            i += 2
        elif depth:
            if src[i] == "\n":
                out.append("\n")
            i += 1
        elif src.startswith("--", i):
            while i < n and src[i] != "\n":
                i += 1
        else:
            out.append(src[i])
            i += 1
    return "".join(out)


def lean_sources():
    for root, _, files in os.walk(os.path.join(LEAN_DIR, "MTVerif")):
        for f in sorted(files):
            if f.endswith(".lean"):
                yield os.path.join(root, f)


def theorems_of(prop_id):
    path = os.path.join(LEAN_DIR, "MTVerif", "Props", prop_id + ".lean")
    if not os.path.exists(path):
        return []
    src = strip_comments(open(path).read())
    return ["MT.%s.%s" % (prop_id, m) for m in re.findall(r"^\s*theorem\s+([A-Za-z_][A-Za-z0-9_'.]*)", src, re.M)]


class ProofStatus:
    def __init__(self):
        self.build_ok = False
        self.build_log = ""
        self.theorems = []          # names expected
        self.axioms = {}            # name -> list of axioms (only for theorems that elaborated)
        self.problems = []          # human readable
        self.leanchecker = None     # thorough tier: "ok" / "failed" / "timeout"

    @property
    def obligations(self):
        return len(self.theorems)

    @property
    def discharged(self):
        return sum(1 for t in self.theorems if t in self.axioms and set(self.axioms[t]) <= ALLOWED_AXIOMS)

    @property
    def ok(self):
        return self.build_ok and not self.problems and self.obligations > 0 and self.discharged == self.obligations


def lean_check(prop_id, extra_props=()):
    """`lake build`, forbidden-token grep, `#print axioms` on every theorem of Props/<id>.lean."""
    st = ProofStatus()
    try:
        r = subprocess.run(["lake", "build"], cwd=LEAN_DIR, capture_output=True, text=True, timeout=1500)
    except subprocess.TimeoutExpired:
        st.problems.append("lake build timed out")
        return st
    st.build_ok = r.returncode == 0
    st.build_log = (r.stdout + r.stderr)[-4000:]
    if not st.build_ok:
        st.problems.append("lake build failed")
    for path in lean_sources():
        src = strip_comments(open(path).read())
        for ln, line in enumerate(src.split("\n"), 1):
            if FORBIDDEN.search(line):
                st.problems.append("forbidden token in %s:%d: %s" % (os.path.relpath(path, LEAN_DIR), ln, line.strip()[:80]))
    names = []
    for p in (prop_id,) + tuple(extra_props):
        names += theorems_of(p)
    st.theorems = names
    if not names:
        st.problems.append("no theorems found in Props/%s.lean" % prop_id)
        return st
    if not st.build_ok:
        return st
    audit = os.path.join(LEAN_DIR, ".lake", "audit_%s_%d.lean" % (prop_id, os.getpid()))
    with open(audit, "w") as f:
        f.write("import MTVerif\n" + "".join("#print axioms %s\n" % n for n in names))
    try:
        r = subprocess.run(["lake", "env", "lean", audit], cwd=LEAN_DIR, capture_output=True, text=True, timeout=600)
    finally:
        try:
            os.unlink(audit)
        except OSError:
            pass
    out = r.stdout + r.stderr
    if os.environ.get("VERIF_TIER_ACTIVE") == "thorough" and os.environ.get("VERIF_LEANCHECKER", "1") != "0":
        # thorough tier: the toolchain's independent re-checker replays the compiled declarations of the property files
        mods = ["MTVerif.Props." + p for p in (prop_id,) + tuple(extra_props)]
        try:
            rc = subprocess.run(["lake", "env", "leanchecker"] + mods, cwd=LEAN_DIR, capture_output=True, text=True, timeout=1800)
            st.leanchecker = "ok" if rc.returncode == 0 else "failed"
            if rc.returncode != 0:
                st.problems.append("leanchecker rejected %s: %s" % (" ".join(mods), (rc.stdout + rc.stderr)[-300:]))
        except subprocess.TimeoutExpired:
            st.leanchecker = "timeout"
            st.problems.append("leanchecker timed out")
    for m in re.finditer(r"'([^']+)' depends on axioms: \[([^\]]*)\]", out):
        st.axioms[m.group(1)] = [a.strip() for a in m.group(2).replace("\n", " ").split(",") if a.strip()]
    for m in re.finditer(r"'([^']+)' does not depend on any axioms", out):
        st.axioms[m.group(1)] = []
    for n in names:
        if n not in st.axioms:
            st.problems.append("theorem %s did not elaborate" % n)
        elif not set(st.axioms[n]) <= ALLOWED_AXIOMS:
            st.problems.append("theorem %s depends on disallowed axioms %s" % (n, st.axioms[n]))
    return st


class KnownFindings:
    """known_findings.txt: `open:` entries are matched by id; `fixed:` entries suppress nothing."""

    def __init__(self):
        self.open = {}
        path = os.path.join(VERIF, "known_findings.txt")
        if os.path.exists(path):
            for line in open(path):
                line = line.strip()
                m = re.match(r"open:\s+property=(\S+)\s+id=(\S+)\s+::\s+(.*)", line)
                if m:
                    self.open.setdefault(m.group(1), {})[m.group(2)] = m.group(3)

    def for_prop(self, pid):
        return self.open.get(pid, {})


class Check:
    """One run of one property's check."""

    def __init__(self, prop_id, tier, seed):
        self.prop_id = prop_id
        self.tier = tier
        self.seed = seed
        self.t0 = time.time()
        self.rng = random.Random("%s-%d" % (prop_id, seed))
        self.evaluations = 0
        self.nontrivial = set()
        self.samples = []
        self.distribution = {}
        self.relations = {}         # correspondence relation -> [cases, disagreements]
        self.disagreements = []     # (relation, case) correspondence failures
        self.failures = []          # (clause, case) direct-oracle failures = failing inputs for the property
        self.known_hits = {}        # finding id -> first case
        self.notes = []
        self.assumptions = []
        self.exhaustive = False
        self.rule = ""
        self.partial = None
        self.extra = {}
        self.kf = KnownFindings().for_prop(prop_id)

    # -- bookkeeping -------------------------------------------------------------------------
    def count(self, key, n=1):
        self.distribution[key] = self.distribution.get(key, 0) + n

    def sample(self, case, limit=5):
        if len(self.samples) < limit:
            self.samples.append(case)

    def rel(self, name, agree, case=None):
        r = self.relations.setdefault(name, [0, 0])
        r[0] += 1
        if not agree:
            r[1] += 1
            if len(self.disagreements) < 50:
                self.disagreements.append((name, case))

    def fail(self, clause, case, finding=None):
        """a direct-oracle failure on the implementation. `finding` = id of an open known finding the
        caller has matched (predicate + same behaviour + same clause), else None."""
        if finding is not None and finding in self.kf:
            self.known_hits.setdefault(finding, case)
            return
        if len(self.failures) < 50:
            self.failures.append((clause, case))

    def nontriv(self, key):
        self.nontrivial.add(hashlib.sha1(key.encode()).hexdigest()[:16] if isinstance(key, str) else key)

    # -- finish ------------------------------------------------------------------------------
    def write_replay(self, kind, payload):
        d = os.path.join(VERIF, "replays") if os.path.realpath(REPO) == "/repo" else "/tmp/mtv_selftest_replays"
        os.makedirs(d, exist_ok=True)
        path = os.path.join(d, "%s-%s-%d-%d.json" % (self.prop_id, kind, self.seed, int(time.time() * 1000) % 100000000))
        payload = dict(payload, property=self.prop_id, kind=kind, seed=self.seed, tier=self.tier)
        with open(path, "w") as f:
            json.dump(payload, f, indent=1, default=str)
        return path

    def finish(self, proof, search=None):
        """decide, write evidence, print lines, return exit code.
        `search(reason)` is the intensified failing-input search run when a proof obligation or a
        correspondence relation is broken and no failing input is known yet; it may call self.fail()."""
        broken = []
        if not proof.ok:
            broken += ["proof: " + p for p in (proof.problems or ["obligations %d discharged %d" % (proof.obligations, proof.discharged)])]
        for name, (n, bad) in sorted(self.relations.items()):
            if bad:
                broken.append("correspondence %s: %d of %d cases disagree" % (name, bad, n))
        if broken and not self.failures and search is not None:
            try:
                search(broken)
            except Exception as e:  # the search itself must never mask the report
                self.notes.append("intensified search raised %r" % (e,))
        violations = 0
        lines = []
        for fid, case in sorted(self.known_hits.items()):
            lines.append("KNOWN-FINDING: property=%s %s :: %s" % (self.prop_id, fid, self.kf[fid]))
        if self.failures:
            clause, case = self.failures[0]
            path = self.write_replay("failing-input", {"clause": clause, "case": case,
                                                      "all_failures": self.failures[:20], "broken": broken,
                                                      "disagreements": self.disagreements[:20]})
            lines.append("VIOLATION property=%s replay=%s" % (self.prop_id, path))
            violations = len(self.failures)
        elif broken and DEFER_BROKEN:
            # quick tier: the caller (./check) first runs the intensified failing-input search in a second process
            path = self.write_replay("broken-obligation", {"obligations": broken, "disagreements": self.disagreements[:20],
                                                          "build_log": proof.build_log if not proof.build_ok else ""})
            lines.append("VIOLATION property=%s replay=%s no-failing-input-found" % (self.prop_id, path))
            self.write_evidence(proof, 1, broken)
            PENDING.extend(lines)
            return 3
        elif broken:
            path = self.write_replay("broken-obligation", {"obligations": broken,
                                                          "disagreements": self.disagreements[:20],
                                                          "build_log": proof.build_log if not proof.build_ok else ""})
            lines.append("VIOLATION property=%s replay=%s no-failing-input-found" % (self.prop_id, path))
            violations = 1
        self.write_evidence(proof, violations, broken)
        for line in lines:
            print(line)
        sys.stdout.flush()
        return 1 if violations else 0

    def write_evidence(self, proof, violations, broken):
        cov = {
            "obligations": proof.obligations,
            "discharged": proof.discharged,
            "checker_cmd": "cd lean && lake build && lake env lean <generated #print axioms file for Props/%s.lean>" % self.prop_id,
            "trusted_base": TRUSTED_BASE + self.assumptions,
            "theorems": {n: proof.axioms.get(n) for n in proof.theorems},
            "leanchecker": proof.leanchecker,
            "evaluations": self.evaluations,
            "distinct_nontrivial": len(self.nontrivial),
            "rule": self.rule,
            "samples": self.samples or [{"theorems": proof.theorems}],
            "disagreements_checked": sum(n for n, _ in self.relations.values()),
            "correspondence": {k: {"cases": v[0], "disagreements": v[1]} for k, v in sorted(self.relations.items())},
            "distribution": dict(sorted(self.distribution.items())),
            "exhaustive": self.exhaustive,
            "known_findings_hit": sorted(self.known_hits),
            "broken": broken,
            "notes": self.notes,
        }
        cov.update(self.extra)
        if self.partial:
            cov["partial"] = True
            cov["partial_reason"] = self.partial
        ev = {
            "property_id": self.prop_id,
            "tier": self.tier,
            "seed": self.seed,
            "level": "proof",
            "coverage": cov,
            "assumptions": self.assumptions,
            "wall_s": round(time.time() - self.t0, 2),
            "violations": violations,
        }
        # self-test runs against a scratch tree (VERIF_REPO) must not overwrite the registered evidence
        d = os.environ.get("VERIF_EVIDENCE_DIR") or (os.path.join(VERIF, "evidence") if os.path.realpath(REPO) == "/repo" else "/tmp/mtv_selftest_evidence")
        os.makedirs(d, exist_ok=True)
        tmp = os.path.join(d, self.prop_id + ".json.tmp")
        with open(tmp, "w") as f:
            json.dump(ev, f, indent=1, default=str)
        os.replace(tmp, os.path.join(d, self.prop_id + ".json"))


class DidNotTerminate(BaseException):
    """the implementation call under a `time_limit` used up its budget (a BaseException, raised again every half second until the
    block is left: an `except Exception` of the code under test must not swallow it)"""


class time_limit:
    """`with time_limit(secs):` — a watchdog for one call into the implementation, independent of the SIGALRM that bounds the whole
    check: a helper thread raises DidNotTerminate in the calling thread (PyThreadState_SetAsyncExc) when the budget is used up, and
    again every half second until the block is left.  A call that loops for ever in Python code is then reported by the check as a
    failing input ("terminates" / "completes" is part of C04 and C07) instead of ending the check with its timeout."""

    def __init__(self, secs=20.0):
        self.secs = secs

    def __enter__(self):
        import ctypes
        import threading
        self.done = threading.Event()
        target = threading.get_ident()

        def watch():
            if self.done.wait(self.secs):
                return
            while not self.done.is_set():
                ctypes.pythonapi.PyThreadState_SetAsyncExc(ctypes.c_ulong(target), ctypes.py_object(DidNotTerminate))
                if self.done.wait(0.5):
                    return
        self.thread = threading.Thread(target=watch, daemon=True)
        self.thread.start()
        return self

    def __exit__(self, *exc):
        import ctypes
        import threading
        self.done.set()
        self.thread.join()
        # an exception scheduled but not yet delivered must not hit the caller after the block
        ctypes.pythonapi.PyThreadState_SetAsyncExc(ctypes.c_ulong(threading.get_ident()), ctypes.c_void_p(0))
        return False


def setup_repo_path():
    """import monkeytype from the tree under test (VERIF_REPO, default /repo), never from a stale cache"""
    sys.dont_write_bytecode = True
    sys.path.insert(0, REPO)
    import importlib
    for name in [m for m in sys.modules if m == "monkeytype" or m.startswith("monkeytype.")]:
        del sys.modules[name]
    importlib.invalidate_caches()
    import logging
    import warnings
    warnings.simplefilter("ignore")
    lg = logging.getLogger("monkeytype")      # "Failed to serialize trace" etc. are expected in fault experiments
    lg.addHandler(logging.NullHandler())
    lg.propagate = False
    import monkeytype
    got = os.path.dirname(os.path.dirname(os.path.abspath(monkeytype.__file__)))
    if os.path.realpath(got) != os.path.realpath(REPO):
        raise RuntimeError("monkeytype imported from %s, expected %s" % (got, REPO))
