"""Correspondence for Model/FuncDef.lean: the real `shrink_traced_types` and `get_updated_definition` on random lists of decoded
traces of fixture functions (any number of traces, overlapping and disjoint argument names, a name no parameter has, absent /
present return and yield types, types recorded under limits 0 / 3 / 10 and merged under 0..3) against the Lean `shrinkTraced` /
`updatedDefinition`.  Used by C01, C13 and C14 (the theorems about whole functions live in their property files)."""
import inspect

from . import sexp, tyconv, values
from .sexp import Q

# (the source annotations are strings: no traced type can be the same object as one of them, so "kept the source's annotation"
#  and "received the traced type" cannot be confused)
SRC = '''
def fd0(a, b: 'SrcB', c=None, *, d: 'SrcD' = None) -> 'SrcR':
    return None


def fd1(a, b=1, *rest, k=None, **kw):
    return None


class FK:
    def m(self, a, b: 'SrcB' = 1):
        return None

    @classmethod
    def cm(cls, a, b=None):
        return None

    @staticmethod
    def sm(a, b) -> 'SrcR':
        return None

    @property
    def p(self):
        return None

    async def am(self, a):
        return None
'''
KIND = {"MODULE": "module", "CLASS": "class", "INSTANCE": "instance", "STATIC": "static", "PROPERTY": "property",
        "DJANGO_CACHED_PROPERTY": "cachedProperty"}


def run(chk, drv, tbl, pd, seed, prefix, n_cases):
    from monkeytype.stubs import (ExistingAnnotationStrategy as S, FunctionDefinition, get_updated_definition, shrink_traced_types)
    from monkeytype.tracing import CallTrace
    from monkeytype.typing import DEFAULT_REWRITER, get_type
    rng = chk.rng
    mod, _ = pd.load("funcdef_%s_%d" % (prefix.replace(".", "_"), seed % 1000), SRC)
    funcs = [mod.fd0, mod.fd1, mod.FK.m, mod.FK.__dict__["cm"].__func__, mod.FK.__dict__["sm"].__func__, mod.FK.__dict__["p"].fget, mod.FK.am]
    vgen = values.Gen(tbl, rng)
    builder = values.Builder(tbl)
    drv.ask(tbl.hier())
    strategies = [("replicate", S.REPLICATE), ("omit", S.OMIT), ("ignore", S.IGNORE)]
    reqs, meta = [], []

    def some_type(k0):
        for _ in range(20):
            try:
                o, _d = builder.build(vgen.value(2))
                t = get_type(o, k0)
                return t, tyconv.ty_to_tree(t, tbl)
            except (values.Retry, tyconv.Unrepresentable):
                continue
        return int, ("cls", str(tbl.of(int)))

    for ci in range(n_cases):
        func = rng.choice(funcs)
        names = list(inspect.signature(func).parameters)
        pool = names + ["zz"]
        traces, mtraces = [], []
        for _ in range(rng.choice([0, 1, 1, 2, 3, 4, 6])):
            k0 = rng.choice([0, 3, 10])
            args, margs = {}, []
            for nme in rng.sample(pool, rng.randrange(0, len(pool) + 1)):
                t, tree = some_type(k0)
                args[nme] = t
                margs.append((Q(nme), tree))
            r = some_type(k0) if rng.random() < 0.6 else None
            y = some_type(k0) if rng.random() < 0.3 else None
            traces.append(CallTrace(func, args, r[0] if r else None, y[0] if y else None))
            mtraces.append((tuple(margs), r[1] if r else "none", y[1] if y else "none"))
        if traces and rng.random() < 0.3:
            j = rng.randrange(len(traces))
            traces.append(traces[j]); mtraces.append(mtraces[j])          # a repeated trace
        k = rng.choice([0, 0, 1, 2, 3])
        chk.evaluations += 1
        case = {"function": func.__qualname__, "k": k, "traces": [sexp.dumps(t) for t in mtraces][:6]}
        try:
            # (the parameter is an Iterable: a list, a set, or something that can be walked only once)
            a, r, y = shrink_traced_types(traces if ci % 2 else iter(traces), k)
            ct = lambda x: "none" if x is None else tyconv.canon(tyconv.ty_to_tree(x, tbl))
            impl = (sorted((n, ct(t)) for n, t in a.items()), ct(r), ct(y))
        except tyconv.Unrepresentable:
            continue
        except Exception as e:
            chk.fail("error", dict(case, error=repr(e)[:300]))
            continue
        reqs.append(("shrinkTraced", str(k)) + tuple(mtraces))
        meta.append((prefix + ".shrinkTraced", case, impl))
        chk.nontriv("%s|%d|%d" % (func.__qualname__, k, len(traces)))
        if k != 0:
            continue
        # the whole definition at the default limit (no generated classes): per parameter none / the source's / the traced type
        sname, sval = rng.choice(strategies)
        rname, rw, chain = rng.choice([("none", None, ()), ("default", DEFAULT_REWRITER, ("removeEmpty", "configDict", ("largeUnion", "5"), "generator"))])
        case2 = dict(case, strategy=sname, rewriter=rname)
        try:
            defn = get_updated_definition(func, iter(traces) if ci % 2 else traces, 0, rw, sval)
            sig = inspect.signature(func)
            empty = inspect.Parameter.empty

            def cls(anno, src):
                if anno is empty:
                    return "none"
                if src is not empty and anno is src:
                    return ("src", "0")
                return ("ty", tyconv.canon(tyconv.ty_to_tree(anno, tbl)))
            ip = [(n, cls(defn.signature.parameters[n].annotation, sig.parameters[n].annotation)) for n in names]
            iret = cls(defn.signature.return_annotation, sig.return_annotation)
            kind = KIND[FunctionDefinition.from_callable(func).kind.name]
        except tyconv.Unrepresentable:
            continue
        except Exception as e:
            chk.fail("error", dict(case2, error=repr(e)[:300]))
            continue
        params = tuple((Q(n), "none" if sig.parameters[n].annotation is empty else "0") for n in names)
        reqs.append(("definition", chain, "0", sname, params, "none" if sig.return_annotation is inspect.Signature.empty else "0", kind, tuple(mtraces)))
        meta.append((prefix + ".definition", case2, (ip, iret, defn.kind.name, defn.has_self)))
    for g, (rel, case, impl) in zip(drv.ask_many(reqs), meta):
        if rel.endswith("shrinkTraced"):
            cm = lambda x: "none" if x == "none" else tyconv.canon(x)
            model = (sorted((str(n), cm(t)) for n, t in g[0]), cm(g[1]), cm(g[2]))
            chk.rel(rel, model == impl, dict(case, impl=repr(impl)[:600], model=repr(model)[:600]))
        else:
            ca = lambda a: "none" if a == "none" else (("src", a[1]) if a[0] == "src" else ("ty", tyconv.canon(a[1])))
            model = ([(str(n), ca(a)) for n, a in g[0]], ca(g[1]))
            ok = model == (impl[0], impl[1]) and (g[3] == "true") == bool(impl[3])
            chk.rel(rel, ok, dict(case, impl=repr(impl)[:600], model=repr(model)[:600] + " hasSelf=" + str(g[3])))


def kinds(chk, drv, pd, seed, rel):
    """`FunctionKind.from_callable`, `FunctionDefinition.has_self` and the decorator / def line of `FunctionStub.render` on the
    fixture functions (and a cached_property where django is installed) against the Lean `kindOf` / `hasSelf` / `headLines`"""
    from monkeytype.stubs import FunctionDefinition, FunctionKind, FunctionStub
    src = SRC
    try:
        from django.utils.functional import cached_property  # noqa: F401
        src = "from django.utils.functional import cached_property\n" + SRC + "\n    @cached_property\n    def cp(self):\n        return None\n"
    except Exception:
        pass
    mod, _ = pd.load("funcdef_kinds_%d" % (seed % 1000), src)
    cases = [("fd0", mod.fd0), ("FK.m", mod.FK.m), ("FK.cm", mod.FK.__dict__["cm"].__func__), ("FK.sm", mod.FK.__dict__["sm"].__func__),
             ("FK.p", mod.FK.__dict__["p"].fget), ("FK.am", mod.FK.am)]
    if "cp" in mod.FK.__dict__:
        cases.append(("FK.cp", mod.FK.__dict__["cp"].func))
    for qual, func in cases:
        chk.evaluations += 1
        d = inspect.getattr_static(mod.FK, qual.split(".")[1]) if "." in qual else None
        desc = ("classmethod" if isinstance(d, classmethod) else "staticmethod" if isinstance(d, staticmethod) else
                "property" if isinstance(d, property) else "cachedProperty" if type(d).__name__ == "cached_property" else "plain")
        defn = FunctionDefinition.from_callable(func)
        lines = FunctionStub("f", inspect.Signature(), defn.kind, None, False).render().split("\n")
        impl = (KIND[defn.kind.name], "true" if defn.has_self else "false", [lines[0]] if len(lines) > 1 else [], lines[-1].split("(")[0])
        g = drv.ask(("kindOf", "true" if "." in qual else "false", desc))
        ml = [str(x) for x in g[2]]
        model = (str(g[0]), str(g[1]), ml[:-1], ml[-1])
        chk.rel(rel, model == impl, {"function": qual, "impl": repr(impl), "model": repr(model)})
