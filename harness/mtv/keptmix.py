"""Stubs that mix annotations kept from the source (PEP 604 / PEP 585 spellings, rendered through repr) with traced types that
are == to them as Python compares types (`int | None == Optional[int]`, same hash): every name the stub uses must be provided by
the stub, in whatever order the positions are processed and however many stubs the process built before (C11, C13)."""
import ast
import builtins

SHAPES = [
    # (signature text, traced types per parameter, traced return)
    ("p0: int | None, p1, p2=None", {"p1": "Optional[int]", "p2": "Union[int, str]"}, "Optional[int]"),
    ("p0, p1: float | None = None", {"p0": "Optional[float]"}, None),
    ("p0: int | str, p1", {"p1": "Union[int, str]"}, "Union[int, str]"),
    ("p0, p1: str | bytes | None", {"p0": "Union[str, bytes, None]"}, "Optional[str]"),
    ("p0: list[int] | None, p1", {"p1": "Optional[List[int]]"}, "List[int]"),
    ("p0: dict[str, int | None], p1", {"p1": "Dict[str, Optional[int]]"}, None),
    ("p0, p1", {"p0": "Optional[bytes]", "p1": "Union[bytes, str]"}, "Optional[bytes]"),
]


def names_missing(text, own=()):
    """names used by annotations / class bodies of the stub text that neither its imports, its own classes, `own` nor builtins provide"""
    tree = ast.parse(text)
    provided = set(dir(builtins)) | set(own)
    for n in tree.body:
        if isinstance(n, ast.ImportFrom):
            provided |= {al.asname or al.name for al in n.names}
        elif isinstance(n, ast.Import):
            provided |= {(al.asname or al.name).split(".")[0] for al in n.names}
        elif isinstance(n, ast.ClassDef):
            provided.add(n.name)
    used = set()
    for fn in ast.walk(tree):
        if isinstance(fn, (ast.FunctionDef, ast.AsyncFunctionDef)):
            for an in [x.annotation for x in fn.args.posonlyargs + fn.args.args + fn.args.kwonlyargs] + [fn.returns]:
                if an is not None:
                    used |= {n.id for n in ast.walk(an) if isinstance(n, ast.Name)}
        elif isinstance(fn, ast.AnnAssign):
            used |= {n.id for n in ast.walk(fn.annotation) if isinstance(n, ast.Name)}
    return sorted(used - provided)


def run(chk, pd, seed, clause):
    import typing
    from monkeytype.stubs import build_module_stubs_from_traces
    from monkeytype.tracing import CallTrace
    ns = dict(vars(typing))
    src = []
    for i, (sig, _, _) in enumerate(SHAPES):
        src.append("def m%d(%s):\n    return None\n\n\n" % (i, sig))
    name = "keptmix_%s_%d" % (clause.replace("-", "_"), seed % 1000)
    mod, _ = pd.load(name, "".join(src))
    order = list(range(len(SHAPES)))
    # every function stubbed on its own (nothing else in the stub can supply a missing import), the shapes use different types
    # (what one build leaves behind in the process is not what the next one needs), and each is built twice (a second build
    # must not depend on what the first left behind)
    for i in order + order[::-1]:
        sig, traced, ret = SHAPES[i]
        func = getattr(mod, "m%d" % i)
        chk.evaluations += 1
        case = {"function": "def m%d(%s)" % (i, sig), "traced": traced, "traced_return": ret}
        try:
            trace = CallTrace(func, {k: eval(v, ns) for k, v in traced.items()}, eval(ret, ns) if ret else None)
            text = build_module_stubs_from_traces([trace], 0)[name].render()
            missing = names_missing(text)
        except Exception as e:
            chk.fail(clause, dict(case, error=repr(e)[:300]))
            continue
        if missing:
            chk.fail(clause, dict(case, detail="the stub uses names it does not provide", missing=missing, stub=text[:600]))
        chk.nontriv("%s|m%d" % (clause, i))
