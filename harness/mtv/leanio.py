"""Spawn the Lean model driver and talk to it over the line protocol."""
import os
import queue
import subprocess
import threading

from . import sexp

VERIF = os.path.dirname(os.path.dirname(os.path.dirname(os.path.abspath(__file__))))
LEAN_DIR = os.path.join(VERIF, "lean")
DRIVER = os.path.join(LEAN_DIR, ".lake", "build", "bin", "mtvdriver")


class LeanError(Exception):
    pass


class LeanDriver:
    def __init__(self):
        if not os.path.exists(DRIVER):
            raise LeanError("driver not built: " + DRIVER)
        self.p = subprocess.Popen([DRIVER], stdin=subprocess.PIPE, stdout=subprocess.PIPE, text=True, bufsize=1 << 16)
        self.requests = 0
        self.q = queue.Queue()
        self.t = threading.Thread(target=self._reader, daemon=True)
        self.t.start()

    def _reader(self):
        for line in self.p.stdout:
            self.q.put(line)
        self.q.put(None)

    def _read(self):
        line = self.q.get(timeout=600)
        if line is None:
            raise LeanError("driver died")
        self.requests += 1
        return line.rstrip("\n")

    def ask_raw(self, line):
        self.p.stdin.write(line + "\n")
        self.p.stdin.flush()
        return self._read()

    @staticmethod
    def _decode(out, tree):
        r = sexp.loads(out)
        if isinstance(r, tuple) and r and r[0] == "error":
            raise LeanError("model error %s on %s" % (r[1:], sexp.dumps(tree)[:300]))
        return r

    def ask(self, tree):
        return self._decode(self.ask_raw(sexp.dumps(tree)), tree)

    def ask_many(self, trees):
        """pipeline a batch: a reader thread drains responses while requests are written"""
        trees = list(trees)
        self.p.stdin.write("".join(sexp.dumps(t) + "\n" for t in trees))
        self.p.stdin.flush()
        return [self._decode(self._read(), t) for t in trees]

    def close(self):
        try:
            self.p.stdin.close()
            self.p.wait(timeout=5)
        except Exception:
            self.p.kill()
