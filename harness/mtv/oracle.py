"""Independent reference oracles on real Python objects and typing objects.

`conforms(v, T)` is the Python twin of the Lean `conforms` (Model/Ty.lean); the two are compared
pair by pair on every run (relation corr.oracle.conforms)."""
import collections
import collections.abc
import types
import typing

from .tyconv import is_anon_td, td_fields

_CALLABLE_TYPES = (types.FunctionType, types.MethodType, types.BuiltinFunctionType, types.BuiltinMethodType)


def conforms(v, t):
    if t is typing.Any:
        return True
    if is_anon_td(t):
        if type(v) is not dict:
            return False
        req, opt = td_fields(t)
        for k, kt in req.items():
            if k not in v or not conforms(v[k], kt):
                return False
        for k, val in v.items():
            if type(k) is not str:
                return False
            if k in req:
                if not conforms(val, req[k]):
                    return False
            elif k in opt:
                if not conforms(val, opt[k]):
                    return False
            else:
                return False
        return True
    origin = typing.get_origin(t)
    if origin is typing.Union:
        return any(conforms(v, a) for a in t.__args__)
    if t is typing.Callable:
        return type(v) in _CALLABLE_TYPES
    if origin is not None:
        args = t.__args__
        tv = type(v)
        if origin is list:
            return tv is list and all(conforms(e, args[0]) for e in v)
        if origin is set:
            return tv is set and all(conforms(e, args[0]) for e in v)
        if origin is dict:
            return tv in (dict, collections.defaultdict) and all(
                conforms(k, args[0]) and conforms(x, args[1]) for k, x in dict.items(v))
        if origin is collections.defaultdict:
            return tv is collections.defaultdict and all(
                conforms(k, args[0]) and conforms(x, args[1]) for k, x in dict.items(v))
        if origin is tuple:
            if tv is not tuple:
                return False
            if args == ((),):
                return len(v) == 0
            if len(args) == 2 and args[1] is Ellipsis:
                return all(conforms(e, args[0]) for e in v)
            return len(v) == len(args) and all(conforms(e, a) for e, a in zip(v, args))
        if origin is type:
            return _sub(type(v), type) and _sub(v, args[0])
        if origin in (collections.abc.Iterator, collections.abc.Generator):
            return type(v) is types.GeneratorType
        raise ValueError("oracle: unknown generic %r" % (t,))
    if isinstance(t, type):
        if t is types.FunctionType:
            # the model has one class for every builtin callable kind
            return type(v) in _CALLABLE_TYPES
        return _sub(type(v), t)
    raise ValueError("oracle: unknown type %r" % (t,))


def _sub(c, d):
    """nominal subclassing (MRO containment): what the model's `Hier.sub` is; issubclass() would refuse some classes
    (non-runtime Protocols) and answer structurally for ABCs"""
    return d in getattr(c, "__mro__", ())


def max_td(t):
    """largest number of keys of any anonymous TypedDict node inside t (0 if none)"""
    if is_anon_td(t):
        req, opt = td_fields(t)
        return max([len(req) + len(opt)] + [max_td(x) for x in list(req.values()) + list(opt.values())])
    args = getattr(t, "__args__", None) or ()
    return max([0] + [max_td(a) for a in args if a is not Ellipsis and a != ()])


def has_td(t):
    if is_anon_td(t):
        return True
    args = getattr(t, "__args__", None) or ()
    return any(has_td(a) for a in args if a is not Ellipsis and a != ())


# ---------------------------------------------------------------------------------------------------
# C05: the witness (tightness) oracle on real objects — twin of Lean `witnessed` (Model/Witness.lean)

def _exact(vs, cls):
    return [v for v in vs if type(v) is cls]


def witnessed(e, vs, t):
    """every alternative of `t` is inhabited by some value of `vs` at the corresponding position;
    `e` = an empty container was observed at the parent position (the only licence for Any)"""
    if t is typing.Any:
        return bool(e)
    if is_anon_td(t):
        ds = _exact(vs, dict)
        if not ds:
            return False
        req, opt = td_fields(t)
        for k, kt in req.items():
            if not all(k in d for d in ds):
                return False
            if not witnessed(False, [d[k] for d in ds if k in d], kt):
                return False
        for k, kt in opt.items():
            if all(k in d for d in ds) or not any(k in d for d in ds):
                return False
            if not witnessed(False, [d[k] for d in ds if k in d], kt):
                return False
        return True
    origin = typing.get_origin(t)
    if origin is typing.Union:
        return len(t.__args__) > 0 and all(witnessed(e, vs, a) for a in t.__args__)
    if t is typing.Callable:
        return any(type(v) in _CALLABLE_TYPES for v in vs)
    if origin is not None:
        args = t.__args__
        if origin is list or origin is set:
            ls = _exact(vs, origin)
            return bool(ls) and witnessed(any(len(x) == 0 for x in ls), [y for x in ls for y in x], args[0])
        if origin is dict or origin is collections.defaultdict:
            ds = _exact(vs, origin)
            if not ds:
                return False
            emp = any(len(d) == 0 for d in ds)
            return (witnessed(emp, [k for d in ds for k in dict.keys(d)], args[0])
                    and witnessed(emp, [x for d in ds for x in dict.values(d)], args[1]))
        if origin is tuple:
            if len(args) == 2 and args[1] is Ellipsis:
                return False
            n = 0 if args == ((),) else len(args)
            tups = [v for v in _exact(vs, tuple) if len(v) == n]
            if not tups:
                return False
            return all(witnessed(False, [tp[i] for tp in tups], args[i]) for i in range(n))
        if origin is type:
            return any(_sub(type(v), type) and v is args[0] for v in vs)
        if origin is collections.abc.Iterator:
            return args[0] is typing.Any and any(type(v) is types.GeneratorType for v in vs)
        return False
    if isinstance(t, type):
        if t is types.FunctionType:
            return False
        return any(type(v) is t for v in vs)
    return False
