"""Generated target modules + workloads (C02, C18, C17, C01, C12, C13, C14).

A program = source text of one module (functions of every kind, each reporting its own ground truth to
mtv.recorder) + a workload (a list of steps the driver executes).  Everything is derived from one `random.Random`."""
import importlib
import os
import sys
import textwrap

PARAM_SHAPES = [
    # (signature text, list of parameter names, call-argument builder)
    ("a", ["a"], lambda v: ((v(),), {})),
    ("a, b=1", ["a", "b"], lambda v: ((v(),), {}) if v.rng.random() < 0.5 else ((v(), v()), {})),
    ("a, /, b", ["a", "b"], lambda v: ((v(), v()), {})),
    ("a, *, k", ["a", "k"], lambda v: ((v(),), {"k": v()})),
    ("a, b=None, *, k=None", ["a", "b", "k"], lambda v: ((v(),), {"k": v()} if v.rng.random() < 0.5 else {})),
    ("a, *args", ["a", "args"], lambda v: (tuple(v() for _ in range(v.rng.randrange(1, 4))), {})),
    ("a, **kwargs", ["a", "kwargs"], lambda v: ((v(),), {"x": v()} if v.rng.random() < 0.6 else {})),
    ("a, /, b=2, *args, k, **kw", ["a", "b", "args", "k", "kw"],
     lambda v: ((v(), v(), v()) if v.rng.random() < 0.5 else (v(),), {"k": v(), "z": v()} if v.rng.random() < 0.5 else {"k": v()})),
    ("", [], lambda v: ((), {})),
]

EXITS = ["const", "expr", "implicit", "raise"]


class Vals:
    """small argument values (hashable ones only where needed)"""
    def __init__(self, rng):
        self.rng = rng

    def __call__(self):
        r = self.rng.random()
        if r < 0.25:
            return self.rng.randrange(100)
        if r < 0.4:
            return "s%d" % self.rng.randrange(5)
        if r < 0.5:
            return None
        if r < 0.58:
            return 1.5
        if r < 0.66:
            return [self.rng.randrange(5) for _ in range(self.rng.randrange(0, 3))]
        if r < 0.74:
            return {"k": self.rng.randrange(3)} if self.rng.random() < 0.7 else {}
        if r < 0.8:
            return (1, "t")
        if r < 0.86:
            return True
        if r < 0.92:
            return b"b"
        return {1, 2}


def body_exit(exit_kind, indent="    "):
    if exit_kind == "const":
        return indent + "return _r.ret(_t, 42)\n"
    if exit_kind == "expr":
        return indent + "return _r.ret(_t, [a] if 'a' in dir() else ())\n"
    if exit_kind == "implicit":
        return indent + "_r.ret(_t, None)\n"
    return indent + "raise _r.raising(_t, ValueError('boom'))\n"


def enter_line(qual, names, indent="    "):
    return indent + "_t = _r.enter(%r%s)\n" % (qual, "".join(", %s=%s" % (n, n) for n in names))


def gen_module(rng, modname, with_async_gen=False):
    """returns (source, functions) where functions = list of dicts describing each callable thing"""
    src = ["import functools\nimport types as _types\nimport mtv.recorder as _r\n\n",
           "def deco(f):\n    @functools.wraps(f)\n    def wrapper(*a, **k):\n"
           "        _t = _r.enter('deco.<locals>.wrapper')   # the wrapper is a traced function too; it reports under its code's qualname\n"
           "        try:\n            v = f(*a, **k)\n        except BaseException:\n            _r.raising(_t, None)\n            raise\n"
           "        return _r.ret(_t, v)\n    return wrapper\n\n"]
    funcs = []

    def shape():
        return rng.choice(PARAM_SHAPES)

    # module functions with every exit kind
    for i, ex in enumerate(EXITS):
        sig, names, mk = shape()
        q = "mf%d" % i
        src.append("def %s(%s):\n%s%s\n" % (q, sig, enter_line(q, names), body_exit(ex)))
        funcs.append({"qual": q, "call": q, "kind": "function", "mk": mk, "exit": ex, "params": names})
    # wraps-decorated
    sig, names, mk = shape()
    src.append("@deco\ndef wrapped(%s):\n%s%s\n" % (sig, enter_line("wrapped", names), body_exit("expr")))
    funcs.append({"qual": "wrapped", "call": "wrapped", "kind": "function", "mk": mk, "exit": "expr", "params": names})
    # recursion
    src.append("def recur(n, acc=0):\n" + enter_line("recur", ["n", "acc"]) +
               "    if n <= 0:\n        return _r.ret(_t, acc)\n    return _r.ret(_t, recur(n - 1, acc + n))\n\n")
    funcs.append({"qual": "recur", "call": "recur", "kind": "function", "mk": lambda v: ((v.rng.randrange(0, 4),), {}),
                  "exit": "expr", "params": ["n", "acc"]})
    # closure over arguments (the nested function is found through the caller's locals)
    src.append("def outer(a, b=2):\n" + enter_line("outer", ["a", "b"]) +
               "    def inner(x):\n" + enter_line("outer.<locals>.inner", ["x"], "        ") +
               "        return _r.ret(_t, (a, x))\n"
               "    r = inner(b)\n    return _r.ret(_t, r)\n\n")
    funcs.append({"qual": "outer", "call": "outer", "kind": "function", "mk": PARAM_SHAPES[1][2], "exit": "expr", "params": ["a", "b"]})
    # caller that catches the callee's exception
    src.append("def catcher(a):\n" + enter_line("catcher", ["a"]) +
               "    try:\n        mf3(a) if False else thrower(a)\n    except ValueError:\n        pass\n    return _r.ret(_t, 'recovered')\n\n")
    src.append("def thrower(a):\n" + enter_line("thrower", ["a"]) + body_exit("raise") + "\n")
    funcs.append({"qual": "catcher", "call": "catcher", "kind": "function", "mk": PARAM_SHAPES[0][2], "exit": "const", "params": ["a"]})
    # one position that sees many tuple shapes, each homogeneous in itself, of two element classes (more shapes than the
    # default rewriter keeps apart: whatever it makes of them has to admit every one)
    src.append("def tup_take(t):\n" + enter_line("tup_take", ["t"]) + "    return _r.ret(_t, t)\n\n"
               "def tup_shapes(a):\n" + enter_line("tup_shapes", ["a"]) +
               "    for t in ((1,), (1, 2), (1, 2, 3), ('x',), ('x', 'y'), ('x', 'y', 'z'), (1, 2, 3, 4)):\n        tup_take(t)\n"
               "    return _r.ret(_t, 7)\n\n")
    funcs.append({"qual": "tup_shapes", "call": "tup_shapes", "kind": "function", "mk": PARAM_SHAPES[0][2], "exit": "const", "params": ["a"]})
    # values that contain themselves: a list holding itself, a tree of dicts with parent links
    src.append("def cyc_take(x):\n" + enter_line("cyc_take", ["x"]) +
               "    d = {'kids': [], 'up': None}\n    c = {'kids': [], 'up': d}\n    d['kids'].append(c)\n    return _r.ret(_t, d)\n\n"
               "def cyc(a):\n" + enter_line("cyc", ["a"]) +
               "    l = [a]\n    l.append(l)\n    r = cyc_take(l)\n    return _r.ret(_t, len(r))\n\n")
    funcs.append({"qual": "cyc", "call": "cyc", "kind": "function", "mk": PARAM_SHAPES[0][2], "exit": "expr", "params": ["a"]})
    # generators
    src.append("def gen(a, n=2):\n" + enter_line("gen", ["a", "n"]) +
               "    for i in range(n):\n        a = str(a)  # rebinds its parameter between yields\n        yield _r.yielded(_t, i if i % 2 == 0 else a)\n"
               "    _r.ret(_t, None)\n\n")
    src.append("def gen_ret(a):\n" + enter_line("gen_ret", ["a"]) +
               "    yield _r.yielded(_t, a)\n    yield _r.yielded(_t, None)\n    return _r.ret(_t, 'done')\n\n")
    src.append("def gen_delegate(a):\n" + enter_line("gen_delegate", ["a"]) +
               "    x = yield from _sub(a, _t)\n    yield _r.yielded(_t, x)\n    _r.ret(_t, None)\n\n"
               "def _sub(a, p):\n" + enter_line("_sub", ["a", "p"]) +
               "    yield _r.yielded(_t, _r.yielded(p, a))\n    yield _r.yielded(_t, _r.yielded(p, b'x'))\n    return _r.ret(_t, 1.5)\n\n")
    src.append("def gen_raise(a):\n" + enter_line("gen_raise", ["a"]) +
               "    yield _r.yielded(_t, a)\n    raise _r.raising(_t, KeyError('g'))\n\n")
    # a container first, then a bare value of one of its element types (and the like for tuple / dict)
    src.append("def gen_mixed(a):\n" + enter_line("gen_mixed", ["a"]) +
               "    yield _r.yielded(_t, [a])\n    yield _r.yielded(_t, a)\n    yield _r.yielded(_t, (a, 'ab'))\n"
               "    yield _r.yielded(_t, 'ab')\n    yield _r.yielded(_t, {'k': 2.5})\n    yield _r.yielded(_t, 2.5)\n    _r.ret(_t, None)\n\n")
    funcs.append({"qual": "gen_mixed", "call": "gen_mixed", "kind": "generator", "mk": PARAM_SHAPES[0][2], "exit": "gen", "params": ["a"]})
    # values of ONE runtime class with different types, one after the other: lists, tuples, dicts of different contents and
    # class objects (a yield type that is built per value covers them all; one built per runtime class does not)
    src.append("def gen_samekind(a):\n" + enter_line("gen_samekind", ["a"]) +
               "    yield _r.yielded(_t, [1])\n    yield _r.yielded(_t, ['s'])\n    yield _r.yielded(_t, (1,))\n    yield _r.yielded(_t, (1, 's'))\n"
               "    yield _r.yielded(_t, {1: 2})\n    yield _r.yielded(_t, {'k': None})\n    yield _r.yielded(_t, int)\n    yield _r.yielded(_t, str)\n"
               "    _r.ret(_t, None)\n\n")
    funcs.append({"qual": "gen_samekind", "call": "gen_samekind", "kind": "generator", "mk": PARAM_SHAPES[0][2], "exit": "gen", "params": ["a"]})
    for q in ("gen", "gen_ret", "gen_raise", "gen_delegate"):
        funcs.append({"qual": q, "call": q, "kind": "generator", "mk": PARAM_SHAPES[0][2], "exit": "gen", "params": ["a"]})
    # what it yields depends on the VALUE of its argument, not on its type: calls with the same argument and return types
    # and different yield types (rows of the store that differ in the yield column only)
    src.append("def gen_byvalue(a):\n" + enter_line("gen_byvalue", ["a"]) +
               "    yield _r.yielded(_t, (1, 'x', None, 2.5)[a % 4])\n    _r.ret(_t, None)\n\n")
    for _ in range(2):
        funcs.append({"qual": "gen_byvalue", "call": "gen_byvalue", "kind": "generator", "mk": lambda vals: ((vals.rng.randrange(8),), {}),
                      "exit": "gen", "params": ["a"]})
    # sometimes returns a value, sometimes runs off its end (same argument types): the traced return is Optional
    src.append("def gen_optret(a):\n" + enter_line("gen_optret", ["a"]) +
               "    yield _r.yielded(_t, a)\n    if a % 2:\n        return _r.ret(_t, 'v')\n    _r.ret(_t, None)\n\n")
    funcs.append({"qual": "gen_optret", "call": "gen_optret", "kind": "generator", "mk": lambda vals: ((vals.rng.randrange(8),), {}),
                  "exit": "gen", "params": ["a"]})
    # a generator-based coroutine (`@types.coroutine`, the trap of curio / trio-style event loops): still a generator whose yields
    # hand out real values, with CO_ITERABLE_COROUTINE set on its code
    src.append("@_types.coroutine\ndef gen_tcoro(a):\n" + enter_line("gen_tcoro", ["a"]) +
               "    yield _r.yielded(_t, a)\n    yield _r.yielded(_t, 1.5)\n    return _r.ret(_t, 'tc')\n\n")
    funcs.append({"qual": "gen_tcoro", "call": "gen_tcoro", "kind": "generator", "mk": PARAM_SHAPES[0][2], "exit": "gen", "params": ["a"]})
    # coroutines
    src.append("async def coro(a, b=None):\n" + enter_line("coro", ["a", "b"]) +
               "    x = await _r.Suspend()\n    y = await _r.Suspend()\n    return _r.ret(_t, (a, x + y))\n\n")
    src.append("async def coro_nosusp(a):\n" + enter_line("coro_nosusp", ["a"]) + "    return _r.ret(_t, a)\n\n")
    src.append("async def coro_raise(a):\n" + enter_line("coro_raise", ["a"]) +
               "    await _r.Suspend()\n    raise _r.raising(_t, RuntimeError('c'))\n\n")
    for q in ("coro", "coro_nosusp", "coro_raise"):
        funcs.append({"qual": q, "call": q, "kind": "coroutine", "mk": PARAM_SHAPES[0][2], "exit": "coro", "params": ["a"]})
    if with_async_gen:
        # asynchronous generators: resumed after every await and every yield; rebind their parameter in between
        src.append("async def agen(x, n=2):\n" + enter_line("agen", ["x", "n"]) +
                   "    for i in range(n):\n        x = str(x)\n        await _r.Suspend()\n        yield _r.yielded(_t, i)\n"
                   "    _r.ret(_t, None)\n\n"
                   "async def use_agen(x):\n" + enter_line("use_agen", ["x"]) +
                   "    out = []\n    async for v in agen(x, 3):\n        out.append(v)\n    return _r.ret(_t, out)\n\n")
        funcs.append({"qual": "use_agen", "call": "use_agen", "kind": "coroutine", "mk": PARAM_SHAPES[0][2], "exit": "coro", "params": ["x"]})
        # an asynchronous generator that is left after its first value and closed from outside (`aclose()`), or thrown into
        # (`athrow()`), while it is suspended at a yield no `try` of its own covers: the call ends by that exception
        src.append("async def use_agen_break(x):\n" + enter_line("use_agen_break", ["x"]) +
                   "    a = agen(x, 3)\n    async for v in a:\n        break\n    tok = a.ag_frame.f_locals.get('_t')\n"
                   "    if isinstance(x, int) and x % 2:\n        try:\n            await a.athrow(KeyError('thrown into agen'))\n"
                   "        except KeyError:\n            pass\n    else:\n        await a.aclose()\n"
                   "    _r.closed(tok)\n    return _r.ret(_t, 1)\n\n")
        funcs.append({"qual": "use_agen_break", "call": "use_agen_break", "kind": "coroutine", "mk": PARAM_SHAPES[0][2], "exit": "coro", "params": ["x"]})
    # classes
    sig, names, mk = shape()
    msig = "self" + (", " + sig if sig else "")
    csig = "cls" + (", " + sig if sig else "")
    src.append("class Base:\n"
               "    def inherited(self, x):\n" + enter_line("Base.inherited", ["self", "x"], "        ") + "        return _r.ret(_t, x)\n\n"
               "    def over(self, x):\n" + enter_line("Base.over", ["self", "x"], "        ") + "        return _r.ret(_t, [x])\n\n"
               "class K(Base):\n"
               "    def meth(%s):\n" % msig + enter_line("K.meth", ["self"] + names, "        ") + body_exit("expr", "        ") + "\n"
               "    @classmethod\n    def cmeth(%s):\n" % csig + enter_line("K.cmeth", ["cls"] + names, "        ") + body_exit("const", "        ") + "\n"
               "    @staticmethod\n    def smeth(%s):\n" % sig + enter_line("K.smeth", names, "        ") + body_exit("implicit", "        ") + "\n"
               "    @property\n    def prop(self):\n" + enter_line("K.prop", ["self"], "        ") + "        return _r.ret(_t, 3)\n\n"
               "    def over(self, x):\n" + enter_line("K.over", ["self", "x"], "        ") + "        return _r.ret(_t, super().over(x))\n\n"
               "    def gmeth(self, n):\n" + enter_line("K.gmeth", ["self", "n"], "        ") +
               "        for i in range(n):\n            yield _r.yielded(_t, (i, self))\n        return _r.ret(_t, n)\n\n"
               "    async def ameth(self, x, *, y=None):\n" + enter_line("K.ameth", ["self", "x", "y"], "        ") +
               "        z = await _r.Suspend()\n        return _r.ret(_t, [x, z])\n\n")
    funcs += [
        {"qual": "K.meth", "call": "K().meth", "kind": "method", "mk": mk, "exit": "expr", "params": ["self"] + names},
        {"qual": "K.cmeth", "call": "K.cmeth", "kind": "classmethod", "mk": mk, "exit": "const", "params": ["cls"] + names},
        {"qual": "K.smeth", "call": "K.smeth", "kind": "staticmethod", "mk": mk, "exit": "implicit", "params": names},
        {"qual": "K.prop", "call": "K().prop", "kind": "property", "mk": None, "exit": "const", "params": ["self"]},
        {"qual": "Base.inherited", "call": "K().inherited", "kind": "method", "mk": PARAM_SHAPES[0][2], "exit": "expr", "params": ["self", "x"]},
        {"qual": "K.over", "call": "K().over", "kind": "method", "mk": PARAM_SHAPES[0][2], "exit": "expr", "params": ["self", "x"]},
        {"qual": "K.gmeth", "call": "K().gmeth", "kind": "generator", "mk": lambda v: ((v.rng.randrange(0, 3),), {}), "exit": "gen", "params": ["self", "n"]},
        {"qual": "K.ameth", "call": "K().ameth", "kind": "coroutine", "mk": lambda v: ((v(),), {"y": v()} if v.rng.random() < 0.5 else {}),
         "exit": "coro", "params": ["self", "x", "y"]},
    ]
    return "".join(src), funcs


def make_workload(rng, funcs, n_steps, vals=None, abandon=False):
    """a workload is a list of steps; generators are advanced in random interleavings"""
    vals = vals or Vals(rng)
    steps = []
    for _ in range(n_steps):
        f = rng.choice(funcs)
        if f["kind"] == "property":
            steps.append(("prop", f["call"]))
        elif f["kind"] == "generator":
            a, k = f["mk"](vals)
            steps.append(("gen_start", f["call"], a, k))
        elif f["kind"] == "coroutine":
            a, k = f["mk"](vals)
            steps.append(("coro", f["call"], a, k))
        else:
            a, k = f["mk"](vals)
            steps.append(("call", f["call"], a, k))
        if rng.random() < 0.5:
            steps.append(("gen_advance", rng.randrange(8)))
        if abandon and rng.random() < 0.15:
            # drop a live generator without exhausting it: its frame is released and its memory may be reused by a later call
            steps.append(("gen_abandon", rng.randrange(8)))
    steps.append(("gen_drain",))
    return steps


def run_workload(mod, steps):
    """executes the steps against module `mod`; returns the list of (result-or-exception repr) per step"""
    import mtv.recorder as _r
    live = []
    out = []
    ns = {"K": getattr(mod, "K", None)}
    for s in steps:
        try:
            if s[0] == "call":
                f = eval(s[1], vars(mod))
                out.append(("ok", repr(f(*s[2], **s[3]))[:80]))
            elif s[0] == "prop":
                out.append(("ok", repr(eval(s[1], vars(mod)))))
            elif s[0] == "coro":
                f = eval(s[1], vars(mod))
                out.append(("ok", repr(_r.drive(f(*s[2], **s[3])))[:80]))
            elif s[0] == "gen_start":
                f = eval(s[1], vars(mod))
                live.append(f(*s[2], **s[3]))
                out.append(("ok", "started"))
            elif s[0] == "gen_advance":
                if live:
                    g = live[s[1] % len(live)]
                    try:
                        out.append(("ok", repr(next(g))[:80]))
                    except StopIteration as e:
                        live.remove(g)
                        out.append(("stop", repr(e.value)))
                else:
                    out.append(("ok", "nothing live"))
            elif s[0] == "gen_abandon":
                if live:
                    import gc
                    g = live.pop(s[1] % len(live))
                    # the generator and whatever it is delegating to (`yield from`): all of them are closed, innermost first
                    toks, x = [], g
                    while x is not None:
                        fr = getattr(x, "gi_frame", None)
                        toks.append(fr.f_locals.get("_t") if fr is not None else None)
                        x = getattr(x, "gi_yieldfrom", None)
                    fr = x = None
                    # the ground truth is told when the generator really goes (its frame is unwound by the GeneratorExit just then):
                    # normally at the `del` below, later if something else still refers to it
                    import weakref

                    def gone(toks=tuple(toks), rec=_r.REC):
                        for tok in reversed(toks):
                            if tok is not None and rec is not None:
                                rec.closed(tok)
                    weakref.finalize(g, gone)
                    del g
                    gc.collect()
                    out.append(("ok", "abandoned"))
                else:
                    out.append(("ok", "nothing live"))
            elif s[0] == "gen_drain":
                for g in list(live):
                    try:
                        for _ in g:
                            pass
                    except Exception as e:
                        out.append(("exc", type(e).__name__))
                live.clear()
                out.append(("ok", "drained"))
        except Exception as e:
            out.append(("exc", type(e).__name__))
            live[:] = [g for g in live if getattr(g, "gi_frame", None) is not None]
    return out


class ProgramDir:
    """writes generated modules into a temp dir on sys.path and imports them fresh"""
    def __init__(self, prefix="mtv_prog_"):
        import tempfile
        self.dir = tempfile.mkdtemp(prefix=prefix)
        sys.path.insert(0, self.dir)
        self.mods = []

    def load(self, name, source):
        path = os.path.join(self.dir, name + ".py")
        with open(path, "w") as f:
            f.write(source)
        importlib.invalidate_caches()
        sys.modules.pop(name, None)
        mod = importlib.import_module(name)
        self.mods.append(name)
        return mod, path

    def close(self):
        import shutil
        if self.dir in sys.path:
            sys.path.remove(self.dir)
        for m in self.mods:
            sys.modules.pop(m, None)
        shutil.rmtree(self.dir, ignore_errors=True)


# ---------------------------------------------------------------------------------------------------
# C01: the same modules with every function's parameters renamed apart (so that generated TypedDict
# class names, which MonkeyType derives from the parameter name, do not collide across functions) and
# some truthful existing annotations (`object`) for the annotation-strategy flags to act on.

def uniquify_params(src, funcs, rng=None, annotate_p=0.0):
    """returns (new source, new funcs, {qualname: {old: new}}, annotated positions {(qualname, name|'return')})"""
    import ast
    tree = ast.parse(src)
    maps = {}
    annotated = set()
    counter = [0]

    class R(ast.NodeTransformer):
        def __init__(self):
            self.scopes = [{}]
            self.path = []

        def _func(self, node):
            qual = ".".join(self.path + [node.name])
            counter[0] += 1
            tag = "_f%dx" % counter[0]
            a = node.args
            own = {}
            allargs = a.posonlyargs + a.args + a.kwonlyargs + ([a.vararg] if a.vararg else []) + ([a.kwarg] if a.kwarg else [])
            for x in allargs:
                if x.arg not in ("self", "cls"):
                    own[x.arg] = x.arg + tag
            maps[qual] = own
            scope = dict(self.scopes[-1])
            scope.update(own)
            # defaults are evaluated in the enclosing scope
            a.defaults = [self.visit(d) for d in a.defaults]
            a.kw_defaults = [self.visit(d) if d is not None else None for d in a.kw_defaults]
            node.decorator_list = [self.visit(d) for d in node.decorator_list]
            for x in allargs:
                if x.arg in own:
                    old = x.arg
                    x.arg = own[old]
                    if rng is not None and rng.random() < annotate_p:
                        x.annotation = ast.Name("object", ast.Load())
                        annotated.add((qual, x.arg))
            if rng is not None and rng.random() < annotate_p:
                node.returns = ast.Name("object", ast.Load())
                annotated.add((qual, "return"))
            self.scopes.append(scope)
            self.path += [node.name, "<locals>"]
            node.body = [self.visit(s) for s in node.body]
            self.path = self.path[:-2]
            self.scopes.pop()
            return node

        def visit_FunctionDef(self, node):
            return self._func(node)
        visit_AsyncFunctionDef = visit_FunctionDef

        def visit_ClassDef(self, node):
            self.path.append(node.name)
            self.generic_visit(node)
            self.path.pop()
            return node

        def visit_Name(self, node):
            m = self.scopes[-1]
            if node.id in m:
                node.id = m[node.id]
            return node

        def visit_keyword(self, node):
            self.generic_visit(node)
            m = self.scopes[-1]
            if node.arg in m:
                node.arg = m[node.arg]
            return node

        def visit_Compare(self, node):
            # the `'a' in dir()` idiom of body_exit
            self.generic_visit(node)
            m = self.scopes[-1]
            if isinstance(node.left, ast.Constant) and isinstance(node.left.value, str) and node.left.value in m and \
                    len(node.comparators) == 1 and isinstance(node.comparators[0], ast.Call) and \
                    getattr(node.comparators[0].func, "id", None) == "dir":
                node.left = ast.Constant(m[node.left.value])
            return node

    tree = R().visit(tree)
    ast.fix_missing_locations(tree)
    new_src = ast.unparse(tree) + "\n"
    new_funcs = []
    for f in funcs:
        m = maps.get(f["qual"], {})
        g = dict(f)
        g["params"] = [m.get(p, p) for p in f["params"]]
        mk = f["mk"]
        if mk is not None:
            g["mk"] = (lambda mk, m: (lambda v: (lambda ak: (ak[0], {m.get(k, k): x for k, x in ak[1].items()}))(mk(v))))(mk, m)
        new_funcs.append(g)
    return new_src, new_funcs, maps, annotated
