"""Ground-truth recorder used by generated programs.  Lives outside the traced module, so the code filter never admits it.
Every generated function reports, about itself: the values bound to its parameters at entry, every value it yields,
the value it returns, or that it is leaving by an exception.  Types are taken at the moment of the report."""
import itertools


_TOKENS = itertools.count()


class Recorder:
    def __init__(self, typer):
        def safe(v):
            # the reference typer is the repository's own get_type: if that cannot type a value the record says so (and no
            # logged trace will match it) instead of crashing the workload
            try:
                return typer(v)
            except RecursionError:
                return "<untypable: RecursionError>"
        self.typer = safe               # value -> comparable type description
        self.calls = {}                 # token -> record
        self.finished = []              # records in order of completion
        self.values = {}                # (qualname, position) -> list of observed values (for C01)
        self.n = _TOKENS                # call tokens are unique across recorders (a generator may outlive the run it was started in)
        self.active = True

    def enter(_self, qualname, /, **params):
        self = _self
        tok = next(self.n)
        rec = {"qualname": qualname, "args": {k: self.typer(v) for k, v in params.items()}, "yields": [], "ret": None,
               "exit": None, "tok": tok}
        self.calls[tok] = rec
        for k, v in params.items():
            self.values.setdefault((qualname, k), []).append(v)
        return tok

    def yielded(self, tok, v):
        self.calls[tok]["yields"].append(self.typer(v))
        self.values.setdefault((self.calls[tok]["qualname"], "yield"), []).append(v)
        return v

    def ret(self, tok, v):
        rec = self.calls[tok]
        rec["ret"] = self.typer(v)
        rec["exit"] = "return"
        self.values.setdefault((rec["qualname"], "return"), []).append(v)
        self.finished.append(rec)
        return v

    def raising(self, tok, exc):
        rec = self.calls[tok]
        rec["exit"] = "raise"
        self.finished.append(rec)
        return exc


    def closed(self, tok):
        """the harness dropped this generator while it was suspended: CPython closes it (GeneratorExit at the yield).  Whether
        that ends the frame by an exception (inside try / with / `yield from`) or leaves it parked at the yield is CPython's
        business; the call did not return"""
        rec = self.calls.get(tok)
        if rec is not None and rec["exit"] is None:
            rec["exit"] = "closed"
            self.finished.append(rec)
        return None


REC = None


def install(typer):
    global REC
    REC = Recorder(typer)
    return REC


def enter(qualname, /, **params):
    return REC.enter(qualname, **params)


def yielded(tok, v):
    return REC.yielded(tok, v)


def ret(tok, v):
    return REC.ret(tok, v)


def raising(tok, exc):
    return REC.raising(tok, exc)


def closed(tok):
    return REC.closed(tok) if tok is not None else None


class Suspend:
    """an awaitable that really suspends the coroutine once"""
    def __await__(self):
        yield "suspended"
        return 7


def drive(coro):
    """tiny deterministic event loop: run a coroutine to completion, counting suspensions"""
    n = 0
    try:
        while True:
            coro.send(None)
            n += 1
    except StopIteration as e:
        return e.value, n
