"""S-expressions for the line protocol.  Trees are nested tuples; atoms are `str`, quoted strings are `Q(str)`."""


class Q(str):
    """a quoted string atom"""
    __slots__ = ()

    def __repr__(self):
        return "Q(%s)" % str.__repr__(self)


def quote(s):
    out = ['"']
    for c in s:
        if c == '"':
            out.append('\\"')
        elif c == "\\":
            out.append("\\\\")
        elif c == "\n":
            out.append("\\n")
        elif c == "\t":
            out.append("\\t")
        else:
            out.append(c)
    out.append('"')
    return "".join(out)


def dumps(x):
    if isinstance(x, Q):
        return quote(x)
    if isinstance(x, str):
        return x
    if isinstance(x, bool):
        return "true" if x else "false"
    if isinstance(x, int):
        return str(x)
    return "(" + " ".join(dumps(e) for e in x) + ")"


def loads(s):
    pos = 0
    n = len(s)

    def skip():
        nonlocal pos
        while pos < n and s[pos] in " \t\r\n":
            pos += 1

    def one():
        nonlocal pos
        skip()
        if pos >= n:
            raise ValueError("unexpected end")
        c = s[pos]
        if c == "(":
            pos += 1
            out = []
            while True:
                skip()
                if pos >= n:
                    raise ValueError("unterminated list")
                if s[pos] == ")":
                    pos += 1
                    return tuple(out)
                out.append(one())
        if c == '"':
            pos += 1
            buf = []
            while True:
                if pos >= n:
                    raise ValueError("unterminated string")
                c = s[pos]
                if c == "\\":
                    d = s[pos + 1]
                    buf.append({"n": "\n", "t": "\t"}.get(d, d))
                    pos += 2
                elif c == '"':
                    pos += 1
                    return Q("".join(buf))
                else:
                    buf.append(c)
                    pos += 1
        start = pos
        while pos < n and s[pos] not in ' \t\r\n()"':
            pos += 1
        return s[start:pos]

    r = one()
    skip()
    if pos != n:
        raise ValueError("trailing input: %r" % s[pos:])
    return r
