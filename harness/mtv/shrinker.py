"""Greedy delta-debugging on value descriptors and on lists of them."""


def _children(d):
    if isinstance(d, str) or d[0] in ("inst", "str", "classObj"):
        return []
    if d[0] in ("dict", "ddict"):
        return [x for kv in d[1:] for x in kv]
    return list(d[1:])


def value_candidates(d):
    """strictly smaller variants of one descriptor"""
    if isinstance(d, str) or d[0] in ("inst", "str", "classObj"):
        return
    h = d[0]
    items = list(d[1:])
    for c in _children(d):
        yield c
    for i in range(len(items)):
        yield (h,) + tuple(items[:i] + items[i + 1:])
    for i, it in enumerate(items):
        if h in ("dict", "ddict"):
            k, v = it
            for v2 in value_candidates(v):
                yield (h,) + tuple(items[:i] + [(k, v2)] + items[i + 1:])
        else:
            for it2 in value_candidates(it):
                yield (h,) + tuple(items[:i] + [it2] + items[i + 1:])


def shrink_list(values, still_fails, budget=400):
    """values: list of descriptors; still_fails(list) -> bool. Returns a locally minimal failing list."""
    values = list(values)
    steps = 0
    changed = True
    while changed and steps < budget:
        changed = False
        for i in range(len(values)):
            cand = values[:i] + values[i + 1:]
            steps += 1
            if still_fails(cand):
                values = cand
                changed = True
                break
        if changed:
            continue
        for i, v in enumerate(values):
            for v2 in value_candidates(v):
                steps += 1
                if steps > budget:
                    break
                cand = values[:i] + [v2] + values[i + 1:]
                try:
                    ok = still_fails(cand)
                except Exception:
                    ok = False
                if ok:
                    values = cand
                    changed = True
                    break
            if changed or steps > budget:
                break
    return values
