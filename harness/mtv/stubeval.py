"""Evaluate a rendered stub with only the names it provides (C11, C01): import block executed in an empty namespace,
class stubs registered, every annotation string evaluated; evaluated types are mapped back to model trees."""
import ast
import builtins
import typing

from mypy_extensions import _TypedDictMeta

from . import tyconv
from .sexp import Q


class StubError(Exception):
    def __init__(self, clause, detail):
        super().__init__(clause + ": " + detail)
        self.clause = clause
        self.detail = detail


class EvaluatedStub:
    def __init__(self, text, own_names, tolerant=False):
        """own_names: the target module's own classes (name -> object), which a stub may use unqualified.
        tolerant: a generated class whose body cannot be evaluated is recorded in `broken` instead of aborting, so that
        the annotations that do not depend on it can still be judged"""
        self.text = text
        self.tolerant = tolerant
        self.broken = {}
        self.class_nodes = {}
        try:
            self.tree = ast.parse(text)
        except SyntaxError as e:
            raise StubError("syntax", repr(e))
        self.ns = {"__builtins__": builtins}
        self.ns.update(own_names)
        self.classes = {}
        self.class_info = {}      # name -> (base TypedDict class of the stub or None, total, own field names)
        self.duplicate_classes = []
        self.funcs = {}
        for node in self.tree.body:
            if isinstance(node, (ast.Import, ast.ImportFrom)):
                try:
                    exec(compile(ast.Module([node], []), "<stub-imports>", "exec"), self.ns)
                except Exception as e:
                    raise StubError("import", "%s: %r" % (ast.unparse(node), e))
        self._walk(self.tree, [])

    def _walk(self, node, path):
        for n in node.body:
            if isinstance(n, ast.ClassDef):
                is_td = any("TypedDict" in ast.unparse(b) or ast.unparse(b) in self.classes for b in n.bases)
                if is_td and not path:
                    if n.name in self.classes:
                        self.duplicate_classes.append(n.name)
                    self.class_nodes.setdefault(n.name, []).append(n)
                    try:
                        exec(compile(ast.Module([n], []), "<stub-class>", "exec"), self.ns)
                    except Exception as e:
                        if not self.tolerant:
                            raise StubError("class-body", "class %s: %r" % (n.name, e))
                        self.broken[n.name] = repr(e)
                        continue
                    self.classes[n.name] = self.ns[n.name]
                    base = next((ast.unparse(b) for b in n.bases if ast.unparse(b) in self.class_info), None)
                    total = not any(kw.arg == "total" and ast.unparse(kw.value) == "False" for kw in n.keywords)
                    own = [st.target.id for st in n.body if isinstance(st, ast.AnnAssign)]
                    self.class_info[n.name] = (base, total, own)
                    self.ns[n.name].__mtv_name__ = n.name
                else:
                    self._walk(n, path + [n.name])
            elif isinstance(n, (ast.FunctionDef, ast.AsyncFunctionDef)):
                self.funcs[".".join(path + [n.name])] = n

    def annotation(self, node):
        """evaluate one annotation AST node with the stub's own names"""
        src = ast.unparse(node)
        try:
            return eval(compile(ast.Expression(node), "<stub-annotation>", "eval"), self.ns)
        except Exception as e:
            raise StubError("annotation", "%s: %r" % (src, e))

    def resolve(self, t, tbl, depth=0):
        """evaluated annotation -> model tree, following forward references to the stub's TypedDict classes"""
        if depth > 20:
            raise StubError("annotation", "forward references do not terminate")
        if isinstance(t, str) or isinstance(t, typing.ForwardRef):
            name = t if isinstance(t, str) else t.__forward_arg__
            if name in self.broken:
                raise StubError("class-body", "class %s: %s" % (name, self.broken[name]))
            if name not in self.ns:
                raise StubError("forward-ref", "name %r is not provided by the stub" % name)
            return self.resolve(self.ns[name], tbl, depth + 1)
        if t is None:
            return ("cls", "9")
        if t is Ellipsis:
            raise StubError("annotation", "bare Ellipsis")
        if getattr(t, "__mtv_name__", None) is not None and not isinstance(t, _TypedDictMeta):
            # `class X(TypedDict)` where the name TypedDict denotes something else (a later import rebinds it)
            raise StubError("class-body", "generated class %s is not a TypedDict: its bases are %r" % (t.__mtv_name__, t.__bases__))
        if isinstance(t, _TypedDictMeta):
            ann = dict(t.__annotations__)
            name = getattr(t, "__mtv_name__", None)
            req, opt = {}, {}

            def split(cname):
                base, total, own = self.class_info[cname]
                if base is not None:
                    split(base)
                for k in own:
                    (req if total else opt)[k] = ann[k]
            if name in self.class_info:
                split(name)
            else:
                req = ann
            return ("td", tuple((Q(k), self.resolve(v, tbl, depth + 1)) for k, v in req.items()),
                    tuple((Q(k), self.resolve(v, tbl, depth + 1)) for k, v in opt.items()))
        origin = typing.get_origin(t)
        if origin is not None and origin is not typing.Union and t is not typing.Callable:
            args = getattr(t, "__args__", None)
            if args is None:
                # a bare generic (`Tuple`, `List`, `Dict`): every parameter is Any
                bare = {list: ("list", "any"), set: ("set", "any"), dict: ("dict", "any", "any"), tuple: ("tupleOf", "any")}.get(origin)
                if bare is None:
                    raise StubError("annotation", "bare generic %r" % (t,))
                return bare
            kids = []
            for a in args:
                if a is Ellipsis:
                    kids.append(Ellipsis)
                elif a == ():
                    continue
                else:
                    kids.append(self.resolve(a, tbl, depth + 1))
            name = {list: "list", set: "set", dict: "dict", tuple: "tuple", type: "typeOf"}.get(origin)
            import collections
            import collections.abc
            if origin is collections.defaultdict:
                name = "ddict"
            elif origin is collections.abc.Iterator:
                name = "iterator"
            elif origin is collections.abc.Generator:
                name = "generator"
            if name is None:
                raise StubError("annotation", "unexpected generic %r" % (t,))
            if name == "tuple" and len(kids) == 2 and kids[1] is Ellipsis:
                return ("tupleOf", kids[0])
            if name == "typeOf":
                return ("typeOf", kids[0][1])
            return (name,) + tuple(kids)
        if origin is typing.Union:
            return ("union",) + tuple(self.resolve(a, tbl, depth + 1) for a in t.__args__)
        try:
            return tyconv.ty_to_tree(t, tbl)
        except tyconv.Unrepresentable as e:
            raise StubError("annotation", "not a type of the grammar: %s" % (e,))
