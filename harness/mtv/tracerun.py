"""Run a workload under the real monkeytype tracer while recording, from outside, the event stream the tracer saw."""
import inspect
import opcode
import random
import sys

from . import recorder, tyconv
from .sexp import Q

RESUME = opcode.opmap.get("RESUME")
OPCLASS = {opcode.opmap["RETURN_VALUE"]: "retValue", opcode.opmap["YIELD_VALUE"]: "yieldValue"}
if "RETURN_CONST" in opcode.opmap:
    OPCLASS[opcode.opmap["RETURN_CONST"]] = "retConst"


class ListLogger:
    def __init__(self, fail_log_at=(), fail_flush=False):
        self.traces = []
        self.flushes = 0
        self.logs = 0
        self.fail_log_at = set(fail_log_at)
        self.fail_flush = fail_flush

    def log(self, trace):
        self.logs += 1
        if self.logs in self.fail_log_at:
            raise RuntimeError("injected: log failed")
        self.traces.append(trace)

    def flush(self):
        self.flushes += 1
        if self.fail_flush:
            raise RuntimeError("injected: flush failed")


class EventRecorder:
    """profiler wrapper: records (as model events) what the tracer is about to see, then delegates to the tracer"""

    def __init__(self, tracer, admit, tbl, k):
        from monkeytype.typing import get_type
        self.tracer = tracer
        self.admit = admit
        self.tbl = tbl
        self.k = k
        self.get_type = get_type
        self.events = []
        self.frames = {}          # id(frame) -> fid, while alive
        self.by_tok = {}          # the generated function's own call token -> fid
        self.foreign = set()      # ids of frames that were started before the recording began
        self.thrown = {}          # fid -> (offset of the YIELD_VALUE it was thrown into / closed at, yields announced by then)
        self.n_foreign = 0
        self.codes = {}           # code -> cid
        self.code_objs = {}
        self.nf = 0
        self.malformed = []

    def cid(self, code):
        if code not in self.codes:
            self.codes[code] = len(self.codes) + 1
            self.code_objs[self.codes[code]] = code
        return self.codes[code]

    def ty(self, v):
        return tyconv.ty_to_tree(self.get_type(v, self.k), self.tbl)

    def __call__(self, frame, event, arg):
        code = frame.f_code
        if event in ("call", "return") and code.co_name != "trace_types" and self.admit(code):
            try:
                self.record(frame, event, arg, code)
            except Exception as e:           # never disturb the run
                self.malformed.append(repr(e))
        return self.tracer(frame, event, arg)

    def announced(self, tok):
        """how many yields the (generated) function behind this token has announced to the ground-truth recorder so far"""
        from . import recorder
        rec = recorder.REC.calls.get(tok) if (recorder.REC is not None and tok is not None) else None
        return None if rec is None else len(rec["yields"])

    def record(self, frame, event, arg, code):
        cid = self.cid(code)
        lasti = frame.f_lasti
        # CPython may hand out a fresh frame *object* for a suspended frame nobody references (sampled-out generators), so the
        # object's id is not a stable name for the frame; the generated functions keep a unique token in the local `_t`
        tok = frame.f_locals.get("_t") if "_t" in code.co_varnames else None
        if tok is not None and tok in self.by_tok:
            self.frames[id(frame)] = self.by_tok[tok]
        if event == "call":
            # a frame that starts running is at its RESUME 0; anywhere else it was suspended (RESUME n after a yield / await,
            # or still at the YIELD_VALUE when the generator is closed or thrown into)
            resumed = bool(lasti >= 0 and RESUME is not None and not (code.co_code[lasti] == RESUME and code.co_code[lasti + 1] == 0))
            if resumed and id(frame) not in self.frames:
                # a frame that was started before this recording began (a generator left over from an earlier run that is
                # only finalised now): its events are not part of this history; the tracer under test ignores them too
                self.foreign.add(id(frame))
                self.n_foreign += 1
                return
            if not resumed:
                self.foreign.discard(id(frame))
                self.nf += 1
                self.frames[id(frame)] = self.nf
            fid = self.frames[id(frame)]
            if tok is not None:
                self.by_tok[tok] = fid
            if resumed and code.co_code[lasti] == opcode.opmap["YIELD_VALUE"]:
                # re-entered while still AT its yield (a next() / send() finds it at the RESUME after it): thrown into or closed.
                # What the program announced as yielded so far is remembered: if the frame is left at the same instruction with
                # None and no new announcement, nothing was yielded - the exception unwound it
                self.thrown[fid] = (lasti, self.announced(tok))
            names = code.co_varnames[: code.co_argcount + code.co_kwonlyargcount]
            args = tuple((Q(n), self.ty(frame.f_locals[n])) for n in names if n in frame.f_locals)
            self.events.append(("call", str(fid), str(cid), "true" if resumed else "false", args))
        else:
            if id(frame) in self.foreign and id(frame) not in self.frames:
                return
            fid = self.frames.get(id(frame))
            if fid is None:
                self.malformed.append("return from an unknown frame")
                self.nf += 1
                fid = self.frames[id(frame)] = self.nf
            if tok is not None:
                self.by_tok[tok] = fid
            op = OPCLASS.get(code.co_code[lasti], "other")
            mark = self.thrown.pop(fid, None)
            if mark is not None and op == "yieldValue" and mark[0] == lasti and arg is None and mark[1] == self.announced(tok):
                op = "other"           # the end of the call by the thrown exception, not a yield of None
            coro = bool(code.co_flags & inspect.CO_COROUTINE)
            if code.co_flags & inspect.CO_ASYNC_GENERATOR and op == "yieldValue":
                # an asynchronous generator suspends at its awaits and at its yields; CPython hands a yielded value over wrapped
                # in an internal object (and an awaited one bare): the model's `coro` flag stands for "this suspension is an await"
                if type(arg).__name__ == "async_generator_wrapped_value":
                    import gc
                    (arg,) = gc.get_referents(arg)
                    coro = False
                else:
                    coro = True
            sem = {"retValue": "returned", "retConst": "returned", "other": "raised"}.get(op) or ("awaited" if coro else "yielded")
            self.events.append(("ret", str(fid), str(cid), op, "true" if coro else "false", sem, self.ty(arg)))
            if sem in ("returned", "raised"):
                del self.frames[id(frame)]


def run_traced(workload, admit, tbl, k, rate=None, rng_seed=0, logger=None):
    """executes workload() under monkeytype.tracing.trace_calls; returns (logger, event recorder, tracer, draws, result)"""
    from monkeytype.tracing import trace_calls
    logger = logger or ListLogger()
    draws = []
    real_randrange = random.randrange

    def recording_randrange(*a, **kw):
        v = real_randrange(*a, **kw)
        draws.append(v)
        return v
    random.seed(rng_seed)
    er = None
    result = None
    random.randrange = recording_randrange
    try:
        with trace_calls(logger, k, admit, rate):
            tracer = sys.getprofile()
            # a sampler that draws from a generator of its own (rather than from the `random` module's shared one): seed it
            # and record its draws the same way
            for attr, val in list(vars(tracer).items()):
                if isinstance(val, random.Random):
                    val.seed(rng_seed)

                    def own_randrange(*a, _real=val.randrange, **kw):
                        v = _real(*a, **kw)
                        draws.append(v)
                        return v
                    val.randrange = own_randrange
            er = EventRecorder(tracer, admit, tbl, k)
            sys.setprofile(er)
            try:
                result = workload()
            finally:
                sys.setprofile(tracer)
    finally:
        random.randrange = real_randrange
    return logger, er, tracer, draws, result


def resolved(tracer, code):
    """the function the real tracer resolved this code object to (None: unresolvable or never seen); reads the tracer's
    function cache whether it is keyed by the code object or by its identity"""
    c = tracer.cache
    for key in (id(code), code):
        v = c.get(key)
        if v is not None:
            return v[1] if isinstance(v, tuple) else v
    return None


def model_request(er, tracer, ft, rate, draws):
    resolve = []
    for code, cid in er.codes.items():
        f = resolved(tracer, code)
        if f is not None:
            resolve.append((str(cid), str(ft.of(f))))
    return ("tracer", tuple(str(c) for c in er.codes.values()), tuple(resolve), "none" if rate is None else str(rate),
            tuple(str(d) for d in draws), tuple(er.events))


def trace_tree(t, tbl, ft):
    opt = lambda x: "none" if x is None else tyconv.canon(tyconv.ty_to_tree(x, tbl))
    return ("trace", str(ft.of(t.func)), tuple(sorted((Q(n), tyconv.canon(tyconv.ty_to_tree(v, tbl))) for n, v in t.arg_types.items())),
            opt(t.return_type), opt(t.yield_type))


def canon_model_trace(t):
    return ("trace", t[1], tuple(sorted((k, tyconv.canon(v)) for k, v in t[2])),
            t[3] if t[3] == "none" else tyconv.canon(t[3]), t[4] if t[4] == "none" else tyconv.canon(t[4]))
