"""Source of the tripwire module used by C03: every hook a tracer must not trigger journals itself."""

SOURCE = r'''
import collections
JOURNAL = []


def J(*what):
    JOURNAL.append(what)


class Hooked:
    """every attribute access is journalled"""
    def __getattribute__(self, name):
        J("Hooked.__getattribute__", name)
        return object.__getattribute__(self, name)


class Lazy:
    """__getattr__ resolves a lazy proxy (and counts)"""
    resolved = 0

    def __getattr__(self, name):
        J("Lazy.__getattr__", name)
        Lazy.resolved += 1
        raise AttributeError(name)

    def __call__(self):
        return 1


class ClsProp:
    """__class__ is a property (mock-like objects)"""
    @property
    def __class__(self):
        J("ClsProp.__class__")
        return int


class Desc:
    def __get__(self, obj, owner):
        J("Desc.__get__")
        return 42


class WithDescriptor:
    side = Desc()

    @property
    def lazy(self):
        J("WithDescriptor.lazy")
        return [1]


class Noisy:
    """hash / eq / bool / repr / len all journalled"""
    def __hash__(self):
        J("Noisy.__hash__")
        return 7

    def __eq__(self, other):
        J("Noisy.__eq__")
        return self is other

    def __bool__(self):
        J("Noisy.__bool__")
        return True

    def __repr__(self):
        J("Noisy.__repr__")
        return "Noisy()"

    def __len__(self):
        J("Noisy.__len__")
        return 3


class Meta(type):
    def __instancecheck__(cls, inst):
        J("Meta.__instancecheck__")
        return False

    def __subclasscheck__(cls, sub):
        J("Meta.__subclasscheck__")
        return False


class WithMeta(metaclass=Meta):
    pass


class EqMeta(type):
    """a metaclass with its own == (ORM column classes, registries): comparing the class with anything is journalled"""
    def __eq__(cls, other):
        J("EqMeta.__eq__")
        return cls is other

    __hash__ = type.__hash__


class WithEqMeta(metaclass=EqMeta):
    pass


class MyList(list):
    def __iter__(self):
        J("MyList.__iter__")
        return list.__iter__(self)

    def __len__(self):
        J("MyList.__len__")
        return list.__len__(self)

    def __contains__(self, x):
        J("MyList.__contains__")
        return list.__contains__(self, x)


class MyDict(dict):
    def keys(self):
        J("MyDict.keys")
        return dict.keys(self)

    def items(self):
        J("MyDict.items")
        return dict.items(self)

    def values(self):
        J("MyDict.values")
        return dict.values(self)

    def __iter__(self):
        J("MyDict.__iter__")
        return dict.__iter__(self)

    def __len__(self):
        J("MyDict.__len__")
        return dict.__len__(self)


class MySet(set):
    def __iter__(self):
        J("MySet.__iter__")
        return set.__iter__(self)


class MyTuple(tuple):
    def __iter__(self):
        J("MyTuple.__iter__")
        return tuple.__iter__(self)


class MyDefaultDict(collections.defaultdict):
    def items(self):
        J("MyDefaultDict.items")
        return collections.defaultdict.items(self)


GLOBAL_HOOKED = Hooked()
GLOBAL_CLSPROP = ClsProp()
GLOBAL_LAZY = Lazy()
TRIPWIRES = [Hooked, Lazy, ClsProp, WithDescriptor, Noisy, WithMeta, lambda: MyList([1, 2]), lambda: MyDict(a=1),
             lambda: MySet({1}), lambda: MyTuple((1,)), lambda: MyDefaultDict(int, {"a": 1})]


def make(i):
    return TRIPWIRES[i % len(TRIPWIRES)]()


def passthrough(x):
    return x


def two(a, b=None, *rest, **kw):
    return (a, b)


def returns_tripwire(i):
    return make(i)


def yields_tripwires(n):
    for i in range(n):
        yield make(i)


def in_containers(i):
    t = make(i)
    return passthrough([t, (t, {"k": t}), {"k": [t]}])


def as_dict_key(i):
    t = Hooked() if i % 3 == 0 else (ClsProp() if i % 3 == 1 else WithMeta())
    return passthrough({"first": 1, t: 2})


def as_only_key(i):
    return passthrough({ClsProp(): 1, Hooked(): 2})


class K:
    @staticmethod
    def smeth(x):      # found only through the classes in global scope: scans every global
        return x

    @classmethod
    def cmeth(cls, x):
        return x

    def meth(self, x):
        return x

    @property
    def prop(self):
        return 1


def via_outer_locals(i):
    cb = Lazy()                  # a callable local with __getattr__ in an outer frame
    hooked = Hooked()
    noisy = Noisy()

    def nested(y):               # resolvable only through the locals of outer frames
        return y
    return relay(Lazy(), hooked, nested, i) + cb()


def relay(lazy_first, hooked_first, f, v):
    # `lazy_first` and `hooked_first` come before `f` in this frame's locals, which is the order in which a scan of the
    # locals of outer frames meets them
    return f(v)


def raises(i):
    t = make(i)
    raise KeyError("program's own exception %d" % i)


def prints(i):
    t = make(i)
    print("output", i)
    return i * 2


# --- three things the unchanged tracer is known to do (open findings of C03; see known_findings.txt)
class HashMeta(type):
    def __hash__(cls):
        J("HashMeta.__hash__")
        return 7

    def __eq__(cls, other):
        return cls is other


class Hashed(metaclass=HashMeta):
    pass


def eqmeta_bare(i):
    """instances of a class whose metaclass defines ==, as argument, return value and yield value (never inside a container)"""
    def gen():
        yield WithEqMeta()
    return type(passthrough(WithEqMeta())) is WithEqMeta and len(list(gen())) == 1


def eqmeta_in_container(i):
    return len(passthrough([WithEqMeta()]))


def takes_class(i):
    return passthrough(Hashed) is Hashed


def locals_snapshot(i):
    x = 1
    d = locals()
    d['x'] = 2

    def inner():
        return 0
    inner()
    return d['x']


class Fin:
    def __del__(self):
        J("Fin.__del__")


def finalizer_order(i):
    def outer():
        r = Fin()

        def inner():
            return r
        inner()
    outer()
    J("after outer")
    return 0


def uses_random(i):
    """a program with its own use of the `random` module: seeded, some traced calls, then it draws"""
    import random
    random.seed(i)
    first = random.random()
    for j in range(5):
        passthrough(j)
        plain_value(j)
    return (first, random.random(), random.randrange(1000))


def draws_random(i):
    """draws from the shared generator without seeding it (the caller seeded it earlier), between traced calls"""
    import random
    out = []
    for j in range(4):
        passthrough(j)
        out.append(random.randrange(1000))
        plain_value(j)
    out.append(random.random())
    return tuple(out)


def plain_value(j):
    return [j]
'''
