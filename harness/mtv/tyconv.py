"""Python typing objects -> model S-expression trees, and the canonical form used for every comparison.

Deliberately independent of monkeytype's own helpers (uses typing.get_origin/get_args and the
TypedDict metaclass directly), so that a change in monkeytype.compat cannot silently change both sides."""
import collections
import collections.abc
import typing

from mypy_extensions import _TypedDictMeta

from .sexp import Q

NoneType = type(None)


class Unrepresentable(Exception):
    pass


def is_anon_td(t):
    return isinstance(t, _TypedDictMeta) and t.__name__ == "DUMMY_NAME"


def td_fields(t):
    ann = t.__annotations__
    return ann["required_fields"].__annotations__, ann["optional_fields"].__annotations__


def ty_to_tree(t, tbl):
    if t is typing.Any:
        return "any"
    if is_anon_td(t):
        req, opt = td_fields(t)
        return ("td", tuple((Q(k), ty_to_tree(v, tbl)) for k, v in req.items()),
                tuple((Q(k), ty_to_tree(v, tbl)) for k, v in opt.items()))
    if isinstance(t, _TypedDictMeta):
        raise Unrepresentable("named TypedDict %r" % (t,))
    origin = typing.get_origin(t)
    if origin is typing.Union:
        return ("union",) + tuple(ty_to_tree(a, tbl) for a in t.__args__)
    if t is typing.Callable or (origin is collections.abc.Callable and False):
        return "callable"
    if origin is None and getattr(t, "__module__", None) == "typing" and hasattr(t, "__origin__"):
        raise Unrepresentable("bare generic %r" % (t,))
    if origin is not None:
        args = getattr(t, "__args__", None)
        if args is None:
            raise Unrepresentable("bare generic %r" % (t,))
        if origin is list:
            return ("list", ty_to_tree(args[0], tbl))
        if origin is set:
            return ("set", ty_to_tree(args[0], tbl))
        if origin is dict:
            return ("dict", ty_to_tree(args[0], tbl), ty_to_tree(args[1], tbl))
        if origin is collections.defaultdict:
            return ("ddict", ty_to_tree(args[0], tbl), ty_to_tree(args[1], tbl))
        if origin is tuple:
            if args == ((),):
                return ("tuple",)
            if len(args) == 2 and args[1] is Ellipsis:
                return ("tupleOf", ty_to_tree(args[0], tbl))
            return ("tuple",) + tuple(ty_to_tree(a, tbl) for a in args)
        if origin is type:
            if not isinstance(args[0], type):
                raise Unrepresentable("Type[%r]" % (args[0],))
            return ("typeOf", str(tbl.of(args[0])))
        if origin is collections.abc.Iterator:
            return ("iterator", ty_to_tree(args[0], tbl))
        if origin is collections.abc.Generator:
            return ("generator",) + tuple(ty_to_tree(a, tbl) for a in args)
        raise Unrepresentable("generic %r" % (t,))
    if isinstance(t, type):
        return ("cls", str(tbl.of(t)))
    raise Unrepresentable(repr(t))


def tree_to_ty(x, tbl):
    """model tree -> Python typing object (members in the given order)"""
    from monkeytype.typing import make_typed_dict  # constructor only
    if x == "any":
        return typing.Any
    if x == "callable":
        return typing.Callable
    h = x[0]
    if h == "cls":
        return tbl.cls[int(x[1])]
    if h == "typeOf":
        return typing.Type[tbl.cls[int(x[1])]]
    if h == "list":
        return typing.List[tree_to_ty(x[1], tbl)]
    if h == "set":
        return typing.Set[tree_to_ty(x[1], tbl)]
    if h == "dict":
        return typing.Dict[tree_to_ty(x[1], tbl), tree_to_ty(x[2], tbl)]
    if h == "ddict":
        return typing.DefaultDict[tree_to_ty(x[1], tbl), tree_to_ty(x[2], tbl)]
    if h == "tuple":
        if len(x) == 1:
            return typing.Tuple[()]
        return typing.Tuple[tuple(tree_to_ty(a, tbl) for a in x[1:])]
    if h == "tupleOf":
        return typing.Tuple[tree_to_ty(x[1], tbl), ...]
    if h == "iterator":
        return typing.Iterator[tree_to_ty(x[1], tbl)]
    if h == "generator":
        return typing.Generator[tree_to_ty(x[1], tbl), tree_to_ty(x[2], tbl), tree_to_ty(x[3], tbl)]
    if h == "union":
        return typing.Union[tuple(tree_to_ty(a, tbl) for a in x[1:])]
    if h == "td":
        return make_typed_dict(required_fields={str(k): tree_to_ty(v, tbl) for k, v in x[1]},
                               optional_fields={str(k): tree_to_ty(v, tbl) for k, v in x[2]})
    raise ValueError(x)


def _key(x):
    from .sexp import dumps
    return dumps(x)


def canon(x):
    """canonical form: union members deduplicated structurally and sorted, a singleton union collapsed,
    TypedDict fields sorted by key.  Applied to BOTH the implementation's and the model's output."""
    if isinstance(x, str):
        return x
    h = x[0]
    if h == "union":
        ms = []
        for a in x[1:]:
            c = canon(a)
            if isinstance(c, tuple) and c and c[0] == "union":
                ms.extend(c[1:])
            else:
                ms.append(c)
        ms = sorted(set(ms), key=_key)
        if len(ms) == 1:
            return ms[0]
        return ("union",) + tuple(ms)
    if h == "td":
        return ("td", tuple(sorted(((k, canon(v)) for k, v in x[1]), key=lambda kv: kv[0])),
                tuple(sorted(((k, canon(v)) for k, v in x[2]), key=lambda kv: kv[0])))
    if h in ("cls", "typeOf"):
        return x
    return (h,) + tuple(canon(a) for a in x[1:])
