"""The finite type grammar of C07/C08/C11: type trees (model S-expressions), tight witnesses, rewriter triggers."""
import itertools

from . import fixture_classes as fx
from .sexp import Q, dumps

ANY = "any"


class TypeGen:
    def __init__(self, tbl, rng):
        self.tbl = tbl
        self.rng = rng
        cid = lambda c: ("cls", str(tbl.of(c)))
        self.atoms = [cid(int), cid(str), cid(bool), cid(type(None)), cid(float)]
        self.classes = [cid(c) for c in (fx.A, fx.B, fx.C, fx.D, fx.E, fx.F, fx.P, fx.Q_, fx.X, fx.Y, fx.Z)]
        self.shapes = [cid(c) for c in fx.SHAPES[1:]]
        self.classes += self.shapes + [cid(c) for c in fx.NAME_CLASH + [fx.Falsy]]
        self.type_of = [("typeOf", str(tbl.of(c))) for c in (fx.A, fx.B, int)]

    def leaf(self):
        r = self.rng.random()
        if r < 0.45:
            return self.rng.choice(self.atoms)
        if r < 0.8:
            return self.rng.choice(self.classes)
        if r < 0.86:
            return self.rng.choice(self.type_of)
        if r < 0.92:
            return "callable"
        return ("iterator", ANY)

    def empty_container(self):
        return self.rng.choice([("list", ANY), ("set", ANY), ("dict", ANY, ANY), ("ddict", ANY, ANY), ("iterator", ANY)])

    def ty(self, depth=3, in_union=False):
        rng = self.rng
        if depth <= 0 or rng.random() < 0.3:
            return self.leaf()
        r = rng.random()
        if r < 0.08:
            return self.empty_container()
        if r < 0.2:
            return ("list", self.ty(depth - 1))
        if r < 0.28:
            return ("set", self.ty(depth - 1))
        if r < 0.42:
            return ("dict", self.ty(depth - 1), self.ty(depth - 1))
        if r < 0.48:
            return ("ddict", self.ty(depth - 1), self.ty(depth - 1))
        if r < 0.62:
            n = rng.choice([0, 1, 1, 2, 2, 3])
            return ("tuple",) + tuple(self.ty(depth - 1) for _ in range(n))
        if r < 0.66:
            none = ("cls", "9")
            return ("generator", self.ty(depth - 1), rng.choice([none, none, self.leaf()]), rng.choice([none, none, self.leaf()]))
        if in_union:
            return self.leaf()
        return self.union(depth)

    def union(self, depth):
        rng = self.rng
        n = rng.choice([2, 2, 3, 3, 4, 5, 6, 7, 8])
        style = rng.random()
        if style < 0.06 and getattr(self, "shapes", None):     # one family, with a Protocol among the bases of some members (issubclass refuses it)
            ms = rng.sample(self.shapes, min(n, len(self.shapes)))
        elif style < 0.2:    # classes only (common base / large union of classes)
            ms = [rng.choice(self.classes) for _ in range(n)]
        elif style < 0.35:   # dicts with one key type (config dict)
            k = self.leaf()
            ms = [("dict", k if rng.random() < 0.85 else self.leaf(), self.ty(depth - 1, True)) for _ in range(n)]
        elif style < 0.5:    # tuples of one element type
            v = self.leaf()
            ms = [("tuple",) + tuple(v if rng.random() < 0.9 else self.leaf() for _ in range(rng.choice([0, 1, 2, 3, 4])))
                  for _ in range(n)]
        elif style < 0.7:    # empties next to non-empties
            ms = [self.ty(depth - 1, True) for _ in range(max(1, n - 2))]
            for _ in range(2):
                e = self.empty_container()
                ms.append(e)
                if rng.random() < 0.6:
                    full = {"list": ("list", self.ty(depth - 1, True)), "set": ("set", self.leaf()),
                            "dict": ("dict", self.leaf(), self.ty(depth - 1, True)),
                            "ddict": ("ddict", self.leaf(), self.leaf()), "iterator": ("iterator", ANY)}[e[0]]
                    ms.append(full)
            rng.shuffle(ms)
        else:
            ms = [self.ty(depth - 1, True) for _ in range(n)]
        return ("union",) + tuple(ms)


def small_types(tbl, max_size):
    """exhaustive: all type trees of size <= max_size over a reduced alphabet"""
    cid = lambda c: ("cls", str(tbl.of(c)))
    atoms = [cid(int), cid(type(None)), cid(fx.B), cid(fx.C), ANY]
    by = {1: list(atoms) + [("tuple",)]}

    def seqs(total, n):
        if n == 0:
            if total == 0:
                yield ()
            return
        for s in range(1, total - (n - 1) + 1):
            for first in by.get(s, []):
                for rest in seqs(total - s, n - 1):
                    yield (first,) + rest

    for size in range(2, max_size + 1):
        out = []
        body = size - 1
        for (a,) in seqs(body, 1):
            out += [("list", a), ("set", a), ("iterator", a)] if a != ("tuple",) or True else []
        for a, b in seqs(body, 2):
            out += [("dict", a, b), ("ddict", a, b)]
        for n in range(1, body + 1):
            for s in seqs(body, n):
                out.append(("tuple",) + s)
                if n >= 2 and len(set(s)) == n and not any(isinstance(m, tuple) and m[0] == "union" for m in s):
                    out.append(("union",) + s)
        for y, s_, r in seqs(body, 3):
            out.append(("generator", y, s_, r))
        by[size] = out
    res = []
    for s in range(1, max_size + 1):
        res.extend(by[s])
    return res


# ---------------------------------------------------------------------------------------------------------
# witnesses: value descriptors that belong to a type under the *tight* reading (Any admits nothing)

def witnesses(t, tbl, limit=4):
    """a few value descriptors conforming to type tree `t` (tight reading); may be empty (e.g. bare Any)"""
    if t == ANY:
        return []
    if t == "callable":
        return ["func"]
    h = t[0]
    if h == "cls":
        c = tbl.cls[int(t[1])]
        if c is str:
            return [("str", Q("w"))]
        if c in (list, set, tuple, dict) or c.__name__ in ("defaultdict", "type", "function", "generator", "object"):
            return []
        return [("inst", t[1])]
    if h == "typeOf":
        return [("classObj", t[1])]
    if h in ("iterator", "generator"):
        return ["genObj"]
    if h in ("list", "set"):
        ws = witnesses(t[1], tbl, 2)
        out = [(h,)]
        if ws:
            from .values import hashable
            ws2 = [w for w in ws if h == "list" or hashable(w)]
            if ws2:
                out.append((h, ws2[0]))
                if len(ws2) > 1:
                    out.append((h,) + tuple(ws2[:2]))
        return out[:limit]
    if h in ("dict", "ddict"):
        from .values import hashable
        ks = [w for w in witnesses(t[1], tbl, 2) if hashable(w)]
        vs = witnesses(t[2], tbl, 2)
        out = [(h,)]
        if ks and vs:
            out.append((h, (ks[0], vs[0])))
            if len(vs) > 1:
                out.append((h, (ks[0], vs[1])))
        return out[:limit]
    if h == "tuple":
        cols = [witnesses(a, tbl, 2) for a in t[1:]]
        if any(not c for c in cols):
            return []
        out = [("tuple",) + tuple(c[0] for c in cols)]
        if any(len(c) > 1 for c in cols):
            out.append(("tuple",) + tuple(c[-1] for c in cols))
        return out
    if h == "tupleOf":
        ws = witnesses(t[1], tbl, 2)
        return [("tuple",)] + ([("tuple", ws[0]), ("tuple", ws[0], ws[-1])] if ws else [])
    if h == "union":
        out = []
        for a in t[1:]:
            out.extend(witnesses(a, tbl, 2))
        return out[:max(limit, len(t) - 1)]
    if h == "td":
        req, opt = t[1], t[2]
        rv = [(k, witnesses(v, tbl, 1)) for k, v in req]
        ov = [(k, witnesses(v, tbl, 1)) for k, v in opt]
        if any(not w for _, w in rv):
            return []
        base = tuple((("str", Q(str(k))), w[0]) for k, w in rv)
        out = []
        if base or not opt:
            out.append(("dict",) + base)
        full = base + tuple((("str", Q(str(k))), w[0]) for k, w in ov if w)
        if full != base:
            out.append(("dict",) + full)
        return [o for o in out if len(o) > 1]
    return []


# ---------------------------------------------------------------------------------------------------------
# documented triggers (the property's own wording), evaluated on the raw tree the implementation holds

def _nodes(t):
    yield t
    if isinstance(t, str) or t[0] in ("cls", "typeOf"):
        return
    if t[0] == "td":
        for _, v in t[1] + t[2]:
            yield from _nodes(v)
        return
    for a in t[1:]:
        yield from _nodes(a)


def _is_empty_c(t):
    if isinstance(t, str) or t[0] in ("cls", "typeOf", "td", "tupleOf"):
        return False
    args = t[1:]
    return len(args) > 0 and all(a == ANY for a in args)


def _kind(t):
    if isinstance(t, str):
        return None
    return {"tupleOf": "tuple"}.get(t[0], t[0]) if t[0] not in ("cls", "td") else None


def trigger(rw, t, is_plain_class=lambda tree: True):
    """does type tree `t` contain the documented trigger of rewriter `rw` anywhere?"""
    for n in _nodes(t):
        if isinstance(n, str):
            continue
        if rw == "generator":
            if n[0] == "generator" and n[2] == ("cls", "9") and n[3] == ("cls", "9"):
                return True
            continue
        if n[0] != "union":
            continue
        ms = n[1:]
        if rw == "removeEmpty":
            kinds = {_kind(m) for m in ms if not _is_empty_c(m)}
            if any(_is_empty_c(m) and _kind(m) in kinds for m in ms):
                return True
        elif isinstance(rw, tuple) and rw[0] == "largeUnion":
            if len(ms) > int(rw[1]):
                return True
        elif rw == "configDict":
            if all((not isinstance(m, str)) and m[0] == "dict" for m in ms):
                from .tyconv import canon
                if len({dumps(canon(m[1])) for m in ms}) == 1:
                    return True
        elif rw == "mscb":
            if all((not isinstance(m, str)) and m[0] == "cls" for m in ms):
                return True
    return False
