"""The value grammar: descriptors (model `Val` trees) and the Python objects they describe.

A descriptor is the S-expression tree of a model `Val`.  `build(desc)` constructs the real Python object
*from the grammar* (never by inspecting an object), so that a change in how MonkeyType classifies objects
cannot move both sides at once."""
import collections
import itertools

from . import fixture_classes as fx
from .classes import ClassTable
from .sexp import Q

NONE, OBJECT, INT, BOOL, FLOAT, BYTES = "9", "10", "11", "12", "13", "14"


class Retry(Exception):
    """descriptor cannot be realised (hash collision between keys, unhashable element)"""


def _gen():
    yield 1


class Builder:
    def __init__(self, tbl: ClassTable):
        self.tbl = tbl
        self.n = itertools.count(2)
        self.user_ids = {str(tbl.of(c)): c for c in fx.PLAIN + fx.CONTAINER_SUBS}
        # when a dict (set by the caller for one top-level realisation), equal container descriptors are realised as ONE
        # object: the same list / dict reachable at several positions of a value, or from several values (aliasing)
        self.memo = None
        self.funcs = [fx.module_function, (lambda: 0), len, [].append, fx.WithMethods().method,
                      fx.WithMethods.smethod, fx.WithMethods.cmethod, "x".join]

    def inst(self, cid):
        i = next(self.n)
        if cid == NONE:
            return None
        if cid == INT:
            return i
        if cid == BOOL:
            return bool(i % 2)
        if cid == FLOAT:
            return i + 0.5
        if cid == BYTES:
            return b"b%d" % i
        if cid == OBJECT:
            return object()
        c = self.user_ids.get(cid)
        if c is None:
            raise ValueError("no factory for class id " + cid)
        if c is fx.MyList:
            return c([1, "a", {"k": 1}])
        if c is fx.MySet:
            return c({1, "a"})
        if c is fx.MyTuple:
            return c((1, "a"))
        if c is fx.MyDict:
            return c({"k": 1, "j": "v"})
        if c is fx.MyDefaultDict:
            d = c(int)
            d["k"] = 1
            return d
        if c is fx.MyStr:
            # equal to (and hashing like) the plain strings used as dict keys elsewhere in the same process: whatever is
            # remembered per string must not be applied to an instance of a str subclass
            return c("abcdefghijklm"[i % 13])
        if c is fx.MyInt:
            return c(i)
        return c()

    def build(self, d):
        """returns (python object, descriptor with set/dict members in real iteration order)"""
        if self.memo is not None and isinstance(d, tuple) and d[0] in ("list", "set", "tuple", "dict", "ddict") and len(d) > 1:
            if d in self.memo:
                self.shared += 1
                return self.memo[d]
            r = self._build(d)
            self.memo[d] = r
            return r
        return self._build(d)

    shared = 0

    def _build(self, d):
        if d == "func":
            return self.funcs[next(self.n) % len(self.funcs)], d
        if d == "genObj":
            return _gen(), d
        h = d[0]
        if h == "inst":
            return self.inst(d[1]), d
        if h == "str":
            return str(d[1]), d
        if h == "classObj":
            return self.tbl.cls[int(d[1])], d
        if h in ("list", "tuple"):
            parts = [self.build(e) for e in d[1:]]
            objs = [p[0] for p in parts]
            return (objs if h == "list" else tuple(objs)), (h,) + tuple(p[1] for p in parts)
        if h == "set":
            parts = [self.build(e) for e in d[1:]]
            try:
                s = set(p[0] for p in parts)
            except TypeError:
                raise Retry("unhashable set element")
            if len(s) != len(parts):
                raise Retry("set elements collide")
            by_id = {id(p[0]): p[1] for p in parts}
            return s, ("set",) + tuple(by_id[id(o)] for o in s)
        if h in ("dict", "ddict"):
            out = {} if h == "dict" else collections.defaultdict(int)
            descs = []
            for k, v in d[1:]:
                ko, kd = self.build(k)
                vo, vd = self.build(v)
                try:
                    if ko in out:
                        raise Retry("dict keys collide")
                    out[ko] = vo
                except TypeError:
                    raise Retry("unhashable key")
                descs.append((kd, vd))
            return out, (h,) + tuple(descs)
        raise ValueError(d)


def hashable(d):
    if isinstance(d, str):
        return True
    h = d[0]
    if h in ("list", "set", "dict", "ddict"):
        return False
    if h == "tuple":
        return all(hashable(e) for e in d[1:])
    return True


class Gen:
    """random descriptors; every choice comes from the one `rng` passed in"""

    def __init__(self, tbl, rng):
        self.tbl = tbl
        self.rng = rng
        self.plain = [str(tbl.of(c)) for c in fx.PLAIN]
        self.subs = [str(tbl.of(c)) for c in fx.CONTAINER_SUBS]
        self.unhashable_subs = {str(tbl.of(c)) for c in (fx.MyList, fx.MySet, fx.MyDict, fx.MyDefaultDict)}
        self.classobjs = self.plain + [INT, "0", NONE, str(tbl.of(fx.MyList))]
        # keys: identifiers, and strings a class-syntax TypedDict cannot have as field names (a dash, a keyword, a leading digit,
        # a blank, the empty string)
        self.strs = ["a", "b", "c", "d", "e", "f", "g", "h", "i", "j", "k", "l", "m", "_n", "", "a b", "é", "a-b", "class", "1x"]

    def atom(self, need_hashable=False):
        r = self.rng.random()
        if r < 0.22:
            return ("inst", INT)
        if r < 0.36:
            return ("str", Q(self.rng.choice(self.strs)))
        if r < 0.46:
            return ("inst", NONE)
        if r < 0.52:
            return ("inst", self.rng.choice([BOOL, FLOAT, BYTES, OBJECT]))
        if r < 0.72:
            return ("inst", self.rng.choice(self.plain))
        if r < 0.80:
            c = self.rng.choice(self.subs)
            if need_hashable and c in self.unhashable_subs:
                return ("inst", INT)
            return ("inst", c)
        if r < 0.88:
            return ("classObj", self.rng.choice(self.classobjs))
        if r < 0.95:
            return "func"
        return "genObj"

    def value(self, depth=3, need_hashable=False):
        rng = self.rng
        if depth <= 0 or rng.random() < 0.35:
            return self.atom(need_hashable)
        kinds = ["tuple"] if need_hashable else ["list", "set", "tuple", "dict", "dict", "ddict"]
        k = rng.choice(kinds)
        n = rng.choice([0, 0, 1, 1, 2, 2, 3, 4])
        if k == "list":
            return ("list",) + tuple(self.similar_values(n, depth - 1))
        if k == "tuple":
            return ("tuple",) + tuple(self.value(depth - 1, need_hashable) for _ in range(n))
        if k == "set":
            return ("set",) + tuple(self.value(depth - 1, True) for _ in range(n))
        return self.dict_value(k, depth)

    def similar_values(self, n, depth):
        """lists often hold same-shaped elements: reuse one shape with mutations so that the
        all-TypedDict / all-equal / all-list branches of shrink_types are actually reached"""
        if n == 0:
            return []
        if self.rng.random() < 0.5:
            return [self.value(depth) for _ in range(n)]
        base = self.value(depth)
        return [base if self.rng.random() < 0.5 else self.mutate(base, depth) for _ in range(n)]

    def mutate(self, d, depth):
        rng = self.rng
        if isinstance(d, str) or d[0] in ("inst", "str", "classObj"):
            return self.atom()
        h = d[0]
        items = list(d[1:])
        if h in ("dict", "ddict"):
            r = rng.random()
            if items and r < 0.3:
                items.pop(rng.randrange(len(items)))
            elif r < 0.6:
                used = {k for k, _ in items}
                k = ("str", Q(rng.choice(self.strs)))
                if k not in used:
                    items.append((k, self.value(depth - 1)))
            elif items:
                i = rng.randrange(len(items))
                items[i] = (items[i][0], self.mutate(items[i][1], depth - 1))
            return (h,) + tuple(items)
        if items and rng.random() < 0.6:
            i = rng.randrange(len(items))
            items[i] = self.mutate(items[i], depth - 1)
            if h == "set" and not hashable(items[i]):
                items[i] = ("inst", INT)
        elif h != "tuple":
            items.append(self.value(depth - 1, h == "set"))
        return (h,) + tuple(items)

    def dict_value(self, kind, depth, nkeys=None):
        rng = self.rng
        n = nkeys if nkeys is not None else rng.choice([0, 1, 1, 2, 2, 3, 3, 4, 5, 7, 12])
        # "strsub": every key an instance of a str subclass (an Enum member with a str mixin is one): such a dict is no TypedDict
        mode = rng.choice(["str", "str", "str", "mixed", "nonstr", "strsub"])
        keys = []
        strs = list(self.strs)
        rng.shuffle(strs)
        for i in range(n):
            if mode == "strsub":
                keys.append(("inst", str(self.tbl.of(fx.MyStr))))
            elif mode == "str" or (mode == "mixed" and rng.random() < 0.5):
                keys.append(("str", Q(strs[i % len(strs)] + ("" if i < len(strs) else str(i)))))
            else:
                keys.append(rng.choice([("inst", INT), ("inst", INT), ("inst", FLOAT), ("inst", rng.choice(self.plain)),
                                        ("tuple", ("inst", INT), ("str", Q("t"))), ("inst", NONE) if i == 0 else ("inst", INT)]))
        return (kind,) + tuple((k, self.value(depth - 1)) for k in keys)

    # -- "records": str-keyed dicts over a tiny key alphabet, merged at several levels ----------------
    def record(self, depth=1):
        rng = self.rng
        keys = rng.sample(["a", "b", "c", "d"], rng.choice([1, 1, 2, 2, 3]))
        out = []
        for k in keys:
            r = rng.random()
            if depth > 0 and r < 0.15:
                v = self.record(depth - 1)
            elif depth > 0 and r < 0.25:
                v = ("list",) + tuple(self.record(depth - 1) for _ in range(rng.choice([1, 2])))
            else:
                v = rng.choice([("inst", INT), ("inst", INT), ("str", Q("s")), ("inst", NONE), ("inst", FLOAT)])
            out.append((("str", Q(k)), v))
        return ("dict",) + tuple(out)

    def record_struct(self):
        """records nested so that TypedDicts with optional fields get merged again (second-stage merges)"""
        rng = self.rng
        recs = lambda: ("list",) + tuple(self.record() for _ in range(rng.choice([1, 2, 2, 3])))
        r = rng.random()
        if r < 0.2:
            return recs()
        if r < 0.4:
            return ("list",) + tuple(recs() for _ in range(rng.choice([1, 2, 3])))
        if r < 0.55:
            return ("dict", (("str", Q("rows")), recs()))
        if r < 0.65:
            return ("tuple", recs(), rng.choice([("inst", INT), ("inst", NONE)]))
        if r < 0.75:
            return ("ddict", (("str", Q("k")), recs()))
        if r < 0.85:
            return self.record()
        return ("set", ("tuple", ("inst", INT), ("str", Q("x"))))

    def record_multiset(self):
        rng = self.rng
        n = rng.choice([1, 2, 2, 3, 4])
        first = self.record_struct()
        out = [first]
        for _ in range(n - 1):
            r = rng.random()
            if r < 0.5:
                # same outer shape, other records
                out.append(self._reshape(first))
            elif r < 0.7:
                out.append(rng.choice([("inst", NONE), ("inst", INT), ("list",), ("dict",)]))
            else:
                out.append(self.record_struct())
        return out

    def _reshape(self, d):
        if isinstance(d, str) or d[0] in ("inst", "str", "classObj"):
            return d
        h = d[0]
        if h == "dict" and len(d) > 1 and all(kv[0][0] == "str" for kv in d[1:]) and any(
                str(kv[0][1]) in "abcd" for kv in d[1:]):
            return self.record()
        if h in ("dict", "ddict"):
            return (h,) + tuple((k, self._reshape(v)) for k, v in d[1:])
        if h == "set":
            return d
        items = [self._reshape(e) for e in d[1:]]
        if h == "list" and items and self.rng.random() < 0.5:
            items = items[: self.rng.randrange(1, len(items) + 1)]
        return (h,) + tuple(items)

    def multiset(self, maxn=6, depth=3):
        n = self.rng.choice([0, 1, 1, 2, 2, 3, 3, 4, 5, maxn])
        return self.similar_values(n, depth)


def size(d):
    if isinstance(d, str) or d[0] in ("inst", "str", "classObj"):
        return 1
    if d[0] in ("dict", "ddict"):
        return 1 + sum(size(k) + size(v) for k, v in d[1:])
    return 1 + sum(size(e) for e in d[1:])


def depth(d):
    if isinstance(d, str) or d[0] in ("inst", "str", "classObj"):
        return 0
    if d[0] in ("dict", "ddict"):
        return 1 + max([max(depth(k), depth(v)) for k, v in d[1:]] or [0])
    return 1 + max([depth(e) for e in d[1:]] or [0])
