import MTVerif.Model.Ty
import MTVerif.Model.Eqv
import MTVerif.Model.Infer
import MTVerif.Lemmas.Basic
import MTVerif.Lemmas.EqvSound
import MTVerif.Lemmas.Sound
import MTVerif.Lemmas.ShrinkSound
import MTVerif.Props.C04
