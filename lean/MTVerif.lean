import MTVerif.Model.Ty
import MTVerif.Model.Eqv
import MTVerif.Model.Infer
