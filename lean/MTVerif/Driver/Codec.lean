/-
  Driver/Codec.lean — Ty / Val ↔ S-expression.
-/
import MTVerif.Driver.Sexp
import MTVerif.Model.Infer
import MTVerif.Model.Encode
namespace MT
open Sexp

def natOf (s : Sexp) : Except String Nat :=
  match s with
  | .atom a => match a.toNat? with | some n => .ok n | none => .error s!"not a nat: {a}"
  | _ => .error "expected nat atom"

def strOf (s : Sexp) : Except String String :=
  match s with
  | .str a => .ok a
  | .atom a => .ok a
  | _ => .error "expected string"

mutual
partial def tyOf : Sexp → Except String Ty
  | .atom "any" => .ok .any
  | .atom "callable" => .ok .callable
  | .list [.atom "cls", c] => do .ok (.cls (← natOf c))
  | .list [.atom "typeOf", c] => do .ok (.typeOf (← natOf c))
  | .list [.atom "list", t] => do .ok (.list (← tyOf t))
  | .list [.atom "set", t] => do .ok (.set (← tyOf t))
  | .list [.atom "tupleOf", t] => do .ok (.tupleOf (← tyOf t))
  | .list [.atom "iterator", t] => do .ok (.iterator (← tyOf t))
  | .list [.atom "dict", k, v] => do .ok (.dict (← tyOf k) (← tyOf v))
  | .list [.atom "ddict", k, v] => do .ok (.ddict (← tyOf k) (← tyOf v))
  | .list [.atom "generator", y, s, r] => do .ok (.generator (← tyOf y) (← tyOf s) (← tyOf r))
  | .list (.atom "tuple" :: ts) => do .ok (.tuple (← ts.mapM tyOf))
  | .list (.atom "union" :: ts) => do .ok (.union (← ts.mapM tyOf))
  | .list [.atom "td", .list r, .list o] => do .ok (.td (← r.mapM fieldOf) (← o.mapM fieldOf))
  | s => .error s!"bad type: {s}"
partial def fieldOf : Sexp → Except String (String × Ty)
  | .list [k, t] => do .ok (← strOf k, ← tyOf t)
  | s => .error s!"bad field: {s}"
end

mutual
partial def valOf : Sexp → Except String Val
  | .atom "func" => .ok .func
  | .atom "genObj" => .ok .genObj
  | .list [.atom "inst", c] => do .ok (.inst (← natOf c))
  | .list [.atom "classObj", c] => do .ok (.classObj (← natOf c))
  | .list [.atom "str", s] => do .ok (.str (← strOf s))
  | .list (.atom "list" :: vs) => do .ok (.list (← vs.mapM valOf))
  | .list (.atom "set" :: vs) => do .ok (.set (← vs.mapM valOf))
  | .list (.atom "tuple" :: vs) => do .ok (.tuple (← vs.mapM valOf))
  | .list (.atom "dict" :: kvs) => do .ok (.dict (← kvs.mapM kvOf))
  | .list (.atom "ddict" :: kvs) => do .ok (.ddict (← kvs.mapM kvOf))
  | s => .error s!"bad value: {s}"
partial def kvOf : Sexp → Except String (Val × Val)
  | .list [k, v] => do .ok (← valOf k, ← valOf v)
  | s => .error s!"bad kv: {s}"
end

mutual
partial def sexpOfTy : Ty → Sexp
  | .any => .atom "any"
  | .callable => .atom "callable"
  | .cls c => .list [.atom "cls", .atom (toString c)]
  | .typeOf c => .list [.atom "typeOf", .atom (toString c)]
  | .list t => .list [.atom "list", sexpOfTy t]
  | .set t => .list [.atom "set", sexpOfTy t]
  | .tupleOf t => .list [.atom "tupleOf", sexpOfTy t]
  | .iterator t => .list [.atom "iterator", sexpOfTy t]
  | .dict k v => .list [.atom "dict", sexpOfTy k, sexpOfTy v]
  | .ddict k v => .list [.atom "ddict", sexpOfTy k, sexpOfTy v]
  | .generator y s r => .list [.atom "generator", sexpOfTy y, sexpOfTy s, sexpOfTy r]
  | .tuple ts => .list (.atom "tuple" :: ts.map sexpOfTy)
  | .union ts => .list (.atom "union" :: ts.map sexpOfTy)
  | .td r o => .list [.atom "td", .list (r.map sexpOfField), .list (o.map sexpOfField)]
partial def sexpOfField : String × Ty → Sexp
  | (k, t) => .list [.str k, sexpOfTy t]
end

def sexpOfBool (b : Bool) : Sexp := .atom (if b then "true" else "false")

mutual
partial def jsonOf : Sexp → Except String Json
  | .atom "null" => .ok .null
  | .atom "true" => .ok (.bool true)
  | .atom "false" => .ok (.bool false)
  | .list [.atom "s", s] => do .ok (.str (← strOf s))
  | .list (.atom "arr" :: xs) => do .ok (.arr (← xs.mapM jsonOf))
  | .list (.atom "obj" :: kvs) => do .ok (.obj (← kvs.mapM jsonKV))
  | s => .error s!"bad json: {s}"
partial def jsonKV : Sexp → Except String (String × Json)
  | .list [k, v] => do .ok (← strOf k, ← jsonOf v)
  | s => .error s!"bad json member: {s}"
end

mutual
partial def sexpOfJson : Json → Sexp
  | .null => .atom "null"
  | .bool b => sexpOfBool b
  | .str s => .list [.atom "s", .str s]
  | .arr xs => .list (.atom "arr" :: xs.map sexpOfJson)
  | .obj kvs => .list (.atom "obj" :: kvs.map (fun kv => .list [.str kv.1, sexpOfJson kv.2]))
end

def sexpOfErr : PyErr → Sexp
  | .nameLookup => .atom "NameLookupError"
  | .invalidType => .atom "InvalidTypeError"
  | .malformed => .atom "Malformed"

partial def objOf : Sexp → Except String Obj
  | .atom "other" => .ok .other
  | .list [.atom "cls", c] => do .ok (.cls (← natOf c))
  | .list [.atom "func", f] => do .ok (.func (← natOf f))
  | .list [.atom "method", f] => do .ok (.boundMethod (← natOf f))
  | .list [.atom "prop", g, s, d] => do
      let fget ← (match g with | .atom "none" => .ok none | g => (natOf g).map some)
      .ok (.prop fget (s == .atom "true") (d == .atom "true"))
  | .list [.atom "wrapped", f, inner] => do .ok (.wrapped (← natOf f) (← objOf inner))
  | s => .error s!"bad obj: {s}"

end MT
