/-
  Driver/Main.lean — line-protocol driver.  `lake env lean --run MTVerif/Driver/Main.lean`
  or the compiled `mtvdriver`.  One request per line on stdin, one response per line on stdout.
-/
import MTVerif.Driver.Codec
import MTVerif.Model.TdSize
import MTVerif.Model.Witness
import MTVerif.Model.Rewrite
import MTVerif.Model.Trigger
namespace MT
open Sexp

structure DState where
  hier : List (ClassId × List ClassId × List ClassId) := []   -- class, direct bases, mro

def DState.H (st : DState) : Hier where
  mro c := match st.hier.lookup c with | some (_, m) => m | none => [c, objectC]
  bases c := match st.hier.lookup c with | some (b, _) => b | none => [objectC]

def DState.sub (st : DState) (c d : ClassId) : Bool := st.H.sub c d

def hierOf (xs : List Sexp) : Except String (List (ClassId × List ClassId × List ClassId)) :=
  xs.mapM (fun x => match x with
    | .list [c, .list bs, .list ms] => do .ok (← natOf c, ← bs.mapM natOf, ← ms.mapM natOf)
    | _ => .error "bad hier entry")

def rwOf : Sexp → Except String RW
  | .atom "removeEmpty" => .ok .removeEmpty
  | .atom "configDict" => .ok .configDict
  | .atom "generator" => .ok .generator
  | .atom "mscb" => .ok .mscb
  | .atom "anonTD" => .ok .anonTD
  | .atom "generic" => .ok .generic
  | .list [.atom "largeUnion", n] => do .ok (.largeUnion (← natOf n))
  | s => .error s!"bad rewriter {s}"

def handle (st : DState) (req : Sexp) : Except String (DState × Sexp) :=
  match req with
  | .list (.atom "hier" :: xs) => do
      let h ← hierOf xs
      .ok ({ st with hier := h }, .atom "ok")
  | .list [.atom "getType", k, v] => do
      .ok (st, sexpOfTy (getType (← natOf k) (← valOf v)))
  | .list (.atom "shrink" :: k :: ts) => do
      .ok (st, sexpOfTy (shrink (← natOf k) (← ts.mapM tyOf)))
  | .list (.atom "infer" :: k :: vs) => do
      .ok (st, sexpOfTy (infer (← natOf k) (← vs.mapM valOf)))
  | .list [.atom "conforms", t, v] => do
      .ok (st, sexpOfBool (conforms st.sub true (← tyOf t) (← valOf v)))
  | .list [.atom "conformsT", t, v] => do
      .ok (st, sexpOfBool (conforms st.sub false (← tyOf t) (← valOf v)))
  | .list [.atom "eqv", a, b] => do
      .ok (st, sexpOfBool (Ty.eqv (← tyOf a) (← tyOf b)))
  | .list [.atom "tdToDict", t] => do
      .ok (st, sexpOfTy (tdToDict (← tyOf t)))
  | .list (.atom "mkUnion" :: ts) => do
      .ok (st, sexpOfTy (mkUnion (← ts.mapM tyOf)))
  | .list [.atom "rewrite", .list rs, t] => do
      .ok (st, sexpOfTy (rewriteChain st.H (← rs.mapM rwOf) (← tyOf t)))
  | .list [.atom "trig", r, t] => do
      .ok (st, sexpOfBool ((← tyOf t).trig (← rwOf r)))
  | .list [.atom "normal", t] => do
      .ok (st, sexpOfBool (← tyOf t).normal)
  | .list [.atom "hierOk"] =>
      -- the class-table hypotheses of the C07 theorems, decided on the concrete table
      let cs := st.hier.map (·.1)
      let H := st.H
      let refl := cs.all (fun c => H.sub c c)
      let base := cs.all (fun c => match H.bases c with | [b] => H.sub c b | _ => true)
      let trans := cs.all (fun a => (H.mro a).all (fun b => (H.mro b).all (fun c => H.sub a c)))
      .ok (st, sexpOfBool (refl && base && trans))
  | .list [.atom "tdOk", k, t] => do
      .ok (st, sexpOfBool ((← tyOf t).tdOk (← natOf k)))
  | .list [.atom "hasTD", t] => do
      .ok (st, sexpOfBool (← tyOf t).hasTD)
  | .list (.atom "witnessed" :: t :: vs) => do
      .ok (st, sexpOfBool (witnessed false (← vs.mapM valOf) (← tyOf t)))
  | .list [.atom "wfTy", t] => do
      .ok (st, sexpOfBool (← tyOf t).wf)
  | .list [.atom "wf", v] => do
      .ok (st, sexpOfBool (← valOf v).wf)
  | _ => .error "unknown request"

partial def loop (hIn hOut : IO.FS.Stream) (st : DState) : IO Unit := do
  let line ← hIn.getLine
  if line.isEmpty then return ()
  let trimmed := line.trimAscii.toString
  if trimmed.isEmpty then
    loop hIn hOut st
  else
    match Sexp.parse trimmed with
    | .error e =>
        hOut.putStrLn s!"(error {Sexp.quote e})"
        hOut.flush
        loop hIn hOut st
    | .ok req =>
      match handle st req with
      | .ok (st', resp) =>
          hOut.putStrLn resp.toString
          hOut.flush
          loop hIn hOut st'
      | .error e =>
          hOut.putStrLn s!"(error {Sexp.quote e})"
          hOut.flush
          loop hIn hOut st

end MT

def main : IO Unit := do
  MT.loop (← IO.getStdin) (← IO.getStdout) {}
