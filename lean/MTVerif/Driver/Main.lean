/-
  Driver/Main.lean — line-protocol driver.  `lake env lean --run MTVerif/Driver/Main.lean`
  or the compiled `mtvdriver`.  One request per line on stdin, one response per line on stdout.
-/
import MTVerif.Driver.Codec
import MTVerif.Model.TdSize
import MTVerif.Model.Witness
import MTVerif.Model.Rewrite
import MTVerif.Model.Trigger
import MTVerif.Model.GetStub
import MTVerif.Model.Store
import MTVerif.Model.Tracer
import MTVerif.Model.Filter
import MTVerif.Model.Contain
import MTVerif.Model.Anno
import MTVerif.Model.Sig
import MTVerif.Model.Render
import MTVerif.Model.ModuleRender
import MTVerif.Model.Imports
import MTVerif.Model.EvalAnno
import MTVerif.Model.TDStub
import MTVerif.Model.ModuleBuild
import MTVerif.Model.Enforce
import MTVerif.Model.FuncDef
namespace MT
open Sexp

structure DState where
  hier : List (ClassId × List ClassId × List ClassId) := []   -- class, direct bases, mro
  ranks : List (ClassId × Nat) := []                          -- class, position by (module, qualname)
  unchk : List ClassId := []                                  -- classes `issubclass` refuses (non-runtime Protocols)
  clsNames : List (ClassId × String × String) := []
  funcNames : List (FuncId × String × String) := []
  envTab : List ((String × String) × Obj) := []

def DState.names (st : DState) : Names where
  cls c := match st.clsNames.lookup c with | some mq => mq | none => ("?", s!"c{c}")
  func f := match st.funcNames.lookup f with | some mq => mq | none => ("?", s!"f{f}")

def DState.env (st : DState) : Env where
  lookup m q := (st.envTab.find? (fun e => e.1.1 == m && e.1.2 == q)).map (·.2)
  funcQual f := (st.names.func f).2

def tyResult (r : Except PyErr Ty) : Sexp :=
  match r with
  | .ok t => .list [.atom "ok", sexpOfTy t]
  | .error e => .list [.atom "err", sexpOfErr e]

def namedOf (xs : List Sexp) : Except String (List (Nat × String × String)) :=
  xs.mapM (fun x => match x with
    | .list [c, m, q] => do .ok (← natOf c, ← strOf m, ← strOf q)
    | _ => .error "bad name entry")

def traceOf : Sexp → Except String Trace
  | .list [.atom "trace", f, .list args, ret, yld] => do
      let opt (s : Sexp) : Except String (Option Ty) := match s with | .atom "none" => .ok none | s => (tyOf s).map some
      .ok { func := ← natOf f, args := ← args.mapM fieldOf, ret := ← opt ret, yld := ← opt yld }
  | s => .error s!"bad trace: {s}"

def sexpOfOptJ : Option Json → Sexp | none => .atom "NULL" | some j => sexpOfJson j
def optJOf : Sexp → Except String (Option Json) | .atom "NULL" => .ok none | s => (jsonOf s).map some

def sexpOfRow (r : Row) : Sexp :=
  .list [.atom "row", .str r.module, .str r.qualname, sexpOfJson r.argTypes, sexpOfOptJ r.returnType, sexpOfOptJ r.yieldType]

def rowOf : Sexp → Except String Row
  | .list [.atom "row", m, q, a, r, y] => do
      .ok { module := ← strOf m, qualname := ← strOf q, argTypes := ← jsonOf a, returnType := ← optJOf r, yieldType := ← optJOf y }
  | s => .error s!"bad row: {s}"

def sexpOfTrace (t : Trace) : Sexp :=
  let opt (o : Option Ty) : Sexp := match o with | none => .atom "none" | some t => sexpOfTy t
  .list [.atom "trace", .atom (toString t.func), .list (t.args.map sexpOfField), opt t.ret, opt t.yld]

def DState.H (st : DState) : Hier where
  mro c := match st.hier.lookup c with | some (_, m) => m | none => [c, objectC]
  bases c := match st.hier.lookup c with | some (b, _) => b | none => [objectC]
  rank c := match st.ranks.lookup c with | some r => r | none => c
  unchk c := st.unchk.contains c

def DState.sub (st : DState) (c d : ClassId) : Bool := st.H.sub c d

def hierOf (xs : List Sexp) : Except String (List (ClassId × List ClassId × List ClassId)) :=
  xs.mapM (fun x => match x with
    | .list [c, .list bs, .list ms] => do .ok (← natOf c, ← bs.mapM natOf, ← ms.mapM natOf)
    | .list [c, .list bs, .list ms, _] => do .ok (← natOf c, ← bs.mapM natOf, ← ms.mapM natOf)
    | .list [c, .list bs, .list ms, _, _] => do .ok (← natOf c, ← bs.mapM natOf, ← ms.mapM natOf)
    | _ => .error "bad hier entry")

def ranksOf (xs : List Sexp) : Except String (List (ClassId × Nat)) :=
  xs.filterMapM (fun x => match x with
    | .list [c, _, _, r] => do .ok (some (← natOf c, ← natOf r))
    | .list [c, _, _, r, _] => do .ok (some (← natOf c, ← natOf r))
    | _ => .ok none)

def unchkOf (xs : List Sexp) : Except String (List ClassId) :=
  xs.filterMapM (fun x => match x with
    | .list [c, _, _, _, .atom "true"] => do .ok (some (← natOf c))
    | _ => .ok none)

partial def sexpOfTree : Build.Tree → Sexp
  | .node fs cs => .list [.list (fs.map (fun (kv : String × Nat) => .list [.str kv.1, .atom (ToString.toString kv.2)])),
                          .list (cs.map (fun (kc : String × Build.Tree) => .list [.str kc.1, sexpOfTree kc.2]))]

def rwOf : Sexp → Except String RW
  | .atom "removeEmpty" => .ok .removeEmpty
  | .atom "configDict" => .ok .configDict
  | .atom "generator" => .ok .generator
  | .atom "mscb" => .ok .mscb
  | .atom "anonTD" => .ok .anonTD
  | .atom "generic" => .ok .generic
  | .list [.atom "largeUnion", n] => do .ok (.largeUnion (← natOf n))
  | s => .error s!"bad rewriter {s}"

def optStrOf : Sexp → Except String (Option String) | .atom "NULL" => .ok none | s => (strOf s).map some
def srowOf : Sexp → Except String (Option Store.SRow)
  | .atom "none" => .ok none
  | .list [.atom "r", m, q, a, r, y] => do
      .ok (some { module := ← strOf m, qualname := ← strOf q, args := ← strOf a, ret := ← optStrOf r, yld := ← optStrOf y })
  | s => .error s!"bad store row: {s}"
def storeOpOf : Sexp → Except String Store.Op
  | .atom "reopen" => .ok .reopen
  | .list (.atom "add" :: rs) => do .ok (.add (← rs.mapM srowOf))
  | .list (.atom "addInt" :: n :: rs) => do .ok (.addInterrupted (← rs.mapM srowOf) (← natOf n))
  | s => .error s!"bad store op: {s}"
def sexpOfSRow (r : Store.SRow) : Sexp :=
  let o (x : Option String) : Sexp := match x with | none => .atom "NULL" | some s => .str s
  .list [.atom "r", .str r.module, .str r.qualname, .str r.args, o r.ret, o r.yld]

def opOf : Sexp → Except String Tracer.Op
  | .atom "retValue" => .ok .retValue | .atom "retConst" => .ok .retConst
  | .atom "yieldValue" => .ok .yieldValue | .atom "other" => .ok .other
  | s => .error s!"bad op {s}"
def semOf : Sexp → Except String Tracer.Sem
  | .atom "returned" => .ok .returned | .atom "yielded" => .ok .yielded
  | .atom "awaited" => .ok .awaited | .atom "raised" => .ok .raised
  | s => .error s!"bad sem {s}"
def evOf : Sexp → Except String Tracer.Ev
  | .list [.atom "call", f, c, r, .list args] => do
      .ok (.call (← natOf f) (← natOf c) (r == .atom "true") (← args.mapM fieldOf))
  | .list [.atom "ret", f, c, o, co, sm, t] => do
      .ok (.ret (← natOf f) (← natOf c) (← opOf o) (co == .atom "true") (← semOf sm) (← tyOf t))
  | .list [.atom "other", f, c] => do .ok (.other (← natOf f) (← natOf c))
  | s => .error s!"bad event {s}"
def sexpOfPTrace (t : Tracer.PTrace) : Sexp :=
  let opt (o : Option Ty) : Sexp := match o with | none => .atom "none" | some t => sexpOfTy t
  .list [.atom "trace", .atom (toString t.func), .list (t.args.map sexpOfField), opt t.ret, opt t.yld]

def handle (st : DState) (req : Sexp) : Except String (DState × Sexp) :=
  match req with
  | .list (.atom "hier" :: xs) => do
      let h ← hierOf xs
      .ok ({ st with hier := h, ranks := ← ranksOf xs, unchk := ← unchkOf xs }, .atom "ok")
  | .list [.atom "getType", k, v] => do
      .ok (st, sexpOfTy (getType (← natOf k) (← valOf v)))
  | .list (.atom "shrink" :: k :: ts) => do
      .ok (st, sexpOfTy (shrink (← natOf k) (← ts.mapM tyOf)))
  | .list (.atom "stubShrink" :: k :: ts) => do
      -- C06 at stub time: `shrink_traced_types` = the size limit applied to every stored type, then the merge
      let k' ← natOf k
      .ok (st, sexpOfTy (shrink k' ((← ts.mapM tyOf).map (enforce k'))))
  | .list (.atom "infer" :: k :: vs) => do
      .ok (st, sexpOfTy (infer (← natOf k) (← vs.mapM valOf)))
  | .list [.atom "inferRewrite", k, .list vs] => do
      -- C01: one position end to end — per-value types, merge, default rewriter chain
      .ok (st, sexpOfTy (rewriteChain st.H defaultChain (infer (← natOf k) (← vs.mapM valOf))))
  | .list [.atom "conforms", t, v] => do
      .ok (st, sexpOfBool (conforms st.sub true (← tyOf t) (← valOf v)))
  | .list [.atom "conformsT", t, v] => do
      .ok (st, sexpOfBool (conforms st.sub false (← tyOf t) (← valOf v)))
  | .list [.atom "eqv", a, b] => do
      .ok (st, sexpOfBool (Ty.eqv (← tyOf a) (← tyOf b)))
  | .list [.atom "tdToDict", t] => do
      .ok (st, sexpOfTy (tdToDict (← tyOf t)))
  | .list (.atom "mkUnion" :: ts) => do
      .ok (st, sexpOfTy (mkUnion (← ts.mapM tyOf)))
  | .list [.atom "rewrite", .list rs, t] => do
      .ok (st, sexpOfTy (rewriteChain st.H (← rs.mapM rwOf) (← tyOf t)))
  | .list [.atom "names", .list (.atom "cls" :: cs), .list (.atom "func" :: fs)] => do
      .ok ({ st with clsNames := ← namedOf cs, funcNames := ← namedOf fs }, .atom "ok")
  | .list (.atom "env" :: es) => do
      let tab ← es.mapM (fun e => match e with
        | .list [m, q, o] => do .ok ((← strOf m, ← strOf q), ← objOf o)
        | _ => .error "bad env entry")
      .ok ({ st with envTab := tab }, .atom "ok")
  | .list [.atom "encode", t] => do
      .ok (st, sexpOfJson (encodeTy st.names (← tyOf t)))
  | .list [.atom "decode", j] => do
      .ok (st, tyResult (decodeTy st.env (← jsonOf j)))
  | .list [.atom "rowOfTrace", t] => do
      .ok (st, sexpOfRow (rowOfTrace st.names (← traceOf t)))
  | .list [.atom "traceOfRow", r] => do
      .ok (st, match traceOfRow st.env (← rowOf r) with
        | .ok t => .list [.atom "ok", sexpOfTrace t]
        | .error e => .list [.atom "err", sexpOfErr e])
  | .list (.atom "getStub" :: v :: rows) => do
      let rs ← rows.mapM rowOf
      .ok (st, match getStub st.env (v == .atom "true") rs with
        | .error e => .list [.atom "crash", sexpOfErr e]
        | .ok o => .list [.atom "ok", .atom (toString o.traces.length), .atom (toString o.exitCode),
            .list (o.stderr.map (fun l => match l with
              | .warning e => .list [.atom "warning", sexpOfErr e]
              | .summary n => .list [.atom "summary", .atom (toString n)]
              | .noTraces => .atom "noTraces"))])
  | .list [.atom "store", .list ops, q] => do
      let s := Store.run (← ops.mapM storeOpOf)
      match q with
      | .list [.atom "filter", m, p, n] =>
          let p' ← (match p with | .atom "none" => .ok none | p => (strOf p).map some)
          .ok (st, .list [.atom (toString (Store.distinctMatching s (← strOf m) p')),
                          .list ((Store.filter s (← strOf m) p' (← natOf n)).map sexpOfSRow),
                          .list ((Store.filter s (← strOf m) p' 1000000).map sexpOfSRow)])
      | .list [.atom "modules"] => .ok (st, .list ((Store.listModules s).map (fun m => .str m)))
      | _ => .error "bad store query"
  | .list [.atom "tracer", .list admitL, .list resolve, rate, .list draws, .list evs] => do
      -- admit: list of admitted code ids; resolve: list of (code func) pairs
      let adm ← admitL.mapM natOf
      let res ← resolve.mapM (fun x => match x with
        | .list [c, f] => do .ok (← natOf c, ← natOf f)
        | _ => .error "bad resolve entry")
      let cfg : Tracer.Cfg := { admits := fun c => adm.contains c, resolve := fun c => res.lookup c,
                                rate := (match rate with | .atom "none" => none | r => (natOf r).toOption) }
      let s := Tracer.run cfg (← draws.mapM natOf) (← evs.mapM evOf)
      .ok (st, .list [.list (s.log.map (fun x => sexpOfPTrace x.2)), .atom (toString s.traces.length), .atom (toString s.draws.length)])
  | .list [.atom "codeFilter", .list libs, allow, .list [fn, .list parts, stem]] => do
      let libs' ← libs.mapM (fun l => match l with | .list xs => xs.mapM strOf | _ => .error "bad lib path")
      let allow' ← (match allow with
        | .atom "none" => .ok none
        | .list ms => (ms.mapM strOf).map some
        | _ => .error "bad allow list")
      let ci : Filter.CodeInfo := { filename := ← strOf fn, parts := ← parts.mapM strOf, stem := ← strOf stem }
      .ok (st, sexpOfBool (Filter.defaultFilter libs' allow' ci))
  | .list [.atom "storeKeeps", m] => do .ok (st, sexpOfBool (Filter.storeKeeps (← strOf m)))
  | .list [.atom "traceCalls", body, flush] => do
      let oc (x : Sexp) : Except String Contain.Outcome := match x with
        | .atom "ok" => .ok .ok | .atom "exc" => .ok .exc | .atom "baseExc" => .ok .baseExc | _ => .error "bad outcome"
      let r := Contain.traceCalls { profiler := 7, flushes := 0 } 99 (← oc body) (← oc flush)
      let so (o : Contain.Outcome) : Sexp := match o with | .ok => .atom "ok" | .exc => .atom "exc" | .baseExc => .atom "baseExc"
      .ok (st, .list [sexpOfBool (r.1.profiler == 7), .atom (toString r.1.flushes), so r.2])
  | .list [.atom "probes", v] => do
      let ps := Contain.probes (← valOf v)
      .ok (st, .list [.atom (toString ps.length),
                      .atom (toString (ps.filter (fun p => p.2 != .typeOf && p.2 != .hashClass && !Contain.isExact p.1)).length),
                      .atom (toString (ps.filter (fun p => p.2 == .hashClass)).length)])
  | .list (.atom "shrinkTraced" :: k :: trs) => do
      -- C01 / C14: `shrink_traced_types(traces, k)` for the decoded traces of one function: ((args (name type) ...) ret yld) ...
      let opt (x : Sexp) : Except String (Option Ty) := match x with | .atom "none" => .ok none | x => (tyOf x).map some
      let traces ← trs.mapM (fun x => match x with
        | .list [.list args, r, y] => do .ok ({ args := ← args.mapM fieldOf, ret := ← opt r, yld := ← opt y } : FuncDef.CTrace)
        | _ => .error "bad trace")
      let out := FuncDef.shrinkTraced (← natOf k) traces
      let so (o : Option Ty) : Sexp := match o with | none => .atom "none" | some t => sexpOfTy t
      .ok (st, .list [.list (out.1.map sexpOfField), so out.2.1, so out.2.2])
  | .list [.atom "definition", .list rws, k, stg, .list params, retSrc, kind, .list trs] => do
      -- C13 / C12: `get_updated_definition(func, traces, k, rewriter, strategy)`; params = ((name src) ...), src = none | id
      let opt (x : Sexp) : Except String (Option Ty) := match x with | .atom "none" => .ok none | x => (tyOf x).map some
      let optN (x : Sexp) : Except String (Option Nat) := match x with | .atom "none" => .ok none | x => (natOf x).map some
      let st' ← (match stg with | .atom "replicate" => .ok Anno.Strategy.replicate | .atom "ignore" => .ok .ignore
                                | .atom "omit" => .ok .omit | _ => .error "bad strategy")
      let kd ← (match kind with
        | .atom "module" => .ok FuncDef.FKind.module | .atom "class" => .ok .cls | .atom "instance" => .ok .instance
        | .atom "static" => .ok .static | .atom "property" => .ok .property | .atom "cachedProperty" => .ok .cachedProperty
        | _ => .error "bad kind")
      let ps ← params.mapM (fun x => match x with
        | .list [n, sa] => do .ok ({ name := ← strOf n, src := ← optN sa } : FuncDef.SrcParam)
        | _ => .error "bad parameter")
      let traces ← trs.mapM (fun x => match x with
        | .list [.list args, r, y] => do .ok ({ args := ← args.mapM fieldOf, ret := ← opt r, yld := ← opt y } : FuncDef.CTrace)
        | _ => .error "bad trace")
      let f : FuncDef.FuncSrc := { params := ps, retSrc := ← optN retSrc, kind := kd, isAsync := false }
      let d := FuncDef.updatedDefinition st.H (← rws.mapM rwOf) (← natOf k) st' f traces
      let sa (a : Option Anno.Ann) : Sexp := match a with
        | none => .atom "none" | some (.src i) => .list [.atom "src", .atom (toString i)] | some (.ty t) => .list [.atom "ty", sexpOfTy t]
      .ok (st, .list [.list (d.params.map (fun p => .list [.str p.1, sa p.2])), sa d.ret,
                      .list ((FuncDef.headLines d.kind d.isAsync "f").map .str), sexpOfBool d.kind.hasSelf])
  | .list [.atom "kindOf", dot, desc] => do
      let d ← (match desc with
        | .atom "plain" => .ok FuncDef.Desc.plain | .atom "classmethod" => .ok .classmethod | .atom "staticmethod" => .ok .staticmethod
        | .atom "property" => .ok .property | .atom "cachedProperty" => .ok .cachedProperty | _ => .error "bad descriptor")
      let kd := FuncDef.kindOf (dot == .atom "true") d
      let nm : String := match kd with
        | .module => "module" | .cls => "class" | .instance => "instance" | .static => "static" | .property => "property"
        | .cachedProperty => "cachedProperty"
      .ok (st, .list [.atom nm, sexpOfBool kd.hasSelf, .list ((FuncDef.headLines kd false "f").map .str)])
  | .list [.atom "updateArg", stg, src, traced, isSelf] => do
      let st' ← (match stg with | .atom "replicate" => .ok Anno.Strategy.replicate | .atom "ignore" => .ok .ignore
                                | .atom "omit" => .ok .omit | _ => .error "bad strategy")
      let src' ← (match src with | .atom "none" => .ok none | x => (natOf x).map some)
      let tr ← (match traced with | .atom "none" => .ok none | x => (tyOf x).map some)
      let out := Anno.updateArg st' { src := src', traced := tr, isSelf := isSelf == .atom "true" }
      .ok (st, match out with | none => .atom "none" | some (.src i) => .list [.atom "src", .atom (toString i)]
                               | some (.ty t) => .list [.atom "ty", sexpOfTy t])
  | .list [.atom "updateReturn", stg, src, ret, yld] => do
      let st' ← (match stg with | .atom "replicate" => .ok Anno.Strategy.replicate | .atom "ignore" => .ok .ignore
                                | .atom "omit" => .ok .omit | _ => .error "bad strategy")
      let src' ← (match src with | .atom "none" => .ok none | x => (natOf x).map some)
      let o (x : Sexp) : Except String (Option Ty) := match x with | .atom "none" => .ok none | x => (tyOf x).map some
      let out := Anno.updateReturn st' src' (← o ret) (← o yld)
      .ok (st, match out with | none => .atom "none" | some (.src i) => .list [.atom "src", .atom (toString i)]
                               | some (.ty t) => .list [.atom "ty", sexpOfTy t])
  | .list (.atom "renderToks" :: ps) => do
      let kindOf (x : Sexp) : Except String Sig.PKind := match x with
        | .atom "posOnly" => .ok .posOnly | .atom "posOrKw" => .ok .posOrKw | .atom "varPos" => .ok .varPos
        | .atom "kwOnly" => .ok .kwOnly | .atom "varKw" => .ok .varKw | _ => .error "bad kind"
      let params ← ps.mapM (fun x => match x with
        | .list [n, k, d, a] => do
            let an ← (match a with | .atom "none" => .ok none | a => (strOf a).map some)
            .ok ({ name := ← strOf n, kind := ← kindOf k, hasDefault := d == .atom "true", anno := an } : Sig.Param)
        | _ => .error "bad param")
      let toks := Sig.renderToks params
      let st' (t : Sig.Tok) : Sexp := match t with
        | .slash => .atom "/" | .star => .atom "*"
        | .item n nm a d => .list [.atom (toString n), .str nm, (match a with | none => .atom "none" | some x => .str x), sexpOfBool d]
      .ok (st, .list [.list (toks.map st'), sexpOfBool (Sig.parseToks toks == some params), sexpOfBool (Sig.validKinds params)])
  | .list [.atom "render", t] => do
      .ok (st, .str (Render.printE (Render.renderE st.names (← tyOf t))))
  | .list [.atom "imports", t] => do
      .ok (st, .list ((Render.importsOf st.names (← tyOf t)).eraseDups.map (fun mq => .list [.str mq.1, .str mq.2])))
  | .list [.atom "denote", own, .list sigTys, t] => do
      -- C11: the namespace a stub for a function with annotation types `sigTys` provides; `t` rendered, stripped, evaluated
      let ownM ← strOf own
      let tys ← sigTys.mapM tyOf
      let allImps := (tys.flatMap (Render.importsOf st.names)).eraseDups
      let modsS := (allImps.map (·.1)).eraseDups
      let mods := (modsS.mergeSort (fun a b => a.length ≥ b.length)).map Render.dotted
      let imps := (allImps.filter (fun mq => mq.1 != ownM)).mergeSort (fun a b => a.1 < b.1 || (a.1 == b.1 && a.2 ≤ b.2))
      let ns : Render.NS := { imports := imps, own := ownM,
                              inv := fun m parts => (st.clsNames.find? (fun cmq => cmq.2.1 == m && Render.dotted cmq.2.2 == parts)).map (·.1) }
      let ty ← tyOf t
      let e := Render.stripE mods (Render.renderE st.names ty)
      .ok (st, .list [sexpOfBool (Render.namesOk ns st.names mods ty), .str (Render.printE e),
                      (match Render.evalE ns e with | some t' => sexpOfTy t' | none => .atom "none")])
  | .list [.atom "denoteT", own, .list sig, idx, .list full] => do
      -- C11 with generated classes: the stub of one function whose annotated positions are `sig` = ((hint type) ...); the
      -- position `idx` rendered (TypedDicts replaced by forward references), stripped, evaluated with the stub's classes
      let ownM ← strOf own
      let hts ← sig.mapM (fun x => match x with
        | .list [h, t] => do .ok (← strOf h, ← tyOf t)
        | _ => .error "bad (hint type) pair")
      let i ← natOf idx
      let nm := st.names
      let sm := Render.fieldStrip nm
      let anyTD := hts.any (fun ht => ht.2.hasTD)
      -- `full`: the annotations as they stand in the signature (a generator's return annotation wraps its components)
      let fullTys ← full.mapM tyOf
      let allImps := ((fullTys.flatMap (Render.importsOf nm)) ++
                      (if anyTD then [("mypy_extensions", "TypedDict")] else [])).eraseDups
      let mods := Render.stripListOf allImps
      let imps := (allImps.filter (fun mq => mq.1 != ownM)).mergeSort (fun a b => a.1 < b.1 || (a.1 == b.1 && a.2 ≤ b.2))
      let ns : Render.NS := { imports := imps, own := ownM,
                              inv := fun m parts => (st.clsNames.find? (fun cmq => cmq.2.1 == m && Render.dotted cmq.2.2 == parts)).map (·.1) }
      let env := Render.stubOrder (hts.flatMap (fun ht => Render.classesT nm sm ht.1 ht.2))
      match hts[i]? with
      | none => .error "denoteT: index out of range"
      | some (hint, ty) =>
        let e := Render.stripE mods (Render.renderT nm hint ty)
        .ok (st, .list [sexpOfBool (Render.namesOkT ns (Render.hasC env) nm sm mods ty),
                        sexpOfBool (Render.classesInB env (Render.classesT nm sm hint ty)),
                        .str (Render.printE e),
                        (match Render.evalT ns env (Render.tdDepth ty) e with | some t' => sexpOfTy t' | none => .atom "none"),
                        .list (env.map (fun d => .str (Render.classText d))),
                        sexpOfBool (Render.rootClash imps)])
  | .list (.atom "rootClash" :: own :: ts) => do
      let ownM ← strOf own
      let imps := ((← ts.mapM tyOf).flatMap (Render.importsOf st.names)).filter (fun mq => mq.1 != ownM)
      .ok (st, sexpOfBool (Render.rootClash imps))
  | .list [.atom "renderModule", imp, .list tds, .list funcs, .list classes] => do
      let pairOf (x : Sexp) : Except String (String × String) := match x with
        | .list [n, t] => do .ok (← strOf n, ← strOf t)
        | _ => .error "bad (name text) pair"
      let i ← (match imp with | .atom "none" => .ok none | y => (strOf y).map some : Except String (Option String))
      .ok (st, .str (renderModule i (← tds.mapM pairOf) (← funcs.mapM pairOf) (← classes.mapM pairOf)))
  | .list (.atom "buildTree" :: es) => do
      -- C12: `build_module_stubs` on the entries of one module: ((class path ...) function name), in order
      let entries ← es.mapM (fun x => match x with
        | .list [.list ps, n] => do .ok ({ path := ← ps.mapM strOf, name := ← strOf n } : Build.Entry)
        | _ => .error "bad entry")
      .ok (st, sexpOfTree (Build.build entries))
  | .list [.atom "tdNames", hint, t] => do
      let ns := Render.tdNames (← strOf hint) (← tyOf t)
      .ok (st, .list [.list (ns.map (fun n => .str n)), sexpOfBool (Render.hasNameCollision ns)])
  | .list [.atom "removeStmts", .list moved, .list stmts] => do
      let opt (y : Sexp) : Except String (Option String) := match y with | .atom "none" => .ok none | y => (strOf y).map some
      let itemOf (x : Sexp) : Except String Imports.Item := match x with
        | .list [m, o, a] => do .ok { module := ← strOf m, obj := ← opt o, alias := ← opt a }
        | _ => .error "bad import item"
      let nameOf (x : Sexp) : Except String Imports.ImpName := match x with
        | .list [n, a] => do .ok { name := ← strOf n, asname := ← opt a }
        | _ => .error "bad import name"
      let rec stmtOf (fuel : Nat) (x : Sexp) : Except String Imports.Stmt := match fuel with
        | 0 => .error "statement tree too deep"
        | fuel + 1 => match x with
          | .list (.atom "importMod" :: ns) => do .ok (.importMod (← ns.mapM nameOf))
          | .list (.atom "importFrom" :: m :: ns) => do .ok (.importFrom (← strOf m) (← ns.mapM nameOf))
          | .list [.atom "importStar", m] => do .ok (.importStar (← strOf m))
          | .list [.atom "other", i] => do .ok (.other (← natOf i))
          | .list (.atom "block" :: i :: body) => do .ok (.block (← natOf i) (← body.mapM (stmtOf fuel)))
          | _ => .error "bad statement"
      let so (o : Option String) : Sexp := match o with | none => .atom "none" | some s => .str s
      let sn (n : Imports.ImpName) : Sexp := .list [.str n.name, so n.asname]
      let rec sexpOfStmt (fuel : Nat) (st : Imports.Stmt) : Sexp := match fuel with
        | 0 => .atom "too-deep"
        | fuel + 1 => match st with
          | .importMod ns => .list (.atom "importMod" :: ns.map sn)
          | .importFrom m ns => .list (.atom "importFrom" :: .str m :: ns.map sn)
          | .importStar m => .list [.atom "importStar", .str m]
          | .other i => .list [.atom "other", .atom (toString i)]
          | .block i body => .list (.atom "block" :: .atom (toString i) :: body.map (sexpOfStmt fuel))
      let out := Imports.removeStmts (← moved.mapM itemOf) (← stmts.mapM (stmtOf 64))
      .ok (st, .list (out.map (sexpOfStmt 64)))
  | .list [.atom "movable", .list stub, .list src, .list stars] => do
      let itemOf (x : Sexp) : Except String Imports.Item := match x with
        | .list [m, o, a] => do
            let opt (y : Sexp) : Except String (Option String) := match y with | .atom "none" => .ok none | y => (strOf y).map some
            .ok { module := ← strOf m, obj := ← opt o, alias := ← opt a }
        | _ => .error "bad import item"
      let mv := Imports.movable (Imports.newlyImported (← stub.mapM itemOf) (← src.mapM itemOf) (← stars.mapM strOf))
      let so (o : Option String) : Sexp := match o with | none => .atom "none" | some s => .str s
      .ok (st, .list (mv.map (fun i => .list [.str i.module, so i.obj, so i.alias])))
  | .list [.atom "trig", r, t] => do
      .ok (st, sexpOfBool ((← tyOf t).trig (← rwOf r)))
  | .list [.atom "normal", t] => do
      .ok (st, sexpOfBool (← tyOf t).normal)
  | .list [.atom "hierOk"] =>
      -- the class-table hypotheses of the C07 theorems, decided on the concrete table
      let cs := st.hier.map (·.1)
      let H := st.H
      let refl := cs.all (fun c => H.sub c c)
      let base := cs.all (fun c => match H.bases c with | [b] => H.sub c b | _ => true)
      let trans := cs.all (fun a => (H.mro a).all (fun b => (H.mro b).all (fun c => H.sub a c)))
      .ok (st, sexpOfBool (refl && base && trans))
  | .list [.atom "tdOk", k, t] => do
      .ok (st, sexpOfBool ((← tyOf t).tdOk (← natOf k)))
  | .list [.atom "hasTD", t] => do
      .ok (st, sexpOfBool (← tyOf t).hasTD)
  | .list (.atom "witnessed" :: t :: vs) => do
      .ok (st, sexpOfBool (witnessed false (← vs.mapM valOf) (← tyOf t)))
  | .list [.atom "wfTy", t] => do
      .ok (st, sexpOfBool (← tyOf t).wf)
  | .list [.atom "wf", v] => do
      .ok (st, sexpOfBool (← valOf v).wf)
  | _ => .error "unknown request"

partial def loop (hIn hOut : IO.FS.Stream) (st : DState) : IO Unit := do
  let line ← hIn.getLine
  if line.isEmpty then return ()
  let trimmed := line.trimAscii.toString
  if trimmed.isEmpty then
    loop hIn hOut st
  else
    match Sexp.parse trimmed with
    | .error e =>
        hOut.putStrLn s!"(error {Sexp.quote e})"
        hOut.flush
        loop hIn hOut st
    | .ok req =>
      match handle st req with
      | .ok (st', resp) =>
          hOut.putStrLn resp.toString
          hOut.flush
          loop hIn hOut st'
      | .error e =>
          hOut.putStrLn s!"(error {Sexp.quote e})"
          hOut.flush
          loop hIn hOut st

end MT

def main : IO Unit := do
  MT.loop (← IO.getStdin) (← IO.getStdout) {}
