/-
  Driver/Sexp.lean — S-expressions for the line protocol (one request per line, one response per line).
  Not part of any proof; only the executable tie between the model and the harness.
-/
namespace MT

inductive Sexp where
  | atom (s : String)
  | str (s : String)
  | list (xs : List Sexp)
  deriving Repr, Inhabited, BEq

namespace Sexp

private def isAtomChar (c : Char) : Bool :=
  !(c == '(' || c == ')' || c == '"' || c == ' ' || c == '\t' || c == '\n' || c == '\r')

/-- parse one S-expression from a list of characters; returns the rest -/
partial def parseOne : List Char → Except String (Sexp × List Char)
  | [] => .error "unexpected end of input"
  | c :: cs =>
    if c == ' ' || c == '\t' || c == '\n' || c == '\r' then parseOne cs
    else if c == '(' then parseList cs []
    else if c == ')' then .error "unexpected )"
    else if c == '"' then parseStr cs []
    else
      let (a, rest) := (c :: cs).span isAtomChar
      .ok (.atom (String.ofList a), rest)
where
  parseList : List Char → List Sexp → Except String (Sexp × List Char)
    | [], _ => .error "unterminated list"
    | c :: cs, acc =>
      if c == ' ' || c == '\t' || c == '\n' || c == '\r' then parseList cs acc
      else if c == ')' then .ok (.list acc.reverse, cs)
      else do
        let (x, rest) ← parseOne (c :: cs)
        parseList rest (x :: acc)
  parseStr : List Char → List Char → Except String (Sexp × List Char)
    | [], _ => .error "unterminated string"
    | '\\' :: 'n' :: cs, acc => parseStr cs ('\n' :: acc)
    | '\\' :: 't' :: cs, acc => parseStr cs ('\t' :: acc)
    | '\\' :: c :: cs, acc => parseStr cs (c :: acc)
    | '"' :: cs, acc => .ok (.str (String.ofList acc.reverse), cs)
    | c :: cs, acc => parseStr cs (c :: acc)

def parse (s : String) : Except String Sexp := do
  let (x, rest) ← parseOne s.toList
  if rest.all (fun c => c == ' ' || c == '\n' || c == '\r' || c == '\t') then .ok x
  else .error "trailing input"

def quote (s : String) : String :=
  "\"" ++ String.join (s.toList.map (fun c =>
    if c == '"' then "\\\"" else if c == '\\' then "\\\\" else if c == '\n' then "\\n"
    else if c == '\t' then "\\t" else String.singleton c)) ++ "\""

partial def toString : Sexp → String
  | .atom s => s
  | .str s => quote s
  | .list xs => "(" ++ " ".intercalate (xs.map toString) ++ ")"

instance : ToString Sexp := ⟨Sexp.toString⟩

end Sexp
end MT
