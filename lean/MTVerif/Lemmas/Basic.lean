/-
  Lemmas/Basic.lean — list-level facts about `conforms`, `lookupF`, `dedupBy`, `wf`.
-/
import MTVerif.Model.Infer
namespace MT

section
variable (sub : ClassId → ClassId → Bool) (ao : Bool)

theorem conformsAny_iff (ts : List Ty) (v : Val) :
    conformsAny sub ao ts v = true ↔ ∃ t ∈ ts, conforms sub ao t v = true := by
  induction ts with
  | nil => simp [conformsAny]
  | cons t ts ih => simp [conformsAny, ih]

theorem conforms_union (ts : List Ty) (v : Val) :
    conforms sub ao (.union ts) v = true ↔ ∃ t ∈ ts, conforms sub ao t v = true := by
  rw [conforms]; exact conformsAny_iff sub ao ts v

theorem conformsField_lookup (fs : List (String × Ty)) (s : String) (v : Val) :
    conformsField sub ao fs s v = true ↔ ∃ t, lookupF s fs = some t ∧ conforms sub ao t v = true := by
  induction fs with
  | nil => simp [conformsField, lookupF]
  | cons kt fs ih =>
    obtain ⟨k, t⟩ := kt
    simp only [conformsField, lookupF]
    split <;> simp_all

theorem conformsReq_iff (fs : List (String × Ty)) (kvs : List (Val × Val)) :
    conformsReq sub ao fs kvs = true ↔
      ∀ kt ∈ fs, ∃ kv ∈ kvs, kv.1 = Val.str kt.1 ∧ conforms sub ao kt.2 kv.2 = true := by
  induction fs with
  | nil => simp [conformsReq]
  | cons kt fs ih =>
    obtain ⟨k, t⟩ := kt
    simp only [conformsReq, Bool.and_eq_true, List.any_eq_true, ih, List.mem_cons, forall_eq_or_imp,
      Val.isStr_iff]
end

theorem lookupF_mem (s : String) (fs : List (String × Ty)) (u : Ty) (h : lookupF s fs = some u) :
    (s, u) ∈ fs := by
  induction fs with
  | nil => simp [lookupF] at h
  | cons kt fs ih =>
    obtain ⟨k, t⟩ := kt
    simp only [lookupF] at h
    split at h
    · cases h; subst_vars; simp
    · exact List.mem_cons_of_mem _ (ih h)

theorem lookupF_of_mem_nodup (s : String) (fs : List (String × Ty)) (u : Ty)
    (hnd : (fs.map Prod.fst).Nodup) (h : (s, u) ∈ fs) : lookupF s fs = some u := by
  induction fs with
  | nil => cases h
  | cons kt fs ih =>
    obtain ⟨k, t⟩ := kt
    simp only [List.map_cons, List.nodup_cons] at hnd
    simp only [lookupF]
    rcases List.mem_cons.mp h with heq | h
    · cases heq; simp
    · have : k ≠ s := by
        intro hk; subst hk
        exact hnd.1 (List.mem_map.mpr ⟨_, h, rfl⟩)
      simp only [this, ↓reduceIte]
      exact ih hnd.2 h

theorem lookupF_isSome_iff (s : String) (fs : List (String × Ty)) :
    (lookupF s fs).isSome = true ↔ s ∈ fs.map Prod.fst := by
  induction fs with
  | nil => simp [lookupF]
  | cons kt fs ih =>
    obtain ⟨k, t⟩ := kt
    simp only [lookupF, List.map_cons, List.mem_cons]
    split
    · subst_vars; simp
    · rename_i hne; rw [ih]; constructor
      · intro h; exact Or.inr h
      · rintro (h | h)
        · exact absurd h.symm hne
        · exact h

theorem wfTL_iff (ts : List Ty) : wfTL ts = true ↔ ∀ t ∈ ts, t.wf = true := by
  induction ts with
  | nil => simp [wfTL]
  | cons t ts ih => simp [wfTL, ih]

theorem wfTF_iff (fs : List (String × Ty)) : wfTF fs = true ↔ ∀ kt ∈ fs, kt.2.wf = true := by
  induction fs with
  | nil => simp [wfTF]
  | cons kt fs ih => obtain ⟨k, t⟩ := kt; simp [wfTF, ih]

/-! ### dedupBy -/

theorem dedupBy_subset {α} (eq : α → α → Bool) (l : List α) : ∀ a ∈ dedupBy eq l, a ∈ l := by
  induction l with
  | nil => simp [dedupBy]
  | cons b l ih =>
    intro a ha
    simp only [dedupBy, List.mem_cons, List.mem_filter] at ha
    rcases ha with rfl | ⟨ha, _⟩
    · exact List.mem_cons_self ..
    · exact List.mem_cons_of_mem _ (ih a ha)

/-- semantic representative lemma: if dropping `b` in favour of an `eq` earlier `a` preserves `P`,
    then some kept element satisfies `P` whenever some element does.  (No transitivity of `eq` needed.) -/
theorem dedupBy_sem {α} (eq : α → α → Bool) (P : α → Prop) (l : List α)
    (hP : ∀ a ∈ l, ∀ b ∈ l, eq a b = true → P b → P a) :
    (∃ a ∈ l, P a) → ∃ b ∈ dedupBy eq l, P b := by
  induction l with
  | nil => rintro ⟨a, ha, _⟩; cases ha
  | cons b l ih =>
    rintro ⟨a, ha, hpa⟩
    simp only [dedupBy, List.mem_cons, List.mem_filter]
    rcases List.mem_cons.mp ha with rfl | ha
    · exact ⟨a, Or.inl rfl, hpa⟩
    · have ih' := ih (fun x hx y hy => hP x (List.mem_cons_of_mem _ hx) y (List.mem_cons_of_mem _ hy)) ⟨a, ha, hpa⟩
      obtain ⟨c, hc, hpc⟩ := ih'
      by_cases hbc : eq b c = true
      · exact ⟨b, Or.inl rfl, hP b (List.mem_cons_self ..) c (List.mem_cons_of_mem _ (dedupBy_subset eq l c hc)) hbc hpc⟩
      · exact ⟨c, Or.inr ⟨hc, by simpa using hbc⟩, hpc⟩

theorem mem_dedupBy_str (a : String) (l : List String) : a ∈ dedupBy (· == ·) l ↔ a ∈ l := by
  induction l with
  | nil => simp [dedupBy]
  | cons b l ih =>
    simp only [dedupBy, List.mem_cons, List.mem_filter, ih]
    constructor
    · rintro (h | ⟨h, _⟩)
      · exact Or.inl h
      · exact Or.inr h
    · rintro (h | h)
      · exact Or.inl h
      · by_cases hab : a = b
        · exact Or.inl hab
        · right; refine ⟨h, ?_⟩
          simp only [Bool.not_eq_eq_eq_not, Bool.not_true, beq_eq_false_iff_ne, ne_eq]
          exact fun h' => hab h'.symm

theorem nodup_dedupBy_str (l : List String) : (dedupBy (· == ·) l).Nodup := by
  induction l with
  | nil => simp [dedupBy]
  | cons b l ih =>
    simp only [dedupBy, List.nodup_cons, List.mem_filter]
    refine ⟨?_, ih.sublist List.filter_sublist⟩
    rintro ⟨_, h⟩
    simp at h

end MT
