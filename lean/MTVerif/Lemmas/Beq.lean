import MTVerif.Model.Eqv
namespace MT

mutual
theorem Ty.beq'_eq : ∀ (a b : Ty), Ty.beq' a b = true → a = b
  | .any, b => by cases b <;> simp [Ty.beq']
  | .cls a, b => by cases b <;> simp [Ty.beq']
  | .typeOf a, b => by cases b <;> simp [Ty.beq']
  | .callable, b => by cases b <;> simp [Ty.beq']
  | .list a, b => by
      cases b <;> simp [Ty.beq']
      exact Ty.beq'_eq a _
  | .set a, b => by
      cases b <;> simp [Ty.beq']
      exact Ty.beq'_eq a _
  | .tupleOf a, b => by
      cases b <;> simp [Ty.beq']
      exact Ty.beq'_eq a _
  | .iterator a, b => by
      cases b <;> simp [Ty.beq']
      exact Ty.beq'_eq a _
  | .dict a a', b => by
      cases b <;> simp [Ty.beq']
      intro h1 h2; exact ⟨Ty.beq'_eq a _ h1, Ty.beq'_eq a' _ h2⟩
  | .ddict a a', b => by
      cases b <;> simp [Ty.beq']
      intro h1 h2; exact ⟨Ty.beq'_eq a _ h1, Ty.beq'_eq a' _ h2⟩
  | .generator a1 a2 a3, b => by
      cases b <;> simp [Ty.beq']
      intro h1 h2 h3; exact ⟨Ty.beq'_eq a1 _ h1, Ty.beq'_eq a2 _ h2, Ty.beq'_eq a3 _ h3⟩
  | .tuple as, b => by
      cases b <;> simp [Ty.beq']
      exact beqL_eq as _
  | .union as, b => by
      cases b <;> simp [Ty.beq']
      exact beqL_eq as _
  | .td r o, b => by
      cases b <;> simp [Ty.beq']
      intro h1 h2; exact ⟨beqF_eq r _ h1, beqF_eq o _ h2⟩
theorem beqL_eq : ∀ (as bs : List Ty), beqL as bs = true → as = bs
  | [], bs => by cases bs <;> simp [beqL]
  | a :: as, bs => by
      cases bs <;> simp [beqL]
      intro h1 h2; exact ⟨Ty.beq'_eq a _ h1, beqL_eq as _ h2⟩
theorem beqF_eq : ∀ (as bs : List (String × Ty)), beqF as bs = true → as = bs
  | [], bs => by cases bs <;> simp [beqF]
  | (k, a) :: as, bs => by
      cases bs with
      | nil => simp [beqF]
      | cons b bs =>
        obtain ⟨k', b⟩ := b
        simp [beqF]
        intro h1 h2 h3; exact ⟨⟨h1, Ty.beq'_eq a _ h2⟩, beqF_eq as _ h3⟩
end

end MT
