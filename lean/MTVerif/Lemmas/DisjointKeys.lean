/-
  Lemmas/DisjointKeys.lean — in everything inference builds, no key of a TypedDict is both required and optional
  (`make_typed_dict` asserts it, typing.py:58).
-/
import MTVerif.Lemmas.Normal
import MTVerif.Lemmas.TdSize
import MTVerif.Lemmas.Keys
namespace MT

mutual
/-- at every TypedDict node the required and the optional keys are disjoint -/
def Ty.djk : Ty → Bool
  | .list t | .set t | .tupleOf t | .iterator t => t.djk
  | .dict a b | .ddict a b => a.djk && b.djk
  | .generator a b c => a.djk && b.djk && c.djk
  | .tuple ts => djkL ts
  | .union ts => djkL ts
  | .td r o => decide (∀ s ∈ r.map Prod.fst, s ∉ o.map Prod.fst) && djkF r && djkF o
  | _ => true
def djkL : List Ty → Bool
  | [] => true
  | t :: ts => t.djk && djkL ts
def djkF : List (String × Ty) → Bool
  | [] => true
  | (_, t) :: fs => t.djk && djkF fs
end

theorem djkL_iff (ts : List Ty) : djkL ts = true ↔ ∀ t ∈ ts, t.djk = true := by
  induction ts with
  | nil => simp [djkL]
  | cons t ts ih => simp [djkL, ih]

theorem djkF_iff (fs : List (String × Ty)) : djkF fs = true ↔ ∀ kt ∈ fs, kt.2.djk = true := by
  induction fs with
  | nil => simp [djkF]
  | cons kt fs ih => obtain ⟨k, t⟩ := kt; simp [djkF, ih]

mutual
theorem noTD_djk : ∀ t : Ty, t.hasTD = false → t.djk = true
  | .any, _ => rfl
  | .cls _, _ => rfl
  | .typeOf _, _ => rfl
  | .callable, _ => rfl
  | .list a, h => by simp only [Ty.hasTD] at h; simp only [Ty.djk]; exact noTD_djk a h
  | .set a, h => by simp only [Ty.hasTD] at h; simp only [Ty.djk]; exact noTD_djk a h
  | .tupleOf a, h => by simp only [Ty.hasTD] at h; simp only [Ty.djk]; exact noTD_djk a h
  | .iterator a, h => by simp only [Ty.hasTD] at h; simp only [Ty.djk]; exact noTD_djk a h
  | .dict a b, h => by
      simp only [Ty.hasTD, Bool.or_eq_false_iff] at h
      simp only [Ty.djk, Bool.and_eq_true]; exact ⟨noTD_djk a h.1, noTD_djk b h.2⟩
  | .ddict a b, h => by
      simp only [Ty.hasTD, Bool.or_eq_false_iff] at h
      simp only [Ty.djk, Bool.and_eq_true]; exact ⟨noTD_djk a h.1, noTD_djk b h.2⟩
  | .generator a b c, h => by
      simp only [Ty.hasTD, Bool.or_eq_false_iff] at h
      simp only [Ty.djk, Bool.and_eq_true]
      exact ⟨⟨noTD_djk a h.1.1, noTD_djk b h.1.2⟩, noTD_djk c h.2⟩
  | .tuple ts, h => by simp only [Ty.hasTD] at h; simp only [Ty.djk]; exact noTDL_djk ts h
  | .union ts, h => by simp only [Ty.hasTD] at h; simp only [Ty.djk]; exact noTDL_djk ts h
  | .td _ _, h => by simp [Ty.hasTD] at h
theorem noTDL_djk : ∀ ts : List Ty, hasTDL ts = false → djkL ts = true
  | [], _ => rfl
  | t :: ts, h => by
      simp only [hasTDL, Bool.or_eq_false_iff] at h
      simp only [djkL, Bool.and_eq_true]; exact ⟨noTD_djk t h.1, noTDL_djk ts h.2⟩
end

theorem reqF_djk (t : Ty) (h : t.djk = true) : ∀ kt ∈ t.reqF, kt.2.djk = true := by
  cases t <;> simp [Ty.reqF]
  rename_i r o
  simp only [Ty.djk, Bool.and_eq_true] at h
  intro a b hab; exact (djkF_iff r).mp h.1.2 (a, b) hab

theorem optF_djk (t : Ty) (h : t.djk = true) : ∀ kt ∈ t.optF, kt.2.djk = true := by
  cases t <;> simp [Ty.optF]
  rename_i r o
  simp only [Ty.djk, Bool.and_eq_true] at h
  intro a b hab; exact (djkF_iff o).mp h.2 (a, b) hab

theorem reqVals_djk (s : String) (ts : List Ty) (h : ∀ t ∈ ts, t.djk = true) :
    ∀ t ∈ reqVals s ts ++ optVals s ts, t.djk = true := by
  intro t ht
  simp only [reqVals, optVals, List.mem_append, List.mem_filterMap] at ht
  rcases ht with ⟨u, hu, hl⟩ | ⟨u, hu, hl⟩
  · exact reqF_djk u (h u hu) (s, t) (lookupF_mem s _ t hl)
  · exact optF_djk u (h u hu) (s, t) (lookupF_mem s _ t hl)

theorem allVals_djk (ts : List Ty) (h : ∀ t ∈ ts, t.djk = true) : ∀ t ∈ allVals ts, t.djk = true := by
  intro t ht
  simp only [allVals, List.mem_flatMap, List.mem_map, List.mem_append] at ht
  obtain ⟨u, hu, kt, hkt, rfl⟩ := ht
  rcases hkt with hkt | hkt
  · exact reqF_djk u (h u hu) kt hkt
  · exact optF_djk u (h u hu) kt hkt

theorem shrink_djk (k : Nat) (ts : List Ty) : (∀ t ∈ ts, t.djk = true) → (shrink k ts).djk = true := by
  fun_induction shrink k ts with
  | case1 => intro _; rfl
  | case2 t0 rest hall hbig ih =>
    intro h
    simp only [Ty.djk, Bool.true_and]
    exact ih (allVals_djk _ h)
  | case3 t0 rest hall hsmall ih1 =>
    intro h
    simp only [Ty.djk, Bool.and_eq_true, decide_eq_true_eq, map_keys]
    refine ⟨⟨?_, ?_⟩, ?_⟩
    · -- a key required in every member is optional in none (members have disjoint key sets)
      intro s hs hso
      have hreq := (mem_reqKeys_iff s (t0 :: rest) (by simp)).mp hs
      rcases (mem_optKeys_iff s (t0 :: rest)).mp hso with ⟨_, hn⟩ | ⟨t, ht, hto⟩
      · exact hn hreq
      · have htr := hreq t ht
        have hdj := h t ht
        have htd := List.all_eq_true.mp hall t ht
        cases t <;> simp [Ty.isTD] at htd
        rename_i r o
        simp only [Ty.djk, Bool.and_eq_true, decide_eq_true_eq] at hdj
        exact hdj.1.1 s (by simpa [Ty.reqKeySet, Ty.reqF] using htr) (by simpa [Ty.optKeySet, Ty.optF] using hto)
    · rw [djkF_iff]; intro kt hkt
      obtain ⟨s, _, rfl⟩ := List.mem_map.mp hkt
      exact ih1 s (reqVals_djk s _ h)
    · rw [djkF_iff]; intro kt hkt
      obtain ⟨s, _, rfl⟩ := List.mem_map.mp hkt
      exact ih1 s (reqVals_djk s _ h)
  | case4 t0 rest hnall heq => intro h; exact h t0 (List.mem_cons_self ..)
  | case5 t0 rest hnall hneq hlist ih =>
    intro h
    simp only [Ty.djk]
    apply ih
    intro t ht
    obtain ⟨u, hu, rfl⟩ := List.mem_map.mp ht
    have hd := h u hu
    have hl := List.all_eq_true.mp hlist u hu
    cases u <;> simp [Ty.isList] at hl
    simpa [Ty.listArg, Ty.djk] using hd
  | case6 t0 rest hnall hneq hnlist =>
    intro _
    apply noTD_djk
    apply mkUnion_noTD
    intro t ht
    obtain ⟨u, _, rfl⟩ := List.mem_map.mp ht
    exact tdToDict_noTD u

mutual
theorem getType_djk (k : Nat) : ∀ v : Val, (getType k v).djk = true
  | .inst c => by simp [getType, Ty.djk]
  | .str s => by simp [getType, Ty.djk]
  | .classObj c => by simp [getType, Ty.djk]
  | .func => by simp [getType, Ty.djk]
  | .genObj => by simp [getType, Ty.djk]
  | .list vs => by simp only [getType, Ty.djk]; exact shrink_djk k _ (getTypes_djk k vs)
  | .set vs => by simp only [getType, Ty.djk]; exact shrink_djk k _ (getTypes_djk k vs)
  | .tuple vs => by simp only [getType, Ty.djk]; exact (djkL_iff _).mpr (getTypes_djk k vs)
  | .ddict kvs => by
      simp only [getType, Ty.djk, Bool.and_eq_true]
      exact ⟨shrink_djk k _ (getKeyTypes_djk k kvs), shrink_djk k _ (getValTypes_djk k kvs)⟩
  | .dict kvs => by
      cases kvs with
      | nil => simp [getType, Ty.djk]
      | cons kv0 kvs0 =>
        simp only [getType]
        split
        · simp only [Ty.djk, djkF, Bool.and_true, List.map_nil, List.not_mem_nil, not_false_eq_true, implies_true, decide_true,
            Bool.true_and]
          exact (djkF_iff _).mpr (getFields_djk k _)
        · simp only [Ty.djk, Bool.and_eq_true]
          exact ⟨shrink_djk k _ (getKeyTypes_djk k _), shrink_djk k _ (getValTypes_djk k _)⟩
theorem getTypes_djk (k : Nat) : ∀ vs : List Val, ∀ t ∈ getTypes k vs, t.djk = true
  | [], t, ht => by simp [getTypes] at ht
  | v0 :: vs, t, ht => by
      simp only [getTypes, List.mem_cons] at ht
      rcases ht with heq | ht
      · rw [heq]; exact getType_djk k v0
      · exact getTypes_djk k vs t ht
theorem getKeyTypes_djk (k : Nat) : ∀ kvs : List (Val × Val), ∀ t ∈ getKeyTypes k kvs, t.djk = true
  | [], t, ht => by simp [getKeyTypes] at ht
  | (a, b) :: kvs, t, ht => by
      simp only [getKeyTypes, List.mem_cons] at ht
      rcases ht with heq | ht
      · rw [heq]; exact getType_djk k a
      · exact getKeyTypes_djk k kvs t ht
theorem getValTypes_djk (k : Nat) : ∀ kvs : List (Val × Val), ∀ t ∈ getValTypes k kvs, t.djk = true
  | [], t, ht => by simp [getValTypes] at ht
  | (a, b) :: kvs, t, ht => by
      simp only [getValTypes, List.mem_cons] at ht
      rcases ht with heq | ht
      · rw [heq]; exact getType_djk k b
      · exact getValTypes_djk k kvs t ht
theorem getFields_djk (k : Nat) : ∀ kvs : List (Val × Val), ∀ kt ∈ getFields k kvs, kt.2.djk = true
  | [], t, ht => by simp [getFields] at ht
  | (a, b) :: kvs, t, ht => by
      simp only [getFields, List.mem_cons] at ht
      rcases ht with heq | ht
      · rw [heq]; exact getType_djk k b
      · exact getFields_djk k kvs t ht
end

end MT
