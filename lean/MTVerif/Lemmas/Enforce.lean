/-
  Lemmas/Enforce.lean — the stub-time size limit: `enforce k` bounds every TypedDict by `k`, never narrows, and is the
  identity on what inference builds at limit `k`.
-/
import MTVerif.Model.Enforce
import MTVerif.Model.Trigger
import MTVerif.Lemmas.TdSize
import MTVerif.Lemmas.Sound
import MTVerif.Lemmas.Beq
namespace MT

theorem flat1_tdOk (k : Nat) (ts : List Ty) (h : ∀ t ∈ ts, t.tdOk k = true) : ∀ t ∈ flat1 ts, t.tdOk k = true := by
  intro t ht
  simp only [flat1, List.mem_flatMap] at ht
  obtain ⟨u, hu, htu⟩ := ht
  have hw := h u hu
  cases u <;> simp at htu <;> try (subst htu; exact hw)
  rename_i us
  simp only [Ty.tdOk] at hw
  exact (tdOkL_iff k us).mp hw t htu

theorem mkUnion_tdOk (k : Nat) (ts : List Ty) (h : ∀ t ∈ ts, t.tdOk k = true) : (mkUnion ts).tdOk k = true := by
  have hd : ∀ t ∈ dedupBy Ty.eqv (flat1 ts), t.tdOk k = true :=
    fun t ht => flat1_tdOk k ts h t (dedupBy_subset _ _ t ht)
  unfold mkUnion
  split
  · next u heq => exact hd u (by rw [heq]; simp)
  · simp only [Ty.tdOk]; exact (tdOkL_iff k _).mpr hd

mutual
theorem tdOk_of_noTD (k : Nat) : ∀ t : Ty, t.hasTD = false → t.tdOk k = true
  | .any, _ | .cls _, _ | .typeOf _, _ | .callable, _ => by simp [Ty.tdOk]
  | .list a, h | .set a, h | .tupleOf a, h | .iterator a, h => by
      simp only [Ty.hasTD] at h; simp only [Ty.tdOk]; exact tdOk_of_noTD k a h
  | .dict a b, h | .ddict a b, h => by
      simp only [Ty.hasTD, Bool.or_eq_false_iff] at h
      simp only [Ty.tdOk, Bool.and_eq_true]; exact ⟨tdOk_of_noTD k a h.1, tdOk_of_noTD k b h.2⟩
  | .generator a b c, h => by
      simp only [Ty.hasTD, Bool.or_eq_false_iff] at h
      simp only [Ty.tdOk, Bool.and_eq_true]; exact ⟨⟨tdOk_of_noTD k a h.1.1, tdOk_of_noTD k b h.1.2⟩, tdOk_of_noTD k c h.2⟩
  | .tuple ts, h | .union ts, h => by simp only [Ty.hasTD] at h; simp only [Ty.tdOk]; exact tdOkL_of_noTD k ts h
  | .td _ _, h => by simp [Ty.hasTD] at h
theorem tdOkL_of_noTD (k : Nat) : ∀ ts : List Ty, hasTDL ts = false → tdOkL k ts = true
  | [], _ => rfl
  | t :: ts, h => by
      simp only [hasTDL, Bool.or_eq_false_iff] at h
      simp only [tdOkL, Bool.and_eq_true]; exact ⟨tdOk_of_noTD k t h.1, tdOkL_of_noTD k ts h.2⟩
end

theorem enforceF_length (k : Nat) : ∀ fs : List (String × Ty), (enforceF k fs).length = fs.length
  | [] => rfl
  | (_, _) :: fs => by simp [enforceF, enforceF_length k fs]

theorem enforceF_keys (k : Nat) : ∀ fs : List (String × Ty), (enforceF k fs).map Prod.fst = fs.map Prod.fst
  | [] => rfl
  | (_, _) :: fs => by simp [enforceF, enforceF_keys k fs]

mutual
/-- whatever limit `k0` a stored type was recorded under, after `enforce k` every TypedDict node has between 1 and `k` keys -/
theorem enforce_tdOk (k k0 : Nat) : ∀ t : Ty, t.tdOk k0 = true → (enforce k t).tdOk k = true
  | .any, _ | .cls _, _ | .typeOf _, _ | .callable, _ => by simp [enforce, Ty.tdOk]
  | .list a, h | .set a, h | .tupleOf a, h | .iterator a, h => by
      simp only [Ty.tdOk] at h; simp only [enforce, Ty.tdOk]; exact enforce_tdOk k k0 a h
  | .dict a b, h | .ddict a b, h => by
      simp only [Ty.tdOk, Bool.and_eq_true] at h
      simp only [enforce, Ty.tdOk, Bool.and_eq_true]; exact ⟨enforce_tdOk k k0 a h.1, enforce_tdOk k k0 b h.2⟩
  | .generator a b c, h => by
      simp only [Ty.tdOk, Bool.and_eq_true] at h
      simp only [enforce, Ty.tdOk, Bool.and_eq_true]
      exact ⟨⟨enforce_tdOk k k0 a h.1.1, enforce_tdOk k k0 b h.1.2⟩, enforce_tdOk k k0 c h.2⟩
  | .tuple ts, h => by
      simp only [Ty.tdOk] at h; simp only [enforce, Ty.tdOk]
      exact (tdOkL_iff k _).mpr (enforceL_tdOk k k0 ts h)
  | .union ts, h => by
      simp only [Ty.tdOk] at h; simp only [enforce]
      exact mkUnion_tdOk k _ (enforceL_tdOk k k0 ts h)
  | .td r o, h => by
      simp only [Ty.tdOk, Bool.and_eq_true, decide_eq_true_eq] at h
      obtain ⟨⟨⟨hpos, _⟩, hr⟩, ho⟩ := h
      simp only [enforce]
      split
      · exact tdOk_of_noTD k _ (tdToDict_noTD _)
      · next hle =>
        simp only [Ty.tdOk, enforceF_length, Bool.and_eq_true, decide_eq_true_eq]
        exact ⟨⟨⟨hpos, by omega⟩, enforceF_tdOk k k0 r hr⟩, enforceF_tdOk k k0 o ho⟩
theorem enforceL_tdOk (k k0 : Nat) : ∀ ts : List Ty, tdOkL k0 ts = true → ∀ t ∈ enforceL k ts, t.tdOk k = true
  | [], _, t, ht => by simp [enforceL] at ht
  | a :: as, h, t, ht => by
      simp only [tdOkL, Bool.and_eq_true] at h
      simp only [enforceL, List.mem_cons] at ht
      rcases ht with rfl | ht
      · exact enforce_tdOk k k0 a h.1
      · exact enforceL_tdOk k k0 as h.2 t ht
theorem enforceF_tdOk (k k0 : Nat) : ∀ fs : List (String × Ty), tdOkF k0 fs = true → tdOkF k (enforceF k fs) = true
  | [], _ => by simp [enforceF, tdOkF]
  | (_, a) :: fs, h => by
      simp only [tdOkF, Bool.and_eq_true] at h
      simp only [enforceF, tdOkF, Bool.and_eq_true]
      exact ⟨enforce_tdOk k k0 a h.1, enforceF_tdOk k k0 fs h.2⟩
end

mutual
/-- on a type that already respects the limit (and is in the normal form inference builds) `enforce` changes nothing -/
theorem enforce_id (k : Nat) : ∀ t : Ty, t.tdOk k = true → t.normal = true → enforce k t = t
  | .any, _, _ | .cls _, _, _ | .typeOf _, _, _ | .callable, _, _ => by simp [enforce]
  | .list a, h, hn | .set a, h, hn | .tupleOf a, h, hn | .iterator a, h, hn => by
      simp only [Ty.tdOk] at h; simp only [Ty.normal] at hn; simp only [enforce, enforce_id k a h hn]
  | .dict a b, h, hn | .ddict a b, h, hn => by
      simp only [Ty.tdOk, Bool.and_eq_true] at h; simp only [Ty.normal, Bool.and_eq_true] at hn
      simp only [enforce, enforce_id k a h.1 hn.1, enforce_id k b h.2 hn.2]
  | .generator a b c, h, hn => by
      simp only [Ty.tdOk, Bool.and_eq_true] at h; simp only [Ty.normal, Bool.and_eq_true] at hn
      simp only [enforce, enforce_id k a h.1.1 hn.1.1, enforce_id k b h.1.2 hn.1.2, enforce_id k c h.2 hn.2]
  | .tuple ts, h, hn => by
      simp only [Ty.tdOk] at h; simp only [Ty.normal] at hn
      simp only [enforce, enforceL_id k ts h hn]
  | .union ts, h, hn => by
      simp only [Ty.tdOk] at h; simp only [Ty.normal, Bool.and_eq_true] at hn
      simp only [enforce, enforceL_id k ts h hn.1]
      exact Ty.beq'_eq _ _ hn.2
  | .td r o, h, hn => by
      simp only [Ty.tdOk, Bool.and_eq_true, decide_eq_true_eq] at h
      simp only [Ty.normal, Bool.and_eq_true] at hn
      obtain ⟨⟨⟨_, hle⟩, hr⟩, ho⟩ := h
      simp only [enforce, Nat.not_lt.mpr hle, ↓reduceIte, enforceF_id k r hr hn.1, enforceF_id k o ho hn.2]
theorem enforceL_id (k : Nat) : ∀ ts : List Ty, tdOkL k ts = true → normalL ts = true → enforceL k ts = ts
  | [], _, _ => rfl
  | t :: ts, h, hn => by
      simp only [tdOkL, Bool.and_eq_true] at h; simp only [normalL, Bool.and_eq_true] at hn
      simp only [enforceL, enforce_id k t h.1 hn.1, enforceL_id k ts h.2 hn.2]
theorem enforceF_id (k : Nat) : ∀ fs : List (String × Ty), tdOkF k fs = true → normalF fs = true → enforceF k fs = fs
  | [], _, _ => rfl
  | (s, t) :: fs, h, hn => by
      simp only [tdOkF, Bool.and_eq_true] at h; simp only [normalF, Bool.and_eq_true] at hn
      simp only [enforceF, enforce_id k t h.1 hn.1, enforceF_id k fs h.2 hn.2]
end

theorem map_enforce_id (k : Nat) (ts : List Ty) (h : ∀ t ∈ ts, t.tdOk k = true ∧ t.normal = true) : ts.map (enforce k) = ts := by
  induction ts with
  | nil => rfl
  | cons t ts ih =>
    have := h t (List.mem_cons_self ..)
    simp only [List.map_cons, enforce_id k t this.1 this.2, ih (fun x hx => h x (List.mem_cons_of_mem _ hx))]

mutual
theorem enforce_wf (k : Nat) : ∀ t : Ty, t.wf = true → (enforce k t).wf = true
  | .any, _ | .cls _, _ | .typeOf _, _ | .callable, _ => by simp [enforce, Ty.wf]
  | .list a, h | .set a, h | .tupleOf a, h | .iterator a, h => by
      simp only [Ty.wf] at h; simp only [enforce, Ty.wf]; exact enforce_wf k a h
  | .dict a b, h | .ddict a b, h => by
      simp only [Ty.wf, Bool.and_eq_true] at h
      simp only [enforce, Ty.wf, Bool.and_eq_true]; exact ⟨enforce_wf k a h.1, enforce_wf k b h.2⟩
  | .generator a b c, h => by
      simp only [Ty.wf, Bool.and_eq_true] at h
      simp only [enforce, Ty.wf, Bool.and_eq_true]; exact ⟨⟨enforce_wf k a h.1.1, enforce_wf k b h.1.2⟩, enforce_wf k c h.2⟩
  | .tuple ts, h => by
      simp only [Ty.wf] at h; simp only [enforce, Ty.wf]; exact (wfTL_iff _).mpr (enforceL_wf k ts h)
  | .union ts, h => by
      simp only [Ty.wf] at h; simp only [enforce]; exact mkUnion_wf _ (enforceL_wf k ts h)
  | .td r o, h => by
      simp only [Ty.wf, Bool.and_eq_true, decide_eq_true_eq] at h
      obtain ⟨⟨⟨hr, ho⟩, hkr⟩, hko⟩ := h
      simp only [enforce]
      split
      · exact tdToDict_wf _
      · simp only [Ty.wf, enforceF_keys, Bool.and_eq_true, decide_eq_true_eq]
        exact ⟨⟨⟨enforceF_wf k r hr, enforceF_wf k o ho⟩, hkr⟩, hko⟩
theorem enforceL_wf (k : Nat) : ∀ ts : List Ty, wfTL ts = true → ∀ t ∈ enforceL k ts, t.wf = true
  | [], _, t, ht => by simp [enforceL] at ht
  | a :: as, h, t, ht => by
      simp only [wfTL, Bool.and_eq_true] at h
      simp only [enforceL, List.mem_cons] at ht
      rcases ht with rfl | ht
      · exact enforce_wf k a h.1
      · exact enforceL_wf k as h.2 t ht
theorem enforceF_wf (k : Nat) : ∀ fs : List (String × Ty), wfTF fs = true → wfTF (enforceF k fs) = true
  | [], _ => by simp [enforceF, wfTF]
  | (_, a) :: fs, h => by
      simp only [wfTF, Bool.and_eq_true] at h
      simp only [enforceF, wfTF, Bool.and_eq_true]
      exact ⟨enforce_wf k a h.1, enforceF_wf k fs h.2⟩
end

section
variable (sub : ClassId → ClassId → Bool) (ao : Bool) (hrefl : ∀ c, sub c c = true)
include hrefl

mutual
/-- `enforce` never narrows: a member of the stored type is a member of the rewritten one -/
theorem enforce_widens (k : Nat) : ∀ (t : Ty) (v : Val), t.wf = true → conforms sub ao t v = true → conforms sub ao (enforce k t) v = true
  | .any, v, _, h | .cls _, v, _, h | .typeOf _, v, _, h | .callable, v, _, h => by simpa [enforce] using h
  | .iterator a, v, _, h => by cases v <;> simp [conforms] at h; simp [enforce, conforms]
  | .generator a b c, v, _, h => by cases v <;> simp [conforms] at h; simp [enforce, conforms]
  | .list a, v, hw, h => by
      simp only [Ty.wf] at hw
      cases v <;> simp [conforms] at h
      simp only [enforce, conforms, List.all_eq_true]
      intro x hx; exact enforce_widens k a x hw (h x hx)
  | .set a, v, hw, h => by
      simp only [Ty.wf] at hw
      cases v <;> simp [conforms] at h
      simp only [enforce, conforms, List.all_eq_true]
      intro x hx; exact enforce_widens k a x hw (h x hx)
  | .tupleOf a, v, hw, h => by
      simp only [Ty.wf] at hw
      cases v <;> simp [conforms] at h
      simp only [enforce, conforms, List.all_eq_true]
      intro x hx; exact enforce_widens k a x hw (h x hx)
  | .dict a b, v, hw, h => by
      simp only [Ty.wf, Bool.and_eq_true] at hw
      cases v <;> simp [conforms] at h
      all_goals
        simp only [enforce, conforms, List.all_eq_true, Bool.and_eq_true]
        intro x hx
        have ⟨h1, h2⟩ := h x.1 x.2 hx
        exact ⟨enforce_widens k a _ hw.1 h1, enforce_widens k b _ hw.2 h2⟩
  | .ddict a b, v, hw, h => by
      simp only [Ty.wf, Bool.and_eq_true] at hw
      cases v <;> simp [conforms] at h
      simp only [enforce, conforms, List.all_eq_true, Bool.and_eq_true]
      intro x hx
      have ⟨h1, h2⟩ := h x.1 x.2 hx
      exact ⟨enforce_widens k a _ hw.1 h1, enforce_widens k b _ hw.2 h2⟩
  | .tuple ts, v, hw, h => by
      simp only [Ty.wf] at hw
      cases v <;> simp [conforms] at h
      simp only [enforce, conforms]
      exact enforceL_widens k ts _ hw h
  | .union ts, v, hw, h => by
      simp only [Ty.wf] at hw
      simp only [enforce]
      apply mkUnion_sound sub ao _ (enforceL_wf k ts hw)
      rw [conforms] at h
      exact (conformsAny_iff sub ao _ v).mp (enforceL_any k ts v hw h)
  | .td r o, v, hw, h => by
      simp only [Ty.wf, Bool.and_eq_true, decide_eq_true_eq] at hw
      obtain ⟨⟨⟨hwr, hwo⟩, _⟩, _⟩ := hw
      cases v <;> simp [conforms] at h
      rename_i kvs
      obtain ⟨hreq, hall⟩ := h
      simp only [enforce]
      split
      · apply tdToDict_widens sub ao hrefl
        simp only [conforms, Bool.and_eq_true, List.all_eq_true]
        exact ⟨hreq, fun kv hkv => by simpa using hall kv.1 kv.2 hkv⟩
      · simp only [conforms, Bool.and_eq_true, List.all_eq_true]
        refine ⟨enforceF_req k r kvs hwr hreq, ?_⟩
        intro kv hkv
        have := hall kv.1 kv.2 hkv
        split at this
        · next s hs =>
          simp only [Bool.or_eq_true] at this ⊢
          rcases this with h1 | h1
          · exact Or.inl (enforceF_field k r s kv.2 hwr h1)
          · exact Or.inr (enforceF_field k o s kv.2 hwo h1)
        · simp at this
theorem enforceL_widens (k : Nat) : ∀ (ts : List Ty) (vs : List Val), wfTL ts = true → conformsL sub ao ts vs = true →
    conformsL sub ao (enforceL k ts) vs = true
  | [], [], _, _ => by simp [enforceL, conformsL]
  | [], _ :: _, _, h => by simp [conformsL] at h
  | _ :: _, [], _, h => by simp [conformsL] at h
  | t :: ts, v :: vs, hw, h => by
      simp only [wfTL, Bool.and_eq_true] at hw
      simp only [conformsL, Bool.and_eq_true] at h
      simp only [enforceL, conformsL, Bool.and_eq_true]
      exact ⟨enforce_widens k t v hw.1 h.1, enforceL_widens k ts vs hw.2 h.2⟩
theorem enforceL_any (k : Nat) : ∀ (ts : List Ty) (v : Val), wfTL ts = true → conformsAny sub ao ts v = true →
    conformsAny sub ao (enforceL k ts) v = true
  | [], _, _, h => by simp [conformsAny] at h
  | t :: ts, v, hw, h => by
      simp only [wfTL, Bool.and_eq_true] at hw
      simp only [conformsAny, Bool.or_eq_true] at h
      simp only [enforceL, conformsAny, Bool.or_eq_true]
      rcases h with h | h
      · exact Or.inl (enforce_widens k t v hw.1 h)
      · exact Or.inr (enforceL_any k ts v hw.2 h)
theorem enforceF_field (k : Nat) : ∀ (fs : List (String × Ty)) (s : String) (v : Val), wfTF fs = true →
    conformsField sub ao fs s v = true → conformsField sub ao (enforceF k fs) s v = true
  | [], _, _, _, h => by simp [conformsField] at h
  | (f, t) :: fs, s, v, hw, h => by
      simp only [wfTF, Bool.and_eq_true] at hw
      simp only [conformsField] at h
      simp only [enforceF, conformsField]
      split at h
      · next he => simp only [he, ↓reduceIte]; exact enforce_widens k t v hw.1 h
      · next he => simp only [he, ↓reduceIte]; exact enforceF_field k fs s v hw.2 h
theorem enforceF_req (k : Nat) : ∀ (fs : List (String × Ty)) (kvs : List (Val × Val)), wfTF fs = true →
    conformsReq sub ao fs kvs = true → conformsReq sub ao (enforceF k fs) kvs = true
  | [], _, _, _ => by simp [enforceF, conformsReq]
  | (f, t) :: fs, kvs, hw, h => by
      simp only [wfTF, Bool.and_eq_true] at hw
      simp only [conformsReq, Bool.and_eq_true, List.any_eq_true] at h
      simp only [enforceF, conformsReq, Bool.and_eq_true, List.any_eq_true]
      obtain ⟨⟨kv, hkv, hk⟩, hrest⟩ := h
      exact ⟨⟨kv, hkv, hk.1, enforce_widens k t kv.2 hw.1 hk.2⟩, enforceF_req k fs kvs hw.2 hrest⟩
end

end
end MT
