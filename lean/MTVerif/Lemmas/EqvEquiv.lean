/-
  Lemmas/EqvEquiv.lean — Python `==` on types (`Ty.eqv`) is an equivalence relation on well-formed types
  (reflexive and symmetric need distinct TypedDict keys; transitive holds outright).
-/
import MTVerif.Lemmas.EqvSound
namespace MT

/-! ### list-level characterisations -/

theorem eqvAny_iff (as : List Ty) (b : Ty) : eqvAny as b = true ↔ ∃ a ∈ as, Ty.eqv a b = true := by
  induction as with
  | nil => simp [eqvAny]
  | cons a as ih => simp [eqvAny, ih]

theorem eqvSub_iff (as bs : List Ty) : eqvSub as bs = true ↔ ∀ a ∈ as, ∃ b ∈ bs, Ty.eqv a b = true := by
  induction as with
  | nil => simp [eqvSub]
  | cons a as ih => simp [eqvSub, ih]

theorem eqvF_iff (as bs : List (String × Ty)) :
    eqvF as bs = true ↔ ∀ kt ∈ as, ∃ b, lookupF kt.1 bs = some b ∧ Ty.eqv kt.2 b = true := by
  induction as with
  | nil => simp [eqvF]
  | cons kt as ih =>
    obtain ⟨k, a⟩ := kt
    simp only [eqvF, Bool.and_eq_true, ih, List.mem_cons, forall_eq_or_imp]
    constructor
    · rintro ⟨h1, h2⟩
      refine ⟨?_, h2⟩
      cases hl : lookupF k bs with
      | none => simp [hl] at h1
      | some b => exact ⟨b, rfl, by simpa [hl] using h1⟩
    · rintro ⟨⟨b, hl, he⟩, h2⟩
      exact ⟨by simp [hl, he], h2⟩

theorem eqv_union_iff (as bs : List Ty) :
    Ty.eqv (.union as) (.union bs) = true ↔
      (∀ a ∈ as, ∃ b ∈ bs, Ty.eqv a b = true) ∧ (∀ b ∈ bs, ∃ a ∈ as, Ty.eqv a b = true) := by
  simp only [Ty.eqv, Bool.and_eq_true, eqvSub_iff, List.all_eq_true, eqvAny_iff]

theorem eqv_td_iff (r o r' o' : List (String × Ty)) :
    Ty.eqv (.td r o) (.td r' o') = true ↔ eqvF r r' = true ∧ keysIn r' r = true ∧ eqvF o o' = true ∧ keysIn o' o = true := by
  simp only [Ty.eqv, Bool.and_eq_true, and_assoc]

/-! ### reflexivity -/

mutual
theorem Ty.eqv_refl : ∀ t : Ty, t.wf = true → Ty.eqv t t = true
  | .any, _ => by simp [Ty.eqv]
  | .cls _, _ => by simp [Ty.eqv]
  | .typeOf _, _ => by simp [Ty.eqv]
  | .callable, _ => by simp [Ty.eqv]
  | .list a, h => by simp only [Ty.wf] at h; simp only [Ty.eqv]; exact Ty.eqv_refl a h
  | .set a, h => by simp only [Ty.wf] at h; simp only [Ty.eqv]; exact Ty.eqv_refl a h
  | .tupleOf a, h => by simp only [Ty.wf] at h; simp only [Ty.eqv]; exact Ty.eqv_refl a h
  | .iterator a, h => by simp only [Ty.wf] at h; simp only [Ty.eqv]; exact Ty.eqv_refl a h
  | .dict a b, h => by
      simp only [Ty.wf, Bool.and_eq_true] at h
      simp only [Ty.eqv, Bool.and_eq_true]; exact ⟨Ty.eqv_refl a h.1, Ty.eqv_refl b h.2⟩
  | .ddict a b, h => by
      simp only [Ty.wf, Bool.and_eq_true] at h
      simp only [Ty.eqv, Bool.and_eq_true]; exact ⟨Ty.eqv_refl a h.1, Ty.eqv_refl b h.2⟩
  | .generator a b c, h => by
      simp only [Ty.wf, Bool.and_eq_true] at h
      simp only [Ty.eqv, Bool.and_eq_true]; exact ⟨⟨Ty.eqv_refl a h.1.1, Ty.eqv_refl b h.1.2⟩, Ty.eqv_refl c h.2⟩
  | .tuple ts, h => by simp only [Ty.wf] at h; simp only [Ty.eqv]; exact eqvL_refl ts h
  | .union ts, h => by
      simp only [Ty.wf] at h
      rw [eqv_union_iff]
      exact ⟨fun a ha => ⟨a, ha, eqv_refl_mem ts h a ha⟩, fun a ha => ⟨a, ha, eqv_refl_mem ts h a ha⟩⟩
  | .td r o, h => by
      simp only [Ty.wf, Bool.and_eq_true, decide_eq_true_eq] at h
      obtain ⟨⟨⟨hr, ho⟩, hnr⟩, hno⟩ := h
      rw [eqv_td_iff, eqvF_iff, eqvF_iff, keysIn_iff, keysIn_iff]
      refine ⟨?_, ?_, ?_, ?_⟩
      · intro kt hkt
        exact ⟨kt.2, lookupF_of_mem_nodup kt.1 r kt.2 hnr hkt, eqv_refl_memF r hr kt hkt⟩
      · intro kt hkt
        rw [lookupF_of_mem_nodup kt.1 r kt.2 hnr hkt]; rfl
      · intro kt hkt
        exact ⟨kt.2, lookupF_of_mem_nodup kt.1 o kt.2 hno hkt, eqv_refl_memF o ho kt hkt⟩
      · intro kt hkt
        rw [lookupF_of_mem_nodup kt.1 o kt.2 hno hkt]; rfl
theorem eqvL_refl : ∀ ts : List Ty, wfTL ts = true → eqvL ts ts = true
  | [], _ => by simp [eqvL]
  | t :: ts, h => by
      simp only [wfTL, Bool.and_eq_true] at h
      simp only [eqvL, Bool.and_eq_true]; exact ⟨Ty.eqv_refl t h.1, eqvL_refl ts h.2⟩
theorem eqv_refl_mem : ∀ ts : List Ty, wfTL ts = true → ∀ t ∈ ts, Ty.eqv t t = true
  | [], _, _, ht => by cases ht
  | t :: ts, h, x, hx => by
      simp only [wfTL, Bool.and_eq_true] at h
      rcases List.mem_cons.mp hx with heq | hx
      · rw [heq]; exact Ty.eqv_refl t h.1
      · exact eqv_refl_mem ts h.2 x hx
theorem eqv_refl_memF : ∀ fs : List (String × Ty), wfTF fs = true → ∀ kt ∈ fs, Ty.eqv kt.2 kt.2 = true
  | [], _, _, ht => by cases ht
  | (_, t) :: fs, h, x, hx => by
      simp only [wfTF, Bool.and_eq_true] at h
      rcases List.mem_cons.mp hx with heq | hx
      · rw [heq]; exact Ty.eqv_refl t h.1
      · exact eqv_refl_memF fs h.2 x hx
end

/-! ### symmetry -/

theorem wf_td (r o : List (String × Ty)) (h : (Ty.td r o).wf = true) :
    wfTF r = true ∧ wfTF o = true ∧ (r.map Prod.fst).Nodup ∧ (o.map Prod.fst).Nodup := by
  simp only [Ty.wf, Bool.and_eq_true, decide_eq_true_eq] at h
  exact ⟨h.1.1.1, h.1.1.2, h.1.2, h.2⟩

/-- symmetric comparison of two field lists, given symmetry on the field types of the first -/
theorem eqvF_symm (r r' : List (String × Ty)) (hnd' : (r'.map Prod.fst).Nodup) (hwf' : wfTF r' = true)
    (ih : ∀ kt ∈ r, ∀ b, b.wf = true → Ty.eqv kt.2 b = true → Ty.eqv b kt.2 = true)
    (h1 : eqvF r r' = true) (h2 : keysIn r' r = true) : eqvF r' r = true ∧ keysIn r r' = true := by
  rw [eqvF_iff] at h1 ⊢
  rw [keysIn_iff] at h2 ⊢
  constructor
  · intro kb hkb
    obtain ⟨k, b⟩ := kb
    have hs := h2 (k, b) hkb
    cases hl : lookupF k r with
    | none => simp [hl] at hs
    | some a =>
      have hmem := lookupF_mem k r a hl
      obtain ⟨b', hl', he⟩ := h1 (k, a) hmem
      have : lookupF k r' = some b := lookupF_of_mem_nodup k r' b hnd' hkb
      rw [this] at hl'
      cases hl'
      exact ⟨a, rfl, ih (k, a) hmem b ((wfTF_iff r').mp hwf' (k, b) hkb) he⟩
  · intro ka hka
    obtain ⟨b, hl, _⟩ := h1 ka hka
    simp [hl]

mutual
theorem Ty.eqv_symm : ∀ (a b : Ty), b.wf = true → Ty.eqv a b = true → Ty.eqv b a = true
  | .any, b, _, h => by cases b <;> simp_all [Ty.eqv]
  | .cls _, b, _, h => by cases b <;> simp_all [Ty.eqv]
  | .typeOf _, b, _, h => by cases b <;> simp_all [Ty.eqv]
  | .callable, b, _, h => by cases b <;> simp_all [Ty.eqv]
  | .list a, b, hw, h => by
      cases b <;> simp only [Ty.eqv, Bool.false_eq_true] at h
      rename_i b; simp only [Ty.wf] at hw; simp only [Ty.eqv]; exact Ty.eqv_symm a b hw h
  | .set a, b, hw, h => by
      cases b <;> simp only [Ty.eqv, Bool.false_eq_true] at h
      rename_i b; simp only [Ty.wf] at hw; simp only [Ty.eqv]; exact Ty.eqv_symm a b hw h
  | .tupleOf a, b, hw, h => by
      cases b <;> simp only [Ty.eqv, Bool.false_eq_true] at h
      rename_i b; simp only [Ty.wf] at hw; simp only [Ty.eqv]; exact Ty.eqv_symm a b hw h
  | .iterator a, b, hw, h => by
      cases b <;> simp only [Ty.eqv, Bool.false_eq_true] at h
      rename_i b; simp only [Ty.wf] at hw; simp only [Ty.eqv]; exact Ty.eqv_symm a b hw h
  | .dict a a', b, hw, h => by
      cases b <;> simp only [Ty.eqv, Bool.false_eq_true, Bool.and_eq_true] at h
      rename_i b b'; simp only [Ty.wf, Bool.and_eq_true] at hw
      simp only [Ty.eqv, Bool.and_eq_true]; exact ⟨Ty.eqv_symm a b hw.1 h.1, Ty.eqv_symm a' b' hw.2 h.2⟩
  | .ddict a a', b, hw, h => by
      cases b <;> simp only [Ty.eqv, Bool.false_eq_true, Bool.and_eq_true] at h
      rename_i b b'; simp only [Ty.wf, Bool.and_eq_true] at hw
      simp only [Ty.eqv, Bool.and_eq_true]; exact ⟨Ty.eqv_symm a b hw.1 h.1, Ty.eqv_symm a' b' hw.2 h.2⟩
  | .generator a1 a2 a3, b, hw, h => by
      cases b <;> simp only [Ty.eqv, Bool.false_eq_true, Bool.and_eq_true] at h
      rename_i b1 b2 b3; simp only [Ty.wf, Bool.and_eq_true] at hw
      simp only [Ty.eqv, Bool.and_eq_true]
      exact ⟨⟨Ty.eqv_symm a1 b1 hw.1.1 h.1.1, Ty.eqv_symm a2 b2 hw.1.2 h.1.2⟩, Ty.eqv_symm a3 b3 hw.2 h.2⟩
  | .tuple as, b, hw, h => by
      cases b <;> simp only [Ty.eqv, Bool.false_eq_true] at h
      rename_i bs; simp only [Ty.wf] at hw; simp only [Ty.eqv]; exact eqvL_symm as bs hw h
  | .union as, b, hw, h => by
      cases b <;> first | (simp only [Ty.eqv, Bool.false_eq_true] at h; done) | skip
      rename_i bs
      simp only [Ty.wf] at hw
      rw [eqv_union_iff] at h ⊢
      have hwb := (wfTL_iff bs).mp hw
      refine ⟨fun b hb => ?_, fun a ha => ?_⟩
      · obtain ⟨a, ha, he⟩ := h.2 b hb
        exact ⟨a, ha, eqv_symm_mem as a ha b (hwb b hb) he⟩
      · obtain ⟨b, hb, he⟩ := h.1 a ha
        exact ⟨b, hb, eqv_symm_mem as a ha b (hwb b hb) he⟩
  | .td r o, b, hw, h => by
      cases b <;> first | (simp only [Ty.eqv, Bool.false_eq_true] at h; done) | skip
      rename_i r' o'
      obtain ⟨hwr, hwo, hnr, hno⟩ := wf_td r' o' hw
      rw [eqv_td_iff] at h ⊢
      obtain ⟨h1, h2, h3, h4⟩ := h
      have hr := eqvF_symm r r' hnr hwr (fun kt hkt b hwb he => eqv_symm_memF r kt hkt b hwb he) h1 h2
      have ho := eqvF_symm o o' hno hwo (fun kt hkt b hwb he => eqv_symm_memF o kt hkt b hwb he) h3 h4
      exact ⟨hr.1, hr.2, ho.1, ho.2⟩
theorem eqvL_symm : ∀ (as bs : List Ty), wfTL bs = true → eqvL as bs = true → eqvL bs as = true
  | [], [], _, _ => by simp [eqvL]
  | a :: as, b :: bs, hw, h => by
      simp only [wfTL, Bool.and_eq_true] at hw
      simp only [eqvL, Bool.and_eq_true] at h ⊢
      exact ⟨Ty.eqv_symm a b hw.1 h.1, eqvL_symm as bs hw.2 h.2⟩
  | [], _ :: _, _, h => by simp [eqvL] at h
  | _ :: _, [], _, h => by simp [eqvL] at h
theorem eqv_symm_mem : ∀ (as : List Ty), ∀ a ∈ as, ∀ b, b.wf = true → Ty.eqv a b = true → Ty.eqv b a = true
  | [], _, ha, _, _, _ => by cases ha
  | x :: xs, a, ha, b, hw, h => by
      rcases List.mem_cons.mp ha with heq | ha
      · rw [heq] at h ⊢; exact Ty.eqv_symm x b hw h
      · exact eqv_symm_mem xs a ha b hw h
theorem eqv_symm_memF : ∀ (fs : List (String × Ty)), ∀ kt ∈ fs, ∀ b, b.wf = true → Ty.eqv kt.2 b = true → Ty.eqv b kt.2 = true
  | [], _, hk, _, _, _ => by cases hk
  | (_, t) :: fs, kt, hk, b, hw, h => by
      rcases List.mem_cons.mp hk with heq | hk
      · rw [heq] at h ⊢; exact Ty.eqv_symm t b hw h
      · exact eqv_symm_memF fs kt hk b hw h
end

/-! ### transitivity -/

theorem keysIn_trans (a b c : List (String × Ty)) (h1 : keysIn a b = true) (h2 : keysIn b c = true) : keysIn a c = true := by
  rw [keysIn_iff] at *
  intro ka hka
  have := h1 ka hka
  rw [lookupF_isSome_iff] at this ⊢
  obtain ⟨kb, hkb, hk⟩ := List.mem_map.mp this
  have := h2 kb hkb
  rw [lookupF_isSome_iff, hk] at this
  exact this

theorem eqvF_trans (r r' r'' : List (String × Ty))
    (ih : ∀ kt ∈ r, ∀ b c, Ty.eqv kt.2 b = true → Ty.eqv b c = true → Ty.eqv kt.2 c = true)
    (h1 : eqvF r r' = true) (h2 : eqvF r' r'' = true) : eqvF r r'' = true := by
  rw [eqvF_iff] at *
  intro kt hkt
  obtain ⟨b, hl, he⟩ := h1 kt hkt
  obtain ⟨c, hl', he'⟩ := h2 (kt.1, b) (lookupF_mem _ _ _ hl)
  exact ⟨c, hl', ih kt hkt b c he he'⟩

mutual
theorem Ty.eqv_trans : ∀ (a b c : Ty), Ty.eqv a b = true → Ty.eqv b c = true → Ty.eqv a c = true
  | .any, b, c, h1, h2 => by cases b <;> simp only [Ty.eqv, Bool.false_eq_true] at h1; exact h2
  | .cls _, b, c, h1, h2 => by
      cases b <;> simp only [Ty.eqv, Bool.false_eq_true, beq_iff_eq] at h1
      subst h1; exact h2
  | .typeOf _, b, c, h1, h2 => by
      cases b <;> simp only [Ty.eqv, Bool.false_eq_true, beq_iff_eq] at h1
      subst h1; exact h2
  | .callable, b, c, h1, h2 => by cases b <;> simp only [Ty.eqv, Bool.false_eq_true] at h1; exact h2
  | .list a, b, c, h1, h2 => by
      cases b <;> simp only [Ty.eqv, Bool.false_eq_true] at h1
      cases c <;> simp only [Ty.eqv, Bool.false_eq_true] at h2
      simp only [Ty.eqv]; exact Ty.eqv_trans a _ _ h1 h2
  | .set a, b, c, h1, h2 => by
      cases b <;> simp only [Ty.eqv, Bool.false_eq_true] at h1
      cases c <;> simp only [Ty.eqv, Bool.false_eq_true] at h2
      simp only [Ty.eqv]; exact Ty.eqv_trans a _ _ h1 h2
  | .tupleOf a, b, c, h1, h2 => by
      cases b <;> simp only [Ty.eqv, Bool.false_eq_true] at h1
      cases c <;> simp only [Ty.eqv, Bool.false_eq_true] at h2
      simp only [Ty.eqv]; exact Ty.eqv_trans a _ _ h1 h2
  | .iterator a, b, c, h1, h2 => by
      cases b <;> simp only [Ty.eqv, Bool.false_eq_true] at h1
      cases c <;> simp only [Ty.eqv, Bool.false_eq_true] at h2
      simp only [Ty.eqv]; exact Ty.eqv_trans a _ _ h1 h2
  | .dict a a', b, c, h1, h2 => by
      cases b <;> simp only [Ty.eqv, Bool.false_eq_true, Bool.and_eq_true] at h1
      cases c <;> simp only [Ty.eqv, Bool.false_eq_true, Bool.and_eq_true] at h2
      simp only [Ty.eqv, Bool.and_eq_true]; exact ⟨Ty.eqv_trans a _ _ h1.1 h2.1, Ty.eqv_trans a' _ _ h1.2 h2.2⟩
  | .ddict a a', b, c, h1, h2 => by
      cases b <;> simp only [Ty.eqv, Bool.false_eq_true, Bool.and_eq_true] at h1
      cases c <;> simp only [Ty.eqv, Bool.false_eq_true, Bool.and_eq_true] at h2
      simp only [Ty.eqv, Bool.and_eq_true]; exact ⟨Ty.eqv_trans a _ _ h1.1 h2.1, Ty.eqv_trans a' _ _ h1.2 h2.2⟩
  | .generator a1 a2 a3, b, c, h1, h2 => by
      cases b <;> simp only [Ty.eqv, Bool.false_eq_true, Bool.and_eq_true] at h1
      cases c <;> simp only [Ty.eqv, Bool.false_eq_true, Bool.and_eq_true] at h2
      simp only [Ty.eqv, Bool.and_eq_true]
      exact ⟨⟨Ty.eqv_trans a1 _ _ h1.1.1 h2.1.1, Ty.eqv_trans a2 _ _ h1.1.2 h2.1.2⟩, Ty.eqv_trans a3 _ _ h1.2 h2.2⟩
  | .tuple as, b, c, h1, h2 => by
      cases b <;> simp only [Ty.eqv, Bool.false_eq_true] at h1
      cases c <;> simp only [Ty.eqv, Bool.false_eq_true] at h2
      simp only [Ty.eqv]; exact eqvL_trans as _ _ h1 h2
  | .union as, b, c, h1, h2 => by
      cases b <;> first | (simp only [Ty.eqv, Bool.false_eq_true] at h1; done) | skip
      cases c <;> first | (simp only [Ty.eqv, Bool.false_eq_true] at h2; done) | skip
      rename_i bs cs
      rw [eqv_union_iff] at h1 h2 ⊢
      refine ⟨fun a ha => ?_, fun c hc => ?_⟩
      · obtain ⟨b, hb, he⟩ := h1.1 a ha
        obtain ⟨c, hc, he'⟩ := h2.1 b hb
        exact ⟨c, hc, eqv_trans_mem as a ha b c he he'⟩
      · obtain ⟨b, hb, he'⟩ := h2.2 c hc
        obtain ⟨a, ha, he⟩ := h1.2 b hb
        exact ⟨a, ha, eqv_trans_mem as a ha b c he he'⟩
  | .td r o, b, c, h1, h2 => by
      cases b <;> first | (simp only [Ty.eqv, Bool.false_eq_true] at h1; done) | skip
      cases c <;> first | (simp only [Ty.eqv, Bool.false_eq_true] at h2; done) | skip
      rename_i r' o' r'' o''
      rw [eqv_td_iff] at h1 h2 ⊢
      exact ⟨eqvF_trans r r' r'' (fun kt hkt b c => eqv_trans_memF r kt hkt b c) h1.1 h2.1,
             keysIn_trans r'' r' r h2.2.1 h1.2.1,
             eqvF_trans o o' o'' (fun kt hkt b c => eqv_trans_memF o kt hkt b c) h1.2.2.1 h2.2.2.1,
             keysIn_trans o'' o' o h2.2.2.2 h1.2.2.2⟩
theorem eqvL_trans : ∀ (as bs cs : List Ty), eqvL as bs = true → eqvL bs cs = true → eqvL as cs = true
  | [], [], [], _, _ => by simp [eqvL]
  | a :: as, b :: bs, c :: cs, h1, h2 => by
      simp only [eqvL, Bool.and_eq_true] at h1 h2 ⊢
      exact ⟨Ty.eqv_trans a b c h1.1 h2.1, eqvL_trans as bs cs h1.2 h2.2⟩
  | [], _ :: _, _, h, _ => by simp [eqvL] at h
  | _ :: _, [], _, h, _ => by simp [eqvL] at h
  | _, [], _ :: _, _, h => by simp [eqvL] at h
  | _, _ :: _, [], _, h => by simp [eqvL] at h
theorem eqv_trans_mem : ∀ (as : List Ty), ∀ a ∈ as, ∀ b c, Ty.eqv a b = true → Ty.eqv b c = true → Ty.eqv a c = true
  | [], _, ha, _, _, _, _ => by cases ha
  | x :: xs, a, ha, b, c, h1, h2 => by
      rcases List.mem_cons.mp ha with heq | ha
      · rw [heq] at h1 ⊢; exact Ty.eqv_trans x b c h1 h2
      · exact eqv_trans_mem xs a ha b c h1 h2
theorem eqv_trans_memF : ∀ (fs : List (String × Ty)), ∀ kt ∈ fs, ∀ b c, Ty.eqv kt.2 b = true → Ty.eqv b c = true → Ty.eqv kt.2 c = true
  | [], _, hk, _, _, _, _ => by cases hk
  | (_, t) :: fs, kt, hk, b, c, h1, h2 => by
      rcases List.mem_cons.mp hk with heq | hk
      · rw [heq] at h1 ⊢; exact Ty.eqv_trans t b c h1 h2
      · exact eqv_trans_memF fs kt hk b c h1 h2
end

end MT
