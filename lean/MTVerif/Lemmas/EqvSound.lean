/-
  Lemmas/EqvSound.lean — Python `==` on types (`Ty.eqv`) identifies only types with the same members.
-/
import MTVerif.Lemmas.Basic
namespace MT
variable (sub : ClassId → ClassId → Bool) (ao : Bool)

theorem keysIn_iff (as bs : List (String × Ty)) :
    keysIn as bs = true ↔ ∀ kb ∈ as, (lookupF kb.1 bs).isSome = true := by
  simp [keysIn, List.all_eq_true]

mutual
theorem Ty.eqv_sound : ∀ (a b : Ty), Ty.eqv a b = true → b.wf = true →
    ∀ v, (conforms sub ao a v = true ↔ conforms sub ao b v = true)
  | .any, b, h, _, v => by cases b <;> simp [Ty.eqv] at h; rfl
  | .cls c, b, h, _, v => by cases b <;> simp [Ty.eqv] at h; subst h; rfl
  | .typeOf c, b, h, _, v => by cases b <;> simp [Ty.eqv] at h; subst h; rfl
  | .callable, b, h, _, v => by cases b <;> simp [Ty.eqv] at h; rfl
  | .list a, b, h, hw, v => by
      cases b <;> simp [Ty.eqv] at h
      rename_i b
      simp only [Ty.wf] at hw
      cases v <;> simp [conforms]
      rename_i vs
      exact ⟨fun hc x hx => (Ty.eqv_sound a b h hw x).mp (hc x hx),
             fun hc x hx => (Ty.eqv_sound a b h hw x).mpr (hc x hx)⟩
  | .set a, b, h, hw, v => by
      cases b <;> simp [Ty.eqv] at h
      rename_i b
      simp only [Ty.wf] at hw
      cases v <;> simp [conforms]
      rename_i vs
      exact ⟨fun hc x hx => (Ty.eqv_sound a b h hw x).mp (hc x hx),
             fun hc x hx => (Ty.eqv_sound a b h hw x).mpr (hc x hx)⟩
  | .tupleOf a, b, h, hw, v => by
      cases b <;> simp [Ty.eqv] at h
      rename_i b
      simp only [Ty.wf] at hw
      cases v <;> simp [conforms]
      rename_i vs
      exact ⟨fun hc x hx => (Ty.eqv_sound a b h hw x).mp (hc x hx),
             fun hc x hx => (Ty.eqv_sound a b h hw x).mpr (hc x hx)⟩
  | .iterator a, b, h, hw, v => by
      cases b <;> simp [Ty.eqv] at h
      cases v <;> simp [conforms]
  | .generator a1 a2 a3, b, h, hw, v => by
      cases b <;> simp [Ty.eqv] at h
      cases v <;> simp [conforms]
  | .dict a a', b, h, hw, v => by
      cases b <;> simp [Ty.eqv] at h
      rename_i b b'
      simp only [Ty.wf, Bool.and_eq_true] at hw
      cases v <;> simp [conforms]
      all_goals
        rename_i kvs
        exact ⟨fun hc x y hx => ⟨(Ty.eqv_sound a b h.1 hw.1 x).mp (hc x y hx).1, (Ty.eqv_sound a' b' h.2 hw.2 y).mp (hc x y hx).2⟩,
               fun hc x y hx => ⟨(Ty.eqv_sound a b h.1 hw.1 x).mpr (hc x y hx).1, (Ty.eqv_sound a' b' h.2 hw.2 y).mpr (hc x y hx).2⟩⟩
  | .ddict a a', b, h, hw, v => by
      cases b <;> simp [Ty.eqv] at h
      rename_i b b'
      simp only [Ty.wf, Bool.and_eq_true] at hw
      cases v <;> simp [conforms]
      rename_i kvs
      exact ⟨fun hc x y hx => ⟨(Ty.eqv_sound a b h.1 hw.1 x).mp (hc x y hx).1, (Ty.eqv_sound a' b' h.2 hw.2 y).mp (hc x y hx).2⟩,
             fun hc x y hx => ⟨(Ty.eqv_sound a b h.1 hw.1 x).mpr (hc x y hx).1, (Ty.eqv_sound a' b' h.2 hw.2 y).mpr (hc x y hx).2⟩⟩
  | .tuple as, b, h, hw, v => by
      cases b <;> simp [Ty.eqv] at h
      rename_i bs
      simp only [Ty.wf] at hw
      cases v <;> simp [conforms]
      rw [Bool.eq_iff_iff]; exact eqvL_sound as bs h hw _
  | .union as, b, h, hw, v => by
      cases b <;> simp [Ty.eqv] at h
      rename_i bs
      simp only [Ty.wf] at hw
      simp only [conforms]
      constructor
      · exact eqvSub_sound as bs h.1 hw v
      · intro hc
        obtain ⟨b, hb, hcb⟩ := (conformsAny_iff sub ao bs v).mp hc
        exact eqvAny_sound as b (h.2 b hb) ((wfTL_iff bs).mp hw b hb) v hcb
  | .td r o, b, h, hw, v => by
      cases b <;> simp [Ty.eqv] at h
      rename_i r' o'
      obtain ⟨⟨⟨hr, hkr⟩, ho⟩, hko⟩ := h
      simp only [Ty.wf, Bool.and_eq_true, decide_eq_true_eq] at hw
      obtain ⟨⟨⟨hwr, hwo⟩, hndr⟩, hndo⟩ := hw
      have HR := eqvF_sound r r' hr hwr
      have HO := eqvF_sound o o' ho hwo
      rw [keysIn_iff] at hkr hko
      cases v <;> simp only [conforms, Bool.false_eq_true]
      rename_i kvs
      simp only [Bool.and_eq_true, List.all_eq_true, conformsReq_iff]
      -- field-wise transfer in both directions
      have fwd : ∀ (f f' : List (String × Ty)),
          (∀ k a, (k, a) ∈ f → ∃ b, lookupF k f' = some b ∧ ∀ v, (conforms sub ao a v = true ↔ conforms sub ao b v = true)) →
          ∀ s x, conformsField sub ao f s x = true → conformsField sub ao f' s x = true := by
        intro f f' H s x hc
        rw [conformsField_lookup] at hc ⊢
        obtain ⟨t, ht, hct⟩ := hc
        obtain ⟨b, hb, hiff⟩ := H s t (lookupF_mem s f t ht)
        exact ⟨b, hb, (hiff x).mp hct⟩
      have bwd : ∀ (f f' : List (String × Ty)),
          (∀ k a, (k, a) ∈ f → ∃ b, lookupF k f' = some b ∧ ∀ v, (conforms sub ao a v = true ↔ conforms sub ao b v = true)) →
          (∀ kb ∈ f', (lookupF kb.1 f).isSome = true) →
          ∀ s x, conformsField sub ao f' s x = true → conformsField sub ao f s x = true := by
        intro f f' H hk s x hc
        rw [conformsField_lookup] at hc ⊢
        obtain ⟨t', ht', hct'⟩ := hc
        have := hk (s, t') (lookupF_mem s f' t' ht')
        obtain ⟨t, ht⟩ := Option.isSome_iff_exists.mp this
        obtain ⟨b, hb, hiff⟩ := H s t (lookupF_mem s f t ht)
        simp only at ht
        rw [ht'] at hb; cases hb
        exact ⟨t, ht, (hiff x).mpr hct'⟩
      constructor
      · rintro ⟨hreq, hall⟩
        refine ⟨?_, ?_⟩
        · intro kt' hkt'
          obtain ⟨k', b⟩ := kt'
          obtain ⟨a, ha⟩ := Option.isSome_iff_exists.mp (hkr (k', b) hkt')
          have hmem := lookupF_mem k' r a ha
          obtain ⟨b0, hb0, hiff⟩ := HR k' a hmem
          have : lookupF k' r' = some b := lookupF_of_mem_nodup k' r' b hndr hkt'
          rw [this] at hb0; cases hb0
          obtain ⟨kv, hkv, hk, hc⟩ := hreq (k', a) hmem
          exact ⟨kv, hkv, hk, (hiff kv.2).mp hc⟩
        · intro kv hkv
          have := hall kv hkv
          split at this
          · simp only [Bool.or_eq_true] at this ⊢
            rcases this with h1 | h1
            · left; exact fwd r r' HR _ _ h1
            · right; exact fwd o o' HO _ _ h1
          · simp at this
      · rintro ⟨hreq, hall⟩
        refine ⟨?_, ?_⟩
        · intro kt hkt
          obtain ⟨k, a⟩ := kt
          obtain ⟨b, hb, hiff⟩ := HR k a hkt
          obtain ⟨kv, hkv, hk, hc⟩ := hreq (k, b) (lookupF_mem k r' b hb)
          exact ⟨kv, hkv, hk, (hiff kv.2).mpr hc⟩
        · intro kv hkv
          have := hall kv hkv
          split at this
          · simp only [Bool.or_eq_true] at this ⊢
            rcases this with h1 | h1
            · left; exact bwd r r' HR hkr _ _ h1
            · right; exact bwd o o' HO hko _ _ h1
          · simp at this
theorem eqvL_sound : ∀ (as bs : List Ty), eqvL as bs = true → wfTL bs = true →
    ∀ vs, (conformsL sub ao as vs = true ↔ conformsL sub ao bs vs = true)
  | [], bs, h, _, vs => by cases bs <;> simp [eqvL] at h; rfl
  | a :: as, bs, h, hw, vs => by
      cases bs with
      | nil => simp [eqvL] at h
      | cons b bs =>
        simp only [eqvL, Bool.and_eq_true] at h
        simp only [wfTL, Bool.and_eq_true] at hw
        cases vs with
        | nil => simp [conformsL]
        | cons v vs =>
          simp only [conformsL, Bool.and_eq_true]
          rw [Ty.eqv_sound a b h.1 hw.1 v, eqvL_sound as bs h.2 hw.2 vs]
theorem eqvAny_sound : ∀ (as : List Ty) (b : Ty), eqvAny as b = true → b.wf = true →
    ∀ v, conforms sub ao b v = true → conformsAny sub ao as v = true
  | [], _, h, _, _, _ => by simp [eqvAny] at h
  | a :: as, b, h, hw, v, hc => by
      simp only [eqvAny, Bool.or_eq_true] at h
      simp only [conformsAny, Bool.or_eq_true]
      rcases h with h | h
      · left; exact (Ty.eqv_sound a b h hw v).mpr hc
      · right; exact eqvAny_sound as b h hw v hc
theorem eqvSub_sound : ∀ (as bs : List Ty), eqvSub as bs = true → wfTL bs = true →
    ∀ v, conformsAny sub ao as v = true → conformsAny sub ao bs v = true
  | [], _, _, _, _, hc => by simp [conformsAny] at hc
  | a :: as, bs, h, hw, v, hc => by
      simp only [eqvSub, Bool.and_eq_true, List.any_eq_true] at h
      simp only [conformsAny, Bool.or_eq_true] at hc
      rcases hc with hc | hc
      · obtain ⟨b, hb, hab⟩ := h.1
        exact (conformsAny_iff sub ao bs v).mpr ⟨b, hb, (Ty.eqv_sound a b hab ((wfTL_iff bs).mp hw b hb) v).mp hc⟩
      · exact eqvSub_sound as bs h.2 hw v hc
theorem eqvF_sound : ∀ (as bs : List (String × Ty)), eqvF as bs = true → wfTF bs = true →
    ∀ k a, (k, a) ∈ as → ∃ b, lookupF k bs = some b ∧ ∀ v, (conforms sub ao a v = true ↔ conforms sub ao b v = true)
  | [], _, _, _, _, _, hm => by cases hm
  | (k0, a0) :: as, bs, h, hw, k, a, hm => by
      simp only [eqvF, Bool.and_eq_true] at h
      rcases List.mem_cons.mp hm with heq | hm
      · have h1 := h.1
        split at h1
        · next b hb =>
          have hkk : k = k0 := (Prod.mk.inj heq).1
          have haa : a = a0 := (Prod.mk.inj heq).2
          rw [hkk, haa]
          exact ⟨b, hb, Ty.eqv_sound a0 b h1 ((wfTF_iff bs).mp hw (k0, b) (lookupF_mem k0 bs b hb))⟩
        · simp at h1
      · exact eqvF_sound as bs h.2 hw k a hm
end

end MT
