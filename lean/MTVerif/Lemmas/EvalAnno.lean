/-
  Lemmas/EvalAnno.lean — evaluating a rendered, stripped annotation in a namespace where every name it uses denotes what
  was rendered gives a type with exactly the members of the rendered type.
-/
import MTVerif.Model.EvalAnno
import MTVerif.Model.TdSize
import MTVerif.Lemmas.Sound
namespace MT.Render
open MT

section
variable (sub : ClassId → ClassId → Bool) (ao : Bool)

/-- the converse of `mem_flat1` -/
theorem of_mem_flat1 (ts : List Ty) (v : Val) (h : ∃ t ∈ flat1 ts, conforms sub ao t v = true) :
    ∃ t ∈ ts, conforms sub ao t v = true := by
  obtain ⟨u, hu, hc⟩ := h
  simp only [flat1, List.mem_flatMap] at hu
  obtain ⟨t, ht, hut⟩ := hu
  by_cases hun : ∃ us, t = .union us
  · obtain ⟨us, rfl⟩ := hun
    exact ⟨_, ht, (conforms_union sub ao us v).mpr ⟨u, by simpa using hut, hc⟩⟩
  · have : u = t := by cases t <;> simp_all
    exact ⟨t, ht, this ▸ hc⟩

/-- `typing.Union[ts]` admits exactly what some argument admits -/
theorem mkUnion_conforms (ts : List Ty) (hw : ∀ t ∈ ts, t.wf = true) (v : Val) :
    conforms sub ao (mkUnion ts) v = conformsAny sub ao ts v := by
  rw [Bool.eq_iff_iff, conformsAny_iff]
  constructor
  · intro h
    apply of_mem_flat1
    unfold mkUnion at h
    split at h
    · next u heq =>
      exact ⟨u, dedupBy_subset _ _ u (by rw [heq]; simp), h⟩
    · obtain ⟨t, ht, hc⟩ := (conforms_union sub ao _ v).mp h
      exact ⟨t, dedupBy_subset _ _ t ht, hc⟩
  · exact mkUnion_sound sub ao ts hw v

/-- pointwise "same members" -/
def SemEqL : List Ty → List Ty → Prop
  | [], [] => True
  | a :: as, b :: bs => (∀ v, conforms sub ao a v = conforms sub ao b v) ∧ SemEqL as bs
  | _, _ => False

theorem SemEqL.any : ∀ (as bs : List Ty), SemEqL sub ao as bs → ∀ v, conformsAny sub ao as v = conformsAny sub ao bs v
  | [], [], _, _ => rfl
  | a :: as, b :: bs, h, v => by
      simp only [conformsAny, h.1 v, SemEqL.any as bs h.2 v]
  | [], _ :: _, h, _ => by simp [SemEqL] at h
  | _ :: _, [], h, _ => by simp [SemEqL] at h

theorem SemEqL.all : ∀ (as bs : List Ty), SemEqL sub ao as bs → ∀ vs, conformsL sub ao as vs = conformsL sub ao bs vs
  | [], [], _, vs => by cases vs <;> rfl
  | a :: as, b :: bs, h, vs => by
      cases vs with
      | nil => simp [conformsL]
      | cons v vs => simp only [conformsL, h.1 v, SemEqL.all as bs h.2 vs]
  | [], _ :: _, h, _ => by simp [SemEqL] at h
  | _ :: _, [], h, _ => by simp [SemEqL] at h

theorem SemEqL.length : ∀ (as bs : List Ty), SemEqL sub ao as bs → as.length = bs.length
  | [], [], _ => rfl
  | _ :: as, _ :: bs, h => by simp [SemEqL.length as bs h.2]
  | [], _ :: _, h => by simp [SemEqL] at h
  | _ :: _, [], h => by simp [SemEqL] at h

theorem isNoneTy_iff (t : Ty) : isNoneTy t = true ↔ t = .cls noneC := by
  cases t <;> simp [isNoneTy]

/-- a union with a NoneType member: its members are the non-None members, or None -/
theorem conformsAny_split (ts : List Ty) (v : Val) :
    conformsAny sub ao ts v =
      (conformsAny sub ao (ts.filter (fun t => !isNoneTy t)) v || (ts.any isNoneTy && conforms sub ao (.cls noneC) v)) := by
  induction ts with
  | nil => simp [conformsAny]
  | cons t ts ih =>
    by_cases hn : isNoneTy t = true
    · have := (isNoneTy_iff t).mp hn
      subst this
      simp only [conformsAny, ih, List.filter_cons, hn, Bool.not_true, Bool.false_eq_true, ↓reduceIte, List.any_cons, Bool.true_or,
        Bool.true_and]
      cases conforms sub ao (.cls noneC) v <;> simp
    · simp only [Bool.not_eq_true] at hn
      simp only [conformsAny, ih, List.filter_cons, hn, Bool.not_false, ↓reduceIte, List.any_cons, Bool.false_or, Bool.or_assoc]

end

/-! ### syntactic facts about rendering and stripping -/

theorem clsExpr_eq (nm : Names) (c : ClassId) : clsExpr nm c = .name (clsParts nm c) := by
  unfold clsExpr clsParts
  split
  split <;> split <;> simp_all

theorem renderNonNone_eq (nm : Names) : ∀ ts : List Ty, renderNonNone nm ts = renderL nm (ts.filter (fun t => !isNoneTy t))
  | [] => by simp [renderNonNone, renderL]
  | t :: ts => by
      by_cases hn : isNoneTy t = true
      · simp [renderNonNone, hn, renderNonNone_eq nm ts]
      · simp only [Bool.not_eq_true] at hn
        simp [renderNonNone, hn, renderL, renderNonNone_eq nm ts]

theorem renderL_length (nm : Names) : ∀ ts : List Ty, (renderL nm ts).length = ts.length
  | [] => rfl
  | _ :: ts => by simp [renderL, renderL_length nm ts]

theorem stripL_length (mods : List (List String)) : ∀ es : List Expr, (stripL mods es).length = es.length
  | [] => rfl
  | _ :: es => by simp [stripL, stripL_length mods es]

/-- the rendering of a type is never the bare `()` -/
theorem renderE_ne_emptyTuple (nm : Names) (mods : List (List String)) (t : Ty) : stripE mods (renderE nm t) ≠ .emptyTuple := by
  cases t <;> simp only [renderE, clsExpr_eq, stripE, ne_eq, reduceCtorEq, not_false_eq_true]
  · next ts => cases ts <;> simp [stripE]
  · next ts =>
    split
    · split <;> simp [stripE]
    · simp [stripE]

end MT.Render

namespace MT.Render
open MT

theorem typingOk_spec (ns : NS) (mods : List (List String)) (n : String) (h : typingOk ns mods n = true) :
    stripParts mods [n] = [n] ∧ resolve ns [n] = some (.typing n) := by
  simpa [typingOk] using h

/-- a rendered name that denotes a class or a typing constructor is not read as `...` -/
theorem not_ellipsis (ns : NS) (nm : Names) (mods : List (List String)) (t : Ty) (hn : namesOk ns nm mods t = true) :
    isEllipsisName ns (stripE mods (renderE nm t)) = false := by
  cases t with
  | any =>
    obtain ⟨h1, h2⟩ := typingOk_spec ns mods "Any" (by simpa [namesOk] using hn)
    simp [renderE, stripE, isEllipsisName, h1, h2]
  | callable =>
    obtain ⟨h1, h2⟩ := typingOk_spec ns mods "Callable" (by simpa [namesOk] using hn)
    simp [renderE, stripE, isEllipsisName, h1, h2]
  | cls c =>
    have : resolve ns (stripParts mods (clsParts nm c)) = some (.cls c) := by simpa [namesOk, clsOk] using hn
    simp [renderE, clsExpr_eq, stripE, isEllipsisName, this]
  | tuple ts => cases ts <;> simp [renderE, stripE, isEllipsisName]
  | union ts =>
    simp only [renderE]
    split
    · split <;> simp [stripE, isEllipsisName]
    · simp [stripE, isEllipsisName]
  | td r o => simp [namesOk] at hn
  | _ => simp [renderE, stripE, isEllipsisName]

/-- `Tuple[e1, …, en]` (n ≥ 1, not the `Tuple[()]` and `Tuple[X, ...]` forms) evaluates to the tuple of its arguments -/
theorem evalE_tuple (ns : NS) (es : List Expr) (ts' : List Ty)
    (h2 : resolve ns ["Tuple"] = some (.typing "Tuple"))
    (hne : es ≠ [.emptyTuple]) (hell : ∀ a b, es = [a, b] → isEllipsisName ns b = false)
    (he : evalL ns es = some ts') : evalE ns (.app (.name ["Tuple"]) es) = some (.tuple ts') := by
  match es, hne, hell, he with
  | [], _, _, he => simp [evalE, h2, he]
  | [e], hne, _, he =>
    cases e with
    | emptyTuple => exact absurd rfl hne
    | _ => simp [evalE, h2, he]
  | [a, b], _, hell, he => simp [evalE, h2, he, hell a b rfl]
  | _ :: _ :: _ :: _, _, _, he => simp [evalE, h2, he]

/-- `Optional[e]` -/
theorem evalE_optional (ns : NS) (e : Expr) (a : Ty) (h2 : resolve ns ["Optional"] = some (.typing "Optional"))
    (he : evalE ns e = some a) : evalE ns (.app (.name ["Optional"]) [e]) = some (mkUnion [a, .cls noneC]) := by
  simp [evalE, evalL, h2, he]

/-- `Union[es]` -/
theorem evalE_union (ns : NS) (es : List Expr) (ts' : List Ty) (h2 : resolve ns ["Union"] = some (.typing "Union"))
    (he : evalL ns es = some ts') : evalE ns (.app (.name ["Union"]) es) = some (mkUnion ts') := by
  simp [evalE, h2, he]

theorem evalL_singleton (ns : NS) (e : Expr) (ts' : List Ty) (h : evalL ns [e] = some ts') :
    ∃ a, ts' = [a] ∧ evalE ns e = some a := by
  simp only [evalL] at h
  cases h1 : evalE ns e with
  | none => simp [h1] at h
  | some a => simp only [h1, Option.some.injEq] at h; exact ⟨a, h.symm, rfl⟩

section
variable (sub : ClassId → ClassId → Bool) (ao : Bool) (ns : NS) (nm : Names) (mods : List (List String))

theorem wfTL_of (ts : List Ty) (h : ∀ t ∈ ts, t.wf = true) : wfTL ts = true := (wfTL_iff ts).mpr h

mutual
/-- Evaluating the rendered and stripped annotation of a TypedDict-free type, in a namespace where every name it uses
    denotes what was rendered, gives a type with exactly the same members. -/
theorem eval_render : ∀ t : Ty, t.hasTD = false → namesOk ns nm mods t = true →
    ∃ t', evalE ns (stripE mods (renderE nm t)) = some t' ∧ t'.wf = true ∧ ∀ v, conforms sub ao t' v = conforms sub ao t v
  | .any, _, hn => by
      obtain ⟨h1, h2⟩ := typingOk_spec ns mods "Any" (by simpa [namesOk] using hn)
      exact ⟨.any, by simp [renderE, stripE, evalE, h1, h2], rfl, fun _ => rfl⟩
  | .callable, _, hn => by
      obtain ⟨h1, h2⟩ := typingOk_spec ns mods "Callable" (by simpa [namesOk] using hn)
      exact ⟨.callable, by simp [renderE, stripE, evalE, h1, h2], rfl, fun _ => rfl⟩
  | .cls c, _, hn => by
      have : resolve ns (stripParts mods (clsParts nm c)) = some (.cls c) := by simpa [namesOk, clsOk] using hn
      exact ⟨.cls c, by simp [renderE, clsExpr_eq, stripE, evalE, this], rfl, fun _ => rfl⟩
  | .typeOf c, _, hn => by
      simp only [namesOk, Bool.and_eq_true] at hn
      obtain ⟨h1, h2⟩ := typingOk_spec ns mods "Type" hn.1
      have : resolve ns (stripParts mods (clsParts nm c)) = some (.cls c) := by simpa [clsOk] using hn.2
      exact ⟨.typeOf c, by simp [renderE, clsExpr_eq, stripE, stripL, evalE, evalL, h1, h2, this], rfl, fun _ => rfl⟩
  | .list t, ht, hn => by
      simp only [namesOk, Bool.and_eq_true] at hn
      simp only [Ty.hasTD] at ht
      obtain ⟨h1, h2⟩ := typingOk_spec ns mods "List" hn.1
      obtain ⟨t', he, hw, hs⟩ := eval_render t ht hn.2
      refine ⟨.list t', by simp [renderE, stripE, stripL, evalE, evalL, h1, h2, he], by simpa [Ty.wf] using hw, ?_⟩
      intro v; cases v <;> simp [conforms, hs]
  | .set t, ht, hn => by
      simp only [namesOk, Bool.and_eq_true] at hn
      simp only [Ty.hasTD] at ht
      obtain ⟨h1, h2⟩ := typingOk_spec ns mods "Set" hn.1
      obtain ⟨t', he, hw, hs⟩ := eval_render t ht hn.2
      refine ⟨.set t', by simp [renderE, stripE, stripL, evalE, evalL, h1, h2, he], by simpa [Ty.wf] using hw, ?_⟩
      intro v; cases v <;> simp [conforms, hs]
  | .iterator t, ht, hn => by
      simp only [namesOk, Bool.and_eq_true] at hn
      simp only [Ty.hasTD] at ht
      obtain ⟨h1, h2⟩ := typingOk_spec ns mods "Iterator" hn.1
      obtain ⟨t', he, hw, _⟩ := eval_render t ht hn.2
      refine ⟨.iterator t', by simp [renderE, stripE, stripL, evalE, evalL, h1, h2, he], by simpa [Ty.wf] using hw, ?_⟩
      intro v; cases v <;> simp [conforms]
  | .tupleOf t, ht, hn => by
      simp only [namesOk, Bool.and_eq_true, beq_iff_eq] at hn
      simp only [Ty.hasTD] at ht
      obtain ⟨⟨⟨hty, hse⟩, hre⟩, hnt⟩ := hn
      obtain ⟨h1, h2⟩ := typingOk_spec ns mods "Tuple" hty
      obtain ⟨t', he, hw, hs⟩ := eval_render t ht hnt
      refine ⟨.tupleOf t', ?_, by simpa [Ty.wf] using hw, ?_⟩
      · simp [renderE, stripE, stripL, evalE, evalL, evalHead, isEllipsisName, h1, h2, he, hse, hre]
      · intro v; cases v <;> simp [conforms, hs]
  | .dict k w, ht, hn => by
      simp only [namesOk, Bool.and_eq_true] at hn
      simp only [Ty.hasTD, Bool.or_eq_false_iff] at ht
      obtain ⟨h1, h2⟩ := typingOk_spec ns mods "Dict" hn.1.1
      obtain ⟨k', hek, hwk, hsk⟩ := eval_render k ht.1 hn.1.2
      obtain ⟨w', hew, hww, hsw⟩ := eval_render w ht.2 hn.2
      refine ⟨.dict k' w', by simp [renderE, stripE, stripL, evalE, evalL, h1, h2, hek, hew], by simp [Ty.wf, hwk, hww], ?_⟩
      intro v; cases v <;> simp [conforms, hsk, hsw]
  | .ddict k w, ht, hn => by
      simp only [namesOk, Bool.and_eq_true] at hn
      simp only [Ty.hasTD, Bool.or_eq_false_iff] at ht
      obtain ⟨h1, h2⟩ := typingOk_spec ns mods "DefaultDict" hn.1.1
      obtain ⟨k', hek, hwk, hsk⟩ := eval_render k ht.1 hn.1.2
      obtain ⟨w', hew, hww, hsw⟩ := eval_render w ht.2 hn.2
      refine ⟨.ddict k' w', by simp [renderE, stripE, stripL, evalE, evalL, h1, h2, hek, hew], by simp [Ty.wf, hwk, hww], ?_⟩
      intro v; cases v <;> simp [conforms, hsk, hsw]
  | .generator y s r, ht, hn => by
      simp only [namesOk, Bool.and_eq_true] at hn
      simp only [Ty.hasTD, Bool.or_eq_false_iff] at ht
      obtain ⟨h1, h2⟩ := typingOk_spec ns mods "Generator" hn.1.1.1
      obtain ⟨y', hey, hwy, _⟩ := eval_render y ht.1.1 hn.1.1.2
      obtain ⟨s', hes, hws, _⟩ := eval_render s ht.1.2 hn.1.2
      obtain ⟨r', her, hwr, _⟩ := eval_render r ht.2 hn.2
      refine ⟨.generator y' s' r', by simp [renderE, stripE, stripL, evalE, evalL, h1, h2, hey, hes, her],
        by simp [Ty.wf, hwy, hws, hwr], ?_⟩
      intro v; cases v <;> simp [conforms]
  | .tuple ts, ht, hn => by
      simp only [namesOk, Bool.and_eq_true] at hn
      simp only [Ty.hasTD] at ht
      obtain ⟨h1, h2⟩ := typingOk_spec ns mods "Tuple" hn.1
      obtain ⟨ts', he, hw, hs⟩ := eval_renderL ts ht hn.2
      refine ⟨.tuple ts', ?_, by simpa [Ty.wf] using wfTL_of ts' hw, ?_⟩
      · match ts, he, hn with
        | [], he, _ =>
          simp only [renderL, stripL, evalL, Option.some.injEq] at he
          subst he
          simp [renderE, stripE, stripL, evalE, h1, h2]
        | t1 :: rest, he, hn =>
          have hr : stripE mods (renderE nm (.tuple (t1 :: rest))) = .app (.name ["Tuple"]) (stripL mods (renderL nm (t1 :: rest))) := by
            simp [renderE, stripE, h1]
          rw [hr]
          apply evalE_tuple ns _ ts' h2 _ _ he
          · intro hc
            simp only [renderL, stripL] at hc
            cases rest with
            | nil => simp only [renderL, stripL, List.cons.injEq, and_true] at hc; exact renderE_ne_emptyTuple nm mods t1 hc
            | cons _ _ => simp [renderL, stripL] at hc
          · intro a b hab
            match rest, hab, hn with
            | [t2], hab, hn =>
              simp only [renderL, stripL, List.cons.injEq, and_true] at hab
              have hn2 : namesOk ns nm mods t2 = true := by
                simp only [namesOkL, Bool.and_eq_true] at hn; exact hn.2.2.1
              rw [← hab.2]
              exact not_ellipsis ns nm mods t2 hn2
            | [], hab, _ => simp [renderL, stripL] at hab
            | _ :: _ :: _, hab, _ => simp [renderL, stripL] at hab
      · intro v; cases v <;> simp [conforms, SemEqL.all sub ao ts' ts hs]
  | .union ts, ht, hn => by
      simp only [Ty.hasTD] at ht
      by_cases hnone : ts.any isNoneTy = true
      · -- Optional[...]
        simp only [namesOk, hnone, ↓reduceIte, Bool.and_eq_true, Bool.or_eq_true, decide_eq_true_eq] at hn
        obtain ⟨⟨hopt, hlen⟩, hnl⟩ := hn
        obtain ⟨ho1, ho2⟩ := typingOk_spec ns mods "Optional" hopt
        obtain ⟨ts', he, hw, hs⟩ := eval_renderNN ts ht hnl
        have hlen' : (renderNonNone nm ts).length = (ts.filter (fun t => !isNoneTy t)).length := by
          rw [renderNonNone_eq, renderL_length]
        have hsem : ∀ v, conforms sub ao (.union ts) v = (conformsAny sub ao ts' v || conforms sub ao (.cls noneC) v) := by
          intro v
          have h1 : conforms sub ao (.union ts) v = conformsAny sub ao ts v := by rw [conforms]
          rw [h1, conformsAny_split sub ao ts v, hnone, SemEqL.any sub ao ts' _ hs v, Bool.true_and]
        have hwn : ∀ (a : Ty), a.wf = true → ∀ t ∈ [a, Ty.cls noneC], t.wf = true := by
          intro a ha t ht
          simp only [List.mem_cons, List.not_mem_nil, or_false] at ht
          rcases ht with rfl | rfl
          · exact ha
          · rfl
        simp only [renderE, hnone, ↓reduceIte]
        split
        · next e hr =>
          rw [hr] at he
          obtain ⟨a, rfl, hea⟩ := evalL_singleton ns _ _ (by simpa [stripL] using he)
          have hwa : a.wf = true := hw a (by simp)
          refine ⟨mkUnion [a, .cls noneC], ?_, mkUnion_wf _ (hwn a hwa), ?_⟩
          · simp only [stripE, stripL, ho1]
            exact evalE_optional ns _ a ho2 hea
          · intro v
            rw [mkUnion_conforms sub ao _ (hwn a hwa), hsem v]
            simp [conformsAny]
        · next hns =>
          have hu : typingOk ns mods "Union" = true := by
            rcases hlen with h | h
            · exfalso
              rw [h] at hlen'
              obtain ⟨e, he1⟩ := List.length_eq_one_iff.mp hlen'
              exact hns e he1
            · exact h
          obtain ⟨hu1, hu2⟩ := typingOk_spec ns mods "Union" hu
          have hwu := mkUnion_wf ts' hw
          refine ⟨mkUnion [mkUnion ts', .cls noneC], ?_, mkUnion_wf _ (hwn _ hwu), ?_⟩
          · simp only [stripE, stripL, ho1, hu1]
            exact evalE_optional ns _ _ ho2 (evalE_union ns _ ts' hu2 he)
          · intro v
            rw [mkUnion_conforms sub ao _ (hwn _ hwu), hsem v]
            simp [conformsAny, mkUnion_conforms sub ao ts' hw v]
      · -- Union[...]
        simp only [Bool.not_eq_true] at hnone
        simp only [namesOk, hnone, Bool.false_eq_true, ↓reduceIte, Bool.and_eq_true] at hn
        obtain ⟨h1, h2⟩ := typingOk_spec ns mods "Union" hn.1
        obtain ⟨ts', he, hw, hs⟩ := eval_renderL ts ht hn.2
        refine ⟨mkUnion ts', by simp [renderE, hnone, stripE, evalE, h1, h2, he], mkUnion_wf ts' hw, ?_⟩
        intro v
        rw [mkUnion_conforms sub ao ts' hw v, SemEqL.any sub ao ts' ts hs v, conforms]
  | .td _ _, ht, _ => by simp [Ty.hasTD] at ht
theorem eval_renderL : ∀ ts : List Ty, hasTDL ts = false → namesOkL ns nm mods ts = true →
    ∃ ts', evalL ns (stripL mods (renderL nm ts)) = some ts' ∧ (∀ t ∈ ts', t.wf = true) ∧ SemEqL sub ao ts' ts
  | [], _, _ => ⟨[], rfl, by simp, trivial⟩
  | t :: ts, ht, hn => by
      simp only [hasTDL, Bool.or_eq_false_iff] at ht
      simp only [namesOkL, Bool.and_eq_true] at hn
      obtain ⟨t', he, hw, hs⟩ := eval_render t ht.1 hn.1
      obtain ⟨ts', hes, hws, hss⟩ := eval_renderL ts ht.2 hn.2
      refine ⟨t' :: ts', by simp [renderL, stripL, evalL, he, hes], ?_, ⟨hs, hss⟩⟩
      intro x hx
      rcases List.mem_cons.mp hx with rfl | hx
      · exact hw
      · exact hws x hx
theorem eval_renderNN : ∀ ts : List Ty, hasTDL ts = false → namesOkL ns nm mods ts = true →
    ∃ ts', evalL ns (stripL mods (renderNonNone nm ts)) = some ts' ∧ (∀ t ∈ ts', t.wf = true) ∧
      SemEqL sub ao ts' (ts.filter (fun t => !isNoneTy t))
  | [], _, _ => ⟨[], rfl, by simp, trivial⟩
  | t :: ts, ht, hn => by
      simp only [hasTDL, Bool.or_eq_false_iff] at ht
      simp only [namesOkL, Bool.and_eq_true] at hn
      obtain ⟨ts', hes, hws, hss⟩ := eval_renderNN ts ht.2 hn.2
      by_cases hnone : isNoneTy t = true
      · exact ⟨ts', by simp [renderNonNone, hnone, hes], hws, by simpa [List.filter_cons, hnone] using hss⟩
      · simp only [Bool.not_eq_true] at hnone
        obtain ⟨t', he, hw, hs⟩ := eval_render t ht.1 hn.1
        refine ⟨t' :: ts', by simp [renderNonNone, hnone, stripL, evalL, he, hes], ?_, ?_⟩
        · intro x hx
          rcases List.mem_cons.mp hx with rfl | hx
          · exact hw
          · exact hws x hx
        · simp only [List.filter_cons, hnone, Bool.not_false, ↓reduceIte]
          exact ⟨hs, hss⟩
end

end
end MT.Render
