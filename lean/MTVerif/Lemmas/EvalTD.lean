/-
  Lemmas/EvalTD.lean — the denotation theorem for annotations with generated TypedDict classes: evaluating the rendered,
  stripped annotation of `t` in a stub whose class environment defines every class generated for `t` (and defines none of
  those names again later), with every other name denoting what was rendered, gives a type with exactly the members of `t`.
-/
import MTVerif.Model.TDStub
import MTVerif.Lemmas.EvalAnno
namespace MT.Render
open MT

section
variable (sub : ClassId → ClassId → Bool) (ao : Bool)

/-- field lists with the same keys in the same order and pointwise the same members -/
def SemEqF : List (String × Ty) → List (String × Ty) → Prop
  | [], [] => True
  | (k, a) :: as, (k', b) :: bs => k = k' ∧ (∀ v, conforms sub ao a v = conforms sub ao b v) ∧ SemEqF as bs
  | _, _ => False

theorem SemEqF.req : ∀ (as bs : List (String × Ty)), SemEqF sub ao as bs → ∀ kvs, conformsReq sub ao as kvs = conformsReq sub ao bs kvs
  | [], [], _, _ => rfl
  | (k, a) :: as, (k', b) :: bs, h, kvs => by
      obtain ⟨rfl, h1, h2⟩ := h
      simp only [conformsReq, h1, SemEqF.req as bs h2 kvs]
  | [], _ :: _, h, _ => by simp [SemEqF] at h
  | _ :: _, [], h, _ => by simp [SemEqF] at h

theorem SemEqF.field : ∀ (as bs : List (String × Ty)), SemEqF sub ao as bs → ∀ s v, conformsField sub ao as s v = conformsField sub ao bs s v
  | [], [], _, _, _ => rfl
  | (k, a) :: as, (k', b) :: bs, h, s, v => by
      obtain ⟨rfl, h1, h2⟩ := h
      simp only [conformsField, h1, SemEqF.field as bs h2 s v]
  | [], _ :: _, h, _, _ => by simp [SemEqF] at h
  | _ :: _, [], h, _, _ => by simp [SemEqF] at h

theorem SemEqF.keys : ∀ (as bs : List (String × Ty)), SemEqF sub ao as bs → as.map Prod.fst = bs.map Prod.fst
  | [], [], _ => rfl
  | (k, a) :: as, (k', b) :: bs, h => by
      obtain ⟨rfl, _, h2⟩ := h
      simp [SemEqF.keys as bs h2]
  | [], _ :: _, h => by simp [SemEqF] at h
  | _ :: _, [], h => by simp [SemEqF] at h

/-- TypedDicts with pointwise equivalent fields have the same members -/
theorem td_congr (r r' o o' : List (String × Ty)) (hr : SemEqF sub ao r' r) (ho : SemEqF sub ao o' o) (v : Val) :
    conforms sub ao (.td r' o') v = conforms sub ao (.td r o) v := by
  cases v with
  | dict kvs =>
    simp only [conforms, SemEqF.req sub ao r' r hr kvs]
    congr 1
    apply List.all_congr rfl
    intro kv
    obtain ⟨a, b⟩ := kv
    cases a <;> simp only [SemEqF.field sub ao r' r hr, SemEqF.field sub ao o' o ho]
  | _ => simp [conforms]

end

/-! ### syntactic facts -/

theorem renderTL_length (nm : Names) (hint : String) : ∀ (i : Nat) (ts : List Ty), (renderTL nm hint i ts).length = ts.length
  | _, [] => rfl
  | i, _ :: ts => by simp [renderTL, renderTL_length nm hint (i + 1) ts]

theorem renderTNN_length (nm : Names) (hint : String) : ∀ (i : Nat) (ts : List Ty),
    (renderTNN nm hint i ts).length = (ts.filter (fun t => !isNoneTy t)).length
  | _, [] => rfl
  | i, t :: ts => by
      by_cases hn : isNoneTy t = true
      · simp [renderTNN, hn, renderTNN_length nm hint (i + 1) ts]
      · simp only [Bool.not_eq_true] at hn
        simp [renderTNN, hn, renderTNN_length nm hint (i + 1) ts]

/-- the rendering of a type is never the bare `()` -/
theorem renderT_ne_emptyTuple (nm : Names) (mods : List (List String)) (hint : String) (t : Ty) :
    stripE mods (renderT nm hint t) ≠ .emptyTuple := by
  cases t <;> simp only [renderT, clsExpr_eq, stripE, ne_eq, reduceCtorEq, not_false_eq_true]
  · next ts => cases ts <;> simp [stripE]
  · next ts =>
    split
    · split <;> simp [stripE]
    · simp [stripE]

theorem typingOkT_spec (ns : NS) (isC : String → Bool) (mods : List (List String)) (n : String) (h : typingOkT ns isC mods n = true) :
    isC n = false ∧ stripParts mods [n] = [n] ∧ resolve ns [n] = some (.typing n) := by
  simp only [typingOkT, Bool.and_eq_true, Bool.not_eq_true'] at h
  exact ⟨h.1, typingOk_spec ns mods n h.2⟩

theorem clsOkT_spec (ns : NS) (isC : String → Bool) (nm : Names) (mods : List (List String)) (c : ClassId)
    (h : clsOkT ns isC nm mods c = true) :
    isC (rootOf (stripParts mods (clsParts nm c))) = false ∧ resolve ns (stripParts mods (clsParts nm c)) = some (.cls c) := by
  simpa [clsOkT] using h

section
variable (ns : NS) (isC : String → Bool) (fwd : String → Option Ty)

/-- a rendered name that denotes a class, a typing constructor or a generated class is not read as `...` -/
theorem not_ellipsisG (nm : Names) (sm : Ty → List (List String)) (mods : List (List String)) (hint : String) (t : Ty)
    (hn : namesOkT ns isC nm sm mods t = true) :
    isEllipsisG ns isC (stripE mods (renderT nm hint t)) = false := by
  cases t with
  | any =>
    obtain ⟨_, h1, h2⟩ := typingOkT_spec ns isC mods "Any" (by simpa [namesOkT] using hn)
    simp [renderT, stripE, isEllipsisG, h1, h2]
  | callable =>
    obtain ⟨_, h1, h2⟩ := typingOkT_spec ns isC mods "Callable" (by simpa [namesOkT] using hn)
    simp [renderT, stripE, isEllipsisG, h1, h2]
  | cls c =>
    obtain ⟨_, h2⟩ := clsOkT_spec ns isC nm mods c (by simpa [namesOkT] using hn)
    simp [renderT, clsExpr_eq, stripE, isEllipsisG, h2]
  | tuple ts => cases ts <;> simp [renderT, stripE, isEllipsisG]
  | union ts =>
    simp only [renderT]
    split
    · split <;> simp [stripE, isEllipsisG]
    · simp [stripE, isEllipsisG]
  | _ => simp [renderT, stripE, isEllipsisG]

theorem evalG_tuple (es : List Expr) (ts' : List Ty) (hc : isC "Tuple" = false)
    (h2 : resolve ns ["Tuple"] = some (.typing "Tuple"))
    (hne : es ≠ [.emptyTuple]) (hell : ∀ a b, es = [a, b] → isEllipsisG ns isC b = false)
    (he : evalGL ns isC fwd es = some ts') : evalG ns isC fwd (.app (.name ["Tuple"]) es) = some (.tuple ts') := by
  match es, hne, hell, he with
  | [], _, _, he => simp [evalG, hc, h2, he]
  | [e], hne, _, he =>
    cases e with
    | emptyTuple => exact absurd rfl hne
    | _ => simp [evalG, hc, h2, he]
  | [a, b], _, hell, he => simp [evalG, hc, h2, he, hell a b rfl]
  | _ :: _ :: _ :: _, _, _, he => simp [evalG, hc, h2, he]

theorem evalG_optional (e : Expr) (a : Ty) (hc : isC "Optional" = false) (h2 : resolve ns ["Optional"] = some (.typing "Optional"))
    (he : evalG ns isC fwd e = some a) : evalG ns isC fwd (.app (.name ["Optional"]) [e]) = some (mkUnion [a, .cls noneC]) := by
  simp [evalG, evalGL, hc, h2, he]

theorem evalG_union (es : List Expr) (ts' : List Ty) (hc : isC "Union" = false) (h2 : resolve ns ["Union"] = some (.typing "Union"))
    (he : evalGL ns isC fwd es = some ts') : evalG ns isC fwd (.app (.name ["Union"]) es) = some (mkUnion ts') := by
  simp [evalG, hc, h2, he]

theorem evalGL_singleton (e : Expr) (ts' : List Ty) (h : evalGL ns isC fwd [e] = some ts') :
    ∃ a, ts' = [a] ∧ evalG ns isC fwd e = some a := by
  simp only [evalGL] at h
  cases h1 : evalG ns isC fwd e with
  | none => simp [h1] at h
  | some a => simp only [h1, Option.some.injEq] at h; exact ⟨a, h.symm, rfl⟩

end

theorem classesIn_append (env : List ClassDef) (a b : List ClassDef) :
    ClassesIn env (a ++ b) ↔ (ClassesIn env a ∧ ClassesIn env b) := by
  simp only [ClassesIn, List.mem_append]
  constructor
  · intro h; exact ⟨fun d hd => h d (Or.inl hd), fun d hd => h d (Or.inr hd)⟩
  · rintro ⟨h1, h2⟩ d (hd | hd)
    · exact h1 d hd
    · exact h2 d hd

theorem classesIn_single (env : List ClassDef) (d : ClassDef) (h : ClassesIn env [d]) : lookupC env d.name = some d :=
  h d (by simp)

theorem hasC_of (env : List ClassDef) (s : String) (d : ClassDef) (h : lookupC env s = some d) : hasC env s = true := by
  simp [hasC, h]

/-- a name evaluates to the class of its (single) part when it is a generated class -/
theorem evalG_str (ns : NS) (env : List ClassDef) (fwd : String → Option Ty) (s : String) (d : ClassDef)
    (h : lookupC env s = some d) : evalG ns (hasC env) fwd (.str s) = fwd s := by
  simp [evalG, hasC_of env s d h]

section
variable (sub : ClassId → ClassId → Bool) (ao : Bool) (ns : NS) (nm : Names) (sm : Ty → List (List String)) (env : List ClassDef)

/-- the class of a TypedDict with required keys only -/
theorem classTy_total (n : Nat) (s : String) (fields : List (String × Expr)) (fs : List (String × Ty)) (hb : tdBaseOk ns = true)
    (hl : lookupC env s = some { name := s, base := none, total := true, fields := fields })
    (he : evalFields (evalG ns (hasC env) (classTy ns env n)) fields = some fs) :
    classTy ns env (n + 1) s = some (.td fs []) := by
  simp only [classTy, hl]
  have : evalFields (evalG ns (hasC env) (fun x => classTy ns env n x)) fields = some fs := he
  simp [this, hb]

theorem classTy_nontotal (n : Nat) (s : String) (fields : List (String × Expr)) (fs : List (String × Ty)) (hb : tdBaseOk ns = true)
    (hl : lookupC env s = some { name := s, base := none, total := false, fields := fields })
    (he : evalFields (evalG ns (hasC env) (classTy ns env n)) fields = some fs) :
    classTy ns env (n + 1) s = some (.td [] fs) := by
  simp only [classTy, hl]
  have : evalFields (evalG ns (hasC env) (fun x => classTy ns env n x)) fields = some fs := he
  simp [this, hb]

theorem classTy_sub (n : Nat) (s b : String) (fields : List (String × Expr)) (fs rb ob : List (String × Ty))
    (hl : lookupC env s = some { name := s, base := some b, total := false, fields := fields })
    (he : evalFields (evalG ns (hasC env) (classTy ns env n)) fields = some fs)
    (hb : classTy ns env n b = some (.td rb ob)) :
    classTy ns env (n + 1) s = some (.td rb (ob ++ fs)) := by
  simp only [classTy, hl]
  have : evalFields (evalG ns (hasC env) (fun x => classTy ns env n x)) fields = some fs := he
  simp [this, hb]

theorem wfTF_of (fs : List (String × Ty)) (h : ∀ kt ∈ fs, kt.2.wf = true) : wfTF fs = true := (wfTF_iff fs).mpr h

mutual
/-- Evaluating the rendered and stripped annotation of a type — generated TypedDict classes included — in a stub whose
    class environment holds the classes generated for it and where every name denotes what was rendered, gives a type with
    exactly the same members. -/
theorem eval_renderT : ∀ (t : Ty) (mods : List (List String)) (hint : String) (n : Nat), tdDepth t ≤ n → t.wf = true →
    ClassesIn env (classesT nm sm hint t) → namesOkT ns (hasC env) nm sm mods t = true →
    ∃ t', evalG ns (hasC env) (classTy ns env n) (stripE mods (renderT nm hint t)) = some t' ∧ t'.wf = true ∧
      ∀ v, conforms sub ao t' v = conforms sub ao t v
  | .any, mods, _, _, _, _, _, hn => by
      obtain ⟨hc, h1, h2⟩ := typingOkT_spec ns _ mods "Any" (by simpa [namesOkT] using hn)
      exact ⟨.any, by simp [renderT, stripE, evalG, hc, h1, h2], rfl, fun _ => rfl⟩
  | .callable, mods, _, _, _, _, _, hn => by
      obtain ⟨hc, h1, h2⟩ := typingOkT_spec ns _ mods "Callable" (by simpa [namesOkT] using hn)
      exact ⟨.callable, by simp [renderT, stripE, evalG, hc, h1, h2], rfl, fun _ => rfl⟩
  | .cls c, mods, _, _, _, _, _, hn => by
      obtain ⟨hc, h2⟩ := clsOkT_spec ns _ nm mods c (by simpa [namesOkT] using hn)
      exact ⟨.cls c, by simp [renderT, clsExpr_eq, stripE, evalG, hc, h2], rfl, fun _ => rfl⟩
  | .typeOf c, mods, _, _, _, _, _, hn => by
      simp only [namesOkT, Bool.and_eq_true] at hn
      obtain ⟨hc, h1, h2⟩ := typingOkT_spec ns _ mods "Type" hn.1
      obtain ⟨hcc, h3⟩ := clsOkT_spec ns _ nm mods c hn.2
      exact ⟨.typeOf c, by simp [renderT, clsExpr_eq, stripE, stripL, evalG, evalGL, hc, h1, h2, hcc, h3], rfl, fun _ => rfl⟩
  | .list t, mods, hint, n, hd, hw, hcl, hn => by
      simp only [namesOkT, Bool.and_eq_true] at hn
      simp only [tdDepth] at hd
      simp only [Ty.wf] at hw
      simp only [classesT] at hcl
      obtain ⟨hc, h1, h2⟩ := typingOkT_spec ns _ mods "List" hn.1
      obtain ⟨t', he, hw', hs⟩ := eval_renderT t mods hint n hd hw hcl hn.2
      refine ⟨.list t', by simp [renderT, stripE, stripL, evalG, evalGL, hc, h1, h2, he], by simpa [Ty.wf] using hw', ?_⟩
      intro v; cases v <;> simp [conforms, hs]
  | .set t, mods, hint, n, hd, hw, hcl, hn => by
      simp only [namesOkT, Bool.and_eq_true] at hn
      simp only [tdDepth] at hd
      simp only [Ty.wf] at hw
      simp only [classesT] at hcl
      obtain ⟨hc, h1, h2⟩ := typingOkT_spec ns _ mods "Set" hn.1
      obtain ⟨t', he, hw', hs⟩ := eval_renderT t mods hint n hd hw hcl hn.2
      refine ⟨.set t', by simp [renderT, stripE, stripL, evalG, evalGL, hc, h1, h2, he], by simpa [Ty.wf] using hw', ?_⟩
      intro v; cases v <;> simp [conforms, hs]
  | .iterator t, mods, hint, n, hd, hw, hcl, hn => by
      simp only [namesOkT, Bool.and_eq_true] at hn
      simp only [tdDepth] at hd
      simp only [Ty.wf] at hw
      simp only [classesT] at hcl
      obtain ⟨hc, h1, h2⟩ := typingOkT_spec ns _ mods "Iterator" hn.1
      obtain ⟨t', he, hw', _⟩ := eval_renderT t mods hint n hd hw hcl hn.2
      refine ⟨.iterator t', by simp [renderT, stripE, stripL, evalG, evalGL, hc, h1, h2, he], by simpa [Ty.wf] using hw', ?_⟩
      intro v; cases v <;> simp [conforms]
  | .tupleOf t, mods, hint, n, hd, hw, hcl, hn => by
      simp only [namesOkT, Bool.and_eq_true, beq_iff_eq, Bool.not_eq_true'] at hn
      simp only [tdDepth] at hd
      simp only [Ty.wf] at hw
      simp only [classesT] at hcl
      obtain ⟨⟨⟨⟨hty, hse⟩, hce⟩, hre⟩, hnt⟩ := hn
      obtain ⟨hc, h1, h2⟩ := typingOkT_spec ns _ mods "Tuple" hty
      obtain ⟨t', he, hw', hs⟩ := eval_renderT t mods hint n hd hw hcl hnt
      refine ⟨.tupleOf t', ?_, by simpa [Ty.wf] using hw', ?_⟩
      · simp [renderT, stripE, stripL, evalG, evalGL, evalGHead, isEllipsisG, hc, h1, h2, he, hse, hre, hce]
      · intro v; cases v <;> simp [conforms, hs]
  | .dict k w, mods, hint, n, hd, hw, hcl, hn => by
      simp only [namesOkT, Bool.and_eq_true] at hn
      simp only [tdDepth, Nat.max_le] at hd
      simp only [Ty.wf, Bool.and_eq_true] at hw
      simp only [classesT, classesIn_append] at hcl
      obtain ⟨hc, h1, h2⟩ := typingOkT_spec ns _ mods "Dict" hn.1.1
      obtain ⟨k', hek, hwk, hsk⟩ := eval_renderT k mods hint n hd.1 hw.1 hcl.1 hn.1.2
      obtain ⟨w', hew, hww, hsw⟩ := eval_renderT w mods (hintAt hint 1) n hd.2 hw.2 hcl.2 hn.2
      refine ⟨.dict k' w', by simp [renderT, stripE, stripL, evalG, evalGL, hc, h1, h2, hek, hew], by simp [Ty.wf, hwk, hww], ?_⟩
      intro v; cases v <;> simp [conforms, hsk, hsw]
  | .ddict k w, mods, hint, n, hd, hw, hcl, hn => by
      simp only [namesOkT, Bool.and_eq_true] at hn
      simp only [tdDepth, Nat.max_le] at hd
      simp only [Ty.wf, Bool.and_eq_true] at hw
      simp only [classesT, classesIn_append] at hcl
      obtain ⟨hc, h1, h2⟩ := typingOkT_spec ns _ mods "DefaultDict" hn.1.1
      obtain ⟨k', hek, hwk, hsk⟩ := eval_renderT k mods hint n hd.1 hw.1 hcl.1 hn.1.2
      obtain ⟨w', hew, hww, hsw⟩ := eval_renderT w mods (hintAt hint 1) n hd.2 hw.2 hcl.2 hn.2
      refine ⟨.ddict k' w', by simp [renderT, stripE, stripL, evalG, evalGL, hc, h1, h2, hek, hew], by simp [Ty.wf, hwk, hww], ?_⟩
      intro v; cases v <;> simp [conforms, hsk, hsw]
  | .generator y s r, mods, hint, n, hd, hw, hcl, hn => by
      simp only [namesOkT, Bool.and_eq_true] at hn
      simp only [tdDepth, Nat.max_le] at hd
      simp only [Ty.wf, Bool.and_eq_true] at hw
      simp only [classesT, classesIn_append] at hcl
      obtain ⟨hc, h1, h2⟩ := typingOkT_spec ns _ mods "Generator" hn.1.1.1
      obtain ⟨y', hey, hwy, _⟩ := eval_renderT y mods hint n hd.1 hw.1.1 hcl.1.1 hn.1.1.2
      obtain ⟨s', hes, hws, _⟩ := eval_renderT s mods (hintAt hint 1) n hd.2.1 hw.1.2 hcl.1.2 hn.1.2
      obtain ⟨r', her, hwr, _⟩ := eval_renderT r mods (hintAt hint 2) n hd.2.2 hw.2 hcl.2 hn.2
      refine ⟨.generator y' s' r', by simp [renderT, stripE, stripL, evalG, evalGL, hc, h1, h2, hey, hes, her],
        by simp [Ty.wf, hwy, hws, hwr], ?_⟩
      intro v; cases v <;> simp [conforms]
  | .tuple ts, mods, hint, n, hd, hw, hcl, hn => by
      simp only [namesOkT, Bool.and_eq_true] at hn
      simp only [tdDepth] at hd
      simp only [Ty.wf] at hw
      simp only [classesT] at hcl
      obtain ⟨hc, h1, h2⟩ := typingOkT_spec ns _ mods "Tuple" hn.1
      obtain ⟨ts', he, hw', hs⟩ := eval_renderTL ts mods hint 0 n hd hw hcl hn.2
      refine ⟨.tuple ts', ?_, by simpa [Ty.wf] using wfTL_of ts' hw', ?_⟩
      · match ts, he, hn with
        | [], he, _ =>
          simp only [renderTL, stripL, evalGL, Option.some.injEq] at he
          subst he
          simp [renderT, stripE, stripL, evalG, hc, h1, h2]
        | t1 :: rest, he, hn =>
          have hr : stripE mods (renderT nm hint (.tuple (t1 :: rest))) =
              .app (.name ["Tuple"]) (stripL mods (renderTL nm hint 0 (t1 :: rest))) := by
            simp [renderT, stripE, h1]
          rw [hr]
          apply evalG_tuple ns _ _ _ ts' hc h2 _ _ he
          · intro hcc
            simp only [renderTL, stripL] at hcc
            cases rest with
            | nil => simp only [renderTL, stripL, List.cons.injEq, and_true] at hcc; exact renderT_ne_emptyTuple nm mods _ t1 hcc
            | cons _ _ => simp [renderTL, stripL] at hcc
          · intro a b hab
            match rest, hab, hn with
            | [t2], hab, hn =>
              simp only [renderTL, stripL, List.cons.injEq, and_true] at hab
              have hn2 : namesOkT ns (hasC env) nm sm mods t2 = true := by
                simp only [namesOkTL, Bool.and_eq_true] at hn; exact hn.2.2.1
              rw [← hab.2]
              exact not_ellipsisG ns _ nm sm mods _ t2 hn2
            | [], hab, _ => simp [renderTL, stripL] at hab
            | _ :: _ :: _, hab, _ => simp [renderTL, stripL] at hab
      · intro v; cases v <;> simp [conforms, SemEqL.all sub ao ts' ts hs]
  | .union ts, mods, hint, n, hd, hw, hcl, hn => by
      simp only [tdDepth] at hd
      simp only [Ty.wf] at hw
      simp only [classesT] at hcl
      by_cases hnone : ts.any isNoneTy = true
      · -- Optional[...]
        simp only [namesOkT, hnone, ↓reduceIte, Bool.and_eq_true, Bool.or_eq_true, decide_eq_true_eq] at hn
        obtain ⟨⟨hopt, hlen⟩, hnl⟩ := hn
        obtain ⟨hoc, ho1, ho2⟩ := typingOkT_spec ns _ mods "Optional" hopt
        obtain ⟨ts', he, hw', hs⟩ := eval_renderTNN ts mods hint 0 n hd hw hcl hnl
        have hlen' := renderTNN_length nm hint 0 ts
        have hsem : ∀ v, conforms sub ao (.union ts) v = (conformsAny sub ao ts' v || conforms sub ao (.cls noneC) v) := by
          intro v
          have h1 : conforms sub ao (.union ts) v = conformsAny sub ao ts v := by rw [conforms]
          rw [h1, conformsAny_split sub ao ts v, hnone, SemEqL.any sub ao ts' _ hs v, Bool.true_and]
        have hwn : ∀ (a : Ty), a.wf = true → ∀ t ∈ [a, Ty.cls noneC], t.wf = true := by
          intro a ha t ht
          simp only [List.mem_cons, List.not_mem_nil, or_false] at ht
          rcases ht with rfl | rfl
          · exact ha
          · rfl
        simp only [renderT, hnone, ↓reduceIte]
        split
        · next e hr =>
          rw [hr] at he
          obtain ⟨a, rfl, hea⟩ := evalGL_singleton ns _ _ _ _ (by simpa [stripL] using he)
          have hwa : a.wf = true := hw' a (by simp)
          refine ⟨mkUnion [a, .cls noneC], ?_, mkUnion_wf _ (hwn a hwa), ?_⟩
          · simp only [stripE, stripL, ho1]
            exact evalG_optional ns _ _ _ a hoc ho2 hea
          · intro v
            rw [mkUnion_conforms sub ao _ (hwn a hwa), hsem v]
            simp [conformsAny]
        · next hns =>
          have hu : typingOkT ns (hasC env) mods "Union" = true := by
            rcases hlen with h | h
            · exfalso
              rw [h] at hlen'
              obtain ⟨e, he1⟩ := List.length_eq_one_iff.mp hlen'
              exact hns e he1
            · exact h
          obtain ⟨huc, hu1, hu2⟩ := typingOkT_spec ns _ mods "Union" hu
          have hwu := mkUnion_wf ts' hw'
          refine ⟨mkUnion [mkUnion ts', .cls noneC], ?_, mkUnion_wf _ (hwn _ hwu), ?_⟩
          · simp only [stripE, stripL, ho1, hu1]
            exact evalG_optional ns _ _ _ _ hoc ho2 (evalG_union ns _ _ _ ts' huc hu2 he)
          · intro v
            rw [mkUnion_conforms sub ao _ (hwn _ hwu), hsem v]
            simp [conformsAny, mkUnion_conforms sub ao ts' hw' v]
      · -- Union[...]
        simp only [Bool.not_eq_true] at hnone
        simp only [namesOkT, hnone, Bool.false_eq_true, ↓reduceIte, Bool.and_eq_true] at hn
        obtain ⟨hc, h1, h2⟩ := typingOkT_spec ns _ mods "Union" hn.1
        obtain ⟨ts', he, hw', hs⟩ := eval_renderTL ts mods hint 0 n hd hw hcl hn.2
        refine ⟨mkUnion ts', by simp [renderT, hnone, stripE, evalG, hc, h1, h2, he], mkUnion_wf ts' hw', ?_⟩
        intro v
        rw [mkUnion_conforms sub ao ts' hw' v, SemEqL.any sub ao ts' ts hs v, conforms]
  | .td req opt, mods, hint, n, hd, hw, hcl, hn => by
      simp only [tdDepth] at hd
      simp only [Ty.wf, Bool.and_eq_true, decide_eq_true_eq] at hw
      obtain ⟨⟨⟨hwr, hwo⟩, hkr⟩, hko⟩ := hw
      simp only [namesOkT, Bool.and_eq_true] at hn
      obtain ⟨⟨⟨hbo, hne⟩, hnr⟩, hno⟩ := hn
      have hdr : tdDepthF req + 2 ≤ n := by have := Nat.le_max_left (tdDepthF req) (tdDepthF opt); omega
      have hdo : tdDepthF opt + 2 ≤ n := by have := Nat.le_max_right (tdDepthF req) (tdDepthF opt); omega
      obtain ⟨m, rfl⟩ : ∃ m, n = m + 2 := ⟨n - 2, by omega⟩
      match req, opt, hcl, hne, hnr, hno, hwr, hwo, hkr, hko, hdr, hdo with
      | [], [], _, hne, _, _, _, _, _, _, _, _ => simp at hne
      | r :: rs, [], hcl, _, hnr, _, hwr, _, hkr, _, hdr, _ =>
        simp only [classesT, classesIn_append] at hcl
        have hl := classesIn_single env _ hcl.2
        obtain ⟨fs', hef, hwf, hsf⟩ := eval_fieldsT (r :: rs) (m + 1) (by omega) hwr hcl.1 hnr
        refine ⟨.td fs' [], ?_, ?_, ?_⟩
        · simp only [renderT, refName, stripE]
          rw [evalG_str ns env _ _ _ hl]
          exact classTy_total ns env (m + 1) _ _ fs' hbo hl hef
        · simp only [Ty.wf, hwf, wfTF, Bool.true_and, Bool.and_eq_true, decide_eq_true_eq]
          rw [SemEqF.keys sub ao _ _ hsf]
          exact ⟨hkr, by simp⟩
        · exact td_congr sub ao _ _ _ _ hsf trivial
      | [], o :: os, hcl, _, _, hno, _, hwo, _, hko, _, hdo =>
        simp only [classesT, classesIn_append] at hcl
        have hl := classesIn_single env _ hcl.2
        obtain ⟨fs', hef, hwf, hsf⟩ := eval_fieldsT (o :: os) (m + 1) (by omega) hwo hcl.1 hno
        refine ⟨.td [] fs', ?_, ?_, ?_⟩
        · simp only [renderT, refName, stripE]
          rw [evalG_str ns env _ _ _ hl]
          exact classTy_nontotal ns env (m + 1) _ _ fs' hbo hl hef
        · simp only [Ty.wf, hwf, wfTF, Bool.true_and, Bool.and_eq_true, decide_eq_true_eq]
          rw [SemEqF.keys sub ao _ _ hsf]
          exact ⟨by simp, hko⟩
        · exact td_congr sub ao _ _ _ _ trivial hsf
      | r :: rs, o :: os, hcl, _, hnr, hno, hwr, hwo, hkr, hko, hdr, hdo =>
        simp only [classesT, classesIn_append] at hcl
        obtain ⟨⟨⟨hcr, hc1⟩, hco⟩, hc2⟩ := hcl
        have hl1 := classesIn_single env _ hc1
        have hl2 := classesIn_single env _ hc2
        obtain ⟨rq', her, hwr', hsr⟩ := eval_fieldsT (r :: rs) m (by omega) hwr hcr hnr
        obtain ⟨op', heo, hwo', hso⟩ := eval_fieldsT (o :: os) (m + 1) (by omega) hwo hco hno
        have hbase := classTy_total ns env m _ _ rq' hbo hl1 her
        refine ⟨.td rq' ([] ++ op'), ?_, ?_, ?_⟩
        · simp only [renderT, refName, stripE]
          rw [evalG_str ns env _ _ _ hl2]
          exact classTy_sub ns env (m + 1) _ _ _ op' rq' [] hl2 heo hbase
        · simp only [List.nil_append, Ty.wf, hwr', hwo', Bool.true_and, Bool.and_eq_true, decide_eq_true_eq]
          rw [SemEqF.keys sub ao _ _ hsr, SemEqF.keys sub ao _ _ hso]
          exact ⟨hkr, hko⟩
        · simpa using td_congr sub ao _ _ _ _ hsr hso
theorem eval_renderTL : ∀ (ts : List Ty) (mods : List (List String)) (hint : String) (i n : Nat), tdDepthL ts ≤ n → wfTL ts = true →
    ClassesIn env (classesTL nm sm hint i ts) → namesOkTL ns (hasC env) nm sm mods ts = true →
    ∃ ts', evalGL ns (hasC env) (classTy ns env n) (stripL mods (renderTL nm hint i ts)) = some ts' ∧ (∀ t ∈ ts', t.wf = true) ∧
      SemEqL sub ao ts' ts
  | [], _, _, _, _, _, _, _, _ => ⟨[], rfl, by simp, trivial⟩
  | t :: ts, mods, hint, i, n, hd, hw, hcl, hn => by
      simp only [tdDepthL, Nat.max_le] at hd
      simp only [wfTL, Bool.and_eq_true] at hw
      simp only [classesTL, classesIn_append] at hcl
      simp only [namesOkTL, Bool.and_eq_true] at hn
      obtain ⟨t', he, hw', hs⟩ := eval_renderT t mods (hintAt hint i) n hd.1 hw.1 hcl.1 hn.1
      obtain ⟨ts', hes, hws, hss⟩ := eval_renderTL ts mods hint (i + 1) n hd.2 hw.2 hcl.2 hn.2
      refine ⟨t' :: ts', by simp [renderTL, stripL, evalGL, he, hes], ?_, ⟨hs, hss⟩⟩
      intro x hx
      rcases List.mem_cons.mp hx with rfl | hx
      · exact hw'
      · exact hws x hx
theorem eval_renderTNN : ∀ (ts : List Ty) (mods : List (List String)) (hint : String) (i n : Nat), tdDepthL ts ≤ n → wfTL ts = true →
    ClassesIn env (classesTL nm sm hint i ts) → namesOkTL ns (hasC env) nm sm mods ts = true →
    ∃ ts', evalGL ns (hasC env) (classTy ns env n) (stripL mods (renderTNN nm hint i ts)) = some ts' ∧ (∀ t ∈ ts', t.wf = true) ∧
      SemEqL sub ao ts' (ts.filter (fun t => !isNoneTy t))
  | [], _, _, _, _, _, _, _, _ => ⟨[], rfl, by simp, trivial⟩
  | t :: ts, mods, hint, i, n, hd, hw, hcl, hn => by
      simp only [tdDepthL, Nat.max_le] at hd
      simp only [wfTL, Bool.and_eq_true] at hw
      simp only [classesTL, classesIn_append] at hcl
      simp only [namesOkTL, Bool.and_eq_true] at hn
      obtain ⟨ts', hes, hws, hss⟩ := eval_renderTNN ts mods hint (i + 1) n hd.2 hw.2 hcl.2 hn.2
      by_cases hnone : isNoneTy t = true
      · exact ⟨ts', by simp [renderTNN, hnone, hes], hws, by simpa [List.filter_cons, hnone] using hss⟩
      · simp only [Bool.not_eq_true] at hnone
        obtain ⟨t', he, hw', hs⟩ := eval_renderT t mods (hintAt hint i) n hd.1 hw.1 hcl.1 hn.1
        refine ⟨t' :: ts', by simp [renderTNN, hnone, stripL, evalGL, he, hes], ?_, ?_⟩
        · intro x hx
          rcases List.mem_cons.mp hx with rfl | hx
          · exact hw'
          · exact hws x hx
        · simp only [List.filter_cons, hnone, Bool.not_false, ↓reduceIte]
          exact ⟨hs, hss⟩
theorem eval_fieldsT : ∀ (fs : List (String × Ty)) (n : Nat), tdDepthF fs ≤ n → wfTF fs = true →
    ClassesIn env (classesF nm sm fs) → namesOkTF ns (hasC env) nm sm fs = true →
    ∃ fs', evalFields (evalG ns (hasC env) (classTy ns env n)) (fieldsT nm sm fs) = some fs' ∧ wfTF fs' = true ∧ SemEqF sub ao fs' fs
  | [], _, _, _, _, _ => ⟨[], rfl, rfl, trivial⟩
  | (k, t) :: fs, n, hd, hw, hcl, hn => by
      simp only [tdDepthF, Nat.max_le] at hd
      simp only [wfTF, Bool.and_eq_true] at hw
      simp only [classesF, classesIn_append] at hcl
      simp only [namesOkTF, Bool.and_eq_true] at hn
      obtain ⟨t', he, hw', hs⟩ := eval_renderT t (sm t) k n hd.1 hw.1 hcl.1 hn.1
      obtain ⟨fs', hes, hws, hss⟩ := eval_fieldsT fs n hd.2 hw.2 hcl.2 hn.2
      exact ⟨(k, t') :: fs', by simp [fieldsT, evalFields, he, hes], by simp [wfTF, hw', hws], ⟨rfl, hs, hss⟩⟩
end

end
end MT.Render

/-! ### the generated classes respect the size limit (C06, "the TypedDict classes rendered into the stub") -/

namespace MT.Render
open MT

theorem fieldsT_length (nm : Names) (sm : Ty → List (List String)) : ∀ fs : List (String × Ty), (fieldsT nm sm fs).length = fs.length
  | [] => rfl
  | (_, _) :: fs => by simp [fieldsT, fieldsT_length nm sm fs]

mutual
/-- every class generated for a type whose TypedDicts have at most `k` keys declares at most `k` fields of its own, and a
    `NonTotal` subclass together with its base (the class emitted just before its optional fields' classes) at most `k` -/
theorem classesT_fields_le (nm : Names) (sm : Ty → List (List String)) (k : Nat) : ∀ (hint : String) (t : Ty), t.tdOk k = true →
    ∀ d ∈ classesT nm sm hint t, d.fields.length ≤ k
  | _, .any, _, d, hd | _, .cls _, _, d, hd | _, .typeOf _, _, d, hd | _, .callable, _, d, hd => by simp [classesT] at hd
  | hint, .list a, h, d, hd | hint, .set a, h, d, hd | hint, .iterator a, h, d, hd | hint, .tupleOf a, h, d, hd => by
      simp only [Ty.tdOk] at h; simp only [classesT] at hd; exact classesT_fields_le nm sm k hint a h d hd
  | hint, .dict a b, h, d, hd | hint, .ddict a b, h, d, hd => by
      simp only [Ty.tdOk, Bool.and_eq_true] at h
      simp only [classesT, List.mem_append] at hd
      rcases hd with hd | hd
      · exact classesT_fields_le nm sm k hint a h.1 d hd
      · exact classesT_fields_le nm sm k _ b h.2 d hd
  | hint, .generator a b c, h, d, hd => by
      simp only [Ty.tdOk, Bool.and_eq_true] at h
      simp only [classesT, List.mem_append] at hd
      rcases hd with (hd | hd) | hd
      · exact classesT_fields_le nm sm k hint a h.1.1 d hd
      · exact classesT_fields_le nm sm k _ b h.1.2 d hd
      · exact classesT_fields_le nm sm k _ c h.2 d hd
  | hint, .tuple ts, h, d, hd | hint, .union ts, h, d, hd => by
      simp only [Ty.tdOk] at h; simp only [classesT] at hd; exact classesTL_fields_le nm sm k hint 0 ts h d hd
  | hint, .td req opt, h, d, hd => by
      simp only [Ty.tdOk, Bool.and_eq_true, decide_eq_true_eq] at h
      obtain ⟨⟨⟨_, hle⟩, hr⟩, ho⟩ := h
      match req, opt, hd, hle, hr, ho with
      | [], [], hd, _, _, _ => simp [classesT] at hd
      | r :: rs, [], hd, hle, hr, _ =>
        simp only [classesT, List.mem_append, List.mem_singleton] at hd
        rcases hd with hd | rfl
        · exact classesF_fields_le nm sm k (r :: rs) hr d hd
        · simp only [fieldsT_length]; simpa using hle
      | [], o :: os, hd, hle, _, ho =>
        simp only [classesT, List.mem_append, List.mem_singleton] at hd
        rcases hd with hd | rfl
        · exact classesF_fields_le nm sm k (o :: os) ho d hd
        · simp only [fieldsT_length]; simpa using hle
      | r :: rs, o :: os, hd, hle, hr, ho =>
        simp only [classesT, List.mem_append, List.mem_singleton] at hd
        rcases hd with ((hd | rfl) | hd) | rfl
        · exact classesF_fields_le nm sm k (r :: rs) hr d hd
        · simp only [fieldsT_length]; simp only [List.length_cons] at hle ⊢; omega
        · exact classesF_fields_le nm sm k (o :: os) ho d hd
        · simp only [fieldsT_length]; simp only [List.length_cons] at hle ⊢; omega
theorem classesTL_fields_le (nm : Names) (sm : Ty → List (List String)) (k : Nat) : ∀ (hint : String) (i : Nat) (ts : List Ty),
    tdOkL k ts = true → ∀ d ∈ classesTL nm sm hint i ts, d.fields.length ≤ k
  | _, _, [], _, d, hd => by simp [classesTL] at hd
  | hint, i, t :: ts, h, d, hd => by
      simp only [tdOkL, Bool.and_eq_true] at h
      simp only [classesTL, List.mem_append] at hd
      rcases hd with hd | hd
      · exact classesT_fields_le nm sm k _ t h.1 d hd
      · exact classesTL_fields_le nm sm k hint (i + 1) ts h.2 d hd
theorem classesF_fields_le (nm : Names) (sm : Ty → List (List String)) (k : Nat) : ∀ (fs : List (String × Ty)),
    tdOkF k fs = true → ∀ d ∈ classesF nm sm fs, d.fields.length ≤ k
  | [], _, d, hd => by simp [classesF] at hd
  | (s, t) :: fs, h, d, hd => by
      simp only [tdOkF, Bool.and_eq_true] at h
      simp only [classesF, List.mem_append] at hd
      rcases hd with hd | hd
      · exact classesT_fields_le nm sm k s t h.1 d hd
      · exact classesF_fields_le nm sm k fs h.2 d hd
end

/-- a mixed TypedDict: the `NonTotal` subclass and the base it names declare, together, exactly the keys of the TypedDict -/
theorem mixed_td_total_keys (nm : Names) (sm : Ty → List (List String)) (hint : String) (r : String × Ty) (rs : List (String × Ty))
    (o : String × Ty) (os : List (String × Ty)) :
    ∃ base sub, base ∈ classesT nm sm hint (.td (r :: rs) (o :: os)) ∧ sub ∈ classesT nm sm hint (.td (r :: rs) (o :: os)) ∧
      sub.base = some base.name ∧ sub.name = refName hint (r :: rs) (o :: os) ∧
      base.fields.length + sub.fields.length = (r :: rs).length + (o :: os).length := by
  refine ⟨{ name := tdClassName hint, base := none, total := true, fields := fieldsT nm sm (r :: rs) },
          { name := tdClassName hint ++ "NonTotal", base := some (tdClassName hint), total := false, fields := fieldsT nm sm (o :: os) },
          ?_, ?_, rfl, ?_, ?_⟩
  · simp [classesT]
  · simp [classesT]
  · simp [refName]
  · simp [fieldsT_length]

end MT.Render
