/-
  Lemmas/FuncDef.lean — what `shrink_traced_types` collects per parameter name, exactly.
-/
import MTVerif.Model.FuncDef
namespace MT.FuncDef
open MT

/-- the types recorded under `name`, in order -/
def typesFor (name : String) (ps : List (String × Ty)) : List Ty := (ps.filter (fun a => a.1 == name)).map (·.2)

theorem typesFor_cons (name : String) (a : String × Ty) (ps : List (String × Ty)) :
    typesFor name (a :: ps) = if a.1 == name then a.2 :: typesFor name ps else typesFor name ps := by
  unfold typesFor
  by_cases h : (a.1 == name) = true <;> simp [h]

theorem lookup_cons_self {β} (n : String) (b : β) (es : List (String × β)) : ((n, b) :: es).lookup n = some b := by
  simp [List.lookup]

theorem lookup_cons_ne {β} (name n : String) (b : β) (es : List (String × β)) (h : name ≠ n) :
    ((n, b) :: es).lookup name = es.lookup name := by
  have hb : (name == n) = false := by simpa using h
  simp [List.lookup, hb]

theorem lookup_addArg (acc : List (String × List Ty)) (n name : String) (t : Ty) :
    (addArg acc n t).lookup name = if n == name then some (((acc.lookup name).getD []) ++ [t]) else acc.lookup name := by
  induction acc with
  | nil =>
    by_cases h : n = name
    · subst h; simp [addArg]
    · have h' : name ≠ n := fun e => h e.symm
      simp [addArg, lookup_cons_ne _ _ _ _ h', h]
  | cons hd rest ih =>
    obtain ⟨m, ts⟩ := hd
    by_cases hmn : m = n
    · subst hmn
      by_cases h : m = name
      · subst h; simp [addArg]
      · have h' : name ≠ m := fun e => h e.symm
        simp [addArg, lookup_cons_ne _ _ _ _ h', h]
    · by_cases h : n = name
      · subst h
        have h' : n ≠ m := fun e => hmn e.symm
        simp [addArg, hmn, lookup_cons_ne _ _ _ _ h', ih]
      · by_cases hm : name = m
        · subst hm; simp [addArg, hmn, h]
        · simp [addArg, hmn, lookup_cons_ne _ _ _ _ hm, ih, h]

theorem lookup_groupFrom (name : String) (ps : List (String × Ty)) : ∀ acc : List (String × List Ty),
    (groupFrom acc ps).lookup name =
      if typesFor name ps = [] then acc.lookup name else some (((acc.lookup name).getD []) ++ typesFor name ps) := by
  induction ps with
  | nil => intro acc; simp [groupFrom, typesFor]
  | cons a ps ih =>
    intro acc
    have hstep : groupFrom acc (a :: ps) = groupFrom (addArg acc a.1 a.2) ps := by simp [groupFrom]
    rw [hstep, ih, typesFor_cons, lookup_addArg]
    by_cases h : a.1 = name
    · simp only [h, beq_self_eq_true, if_true]
      by_cases he : typesFor name ps = []
      · simp [he]
      · simp [he, List.append_assoc]
    · simp [h]

/-- `arg_types[name]` after the loop of `shrink_traced_types`: absent iff no trace has the name, otherwise exactly the types
    recorded under it, in order -/
theorem lookup_groupArgs (k : Nat) (traces : List CTrace) (name : String) :
    (groupArgs k traces).lookup name =
      if typesFor name (allArgs k traces) = [] then none else some (typesFor name (allArgs k traces)) := by
  simp [groupArgs, lookup_groupFrom, List.lookup]

theorem lookup_mapSnd {β γ} (f : β → γ) (name : String) : ∀ l : List (String × β),
    (l.map (fun p => (p.1, f p.2))).lookup name = (l.lookup name).map f := by
  intro l
  induction l with
  | nil => simp [List.lookup]
  | cons hd tl ih =>
    obtain ⟨n, b⟩ := hd
    by_cases h : name = n
    · subst h; simp
    · simp [lookup_cons_ne _ _ _ _ h, ih]

theorem mem_typesFor_allArgs (k : Nat) (traces : List CTrace) (name : String) (t : Ty) :
    t ∈ typesFor name (allArgs k traces) ↔ ∃ tr ∈ traces, ∃ t0, (name, t0) ∈ tr.args ∧ t = enforce k t0 := by
  simp only [typesFor, allArgs, List.mem_map, List.mem_filter, List.mem_flatMap, beq_iff_eq]
  constructor
  · rintro ⟨⟨n, t'⟩, ⟨⟨tr, htr, ⟨n0, t0⟩, ha, heq⟩, hn⟩, rfl⟩
    simp only [Prod.mk.injEq] at heq
    obtain ⟨h1, h2⟩ := heq
    simp only at hn
    subst hn
    subst h1
    exact ⟨tr, htr, t0, ha, h2.symm⟩
  · rintro ⟨tr, htr, t0, ha, rfl⟩
    exact ⟨(name, enforce k t0), ⟨⟨tr, htr, (name, t0), ha, rfl⟩, rfl⟩, rfl⟩

/-- the merged type `shrink_traced_types` returns for `name` -/
theorem lookup_shrinkTraced (k : Nat) (traces : List CTrace) (name : String) :
    (shrinkTraced k traces).1.lookup name =
      if typesFor name (allArgs k traces) = [] then none else some (shrink k (typesFor name (allArgs k traces))) := by
  simp only [shrinkTraced]
  rw [lookup_mapSnd (shrink k) name (groupArgs k traces), lookup_groupArgs]
  by_cases h : typesFor name (allArgs k traces) = [] <;> simp [h]

theorem mem_retTypes (k : Nat) (traces : List CTrace) (t : Ty) :
    t ∈ retTypes k traces ↔ ∃ tr ∈ traces, ∃ t0, tr.ret = some t0 ∧ t = enforce k t0 := by
  simp only [retTypes, List.mem_filterMap, Option.map_eq_some_iff]
  constructor
  · rintro ⟨tr, htr, t0, h0, rfl⟩; exact ⟨tr, htr, t0, h0, rfl⟩
  · rintro ⟨tr, htr, t0, h0, rfl⟩; exact ⟨tr, htr, t0, h0, rfl⟩

theorem mem_yldTypes (k : Nat) (traces : List CTrace) (t : Ty) :
    t ∈ yldTypes k traces ↔ ∃ tr ∈ traces, ∃ t0, tr.yld = some t0 ∧ t = enforce k t0 := by
  simp only [yldTypes, List.mem_filterMap, Option.map_eq_some_iff]
  constructor
  · rintro ⟨tr, htr, t0, h0, rfl⟩; exact ⟨tr, htr, t0, h0, rfl⟩
  · rintro ⟨tr, htr, t0, h0, rfl⟩; exact ⟨tr, htr, t0, h0, rfl⟩

end MT.FuncDef
