/-
  Lemmas/Keys.lean — which keys of a merged TypedDict are required / optional (typing.py:92-111).
-/
import MTVerif.Lemmas.ShrinkSound
import MTVerif.Model.Witness
namespace MT

def Ty.reqKeySet (t : Ty) : List String := t.reqF.map Prod.fst
def Ty.optKeySet (t : Ty) : List String := t.optF.map Prod.fst

theorem reqVals_full_iff (s : String) (ts : List Ty) :
    (reqVals s ts).length = ts.length ↔ ∀ t ∈ ts, s ∈ t.reqKeySet := by
  simp only [reqVals, Ty.reqKeySet]
  constructor
  · intro h t ht
    obtain ⟨u, hu⟩ := filterMap_full _ _ h t ht
    exact (lookupF_isSome_iff s t.reqF).mp (by simp [hu])
  · intro h
    have : ∀ a ∈ ts, (lookupF s a.reqF).isSome = true := fun a ha => (lookupF_isSome_iff s a.reqF).mpr (h a ha)
    simpa using this

/-- a key is required in the merged TypedDict iff it is a required key of every member -/
theorem mem_reqKeys_iff (s : String) (ts : List Ty) (hne : ts ≠ []) :
    s ∈ reqKeys ts ↔ ∀ t ∈ ts, s ∈ t.reqKeySet := by
  simp only [reqKeys, List.mem_filter, mem_keysOf, beq_iff_eq, reqVals_full_iff]
  constructor
  · exact fun h => h.2
  · intro h
    refine ⟨?_, h⟩
    cases ts with
    | nil => exact absurd rfl hne
    | cons t0 rest =>
      have := h t0 (List.mem_cons_self ..)
      simp only [Ty.reqKeySet, List.mem_map] at this
      obtain ⟨kt, hkt, rfl⟩ := this
      simp only [List.mem_map, List.mem_flatMap]
      exact ⟨kt, ⟨t0, List.mem_cons_self .., hkt⟩, rfl⟩

/-- a key is optional in the merged TypedDict iff it is required in some member but not in all,
    or optional in some member -/
theorem mem_optKeys_iff (s : String) (ts : List Ty) :
    s ∈ optKeys ts ↔
      ((∃ t ∈ ts, s ∈ t.reqKeySet) ∧ ¬ ∀ t ∈ ts, s ∈ t.reqKeySet) ∨ (∃ t ∈ ts, s ∈ t.optKeySet) := by
  simp only [optKeys, mem_dedupBy_str, List.mem_append, List.mem_filter, mem_keysOf, bne_iff_ne, ne_eq,
    reqVals_full_iff, Ty.reqKeySet, Ty.optKeySet, List.mem_map, List.mem_flatMap]
  constructor
  · rintro (⟨⟨kt, ⟨t, ht, hkt⟩, rfl⟩, hn⟩ | ⟨kt, ⟨t, ht, hkt⟩, rfl⟩)
    · exact Or.inl ⟨⟨t, ht, kt, hkt, rfl⟩, hn⟩
    · exact Or.inr ⟨t, ht, kt, hkt, rfl⟩
  · rintro (⟨⟨t, ht, kt, hkt, rfl⟩, hn⟩ | ⟨t, ht, kt, hkt, rfl⟩)
    · exact Or.inl ⟨⟨kt, ⟨t, ht, hkt⟩, rfl⟩, hn⟩
    · exact Or.inr ⟨kt, ⟨t, ht, hkt⟩, rfl⟩

end MT

namespace MT

/-- a dict value that `get_type` turns into a TypedDict at limit `k` -/
def tdAble (k : Nat) (kvs : List (Val × Val)) : Bool :=
  !kvs.isEmpty && kvs.all (fun kv => kv.1.tdKeyOk) && decide (kvs.length ≤ k)

theorem getType_tdAble (k : Nat) (kvs : List (Val × Val)) (h : tdAble k kvs = true) :
    getType k (.dict kvs) = .td (getFields k kvs) [] := by
  simp only [tdAble, Bool.and_eq_true, Bool.not_eq_true', decide_eq_true_eq] at h
  cases kvs with
  | nil => simp at h
  | cons kv kvs' =>
    simp only [getType]
    rw [if_pos]
    simp only [Bool.and_eq_true, decide_eq_true_eq]
    exact ⟨h.1.2, h.2⟩

theorem getTypes_eq_map (k : Nat) (vs : List Val) : getTypes k vs = vs.map (getType k) := by
  induction vs with
  | nil => rfl
  | cons v vs ih => simp [getTypes, ih]

theorem mem_strKeys_iff (s : String) (kvs : List (Val × Val)) : s ∈ strKeys kvs ↔ hasKey s kvs = true := by
  simp only [strKeys, hasKey, List.mem_filterMap, List.any_eq_true]
  constructor
  · rintro ⟨kv, hkv, hs⟩
    refine ⟨kv, hkv, ?_⟩
    obtain ⟨a, b⟩ := kv
    cases a <;> simp [Val.strKey?] at hs
    subst hs; simp [Val.isStr]
  · rintro ⟨kv, hkv, hs⟩
    refine ⟨kv, hkv, ?_⟩
    rw [(Val.isStr_iff s kv.1).mp hs]; rfl

theorem reqKeySet_getType (k : Nat) (kvs : List (Val × Val)) (h : tdAble k kvs = true) :
    (getType k (.dict kvs)).reqKeySet = strKeys kvs ∧ (getType k (.dict kvs)).optKeySet = [] := by
  rw [getType_tdAble k kvs h]
  simp only [tdAble, Bool.and_eq_true] at h
  exact ⟨getFields_keys k kvs (all_tdKeyOk_strKey kvs h.1.2), rfl⟩

end MT
