/-
  Lemmas/LargeUnionPerm.lean — `RewriteLargeUnion` on a union of classes does not depend on the order of the members
  (the tie between several most specific common ancestors is broken by name, `Hier.rank`).
-/
import MTVerif.Lemmas.RewriteSound
namespace MT

/-- the two lists have the same members -/
def SameMembers (l₁ l₂ : List ClassId) : Prop := ∀ a, a ∈ l₁ ↔ a ∈ l₂

theorem foldl_minByRank_le (h : Hier) (as : List ClassId) (a : ClassId) :
    h.rank (as.foldl (fun m b => if h.rank b < h.rank m then b else m) a) ≤ h.rank a ∧
    ∀ b ∈ as, h.rank (as.foldl (fun m b => if h.rank b < h.rank m then b else m) a) ≤ h.rank b := by
  induction as generalizing a with
  | nil => exact ⟨Nat.le_refl _, fun _ hb => by cases hb⟩
  | cons x xs ih =>
    simp only [List.foldl_cons]
    obtain ⟨h1, h2⟩ := ih (if h.rank x < h.rank a then x else a)
    have hstep : h.rank (if h.rank x < h.rank a then x else a) ≤ h.rank a ∧
        h.rank (if h.rank x < h.rank a then x else a) ≤ h.rank x := by
      split <;> omega
    refine ⟨Nat.le_trans h1 hstep.1, ?_⟩
    intro b hb
    rcases List.mem_cons.mp hb with e | hb
    · subst e; exact Nat.le_trans h1 hstep.2
    · exact h2 b hb

/-- `min(xs, key=rank)` is a member with the least rank -/
theorem minByRank_spec (h : Hier) (l : List ClassId) (a : ClassId) (hm : minByRank h l = some a) :
    a ∈ l ∧ ∀ b ∈ l, h.rank a ≤ h.rank b := by
  refine ⟨minByRank_mem h l a hm, ?_⟩
  cases l with
  | nil => simp [minByRank] at hm
  | cons x xs =>
    simp only [minByRank, Option.some.injEq] at hm
    subst hm
    intro b hb
    obtain ⟨h1, h2⟩ := foldl_minByRank_le h xs x
    rcases List.mem_cons.mp hb with e | hb
    · subst e; exact h1
    · exact h2 b hb

theorem minByRank_none (h : Hier) (l : List ClassId) : minByRank h l = none ↔ l = [] := by
  cases l <;> simp [minByRank]

/-- with distinct names for distinct classes, the choice depends only on the set of candidates -/
theorem minByRank_sameMembers (h : Hier) (l₁ l₂ : List ClassId) (hs : SameMembers l₁ l₂)
    (hinj : ∀ a b, a ∈ l₁ → b ∈ l₁ → h.rank a = h.rank b → a = b) : minByRank h l₁ = minByRank h l₂ := by
  cases h1 : minByRank h l₁ with
  | none =>
    have e1 := (minByRank_none h l₁).mp h1
    have e2 : l₂ = [] := by
      cases l₂ with
      | nil => rfl
      | cons x xs => have := (hs x).mpr List.mem_cons_self; rw [e1] at this; cases this
    rw [e2]; rfl
  | some a =>
    cases h2 : minByRank h l₂ with
    | none =>
      have e2 := (minByRank_none h l₂).mp h2
      have := (hs a).mp (minByRank_mem h l₁ a h1)
      rw [e2] at this; cases this
    | some b =>
      obtain ⟨ha, hla⟩ := minByRank_spec h l₁ a h1
      obtain ⟨hb, hlb⟩ := minByRank_spec h l₂ b h2
      have hb1 := (hs b).mpr hb
      have hab : h.rank a = h.rank b := Nat.le_antisymm (hla b hb1) (hlb a ((hs a).mp ha))
      rw [hinj a b ha hb1 hab]

theorem mostSpecific_sameMembers (h : Hier) (l₁ l₂ : List ClassId) (hs : SameMembers l₁ l₂) :
    SameMembers (mostSpecific h l₁) (mostSpecific h l₂) := by
  intro a
  have hany : l₁.any (fun b => b != a && h.sub b a) = l₂.any (fun b => b != a && h.sub b a) := by
    rw [Bool.eq_iff_iff]
    simp only [List.any_eq_true]
    exact ⟨fun ⟨b, hb, hp⟩ => ⟨b, (hs b).mp hb, hp⟩, fun ⟨b, hb, hp⟩ => ⟨b, (hs b).mpr hb, hp⟩⟩
  simp only [mostSpecific, List.mem_filter, hany, hs a]

theorem commonAncestors_mem (h : Hier) (cs : List ClassId) (hne : cs ≠ []) (a : ClassId) :
    a ∈ commonAncestors h (cs.map Ty.cls) ↔
      ((a != objectC) = true ∧ h.unchk a = false) ∧ ∀ c ∈ cs, h.sub c a = true := by
  simp only [commonAncestors, List.mem_filter, Bool.and_eq_true, List.all_eq_true, List.mem_map, List.mem_eraseDups,
    Bool.not_eq_true']
  constructor
  · rintro ⟨_, hne', hall⟩
    exact ⟨hne', fun c hc => by simpa using hall (.cls c) ⟨c, hc, rfl⟩⟩
  · rintro ⟨hne', hall⟩
    refine ⟨?_, hne', ?_⟩
    · obtain ⟨c0, rest, rfl⟩ := List.exists_cons_of_ne_nil hne
      have := hall c0 List.mem_cons_self
      simp only [classMros, List.map_cons, List.flatMap_cons, List.mem_append]
      left
      simpa [Hier.sub] using this
    · rintro t ⟨c, hc, rfl⟩
      simpa using hall c hc

theorem toTupleOf_classes (cs : List ClassId) (hne : cs ≠ []) : toTupleOf (cs.map Ty.cls) = none := by
  cases cs with
  | nil => exact absurd rfl hne
  | cons c cs => simp [toTupleOf, Ty.isTuple]

/-- `RewriteLargeUnion` on a union of classes: any permutation of the members gives the same result -/
theorem largeUnionCollapse_classes_perm (h : Hier) (cs cs' : List ClassId) (hp : cs.Perm cs')
    (hinj : ∀ a b, h.rank a = h.rank b → a = b) :
    largeUnionCollapse h (cs.map Ty.cls) = largeUnionCollapse h (cs'.map Ty.cls) := by
  by_cases hne : cs = []
  · subst hne; rw [List.Perm.eq_nil hp.symm]
  · have hne' : cs' ≠ [] := fun e => hne (by subst e; exact List.Perm.eq_nil hp)
    have hall : ∀ l : List ClassId, (l.map Ty.cls).all (fun t => t.clsId?.isSome) = true := by
      intro l; simp [List.all_eq_true, Ty.clsId?]
    have hsame : SameMembers (commonAncestors h (cs.map Ty.cls)) (commonAncestors h (cs'.map Ty.cls)) := by
      intro a
      rw [commonAncestors_mem h cs hne, commonAncestors_mem h cs' hne']
      exact ⟨fun ⟨h1, h2⟩ => ⟨h1, fun c hc => h2 c (hp.mem_iff.mpr hc)⟩, fun ⟨h1, h2⟩ => ⟨h1, fun c hc => h2 c (hp.mem_iff.mp hc)⟩⟩
    have hmin := minByRank_sameMembers h _ _ (mostSpecific_sameMembers h _ _ hsame) (fun a b _ _ => hinj a b)
    unfold largeUnionCollapse
    rw [toTupleOf_classes cs hne, toTupleOf_classes cs' hne']
    simp only [hall, if_true, hmin]

end MT
