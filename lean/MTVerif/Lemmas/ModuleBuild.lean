/-
  Lemmas/ModuleBuild.lean — `build_module_stubs` puts every entry at its class path, exactly once, and nothing else.
-/
import MTVerif.Model.ModuleBuild
namespace MT.Build

/-! ### association lists with dict semantics -/

theorem getKV_setKV_self (k : String) (v : Nat) : ∀ l : List (String × Nat), getKV k (setKV k v l) = some v
  | [] => by simp [setKV, getKV]
  | (k', v') :: rest => by
      by_cases h : k' = k
      · simp [setKV, getKV, h]
      · simp [setKV, getKV, h, getKV_setKV_self k v rest]

theorem getKV_setKV_ne (k k2 : String) (v : Nat) (hne : k2 ≠ k) : ∀ l : List (String × Nat), getKV k2 (setKV k v l) = getKV k2 l
  | [] => by simp [setKV, getKV, hne.symm]
  | (k', v') :: rest => by
      by_cases h : k' = k
      · subst h
        simp [setKV, getKV, hne.symm]
      · by_cases h2 : k' = k2
        · subst h2; simp [setKV, getKV, h]
        · simp [setKV, getKV, h, h2, getKV_setKV_ne k k2 v hne rest]

theorem getC_setC_self (k : String) (c : Tree) : ∀ l : List (String × Tree), getC k (setC k c l) = some c
  | [] => by simp [setC, getC]
  | (k', c') :: rest => by
      by_cases h : k' = k
      · simp [setC, getC, h]
      · simp [setC, getC, h, getC_setC_self k c rest]

theorem getC_setC_ne (k k2 : String) (c : Tree) (hne : k2 ≠ k) : ∀ l : List (String × Tree), getC k2 (setC k c l) = getC k2 l
  | [] => by simp [setC, getC, hne.symm]
  | (k', c') :: rest => by
      by_cases h : k' = k
      · subst h
        simp [setC, getC, hne.symm]
      · by_cases h2 : k' = k2
        · subst h2; simp [setC, getC, h]
        · simp [setC, getC, h, h2, getC_setC_ne k k2 c hne rest]

theorem keys_setKV (k : String) (v : Nat) : ∀ l : List (String × Nat),
    (setKV k v l).map Prod.fst = if k ∈ l.map Prod.fst then l.map Prod.fst else l.map Prod.fst ++ [k]
  | [] => by simp [setKV]
  | (k', v') :: rest => by
      by_cases h : k' = k
      · subst h; simp [setKV]
      · have ih := keys_setKV k v rest
        have hk : ¬ k = k' := fun e => h e.symm
        simp only [setKV, h, ↓reduceIte, List.map_cons, ih, List.mem_cons, hk, false_or]
        split <;> simp

theorem keys_setC (k : String) (c : Tree) : ∀ l : List (String × Tree),
    (setC k c l).map Prod.fst = if k ∈ l.map Prod.fst then l.map Prod.fst else l.map Prod.fst ++ [k]
  | [] => by simp [setC]
  | (k', c') :: rest => by
      by_cases h : k' = k
      · subst h; simp [setC]
      · have ih := keys_setC k c rest
        have hk : ¬ k = k' := fun e => h e.symm
        simp only [setC, h, ↓reduceIte, List.map_cons, ih, List.mem_cons, hk, false_or]
        split <;> simp

theorem nodup_keys_set {l : List String} (k : String) (h : l.Nodup) : (if k ∈ l then l else l ++ [k]).Nodup := by
  split
  · exact h
  · next hk =>
    rw [List.nodup_append]
    exact ⟨h, by simp, by intro a ha b hb; simp at hb; subst hb; exact fun e => hk (e ▸ ha)⟩

/-! ### lookup after insert -/

theorem lookup_empty : ∀ (path : List String) (name : String), Tree.empty.lookup path name = none
  | [], _ => rfl
  | _ :: _, _ => rfl

theorem lookup_insert_self : ∀ (path : List String) (t : Tree) (name : String) (p : Nat),
    (t.insert path name p).lookup path name = some p
  | [], t, name, p => by simp [Tree.insert, Tree.lookup, Tree.funcs, getKV_setKV_self]
  | k :: path, t, name, p => by
      simp only [Tree.insert, Tree.lookup, Tree.classes, getC_setC_self]
      exact lookup_insert_self path _ name p

theorem lookup_insert_ne : ∀ (path : List String) (t : Tree) (name : String) (p : Nat) (path' : List String) (name' : String),
    (path', name') ≠ (path, name) → (t.insert path name p).lookup path' name' = t.lookup path' name'
  | [], t, name, p, [], name', hne => by
      have : name' ≠ name := fun e => hne (by rw [e])
      simp [Tree.insert, Tree.lookup, Tree.funcs, getKV_setKV_ne name name' p this]
  | [], t, name, p, k' :: rest', name', _ => by
      simp [Tree.insert, Tree.lookup, Tree.classes]
  | k :: rest, t, name, p, [], name', _ => by
      simp [Tree.insert, Tree.lookup, Tree.funcs]
  | k :: rest, t, name, p, k' :: rest', name', hne => by
      by_cases hk : k' = k
      · subst hk
        have hne' : (rest', name') ≠ (rest, name) := by
          intro e
          apply hne
          simp only [Prod.mk.injEq] at e ⊢
          exact ⟨by rw [e.1], e.2⟩
        simp only [Tree.insert, Tree.lookup, Tree.classes, getC_setC_self]
        rw [lookup_insert_ne rest _ name p rest' name' hne']
        cases getC k' (match t with | .node _ cs => cs) with
        | some c => rfl
        | none => exact lookup_empty rest' name'
      · simp only [Tree.insert, Tree.lookup, Tree.classes, getC_setC_ne k k' _ hk]

/-- what `build_module_stubs` leaves at (path, name): the last entry with that qualified name, if any; else what was there -/
theorem lookup_buildFrom : ∀ (es : List Entry) (t : Tree) (i : Nat) (q : Entry),
    ((buildFrom t i es).lookup q.path q.name).isSome = ((t.lookup q.path q.name).isSome || decide (q ∈ es))
  | [], t, i, q => by simp [buildFrom]
  | e :: es, t, i, q => by
      simp only [buildFrom]
      rw [lookup_buildFrom es _ (i + 1) q]
      by_cases h : q = e
      · subst h
        simp [lookup_insert_self]
      · have hne : (q.path, q.name) ≠ (e.path, e.name) := by
          intro he
          apply h
          cases q; cases e
          simp only [Prod.mk.injEq] at he
          simp [he.1, he.2]
        rw [lookup_insert_ne e.path t e.name i q.path q.name hne]
        simp [h]

/-! ### the dict invariant, and "each item once" -/

theorem wfT_empty : Tree.empty.wfT := by simp [Tree.empty, Tree.wfT, wfC]

theorem wfC_of_getC (k : String) : ∀ (cs : List (String × Tree)) (c : Tree), wfC cs → getC k cs = some c → c.wfT
  | [], _, _, h => by simp [getC] at h
  | (k', c') :: rest, c, hw, h => by
      simp only [wfC] at hw
      by_cases hk : k' = k
      · simp only [getC, hk, ↓reduceIte, Option.some.injEq] at h
        exact h ▸ hw.1
      · simp only [getC, hk, ↓reduceIte] at h
        exact wfC_of_getC k rest c hw.2 h

theorem wfC_setC (k : String) (c : Tree) (hc : c.wfT) : ∀ cs : List (String × Tree), wfC cs → wfC (setC k c cs)
  | [], _ => by simp [setC, wfC, hc]
  | (k', c') :: rest, hw => by
      simp only [wfC] at hw
      by_cases hk : k' = k
      · simp [setC, hk, wfC, hc, hw.2]
      · simp [setC, hk, wfC, hw.1, wfC_setC k c hc rest hw.2]

theorem wfT_insert : ∀ (path : List String) (t : Tree) (name : String) (p : Nat), t.wfT → (t.insert path name p).wfT
  | [], .node fs cs, name, p, hw => by
      simp only [Tree.wfT] at hw
      simp only [Tree.insert, Tree.funcs, Tree.classes, Tree.wfT, keys_setKV]
      exact ⟨nodup_keys_set name hw.1, hw.2.1, hw.2.2⟩
  | k :: path, .node fs cs, name, p, hw => by
      simp only [Tree.wfT] at hw
      simp only [Tree.insert, Tree.funcs, Tree.classes, Tree.wfT, keys_setC]
      refine ⟨hw.1, nodup_keys_set k hw.2.1, ?_⟩
      apply wfC_setC
      · apply wfT_insert
        cases hg : getC k cs with
        | some c => exact wfC_of_getC k cs c hw.2.2 hg
        | none => exact wfT_empty
      · exact hw.2.2

theorem wfT_buildFrom : ∀ (es : List Entry) (t : Tree) (i : Nat), t.wfT → (buildFrom t i es).wfT
  | [], _, _, h => h
  | e :: es, t, i, h => wfT_buildFrom es _ (i + 1) (wfT_insert e.path t e.name i h)

theorem getKV_isSome (k : String) : ∀ l : List (String × Nat), (getKV k l).isSome = true ↔ k ∈ l.map Prod.fst
  | [] => by simp [getKV]
  | (k', v') :: rest => by
      by_cases h : k' = k
      · simp [getKV, h]
      · have hk : ¬ k = k' := fun e => h e.symm
        simp [getKV, h, hk, getKV_isSome k rest]

theorem getC_mem (k : String) : ∀ (cs : List (String × Tree)) (c : Tree), getC k cs = some c → (k, c) ∈ cs
  | [], _, h => by simp [getC] at h
  | (k', c') :: rest, c, h => by
      by_cases hk : k' = k
      · simp only [getC, hk, ↓reduceIte, Option.some.injEq] at h
        simp [hk, h]
      · simp only [getC, hk, ↓reduceIte] at h
        exact List.mem_cons_of_mem _ (getC_mem k rest c h)

theorem getC_of_mem (k : String) (c : Tree) : ∀ (cs : List (String × Tree)), (cs.map Prod.fst).Nodup → (k, c) ∈ cs → getC k cs = some c
  | [], _, h => by cases h
  | (k', c') :: rest, hn, h => by
      simp only [List.map_cons, List.nodup_cons] at hn
      rcases List.mem_cons.mp h with e | h
      · cases e; simp [getC]
      · have hk : k' ≠ k := by
          intro e
          apply hn.1
          rw [e]
          exact List.mem_map.mpr ⟨(k, c), h, rfl⟩
        simp only [getC, hk, ↓reduceIte]
        exact getC_of_mem k c rest hn.2 h

theorem mem_itemsC : ∀ (cs : List (String × Tree)) (path : List String) (name : String),
    (path, name) ∈ itemsC cs ↔ ∃ k c rest, path = k :: rest ∧ (k, c) ∈ cs ∧ (rest, name) ∈ c.items
  | [], path, name => by simp [itemsC]
  | (k0, c0) :: tl, path, name => by
      simp only [itemsC, List.mem_append, List.mem_map, mem_itemsC tl path name, List.mem_cons]
      constructor
      · rintro (⟨pn, hpn, he⟩ | ⟨k, c, rest, hp, hm, hi⟩)
        · simp only [Prod.mk.injEq] at he
          exact ⟨k0, c0, pn.1, he.1.symm, Or.inl rfl, by rw [← he.2]; exact hpn⟩
        · exact ⟨k, c, rest, hp, Or.inr hm, hi⟩
      · rintro ⟨k, c, rest, hp, hm | hm, hi⟩
        · simp only [Prod.mk.injEq] at hm
          left
          exact ⟨(rest, name), by rw [← hm.2]; exact hi, by simp [hp, hm.1]⟩
        · exact Or.inr ⟨k, c, rest, hp, hm, hi⟩

mutual
/-- the items of a tree are exactly the (path, name) pairs `lookup` finds -/
theorem mem_items : ∀ (t : Tree) (path : List String) (name : String), t.wfT →
    ((path, name) ∈ t.items ↔ (t.lookup path name).isSome = true)
  | .node fs cs, [], name, hw => by
      simp only [Tree.items, List.mem_append, List.mem_map, Tree.lookup, Tree.funcs, getKV_isSome, mem_itemsC]
      constructor
      · rintro (⟨kv, hkv, he⟩ | ⟨k, c, rest, hp, _⟩)
        · simp only [Prod.mk.injEq, true_and] at he
          exact ⟨kv, hkv, he⟩
        · cases hp
      · rintro ⟨kv, hkv, he⟩
        exact Or.inl ⟨kv, hkv, by simp [he]⟩
  | .node fs cs, k :: rest, name, hw => by
      simp only [Tree.wfT] at hw
      simp only [Tree.items, List.mem_append, List.mem_map, Tree.lookup, Tree.classes, mem_itemsC]
      constructor
      · rintro (⟨kv, _, he⟩ | ⟨k', c, rest', hp, hm, hi⟩)
        · simp at he
        · simp only [List.cons.injEq] at hp
          obtain ⟨rfl, rfl⟩ := hp
          rw [getC_of_mem k c cs hw.2.1 hm]
          exact (mem_itemsIn cs hw.2.2 k c hm rest name).mp hi
      · intro h
        right
        cases hg : getC k cs with
        | none => simp [hg] at h
        | some c =>
          simp only [hg] at h
          have hm := getC_mem k cs c hg
          exact ⟨k, c, rest, rfl, hm, (mem_itemsIn cs hw.2.2 k c hm rest name).mpr h⟩
theorem mem_itemsIn : ∀ (cs : List (String × Tree)), wfC cs → ∀ (k : String) (c : Tree), (k, c) ∈ cs →
    ∀ (path : List String) (name : String), ((path, name) ∈ c.items ↔ (c.lookup path name).isSome = true)
  | [], _, _, _, hm, _, _ => by cases hm
  | (k0, c0) :: tl, hw, k, c, hm, path, name => by
      simp only [wfC] at hw
      rcases List.mem_cons.mp hm with e | hm
      · simp only [Prod.mk.injEq] at e
        rw [e.2]
        exact mem_items c0 path name hw.1
      · exact mem_itemsIn tl hw.2 k c hm path name
end

theorem nodup_map_inj {α β : Type} (f : α → β) (hf : ∀ a b, f a = f b → a = b) : ∀ l : List α, l.Nodup → (l.map f).Nodup
  | [], _ => by simp
  | a :: l, h => by
      simp only [List.nodup_cons] at h
      simp only [List.map_cons, List.nodup_cons, List.mem_map, not_exists, not_and]
      refine ⟨fun b hb e => h.1 (hf _ _ e.symm ▸ hb), nodup_map_inj f hf l h.2⟩

theorem nodup_map_cons_of_nodup {α : Type} (k : String) (l : List (List String × α)) (h : l.Nodup) :
    (l.map (fun pn => (k :: pn.1, pn.2))).Nodup := by
  apply nodup_map_inj _ _ l h
  intro a b e
  simp only [Prod.mk.injEq, List.cons.injEq, true_and] at e
  exact Prod.ext e.1 e.2

mutual
/-- every dict item is listed once -/
theorem items_nodup : ∀ t : Tree, t.wfT → t.items.Nodup
  | .node fs cs, hw => by
      simp only [Tree.wfT] at hw
      simp only [Tree.items]
      rw [List.nodup_append]
      refine ⟨?_, itemsC_nodup cs hw.2.1 hw.2.2, ?_⟩
      · have : (fs.map (fun kv => (([] : List String), kv.1))) = (fs.map Prod.fst).map (fun n => (([] : List String), n)) := by
          simp [List.map_map]
        rw [this]
        apply nodup_map_inj _ _ _ hw.1
        intro a b e
        simpa using e
      · intro a ha b hb
        obtain ⟨kv, _, rfl⟩ := List.mem_map.mp ha
        obtain ⟨k, c, rest, hp, _⟩ := (mem_itemsC cs b.1 b.2).mp hb
        intro e
        rw [← e] at hp
        cases hp
theorem itemsC_nodup : ∀ cs : List (String × Tree), (cs.map Prod.fst).Nodup → wfC cs → (itemsC cs).Nodup
  | [], _, _ => by simp [itemsC]
  | (k, c) :: rest, hn, hw => by
      simp only [List.map_cons, List.nodup_cons] at hn
      simp only [wfC] at hw
      simp only [itemsC]
      rw [List.nodup_append]
      refine ⟨nodup_map_cons_of_nodup k _ (items_nodup c hw.1), itemsC_nodup rest hn.2 hw.2, ?_⟩
      intro a ha b hb
      obtain ⟨pn, _, rfl⟩ := List.mem_map.mp ha
      obtain ⟨k', c', rest', hp, hm, _⟩ := (mem_itemsC rest b.1 b.2).mp hb
      intro e
      rw [← e] at hp
      simp only [List.cons.injEq] at hp
      apply hn.1
      rw [hp.1]
      exact List.mem_map.mpr ⟨(k', c'), hm, rfl⟩
end

end MT.Build
