/-
  Lemmas/ModuleRender.lean — sorting makes the emitted block order a function of the multiset of blocks.
-/
import MTVerif.Model.ModuleRender

namespace MT

theorem blockLe_trans (a b c : String × String) (h1 : blockLe a b = true) (h2 : blockLe b c = true) : blockLe a c = true := by
  simp only [blockLe, Bool.or_eq_true, Bool.and_eq_true, decide_eq_true_eq, beq_iff_eq] at *
  rcases h1 with h1 | ⟨e1, h1⟩ <;> rcases h2 with h2 | ⟨e2, h2⟩
  · exact Or.inl (String.lt_trans h1 h2)
  · exact Or.inl (e2 ▸ h1)
  · exact Or.inl (e1 ▸ h2)
  · exact Or.inr ⟨e1.trans e2, String.le_trans h1 h2⟩

theorem blockLe_total (a b : String × String) : (blockLe a b || blockLe b a) = true := by
  simp only [blockLe, Bool.or_eq_true, Bool.and_eq_true, decide_eq_true_eq, beq_iff_eq]
  by_cases h : a.1 < b.1
  · exact Or.inl (Or.inl h)
  · by_cases h' : b.1 < a.1
    · exact Or.inr (Or.inl h')
    · have e : a.1 = b.1 := String.le_antisymm (String.not_lt.mp h') (String.not_lt.mp h)
      rcases String.le_total a.2 b.2 with h2 | h2
      · exact Or.inl (Or.inr ⟨e, h2⟩)
      · exact Or.inr (Or.inr ⟨e.symm, h2⟩)

theorem blockLe_antisymm (a b : String × String) (h1 : blockLe a b = true) (h2 : blockLe b a = true) : a = b := by
  simp only [blockLe, Bool.or_eq_true, Bool.and_eq_true, decide_eq_true_eq, beq_iff_eq] at *
  rcases h1 with h1 | ⟨e1, h1⟩ <;> rcases h2 with h2 | ⟨e2, h2⟩
  · exact absurd (String.lt_trans h1 h2) (String.lt_irrefl _)
  · exact absurd (e2 ▸ h1) (String.lt_irrefl _)
  · exact absurd (e1 ▸ h2) (String.lt_irrefl _)
  · exact Prod.ext e1 (String.le_antisymm h1 h2)

/-- sorting by a transitive, total, antisymmetric order: permuted inputs give the same list -/
theorem mergeSort_perm_eq {α} (le : α → α → Bool)
    (trans : ∀ a b c, le a b = true → le b c = true → le a c = true) (total : ∀ a b, (le a b || le b a) = true)
    (anti : ∀ a b, le a b = true → le b a = true → a = b) {l₁ l₂ : List α} (h : l₁.Perm l₂) :
    l₁.mergeSort le = l₂.mergeSort le := by
  apply List.Perm.eq_of_pairwise (le := fun a b => le a b = true)
  · intro a b _ _ hab hba; exact anti a b hab hba
  · exact List.pairwise_mergeSort trans total l₁
  · exact List.pairwise_mergeSort trans total l₂
  · exact (List.mergeSort_perm l₁ le).trans (h.trans (List.mergeSort_perm l₂ le).symm)

/-- the same with antisymmetry only required of the members -/
theorem mergeSort_perm_eq_on {α} (le : α → α → Bool)
    (trans : ∀ a b c, le a b = true → le b c = true → le a c = true) (total : ∀ a b, (le a b || le b a) = true)
    {l₁ l₂ : List α} (anti : ∀ a b, a ∈ l₁ → b ∈ l₁ → le a b = true → le b a = true → a = b) (h : l₁.Perm l₂) :
    l₁.mergeSort le = l₂.mergeSort le := by
  apply List.Perm.eq_of_pairwise (le := fun a b => le a b = true)
  · intro a b ha hb hab hba
    exact anti a b ((List.mergeSort_perm l₁ le).mem_iff.mp ha) (h.mem_iff.mpr ((List.mergeSort_perm l₂ le).mem_iff.mp hb)) hab hba
  · exact List.pairwise_mergeSort trans total l₁
  · exact List.pairwise_mergeSort trans total l₂
  · exact (List.mergeSort_perm l₁ le).trans (h.trans (List.mergeSort_perm l₂ le).symm)

theorem nameLe_trans (a b c : String × String) (h1 : nameLe a b = true) (h2 : nameLe b c = true) : nameLe a c = true := by
  simp only [nameLe, decide_eq_true_eq] at *; exact String.le_trans h1 h2

theorem nameLe_total (a b : String × String) : (nameLe a b || nameLe b a) = true := by
  simp only [nameLe, Bool.or_eq_true, decide_eq_true_eq]; exact String.le_total _ _

/-- names are keys of a dict: two members with the same name are the same member -/
def UniqueNames (l : List (String × String)) : Prop := ∀ a b, a ∈ l → b ∈ l → a.1 = b.1 → a = b

theorem namedBlocks_perm {a b : List (String × String)} (hu : UniqueNames a) (h : a.Perm b) : namedBlocks a = namedBlocks b := by
  unfold namedBlocks
  rw [mergeSort_perm_eq_on nameLe nameLe_trans nameLe_total (l₁ := a) (l₂ := b) ?_ h]
  intro x y hx hy h1 h2
  simp only [nameLe, decide_eq_true_eq] at h1 h2
  exact hu x y hx hy (String.le_antisymm h1 h2)

theorem classBlocks_perm {a b : List (String × String)} (h : a.Perm b) : classBlocks a = classBlocks b := by
  unfold classBlocks
  rw [mergeSort_perm_eq blockLe blockLe_trans blockLe_total blockLe_antisymm h]

end MT
