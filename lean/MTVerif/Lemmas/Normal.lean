/-
  Lemmas/Normal.lean — everything inference builds is in the normal form of `typing` objects: every union node is
  what `typing.Union[...]` would build from its own members (flat, no `==` duplicates, at least two members).
  This is the hypothesis under which a type round-trips *exactly* through the store (Lemmas/Roundtrip.lean).
-/
import MTVerif.Model.Trigger
import MTVerif.Lemmas.Sound
import MTVerif.Lemmas.Beq
namespace MT

/-! ### `beq'` is reflexive -/

mutual
theorem Ty.beq'_refl : ∀ t : Ty, Ty.beq' t t = true
  | .any => by simp [Ty.beq']
  | .cls _ => by simp [Ty.beq']
  | .typeOf _ => by simp [Ty.beq']
  | .callable => by simp [Ty.beq']
  | .list a => by simp only [Ty.beq']; exact Ty.beq'_refl a
  | .set a => by simp only [Ty.beq']; exact Ty.beq'_refl a
  | .tupleOf a => by simp only [Ty.beq']; exact Ty.beq'_refl a
  | .iterator a => by simp only [Ty.beq']; exact Ty.beq'_refl a
  | .dict a b => by simp only [Ty.beq', Bool.and_eq_true]; exact ⟨Ty.beq'_refl a, Ty.beq'_refl b⟩
  | .ddict a b => by simp only [Ty.beq', Bool.and_eq_true]; exact ⟨Ty.beq'_refl a, Ty.beq'_refl b⟩
  | .generator a b c => by
      simp only [Ty.beq', Bool.and_eq_true]; exact ⟨⟨Ty.beq'_refl a, Ty.beq'_refl b⟩, Ty.beq'_refl c⟩
  | .tuple ts => by simp only [Ty.beq']; exact beqL_refl ts
  | .union ts => by simp only [Ty.beq']; exact beqL_refl ts
  | .td r o => by simp only [Ty.beq', Bool.and_eq_true]; exact ⟨beqF_refl r, beqF_refl o⟩
theorem beqL_refl : ∀ ts : List Ty, beqL ts ts = true
  | [] => by simp [beqL]
  | t :: ts => by simp only [beqL, Bool.and_eq_true]; exact ⟨Ty.beq'_refl t, beqL_refl ts⟩
theorem beqF_refl : ∀ fs : List (String × Ty), beqF fs fs = true
  | [] => by simp [beqF]
  | (k, t) :: fs => by simp only [beqF, Bool.and_eq_true, beq_self_eq_true, true_and]; exact ⟨Ty.beq'_refl t, beqF_refl fs⟩
end

/-! ### de-duplication is idempotent -/

/-- no later element is `eq` to an earlier one -/
def NoDup {α} (eq : α → α → Bool) : List α → Prop
  | [] => True
  | a :: as => (∀ b ∈ as, eq a b = false) ∧ NoDup eq as

theorem NoDup.filter {α} (eq : α → α → Bool) (p : α → Bool) : ∀ l : List α, NoDup eq l → NoDup eq (l.filter p)
  | [], _ => by simp [NoDup]
  | a :: as, h => by
      by_cases hp : p a = true
      · simp only [List.filter_cons, hp, ↓reduceIte, NoDup]
        exact ⟨fun b hb => h.1 b (List.mem_filter.mp hb).1, NoDup.filter eq p as h.2⟩
      · simp only [List.filter_cons, hp, Bool.false_eq_true, ↓reduceIte]
        exact NoDup.filter eq p as h.2

theorem noDup_dedupBy {α} (eq : α → α → Bool) : ∀ l : List α, NoDup eq (dedupBy eq l)
  | [] => by simp [dedupBy, NoDup]
  | a :: as => by
      simp only [dedupBy, NoDup]
      refine ⟨fun b hb => ?_, NoDup.filter eq _ _ (noDup_dedupBy eq as)⟩
      simpa using (List.mem_filter.mp hb).2

theorem dedupBy_of_noDup {α} (eq : α → α → Bool) : ∀ l : List α, NoDup eq l → dedupBy eq l = l
  | [], _ => rfl
  | a :: as, h => by
      simp only [dedupBy, dedupBy_of_noDup eq as h.2, List.cons.injEq, true_and, List.filter_eq_self, Bool.not_eq_true']
      exact h.1

theorem dedupBy_idem {α} (eq : α → α → Bool) (l : List α) : dedupBy eq (dedupBy eq l) = dedupBy eq l :=
  dedupBy_of_noDup eq _ (noDup_dedupBy eq l)

/-! ### sizes -/

theorem sizeL_filter_le (p : Ty → Bool) : ∀ l : List Ty, sizeL (l.filter p) ≤ sizeL l
  | [] => by simp [sizeL]
  | a :: as => by
      have := sizeL_filter_le p as
      by_cases hp : p a = true <;> simp [List.filter_cons, hp, sizeL] <;> omega

theorem sizeL_dedupBy_le : ∀ l : List Ty, sizeL (dedupBy Ty.eqv l) ≤ sizeL l
  | [] => by simp [dedupBy, sizeL]
  | a :: as => by
      have h1 := sizeL_dedupBy_le as
      have h2 := sizeL_filter_le (fun b => !Ty.eqv a b) (dedupBy Ty.eqv as)
      simp only [dedupBy, sizeL]; omega

theorem mem_size_le (t : Ty) : ∀ l : List Ty, t ∈ l → t.size ≤ sizeL l
  | [], h => by cases h
  | a :: as, h => by
      rcases List.mem_cons.mp h with rfl | h
      · simp [sizeL]
      · have := mem_size_le t as h; simp only [sizeL]; omega

def Ty.isUnion' : Ty → Bool | .union _ => true | _ => false

theorem sizeL_flat1_le : ∀ l : List Ty, sizeL (flat1 l) ≤ sizeL l
  | [] => by simp [flat1, sizeL]
  | a :: as => by
      have ih := sizeL_flat1_le as
      simp only [flat1, List.flatMap_cons] at ih ⊢
      rw [sizeL_append]
      cases a <;> simp only [sizeL, Ty.size, Nat.add_zero] <;> omega

/-- flattening a list that contains a union strictly decreases its size -/
theorem sizeL_flat1_lt : ∀ l : List Ty, (∃ t ∈ l, t.isUnion' = true) → sizeL (flat1 l) < sizeL l
  | [], h => by obtain ⟨_, ht, _⟩ := h; cases ht
  | a :: as, h => by
      have hle := sizeL_flat1_le as
      simp only [flat1, List.flatMap_cons] at hle ⊢
      rw [sizeL_append]
      by_cases hu : a.isUnion' = true
      · cases a <;> simp [Ty.isUnion'] at hu
        simp only [sizeL, Ty.size]; omega
      · have : ∃ t ∈ as, t.isUnion' = true := by
          obtain ⟨t, ht, htu⟩ := h
          rcases List.mem_cons.mp ht with rfl | ht
          · exact absurd htu hu
          · exact ⟨t, ht, htu⟩
        have ih := sizeL_flat1_lt as this
        simp only [flat1] at ih
        cases a <;> first | (simp [Ty.isUnion'] at hu; done) | (simp only [sizeL, Ty.size, Nat.add_zero]; omega)

theorem flat1_of_no_union : ∀ l : List Ty, (∀ t ∈ l, t.isUnion' = false) → flat1 l = l
  | [], _ => rfl
  | a :: as, h => by
      have ih := flat1_of_no_union as (fun t ht => h t (List.mem_cons_of_mem _ ht))
      have ha := h a (List.mem_cons_self ..)
      simp only [flat1, List.flatMap_cons] at ih ⊢
      rw [ih]
      cases a <;> simp_all [Ty.isUnion']

/-! ### normal unions -/

theorem normalL_iff (ts : List Ty) : normalL ts = true ↔ ∀ t ∈ ts, t.normal = true := by
  induction ts with
  | nil => simp [normalL]
  | cons t ts ih => simp [normalL, ih]

theorem normalF_iff (fs : List (String × Ty)) : normalF fs = true ↔ ∀ kt ∈ fs, kt.2.normal = true := by
  induction fs with
  | nil => simp [normalF]
  | cons kt fs ih => obtain ⟨k, t⟩ := kt; simp [normalF, ih]

/-- the members of a normal union are not unions -/
theorem normal_union_members (us : List Ty) (h : (Ty.union us).normal = true) : ∀ t ∈ us, t.isUnion' = false := by
  simp only [Ty.normal, Bool.and_eq_true] at h
  have heq := Ty.beq'_eq _ _ h.2
  intro t ht
  cases hu : t.isUnion' with
  | false => rfl
  | true =>
    exfalso
    have hlt := sizeL_flat1_lt us ⟨t, ht, hu⟩
    have hle := sizeL_dedupBy_le (flat1 us)
    unfold mkUnion at heq
    split at heq
    · next x hx =>
      -- the singleton case: `x = .union us` would be a member of the flattened list, which is smaller
      have hxm : x ∈ flat1 us := dedupBy_subset _ _ x (by rw [hx]; simp)
      have := mem_size_le x _ hxm
      rw [heq] at this
      simp only [Ty.size] at this
      omega
    · have : dedupBy Ty.eqv (flat1 us) = us := by injection heq
      rw [this] at hle
      omega

theorem mem_flat1_normal (ts : List Ty) (hn : ∀ t ∈ ts, t.normal = true) :
    ∀ x ∈ flat1 ts, x.normal = true ∧ x.isUnion' = false := by
  intro x hx
  simp only [flat1, List.mem_flatMap] at hx
  obtain ⟨t, ht, hxt⟩ := hx
  have htn := hn t ht
  cases t with
  | union us =>
    simp only at hxt
    have hm := normal_union_members us htn x hxt
    simp only [Ty.normal, Bool.and_eq_true] at htn
    exact ⟨(normalL_iff us).mp htn.1 x hxt, hm⟩
  | _ => simp only [List.mem_singleton] at hxt; subst hxt; exact ⟨htn, rfl⟩

/-- `typing.Union[...]` of normal types is normal -/
theorem mkUnion_normal (ts : List Ty) (hn : ∀ t ∈ ts, t.normal = true) : (mkUnion ts).normal = true := by
  have hL := mem_flat1_normal ts hn
  have hD : ∀ x ∈ dedupBy Ty.eqv (flat1 ts), x.normal = true ∧ x.isUnion' = false :=
    fun x hx => hL x (dedupBy_subset _ _ x hx)
  unfold mkUnion
  split
  · next t ht => exact (hD t (by rw [ht]; simp)).1
  · next hns =>
    simp only [Ty.normal, Bool.and_eq_true]
    refine ⟨(normalL_iff _).mpr (fun x hx => (hD x hx).1), ?_⟩
    have hflat : flat1 (dedupBy Ty.eqv (flat1 ts)) = dedupBy Ty.eqv (flat1 ts) :=
      flat1_of_no_union _ (fun x hx => (hD x hx).2)
    have : mkUnion (dedupBy Ty.eqv (flat1 ts)) = .union (dedupBy Ty.eqv (flat1 ts)) := by
      unfold mkUnion
      rw [hflat, dedupBy_idem]
      split
      · next t ht => exact absurd ht (hns t)
      · rfl
    rw [this]
    exact Ty.beq'_refl _

end MT

namespace MT

/-! ### everything inference builds is normal -/

mutual
theorem tdToDict_normal : ∀ t : Ty, t.normal = true → (tdToDict t).normal = true
  | .any, _ => by simp [tdToDict, Ty.normal]
  | .cls _, _ => by simp [tdToDict, Ty.normal]
  | .typeOf _, _ => by simp [tdToDict, Ty.normal]
  | .callable, _ => by simp [tdToDict, Ty.normal]
  | .list a, h => by simp only [Ty.normal] at h; simp only [tdToDict, Ty.normal]; exact tdToDict_normal a h
  | .set a, h => by simp only [Ty.normal] at h; simp only [tdToDict, Ty.normal]; exact tdToDict_normal a h
  | .tupleOf a, h => by simp only [Ty.normal] at h; simp only [tdToDict, Ty.normal]; exact tdToDict_normal a h
  | .iterator a, h => by simp only [Ty.normal] at h; simp only [tdToDict, Ty.normal]; exact tdToDict_normal a h
  | .dict a b, h => by
      simp only [Ty.normal, Bool.and_eq_true] at h
      simp only [tdToDict, Ty.normal, Bool.and_eq_true]; exact ⟨tdToDict_normal a h.1, tdToDict_normal b h.2⟩
  | .ddict a b, h => by
      simp only [Ty.normal, Bool.and_eq_true] at h
      simp only [tdToDict, Ty.normal, Bool.and_eq_true]; exact ⟨tdToDict_normal a h.1, tdToDict_normal b h.2⟩
  | .generator a b c, h => by
      simp only [Ty.normal, Bool.and_eq_true] at h
      simp only [tdToDict, Ty.normal, Bool.and_eq_true]
      exact ⟨⟨tdToDict_normal a h.1.1, tdToDict_normal b h.1.2⟩, tdToDict_normal c h.2⟩
  | .tuple ts, h => by
      simp only [Ty.normal] at h
      simp only [tdToDict, Ty.normal]
      exact (normalL_iff _).mpr (tdToDictL_normal ts h)
  | .union ts, h => by
      simp only [Ty.normal, Bool.and_eq_true] at h
      simp only [tdToDict]
      exact mkUnion_normal _ (tdToDictL_normal ts h.1)
  | .td r o, h => by
      simp only [Ty.normal, Bool.and_eq_true] at h
      simp only [tdToDict]
      split
      · simp [Ty.normal]
      · simp only [Ty.normal, Bool.true_and]
        apply mkUnion_normal
        intro t ht
        rcases List.mem_append.mp ht with ht | ht
        · exact tdToDictF_normal r h.1 t ht
        · exact tdToDictF_normal o h.2 t ht
theorem tdToDictL_normal : ∀ ts : List Ty, normalL ts = true → ∀ t ∈ tdToDictL ts, t.normal = true
  | [], _, t, ht => by simp [tdToDictL] at ht
  | a :: as, h, t, ht => by
      simp only [normalL, Bool.and_eq_true] at h
      simp only [tdToDictL, List.mem_cons] at ht
      rcases ht with heq | ht
      · rw [heq]; exact tdToDict_normal a h.1
      · exact tdToDictL_normal as h.2 t ht
theorem tdToDictF_normal : ∀ fs : List (String × Ty), normalF fs = true → ∀ t ∈ tdToDictF fs, t.normal = true
  | [], _, t, ht => by simp [tdToDictF] at ht
  | (_, a) :: fs, h, t, ht => by
      simp only [normalF, Bool.and_eq_true] at h
      simp only [tdToDictF, List.mem_cons] at ht
      rcases ht with heq | ht
      · rw [heq]; exact tdToDict_normal a h.1
      · exact tdToDictF_normal fs h.2 t ht
end

theorem reqF_normal (t : Ty) (h : t.normal = true) : ∀ kt ∈ t.reqF, kt.2.normal = true := by
  cases t <;> simp [Ty.reqF]
  rename_i r o
  simp only [Ty.normal, Bool.and_eq_true] at h
  intro a b hab; exact (normalF_iff r).mp h.1 (a, b) hab

theorem optF_normal (t : Ty) (h : t.normal = true) : ∀ kt ∈ t.optF, kt.2.normal = true := by
  cases t <;> simp [Ty.optF]
  rename_i r o
  simp only [Ty.normal, Bool.and_eq_true] at h
  intro a b hab; exact (normalF_iff o).mp h.2 (a, b) hab

theorem lookupF_normal (s : String) (fs : List (String × Ty)) (u : Ty) (h : lookupF s fs = some u)
    (hn : ∀ kt ∈ fs, kt.2.normal = true) : u.normal = true := hn (s, u) (lookupF_mem s fs u h)

theorem reqVals_normal (s : String) (ts : List Ty) (h : ∀ t ∈ ts, t.normal = true) :
    ∀ t ∈ reqVals s ts ++ optVals s ts, t.normal = true := by
  intro t ht
  simp only [reqVals, optVals, List.mem_append, List.mem_filterMap] at ht
  rcases ht with ⟨u, hu, hl⟩ | ⟨u, hu, hl⟩
  · exact lookupF_normal s _ t hl (reqF_normal u (h u hu))
  · exact lookupF_normal s _ t hl (optF_normal u (h u hu))

theorem allVals_normal (ts : List Ty) (h : ∀ t ∈ ts, t.normal = true) : ∀ t ∈ allVals ts, t.normal = true := by
  intro t ht
  simp only [allVals, List.mem_flatMap, List.mem_map, List.mem_append] at ht
  obtain ⟨u, hu, kt, hkt, rfl⟩ := ht
  rcases hkt with hkt | hkt
  · exact reqF_normal u (h u hu) kt hkt
  · exact optF_normal u (h u hu) kt hkt

theorem shrink_normal (k : Nat) (ts : List Ty) : (∀ t ∈ ts, t.normal = true) → (shrink k ts).normal = true := by
  fun_induction shrink k ts with
  | case1 => intro _; simp [Ty.normal]
  | case2 t0 rest hall hbig ih =>
    intro h
    simp only [Ty.normal, Bool.true_and]
    exact ih (allVals_normal _ h)
  | case3 t0 rest hall hsmall ih1 =>
    intro h
    simp only [Ty.normal, Bool.and_eq_true]
    constructor
    · rw [normalF_iff]; intro kt hkt
      obtain ⟨s, _, rfl⟩ := List.mem_map.mp hkt
      exact ih1 s (reqVals_normal s _ h)
    · rw [normalF_iff]; intro kt hkt
      obtain ⟨s, _, rfl⟩ := List.mem_map.mp hkt
      exact ih1 s (reqVals_normal s _ h)
  | case4 t0 rest hnall heq => intro h; exact h t0 (List.mem_cons_self ..)
  | case5 t0 rest hnall hneq hlist ih =>
    intro h
    simp only [Ty.normal]
    apply ih
    intro t ht
    obtain ⟨u, hu, rfl⟩ := List.mem_map.mp ht
    have := h u hu
    cases u <;> simp_all [Ty.listArg, Ty.normal]
  | case6 t0 rest hnall hneq hnlist =>
    intro h
    apply mkUnion_normal
    intro t ht
    obtain ⟨u, hu, rfl⟩ := List.mem_map.mp ht
    exact tdToDict_normal u (h u hu)

mutual
theorem getType_normal (k : Nat) : ∀ v : Val, (getType k v).normal = true
  | .inst c => by simp [getType, Ty.normal]
  | .str s => by simp [getType, Ty.normal]
  | .classObj c => by simp [getType, Ty.normal]
  | .func => by simp [getType, Ty.normal]
  | .genObj => by simp [getType, Ty.normal]
  | .list vs => by simp only [getType, Ty.normal]; exact shrink_normal k _ (getTypes_normal k vs)
  | .set vs => by simp only [getType, Ty.normal]; exact shrink_normal k _ (getTypes_normal k vs)
  | .tuple vs => by simp only [getType, Ty.normal]; exact (normalL_iff _).mpr (getTypes_normal k vs)
  | .ddict kvs => by
      simp only [getType, Ty.normal, Bool.and_eq_true]
      exact ⟨shrink_normal k _ (getKeyTypes_normal k kvs), shrink_normal k _ (getValTypes_normal k kvs)⟩
  | .dict kvs => by
      cases kvs with
      | nil => simp [getType, Ty.normal]
      | cons kv0 kvs0 =>
        simp only [getType]
        split
        · simp only [Ty.normal, normalF, Bool.and_true]
          exact (normalF_iff _).mpr (getFields_normal k _)
        · simp only [Ty.normal, Bool.and_eq_true]
          exact ⟨shrink_normal k _ (getKeyTypes_normal k _), shrink_normal k _ (getValTypes_normal k _)⟩
theorem getTypes_normal (k : Nat) : ∀ vs : List Val, ∀ t ∈ getTypes k vs, t.normal = true
  | [], t, ht => by simp [getTypes] at ht
  | v0 :: vs, t, ht => by
      simp only [getTypes, List.mem_cons] at ht
      rcases ht with heq | ht
      · rw [heq]; exact getType_normal k v0
      · exact getTypes_normal k vs t ht
theorem getKeyTypes_normal (k : Nat) : ∀ kvs : List (Val × Val), ∀ t ∈ getKeyTypes k kvs, t.normal = true
  | [], t, ht => by simp [getKeyTypes] at ht
  | (a, b) :: kvs, t, ht => by
      simp only [getKeyTypes, List.mem_cons] at ht
      rcases ht with heq | ht
      · rw [heq]; exact getType_normal k a
      · exact getKeyTypes_normal k kvs t ht
theorem getValTypes_normal (k : Nat) : ∀ kvs : List (Val × Val), ∀ t ∈ getValTypes k kvs, t.normal = true
  | [], t, ht => by simp [getValTypes] at ht
  | (a, b) :: kvs, t, ht => by
      simp only [getValTypes, List.mem_cons] at ht
      rcases ht with heq | ht
      · rw [heq]; exact getType_normal k b
      · exact getValTypes_normal k kvs t ht
theorem getFields_normal (k : Nat) : ∀ kvs : List (Val × Val), ∀ kt ∈ getFields k kvs, kt.2.normal = true
  | [], t, ht => by simp [getFields] at ht
  | (a, b) :: kvs, t, ht => by
      simp only [getFields, List.mem_cons] at ht
      rcases ht with heq | ht
      · rw [heq]; exact getType_normal k b
      · exact getFields_normal k kvs t ht
end

theorem infer_normal (k : Nat) (vs : List Val) : (infer k vs).normal = true :=
  shrink_normal k _ (getTypes_normal k vs)

end MT
