/-
  Lemmas/PlainUnions.lean — in everything inference builds, the members of a union are TypedDict-free
  (`shrink_types` turns TypedDicts into `Dict[str, …]` before it builds a union).
-/
import MTVerif.Lemmas.Normal
import MTVerif.Lemmas.TdSize
namespace MT

mutual
/-- every union node has only TypedDict-free members -/
def Ty.plainUnions : Ty → Bool
  | .list t | .set t | .tupleOf t | .iterator t => t.plainUnions
  | .dict a b | .ddict a b => a.plainUnions && b.plainUnions
  | .generator a b c => a.plainUnions && b.plainUnions && c.plainUnions
  | .tuple ts => plainUnionsL ts
  | .union ts => !hasTDL ts
  | .td r o => plainUnionsF r && plainUnionsF o
  | _ => true
def plainUnionsL : List Ty → Bool
  | [] => true
  | t :: ts => t.plainUnions && plainUnionsL ts
def plainUnionsF : List (String × Ty) → Bool
  | [] => true
  | (_, t) :: fs => t.plainUnions && plainUnionsF fs
end

theorem plainUnionsL_iff (ts : List Ty) : plainUnionsL ts = true ↔ ∀ t ∈ ts, t.plainUnions = true := by
  induction ts with
  | nil => simp [plainUnionsL]
  | cons t ts ih => simp [plainUnionsL, ih]

theorem plainUnionsF_iff (fs : List (String × Ty)) : plainUnionsF fs = true ↔ ∀ kt ∈ fs, kt.2.plainUnions = true := by
  induction fs with
  | nil => simp [plainUnionsF]
  | cons kt fs ih => obtain ⟨k, t⟩ := kt; simp [plainUnionsF, ih]

mutual
theorem noTD_plainUnions : ∀ t : Ty, t.hasTD = false → t.plainUnions = true
  | .any, _ => rfl
  | .cls _, _ => rfl
  | .typeOf _, _ => rfl
  | .callable, _ => rfl
  | .list a, h => by simp only [Ty.hasTD] at h; simp only [Ty.plainUnions]; exact noTD_plainUnions a h
  | .set a, h => by simp only [Ty.hasTD] at h; simp only [Ty.plainUnions]; exact noTD_plainUnions a h
  | .tupleOf a, h => by simp only [Ty.hasTD] at h; simp only [Ty.plainUnions]; exact noTD_plainUnions a h
  | .iterator a, h => by simp only [Ty.hasTD] at h; simp only [Ty.plainUnions]; exact noTD_plainUnions a h
  | .dict a b, h => by
      simp only [Ty.hasTD, Bool.or_eq_false_iff] at h
      simp only [Ty.plainUnions, Bool.and_eq_true]; exact ⟨noTD_plainUnions a h.1, noTD_plainUnions b h.2⟩
  | .ddict a b, h => by
      simp only [Ty.hasTD, Bool.or_eq_false_iff] at h
      simp only [Ty.plainUnions, Bool.and_eq_true]; exact ⟨noTD_plainUnions a h.1, noTD_plainUnions b h.2⟩
  | .generator a b c, h => by
      simp only [Ty.hasTD, Bool.or_eq_false_iff] at h
      simp only [Ty.plainUnions, Bool.and_eq_true]
      exact ⟨⟨noTD_plainUnions a h.1.1, noTD_plainUnions b h.1.2⟩, noTD_plainUnions c h.2⟩
  | .tuple ts, h => by simp only [Ty.hasTD] at h; simp only [Ty.plainUnions]; exact noTDL_plainUnions ts h
  | .union ts, h => by simp only [Ty.hasTD] at h; simp only [Ty.plainUnions, h, Bool.not_false]
  | .td _ _, h => by simp [Ty.hasTD] at h
theorem noTDL_plainUnions : ∀ ts : List Ty, hasTDL ts = false → plainUnionsL ts = true
  | [], _ => rfl
  | t :: ts, h => by
      simp only [hasTDL, Bool.or_eq_false_iff] at h
      simp only [plainUnionsL, Bool.and_eq_true]; exact ⟨noTD_plainUnions t h.1, noTDL_plainUnions ts h.2⟩
end

theorem reqF_plain (t : Ty) (h : t.plainUnions = true) : ∀ kt ∈ t.reqF, kt.2.plainUnions = true := by
  cases t <;> simp [Ty.reqF]
  rename_i r o
  simp only [Ty.plainUnions, Bool.and_eq_true] at h
  intro a b hab; exact (plainUnionsF_iff r).mp h.1 (a, b) hab

theorem optF_plain (t : Ty) (h : t.plainUnions = true) : ∀ kt ∈ t.optF, kt.2.plainUnions = true := by
  cases t <;> simp [Ty.optF]
  rename_i r o
  simp only [Ty.plainUnions, Bool.and_eq_true] at h
  intro a b hab; exact (plainUnionsF_iff o).mp h.2 (a, b) hab

theorem reqVals_plain (s : String) (ts : List Ty) (h : ∀ t ∈ ts, t.plainUnions = true) :
    ∀ t ∈ reqVals s ts ++ optVals s ts, t.plainUnions = true := by
  intro t ht
  simp only [reqVals, optVals, List.mem_append, List.mem_filterMap] at ht
  rcases ht with ⟨u, hu, hl⟩ | ⟨u, hu, hl⟩
  · exact reqF_plain u (h u hu) (s, t) (lookupF_mem s _ t hl)
  · exact optF_plain u (h u hu) (s, t) (lookupF_mem s _ t hl)

theorem allVals_plain (ts : List Ty) (h : ∀ t ∈ ts, t.plainUnions = true) : ∀ t ∈ allVals ts, t.plainUnions = true := by
  intro t ht
  simp only [allVals, List.mem_flatMap, List.mem_map, List.mem_append] at ht
  obtain ⟨u, hu, kt, hkt, rfl⟩ := ht
  rcases hkt with hkt | hkt
  · exact reqF_plain u (h u hu) kt hkt
  · exact optF_plain u (h u hu) kt hkt

theorem shrink_plain (k : Nat) (ts : List Ty) : (∀ t ∈ ts, t.plainUnions = true) → (shrink k ts).plainUnions = true := by
  fun_induction shrink k ts with
  | case1 => intro _; rfl
  | case2 t0 rest hall hbig ih =>
    intro h
    simp only [Ty.plainUnions, Bool.true_and]
    exact ih (allVals_plain _ h)
  | case3 t0 rest hall hsmall ih1 =>
    intro h
    simp only [Ty.plainUnions, Bool.and_eq_true]
    constructor
    · rw [plainUnionsF_iff]; intro kt hkt
      obtain ⟨s, _, rfl⟩ := List.mem_map.mp hkt
      exact ih1 s (reqVals_plain s _ h)
    · rw [plainUnionsF_iff]; intro kt hkt
      obtain ⟨s, _, rfl⟩ := List.mem_map.mp hkt
      exact ih1 s (reqVals_plain s _ h)
  | case4 t0 rest hnall heq => intro h; exact h t0 (List.mem_cons_self ..)
  | case5 t0 rest hnall hneq hlist ih =>
    intro h
    simp only [Ty.plainUnions]
    apply ih
    intro t ht
    obtain ⟨u, hu, rfl⟩ := List.mem_map.mp ht
    have := h u hu
    cases u <;> simp_all [Ty.listArg, Ty.plainUnions]
  | case6 t0 rest hnall hneq hnlist =>
    intro _
    apply noTD_plainUnions
    apply mkUnion_noTD
    intro t ht
    obtain ⟨u, _, rfl⟩ := List.mem_map.mp ht
    exact tdToDict_noTD u

mutual
theorem getType_plain (k : Nat) : ∀ v : Val, (getType k v).plainUnions = true
  | .inst c => by simp [getType, Ty.plainUnions]
  | .str s => by simp [getType, Ty.plainUnions]
  | .classObj c => by simp [getType, Ty.plainUnions]
  | .func => by simp [getType, Ty.plainUnions]
  | .genObj => by simp [getType, Ty.plainUnions]
  | .list vs => by simp only [getType, Ty.plainUnions]; exact shrink_plain k _ (getTypes_plain k vs)
  | .set vs => by simp only [getType, Ty.plainUnions]; exact shrink_plain k _ (getTypes_plain k vs)
  | .tuple vs => by simp only [getType, Ty.plainUnions]; exact (plainUnionsL_iff _).mpr (getTypes_plain k vs)
  | .ddict kvs => by
      simp only [getType, Ty.plainUnions, Bool.and_eq_true]
      exact ⟨shrink_plain k _ (getKeyTypes_plain k kvs), shrink_plain k _ (getValTypes_plain k kvs)⟩
  | .dict kvs => by
      cases kvs with
      | nil => simp [getType, Ty.plainUnions]
      | cons kv0 kvs0 =>
        simp only [getType]
        split
        · simp only [Ty.plainUnions, plainUnionsF, Bool.and_true]
          exact (plainUnionsF_iff _).mpr (getFields_plain k _)
        · simp only [Ty.plainUnions, Bool.and_eq_true]
          exact ⟨shrink_plain k _ (getKeyTypes_plain k _), shrink_plain k _ (getValTypes_plain k _)⟩
theorem getTypes_plain (k : Nat) : ∀ vs : List Val, ∀ t ∈ getTypes k vs, t.plainUnions = true
  | [], t, ht => by simp [getTypes] at ht
  | v0 :: vs, t, ht => by
      simp only [getTypes, List.mem_cons] at ht
      rcases ht with heq | ht
      · rw [heq]; exact getType_plain k v0
      · exact getTypes_plain k vs t ht
theorem getKeyTypes_plain (k : Nat) : ∀ kvs : List (Val × Val), ∀ t ∈ getKeyTypes k kvs, t.plainUnions = true
  | [], t, ht => by simp [getKeyTypes] at ht
  | (a, b) :: kvs, t, ht => by
      simp only [getKeyTypes, List.mem_cons] at ht
      rcases ht with heq | ht
      · rw [heq]; exact getType_plain k a
      · exact getKeyTypes_plain k kvs t ht
theorem getValTypes_plain (k : Nat) : ∀ kvs : List (Val × Val), ∀ t ∈ getValTypes k kvs, t.plainUnions = true
  | [], t, ht => by simp [getValTypes] at ht
  | (a, b) :: kvs, t, ht => by
      simp only [getValTypes, List.mem_cons] at ht
      rcases ht with heq | ht
      · rw [heq]; exact getType_plain k b
      · exact getValTypes_plain k kvs t ht
theorem getFields_plain (k : Nat) : ∀ kvs : List (Val × Val), ∀ kt ∈ getFields k kvs, kt.2.plainUnions = true
  | [], t, ht => by simp [getFields] at ht
  | (a, b) :: kvs, t, ht => by
      simp only [getFields, List.mem_cons] at ht
      rcases ht with heq | ht
      · rw [heq]; exact getType_plain k b
      · exact getFields_plain k kvs t ht
end

end MT
