/-
  Lemmas/Provided.lean — "every name used anywhere in a stub is provided": every dotted name a rendered annotation mentions is a
  keyword / builtin, a `typing` name that `get_imports_for_annotation` lists, or the dotted path of a class whose module and
  root name it lists; every quoted forward reference is the name of a class generated for the same type.
-/
import MTVerif.Model.TDStub
import MTVerif.Lemmas.EvalAnno
import MTVerif.Lemmas.EvalTD
namespace MT.Render
open MT

mutual
/-- the dotted names of an annotation expression -/
def namesE : Expr → List (List String)
  | .name ps => [ps]
  | .str _ => []
  | .emptyTuple => []
  | .app h as => namesE h ++ namesL as
def namesL : List Expr → List (List String)
  | [] => []
  | e :: es => namesE e ++ namesL es
end

mutual
/-- the quoted forward references of an annotation expression -/
def refsE : Expr → List String
  | .name _ => []
  | .str s => [s]
  | .emptyTuple => []
  | .app h as => refsE h ++ refsL as
def refsL : List Expr → List String
  | [] => []
  | e :: es => refsE e ++ refsL es
end

/-- what provides a dotted name: `None` / `Ellipsis` are builtins; a typing name is imported from typing; a class is a builtin or
    its module and the root of its qualified name are imported (`from m import Root`; the name as rendered is `m.Root.….C`, the
    prefix `m.` being stripped afterwards - C11's evaluator) -/
def Provided (nm : Names) (imps : List (String × String)) (ps : List String) : Prop :=
  ps = ["None"] ∨ ps = ["Ellipsis"] ∨ (∃ n, ps = [n] ∧ ("typing", n) ∈ imps) ∨
  (∃ c, ps = clsParts nm c ∧ ((nm.cls c).1 = "builtins" ∨ ((nm.cls c).1, (dotted (nm.cls c).2).headD (nm.cls c).2) ∈ imps))

theorem Provided.mono (nm : Names) (a b : List (String × String)) (h : ∀ i ∈ a, i ∈ b) (ps : List String) :
    Provided nm a ps → Provided nm b ps := by
  rintro (h1 | h1 | ⟨n, h1, h2⟩ | ⟨c, h1, h2 | h2⟩)
  · exact Or.inl h1
  · exact Or.inr (Or.inl h1)
  · exact Or.inr (Or.inr (Or.inl ⟨n, h1, h _ h2⟩))
  · exact Or.inr (Or.inr (Or.inr ⟨c, h1, Or.inl h2⟩))
  · exact Or.inr (Or.inr (Or.inr ⟨c, h1, Or.inr (h _ h2)⟩))

theorem provided_cls (nm : Names) (c : ClassId) : Provided nm (clsImport nm c) (clsParts nm c) := by
  refine Or.inr (Or.inr (Or.inr ⟨c, rfl, ?_⟩))
  unfold clsImport
  by_cases hb : (nm.cls c).1 = "builtins"
  · exact Or.inl hb
  · right
    have : ((nm.cls c).1 == "builtins") = false := by simpa using hb
    simp [this]

theorem provided_typing (nm : Names) (imps : List (String × String)) (n : String) (h : ("typing", n) ∈ imps) : Provided nm imps [n] :=
  Or.inr (Or.inr (Or.inl ⟨n, rfl, h⟩))

section
variable (nm : Names)

theorem importsNonNone_sub : ∀ (ts : List Ty) (i : String × String), i ∈ importsNonNone nm ts → i ∈ importsL nm ts
  | [], _, h => by simp [importsNonNone] at h
  | t :: ts, i, h => by
      simp only [importsL, List.mem_append]
      by_cases hn : isNoneTy t = true
      · simp only [importsNonNone, hn, ↓reduceIte] at h
        exact Or.inr (importsNonNone_sub ts i h)
      · simp only [Bool.not_eq_true] at hn
        simp only [importsNonNone, hn, Bool.false_eq_true, ↓reduceIte, List.mem_append] at h
        rcases h with h | h
        · exact Or.inl h
        · exact Or.inr (importsNonNone_sub ts i h)

mutual
/-- every dotted name of the rendered annotation of `t` is provided by `get_imports_for_annotation(t)` (fields of generated
    classes included in the import list, forward references excluded from the names) -/
theorem names_provided : ∀ (hint : String) (t : Ty), ∀ ps ∈ namesE (renderT nm hint t), Provided nm (importsOf nm t) ps
  | _, .any, ps, h => by
      simp only [renderT, namesE, List.mem_singleton] at h; subst h
      exact provided_typing nm _ "Any" (by simp [importsOf])
  | _, .callable, ps, h => by
      simp only [renderT, namesE, List.mem_singleton] at h; subst h
      exact provided_typing nm _ "Callable" (by simp [importsOf])
  | _, .cls c, ps, h => by
      simp only [renderT, clsExpr_eq, namesE, List.mem_singleton] at h; subst h
      simpa [importsOf] using provided_cls nm c
  | _, .typeOf c, ps, h => by
      simp only [renderT, clsExpr_eq, namesE, namesL, List.mem_append, List.mem_singleton, List.append_nil, List.mem_cons,
        List.not_mem_nil, or_false] at h
      rcases h with rfl | rfl
      · exact provided_typing nm _ "Type" (by simp [importsOf])
      · exact Provided.mono nm _ _ (by intro i hi; simp [importsOf, hi]) _ (provided_cls nm c)
  | hint, .list a, ps, h => by
      simp only [renderT, namesE, namesL, List.mem_append, List.mem_singleton, List.append_nil, List.mem_cons, List.not_mem_nil, or_false] at h
      rcases h with rfl | h
      · exact provided_typing nm _ "List" (by simp [importsOf])
      · exact Provided.mono nm _ _ (by intro i hi; simp [importsOf, hi]) _ (names_provided hint a ps h)
  | hint, .set a, ps, h => by
      simp only [renderT, namesE, namesL, List.mem_append, List.mem_singleton, List.append_nil, List.mem_cons, List.not_mem_nil, or_false] at h
      rcases h with rfl | h
      · exact provided_typing nm _ "Set" (by simp [importsOf])
      · exact Provided.mono nm _ _ (by intro i hi; simp [importsOf, hi]) _ (names_provided hint a ps h)
  | hint, .iterator a, ps, h => by
      simp only [renderT, namesE, namesL, List.mem_append, List.mem_singleton, List.append_nil, List.mem_cons, List.not_mem_nil, or_false] at h
      rcases h with rfl | h
      · exact provided_typing nm _ "Iterator" (by simp [importsOf])
      · exact Provided.mono nm _ _ (by intro i hi; simp [importsOf, hi]) _ (names_provided hint a ps h)
  | hint, .tupleOf a, ps, h => by
      simp only [renderT, namesE, namesL, List.mem_append, List.mem_singleton, List.append_nil, List.mem_cons, List.not_mem_nil, or_false] at h
      rcases h with rfl | h | rfl
      · exact provided_typing nm _ "Tuple" (by simp [importsOf])
      · exact Provided.mono nm _ _ (by intro i hi; simp [importsOf, hi]) _ (names_provided hint a ps h)
      · exact Or.inr (Or.inl rfl)
  | hint, .dict a b, ps, h => by
      simp only [renderT, namesE, namesL, List.mem_append, List.mem_singleton, List.append_nil, List.mem_cons, List.not_mem_nil, or_false] at h
      rcases h with rfl | h | h
      · exact provided_typing nm _ "Dict" (by simp [importsOf])
      · exact Provided.mono nm _ _ (by intro i hi; simp [importsOf, hi]) _ (names_provided hint a ps h)
      · exact Provided.mono nm _ _ (by intro i hi; simp [importsOf, hi]) _ (names_provided _ b ps h)
  | hint, .ddict a b, ps, h => by
      simp only [renderT, namesE, namesL, List.mem_append, List.mem_singleton, List.append_nil, List.mem_cons, List.not_mem_nil, or_false] at h
      rcases h with rfl | h | h
      · exact provided_typing nm _ "DefaultDict" (by simp [importsOf])
      · exact Provided.mono nm _ _ (by intro i hi; simp [importsOf, hi]) _ (names_provided hint a ps h)
      · exact Provided.mono nm _ _ (by intro i hi; simp [importsOf, hi]) _ (names_provided _ b ps h)
  | hint, .generator a b c, ps, h => by
      simp only [renderT, namesE, namesL, List.mem_append, List.mem_singleton, List.append_nil, List.mem_cons, List.not_mem_nil, or_false] at h
      rcases h with rfl | h | h | h
      · exact provided_typing nm _ "Generator" (by simp [importsOf])
      · exact Provided.mono nm _ _ (by intro i hi; simp [importsOf, hi]) _ (names_provided hint a ps h)
      · exact Provided.mono nm _ _ (by intro i hi; simp [importsOf, hi]) _ (names_provided _ b ps h)
      · exact Provided.mono nm _ _ (by intro i hi; simp [importsOf, hi]) _ (names_provided _ c ps h)
  | hint, .tuple ts, ps, h => by
      cases ts with
      | nil =>
        simp only [renderT, namesE, namesL, List.mem_append, List.mem_singleton, List.append_nil, List.not_mem_nil, or_false] at h
        subst h
        exact provided_typing nm _ "Tuple" (by simp [importsOf])
      | cons t0 rest =>
        simp only [renderT, namesE, List.mem_append, List.mem_singleton] at h
        rcases h with rfl | h
        · exact provided_typing nm _ "Tuple" (by simp [importsOf])
        · exact Provided.mono nm _ _ (by intro i hi; simp [importsOf, hi]) _ (names_providedL hint 0 (t0 :: rest) ps h)
  | hint, .union ts, ps, h => by
      by_cases hnone : ts.any isNoneTy = true
      · simp only [renderT, hnone, ↓reduceIte] at h
        have hsub : ∀ i ∈ importsL nm ts, i ∈ importsOf nm (.union ts) → True := fun _ _ _ => trivial
        have hmono : ∀ q, Provided nm (importsNonNone nm ts) q → Provided nm (importsOf nm (.union ts)) q := by
          intro q
          apply Provided.mono
          intro i hi
          simp [importsOf, hnone, hi]
        split at h
        · next e he =>
          simp only [namesE, namesL, List.mem_append, List.mem_singleton, List.append_nil] at h
          rcases h with rfl | h
          · exact provided_typing nm _ "Optional" (by simp [importsOf, hnone])
          · apply hmono
            apply names_providedNN hint 0 ts ps
            rw [he]; simpa [namesL] using h
        · next hne =>
          simp only [namesE, namesL, List.mem_append, List.mem_singleton, List.append_nil] at h
          rcases h with rfl | rfl | h
          · exact provided_typing nm _ "Optional" (by simp [importsOf, hnone])
          · apply provided_typing nm _ "Union"
            have hlen : ¬ (ts.filter (fun t => !isNoneTy t)).length = 1 := by
              intro h1
              have := renderTNN_length nm hint 0 ts
              rw [h1] at this
              obtain ⟨e, he⟩ := List.length_eq_one_iff.mp this
              exact hne e he
            simp [importsOf, hnone, hlen]
          · exact hmono _ (names_providedNN hint 0 ts ps h)
      · simp only [Bool.not_eq_true] at hnone
        simp only [renderT, hnone, Bool.false_eq_true, ↓reduceIte, namesE, List.mem_append, List.mem_singleton] at h
        rcases h with rfl | h
        · exact provided_typing nm _ "Union" (by simp [importsOf, hnone])
        · exact Provided.mono nm _ _ (by intro i hi; simp [importsOf, hnone, hi]) _ (names_providedL hint 0 ts ps h)
  | _, .td _ _, ps, h => by simp [renderT, namesE] at h
theorem names_providedL : ∀ (hint : String) (i : Nat) (ts : List Ty), ∀ ps ∈ namesL (renderTL nm hint i ts), Provided nm (importsL nm ts) ps
  | _, _, [], ps, h => by simp [renderTL, namesL] at h
  | hint, i, t :: ts, ps, h => by
      simp only [renderTL, namesL, List.mem_append] at h
      rcases h with h | h
      · exact Provided.mono nm _ _ (by intro j hj; simp [importsL, hj]) _ (names_provided _ t ps h)
      · exact Provided.mono nm _ _ (by intro j hj; simp [importsL, hj]) _ (names_providedL hint (i + 1) ts ps h)
theorem names_providedNN : ∀ (hint : String) (i : Nat) (ts : List Ty), ∀ ps ∈ namesL (renderTNN nm hint i ts),
    Provided nm (importsNonNone nm ts) ps
  | _, _, [], ps, h => by simp [renderTNN, namesL] at h
  | hint, i, t :: ts, ps, h => by
      by_cases hn : isNoneTy t = true
      · simp only [renderTNN, hn, ↓reduceIte] at h
        simpa [importsNonNone, hn] using names_providedNN hint (i + 1) ts ps h
      · simp only [Bool.not_eq_true] at hn
        simp only [renderTNN, hn, Bool.false_eq_true, ↓reduceIte, namesL, List.mem_append] at h
        rcases h with h | h
        · exact Provided.mono nm _ _ (by intro j hj; simp [importsNonNone, hn, hj]) _ (names_provided _ t ps h)
        · exact Provided.mono nm _ _ (by intro j hj; simp [importsNonNone, hn, hj]) _ (names_providedNN hint (i + 1) ts ps h)
end

end

section
variable (nm : Names) (sm : Ty → List (List String))

def classNames (cs : List ClassDef) : List String := cs.map (·.name)

theorem classNames_append (a b : List ClassDef) : classNames (a ++ b) = classNames a ++ classNames b := by simp [classNames]

mutual
/-- every quoted forward reference of the rendered annotation of `t` is the name of a class generated for `t` -/
theorem refs_generated (k : Nat) : ∀ (hint : String) (t : Ty), t.tdOk k = true →
    ∀ s ∈ refsE (renderT nm hint t), s ∈ classNames (classesT nm sm hint t)
  | _, .any, _, s, h | _, .callable, _, s, h => by simp [renderT, refsE] at h
  | _, .cls c, _, s, h => by simp [renderT, clsExpr_eq, refsE] at h
  | _, .typeOf c, _, s, h => by simp [renderT, clsExpr_eq, refsE, refsL] at h
  | hint, .list a, ht, s, h | hint, .set a, ht, s, h | hint, .iterator a, ht, s, h => by
      simp only [Ty.tdOk] at ht
      simp only [renderT, refsE, refsL, List.nil_append, List.append_nil] at h
      simpa [classesT] using refs_generated k hint a ht s h
  | hint, .tupleOf a, ht, s, h => by
      simp only [Ty.tdOk] at ht
      simp only [renderT, refsE, refsL, List.nil_append, List.append_nil] at h
      simpa [classesT] using refs_generated k hint a ht s h
  | hint, .dict a b, ht, s, h | hint, .ddict a b, ht, s, h => by
      simp only [Ty.tdOk, Bool.and_eq_true] at ht
      simp only [renderT, refsE, refsL, List.nil_append, List.append_nil, List.mem_append] at h
      simp only [classesT, classNames_append, List.mem_append]
      rcases h with h | h
      · exact Or.inl (refs_generated k hint a ht.1 s h)
      · exact Or.inr (refs_generated k _ b ht.2 s h)
  | hint, .generator a b c, ht, s, h => by
      simp only [Ty.tdOk, Bool.and_eq_true] at ht
      simp only [renderT, refsE, refsL, List.nil_append, List.append_nil, List.mem_append] at h
      simp only [classesT, classNames_append, List.mem_append]
      rcases h with h | h | h
      · exact Or.inl (Or.inl (refs_generated k hint a ht.1.1 s h))
      · exact Or.inl (Or.inr (refs_generated k _ b ht.1.2 s h))
      · exact Or.inr (refs_generated k _ c ht.2 s h)
  | hint, .tuple ts, ht, s, h => by
      simp only [Ty.tdOk] at ht
      cases ts with
      | nil => simp [renderT, refsE, refsL] at h
      | cons t0 rest =>
        simp only [renderT, refsE, List.nil_append] at h
        simpa [classesT] using refs_generatedL k hint 0 (t0 :: rest) ht s h
  | hint, .union ts, ht, s, h => by
      simp only [Ty.tdOk] at ht
      by_cases hnone : ts.any isNoneTy = true
      · simp only [renderT, hnone, ↓reduceIte] at h
        have key : s ∈ refsL (renderTNN nm hint 0 ts) := by
          split at h
          · next e he => rw [he]; simpa [refsE, refsL] using h
          · simpa [refsE, refsL] using h
        simpa [classesT] using refs_generatedNN k hint 0 ts ht s key
      · simp only [Bool.not_eq_true] at hnone
        simp only [renderT, hnone, Bool.false_eq_true, ↓reduceIte, refsE, List.nil_append] at h
        simpa [classesT] using refs_generatedL k hint 0 ts ht s h
  | hint, .td req opt, ht, s, h => by
      simp only [Ty.tdOk, Bool.and_eq_true, decide_eq_true_eq] at ht
      simp only [renderT, refsE, List.mem_singleton] at h
      subst h
      match req, opt, ht with
      | [], [], ht => simp at ht
      | r :: rs, [], _ => simp [classesT, classNames, refName]
      | [], o :: os, _ => simp [classesT, classNames, refName]
      | r :: rs, o :: os, _ => simp [classesT, classNames, refName]
theorem refs_generatedL (k : Nat) : ∀ (hint : String) (i : Nat) (ts : List Ty), tdOkL k ts = true →
    ∀ s ∈ refsL (renderTL nm hint i ts), s ∈ classNames (classesTL nm sm hint i ts)
  | _, _, [], _, s, h => by simp [renderTL, refsL] at h
  | hint, i, t :: ts, ht, s, h => by
      simp only [tdOkL, Bool.and_eq_true] at ht
      simp only [renderTL, refsL, List.mem_append] at h
      simp only [classesTL, classNames_append, List.mem_append]
      rcases h with h | h
      · exact Or.inl (refs_generated k _ t ht.1 s h)
      · exact Or.inr (refs_generatedL k hint (i + 1) ts ht.2 s h)
theorem refs_generatedNN (k : Nat) : ∀ (hint : String) (i : Nat) (ts : List Ty), tdOkL k ts = true →
    ∀ s ∈ refsL (renderTNN nm hint i ts), s ∈ classNames (classesTL nm sm hint i ts)
  | _, _, [], _, s, h => by simp [renderTNN, refsL] at h
  | hint, i, t :: ts, ht, s, h => by
      simp only [tdOkL, Bool.and_eq_true] at ht
      simp only [classesTL, classNames_append, List.mem_append]
      by_cases hn : isNoneTy t = true
      · simp only [renderTNN, hn, ↓reduceIte] at h
        exact Or.inr (refs_generatedNN k hint (i + 1) ts ht.2 s h)
      · simp only [Bool.not_eq_true] at hn
        simp only [renderTNN, hn, Bool.false_eq_true, ↓reduceIte, refsL, List.mem_append] at h
        rcases h with h | h
        · exact Or.inl (refs_generated k _ t ht.1 s h)
        · exact Or.inr (refs_generatedNN k hint (i + 1) ts ht.2 s h)
end

end
end MT.Render
