/-
  Lemmas/RewriteNoTD.lean — no shipped rewriter introduces an anonymous TypedDict: a TypedDict-free type stays
  TypedDict-free through every rewriter and every chain.
-/
import MTVerif.Model.Rewrite
import MTVerif.Lemmas.TdSize
namespace MT

theorem firstTupleArg_noTD : ∀ (ts : List Ty) (v : Ty), (∀ t ∈ ts, t.hasTD = false) → firstTupleArg ts = some v → v.hasTD = false
  | [], _, _, h => by simp [firstTupleArg] at h
  | t :: ts, v, hn, h => by
      have ht := hn t (List.mem_cons_self ..)
      have hrest := fun h' => firstTupleArg_noTD ts v (fun x hx => hn x (List.mem_cons_of_mem _ hx)) h'
      cases t with
      | tuple as =>
        cases as with
        | nil => simp only [firstTupleArg] at h; exact hrest h
        | cons a as' =>
          simp only [firstTupleArg, Option.some.injEq] at h
          subst h
          simp only [Ty.hasTD, hasTDL, Bool.or_eq_false_iff] at ht
          exact ht.1
      | tupleOf a =>
        simp only [firstTupleArg, Option.some.injEq] at h
        subst h
        simpa [Ty.hasTD] using ht
      | _ => simp only [firstTupleArg] at h; exact hrest h

theorem toTupleOf_noTD (ts : List Ty) (t : Ty) (hn : ∀ x ∈ ts, x.hasTD = false) (h : toTupleOf ts = some t) : t.hasTD = false := by
  unfold toTupleOf at h
  split at h
  · split at h
    · simp at h
    · next v hv =>
      split at h
      · simp only [Option.some.injEq] at h
        subst h
        simpa [Ty.hasTD] using firstTupleArg_noTD ts v hn hv
      · simp at h
  · simp at h

theorem largeUnionCollapse_noTD (h : Hier) (ts : List Ty) (hn : ∀ x ∈ ts, x.hasTD = false) :
    (largeUnionCollapse h ts).hasTD = false := by
  unfold largeUnionCollapse
  split
  · next t ht => exact toTupleOf_noTD ts t hn ht
  · split
    · split <;> simp [Ty.hasTD]
    · simp [Ty.hasTD]

theorem mscbUnion_noTD (h : Hier) (fuel : Nat) (ts : List Ty) (hn : hasTDL ts = false) : (mscbUnion h fuel ts).hasTD = false := by
  unfold mscbUnion
  split
  · split
    · simpa [Ty.hasTD] using hn
    · split
      · simp [Ty.hasTD]
      · simpa [Ty.hasTD] using hn
  · simpa [Ty.hasTD] using hn

theorem configDictUnion_noTD (ts : List Ty) (hn : ∀ x ∈ ts, x.hasTD = false) : (configDictUnion ts).hasTD = false := by
  unfold configDictUnion
  split
  · simp [Ty.hasTD, hasTDL]
  · next t0 rest =>
    split
    · next hc =>
      simp only [Bool.and_eq_true, List.all_eq_true] at hc
      simp only [Ty.hasTD, Bool.or_eq_false_iff]
      constructor
      · have h0 := hn t0 (List.mem_cons_self ..)
        have hd := hc.1 t0 (List.mem_cons_self ..)
        cases t0 <;> simp_all [Ty.isDict, Ty.dictKey, Ty.hasTD]
      · apply mkUnion_noTD
        intro v hv
        obtain ⟨u, hu, rfl⟩ := List.mem_map.mp hv
        have h1 := hn u hu
        have hd := hc.1 u hu
        cases u <;> simp_all [Ty.isDict, Ty.dictVal, Ty.hasTD]
    · simp only [Ty.hasTD]; exact (hasTDL_iff _).mpr hn

mutual
theorem rewrite_noTD (h : Hier) (r : RW) : ∀ t : Ty, t.hasTD = false → (rewrite h r t).hasTD = false
  | .any, _ => by simp [rewrite, Ty.hasTD]
  | .cls _, _ => by simp [rewrite, Ty.hasTD]
  | .typeOf _, _ => by simp [rewrite, Ty.hasTD]
  | .callable, _ => by simp [rewrite, Ty.hasTD]
  | .list a, ht => by simp only [Ty.hasTD] at ht; simp only [rewrite, Ty.hasTD]; exact rewrite_noTD h r a ht
  | .set a, ht => by simp only [Ty.hasTD] at ht; simp only [rewrite, Ty.hasTD]; exact rewrite_noTD h r a ht
  | .tupleOf a, ht => by simp only [Ty.hasTD] at ht; simp only [rewrite, Ty.hasTD]; exact rewrite_noTD h r a ht
  | .iterator a, ht => by simp only [Ty.hasTD] at ht; simp only [rewrite, Ty.hasTD]; exact rewrite_noTD h r a ht
  | .dict a b, ht => by
      simp only [Ty.hasTD, Bool.or_eq_false_iff] at ht
      simp only [rewrite, Ty.hasTD, Bool.or_eq_false_iff]; exact ⟨rewrite_noTD h r a ht.1, rewrite_noTD h r b ht.2⟩
  | .ddict a b, ht => by
      simp only [Ty.hasTD, Bool.or_eq_false_iff] at ht
      simp only [rewrite, Ty.hasTD, Bool.or_eq_false_iff]; exact ⟨rewrite_noTD h r a ht.1, rewrite_noTD h r b ht.2⟩
  | .generator y s r', ht => by
      simp only [Ty.hasTD, Bool.or_eq_false_iff] at ht
      simp only [rewrite]
      split
      · split
        · split
          · simpa [Ty.hasTD] using ht.1.1
          · simpa [Ty.hasTD] using ht.1.1
        · simp only [Ty.hasTD, Bool.or_eq_false_iff]; exact ht
      · simp only [Ty.hasTD, Bool.or_eq_false_iff]
        exact ⟨⟨rewrite_noTD h r y ht.1.1, rewrite_noTD h r s ht.1.2⟩, rewrite_noTD h r r' ht.2⟩
  | .tuple ts, ht => by
      simp only [Ty.hasTD] at ht
      simp only [rewrite, Ty.hasTD]
      exact (hasTDL_iff _).mpr (rewriteL_noTD h r ts ht)
  | .union ts, ht => by
      simp only [Ty.hasTD] at ht
      have hmem := (hasTDL_iff ts).mp ht
      simp only [rewrite]
      split
      · exact mkUnion_noTD _ (rewriteKeep_noTD h _ _ ts ht)
      · exact configDictUnion_noTD ts hmem
      · split
        · simpa [Ty.hasTD] using ht
        · exact largeUnionCollapse_noTD h ts hmem
      · exact mscbUnion_noTD h 64 ts ht
      · exact mkUnion_noTD _ (rewriteL_noTD h r ts ht)
  | .td _ _, ht => by simp [Ty.hasTD] at ht
theorem rewriteL_noTD (h : Hier) (r : RW) : ∀ ts : List Ty, hasTDL ts = false → ∀ t ∈ rewriteL h r ts, t.hasTD = false
  | [], _, t, ht => by simp [rewriteL] at ht
  | a :: as, hn, t, ht => by
      simp only [hasTDL, Bool.or_eq_false_iff] at hn
      simp only [rewriteL, List.mem_cons] at ht
      rcases ht with heq | ht
      · rw [heq]; exact rewrite_noTD h r a hn.1
      · exact rewriteL_noTD h r as hn.2 t ht
theorem rewriteKeep_noTD (h : Hier) (r : RW) (keep : Ty → Bool) : ∀ ts : List Ty, hasTDL ts = false →
    ∀ t ∈ rewriteKeep h r keep ts, t.hasTD = false
  | [], _, t, ht => by simp [rewriteKeep] at ht
  | a :: as, hn, t, ht => by
      simp only [hasTDL, Bool.or_eq_false_iff] at hn
      simp only [rewriteKeep] at ht
      split at ht
      · simp only [List.mem_cons] at ht
        rcases ht with heq | ht
        · rw [heq]; exact rewrite_noTD h r a hn.1
        · exact rewriteKeep_noTD h r keep as hn.2 t ht
      · exact rewriteKeep_noTD h r keep as hn.2 t ht
end

theorem rewriteChain_noTD (h : Hier) : ∀ (rs : List RW) (t : Ty), t.hasTD = false → (rewriteChain h rs t).hasTD = false
  | [], t, ht => ht
  | r :: rs, t, ht => by
      simp only [rewriteChain, List.foldl]
      exact rewriteChain_noTD h rs _ (rewrite_noTD h r t ht)

end MT
