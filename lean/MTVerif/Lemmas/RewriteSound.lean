/-
  Lemmas/RewriteSound.lean — the shipped rewriters never narrow.
-/
import MTVerif.Model.Rewrite
import MTVerif.Lemmas.ShrinkSound
namespace MT
set_option linter.unusedSectionVars false
set_option linter.unusedVariables false

section
variable (sub : ClassId → ClassId → Bool)

mutual
/-- the usual reading of Any admits at least what the tight reading admits -/
theorem conforms_mono (ai ao : Bool) (hm : ai = true → ao = true) :
    ∀ (t : Ty) (v : Val), conforms sub ai t v = true → conforms sub ao t v = true
  | .any, v, h => by simp only [conforms] at h ⊢; exact hm h
  | .cls c, v, h => by simpa [conforms] using h
  | .typeOf c, v, h => by cases v <;> simp_all [conforms]
  | .callable, v, h => by cases v <;> simp_all [conforms]
  | .iterator a, v, h => by cases v <;> simp_all [conforms]
  | .generator a b c, v, h => by cases v <;> simp_all [conforms]
  | .list a, v, h => by
      cases v <;> simp [conforms] at h
      simp only [conforms, List.all_eq_true]
      intro x hx; exact conforms_mono ai ao hm a x (h x hx)
  | .set a, v, h => by
      cases v <;> simp [conforms] at h
      simp only [conforms, List.all_eq_true]
      intro x hx; exact conforms_mono ai ao hm a x (h x hx)
  | .tupleOf a, v, h => by
      cases v <;> simp [conforms] at h
      simp only [conforms, List.all_eq_true]
      intro x hx; exact conforms_mono ai ao hm a x (h x hx)
  | .dict a b, v, h => by
      cases v <;> simp [conforms] at h
      all_goals
        simp only [conforms, List.all_eq_true, Bool.and_eq_true]
        intro x hx
        have ⟨h1, h2⟩ := h x.1 x.2 hx
        exact ⟨conforms_mono ai ao hm a _ h1, conforms_mono ai ao hm b _ h2⟩
  | .ddict a b, v, h => by
      cases v <;> simp [conforms] at h
      simp only [conforms, List.all_eq_true, Bool.and_eq_true]
      intro x hx
      have ⟨h1, h2⟩ := h x.1 x.2 hx
      exact ⟨conforms_mono ai ao hm a _ h1, conforms_mono ai ao hm b _ h2⟩
  | .tuple ts, v, h => by
      cases v <;> simp [conforms] at h
      simp only [conforms]
      exact conformsL_mono ai ao hm ts _ h
  | .union ts, v, h => by
      simp only [conforms] at h ⊢
      exact conformsAny_mono ai ao hm ts v h
  | .td r o, v, h => by
      cases v <;> simp [conforms] at h
      rename_i kvs
      simp only [conforms, Bool.and_eq_true, List.all_eq_true]
      refine ⟨conformsReq_mono ai ao hm r kvs h.1, ?_⟩
      intro kv hkv
      have := h.2 kv.1 kv.2 hkv
      split at this
      · simp only [Bool.or_eq_true] at this ⊢
        rcases this with h1 | h1
        · left; exact conformsField_mono ai ao hm r _ _ h1
        · right; exact conformsField_mono ai ao hm o _ _ h1
      · simp at this
theorem conformsL_mono (ai ao : Bool) (hm : ai = true → ao = true) :
    ∀ (ts : List Ty) (vs : List Val), conformsL sub ai ts vs = true → conformsL sub ao ts vs = true
  | [], vs, h => by cases vs <;> simp_all [conformsL]
  | t :: ts, vs, h => by
      cases vs with
      | nil => simp [conformsL] at h
      | cons v vs =>
        simp only [conformsL, Bool.and_eq_true] at h ⊢
        exact ⟨conforms_mono ai ao hm t v h.1, conformsL_mono ai ao hm ts vs h.2⟩
theorem conformsAny_mono (ai ao : Bool) (hm : ai = true → ao = true) :
    ∀ (ts : List Ty) (v : Val), conformsAny sub ai ts v = true → conformsAny sub ao ts v = true
  | [], _, h => by simp [conformsAny] at h
  | t :: ts, v, h => by
      simp only [conformsAny, Bool.or_eq_true] at h ⊢
      rcases h with h | h
      · left; exact conforms_mono ai ao hm t v h
      · right; exact conformsAny_mono ai ao hm ts v h
theorem conformsReq_mono (ai ao : Bool) (hm : ai = true → ao = true) :
    ∀ (fs : List (String × Ty)) (kvs : List (Val × Val)), conformsReq sub ai fs kvs = true → conformsReq sub ao fs kvs = true
  | [], _, _ => by simp [conformsReq]
  | (k, t) :: fs, kvs, h => by
      simp only [conformsReq, Bool.and_eq_true, List.any_eq_true] at h ⊢
      obtain ⟨⟨kv, hkv, hc⟩, hr⟩ := h
      exact ⟨⟨kv, hkv, hc.1, conforms_mono ai ao hm t _ hc.2⟩, conformsReq_mono ai ao hm fs kvs hr⟩
theorem conformsField_mono (ai ao : Bool) (hm : ai = true → ao = true) :
    ∀ (fs : List (String × Ty)) (s : String) (v : Val), conformsField sub ai fs s v = true → conformsField sub ao fs s v = true
  | [], _, _, h => by simp [conformsField] at h
  | (k, t) :: fs, s, v, h => by
      simp only [conformsField] at h ⊢
      split
      · next hk => rw [if_pos hk] at h; exact conforms_mono ai ao hm t v h
      · next hk => rw [if_neg hk] at h; exact conformsField_mono ai ao hm fs s v h
end
end

/-! ### well-formedness is preserved by every rewriter -/

theorem mem_rewriteL (h : Hier) (r : RW) (ts : List Ty) : rewriteL h r ts = ts.map (rewrite h r) := by
  induction ts with
  | nil => rfl
  | cons t ts ih => simp [rewriteL, ih]

theorem rewriteF_keys (h : Hier) (r : RW) (fs : List (String × Ty)) : (rewriteF h r fs).map Prod.fst = fs.map Prod.fst := by
  induction fs with
  | nil => rfl
  | cons kt fs ih => obtain ⟨k, t⟩ := kt; simp [rewriteF, ih]

theorem configDictUnion_wf (ts : List Ty) (hw : wfTL ts = true) : (configDictUnion ts).wf = true := by
  unfold configDictUnion
  cases ts with
  | nil => simp [Ty.wf, wfTL]
  | cons t0 rest =>
    simp only
    split
    · simp only [Ty.wf, Bool.and_eq_true]
      have h0 := (wfTL_iff _).mp hw t0 (List.mem_cons_self ..)
      refine ⟨by cases t0 <;> simp_all [Ty.dictKey, Ty.wf], ?_⟩
      apply mkUnion_wf
      intro t ht
      obtain ⟨u, hu, rfl⟩ := List.mem_map.mp ht
      have := (wfTL_iff _).mp hw u hu
      cases u <;> simp_all [Ty.dictVal, Ty.wf]
    · simpa [Ty.wf] using hw

theorem firstTupleArg_wf (ts : List Ty) (hw : wfTL ts = true) (v : Ty) (h : firstTupleArg ts = some v) : v.wf = true := by
  fun_induction firstTupleArg ts with
  | case1 => simp at h
  | case2 a as rest =>
    simp only [Option.some.injEq] at h; subst h
    simp only [wfTL, Ty.wf, Bool.and_eq_true] at hw; exact hw.1.1
  | case3 a rest =>
    simp only [Option.some.injEq] at h; subst h
    simp only [wfTL, Ty.wf, Bool.and_eq_true] at hw; exact hw.1
  | case4 t ts h1 h2 ih =>
    simp only [wfTL, Bool.and_eq_true] at hw
    exact ih hw.2 h

theorem largeUnionCollapse_wf (h : Hier) (ts : List Ty) (hw : wfTL ts = true) : (largeUnionCollapse h ts).wf = true := by
  unfold largeUnionCollapse
  split
  · next t ht =>
    unfold toTupleOf at ht
    split at ht
    · split at ht
      · cases ht
      · next v hv =>
        split at ht
        · cases ht; simp only [Ty.wf]; exact firstTupleArg_wf ts hw v hv
        · cases ht
    · cases ht
  · split
    · split
      · split <;> simp [Ty.wf]
      · simp [Ty.wf]
    · simp [Ty.wf]

theorem mscbUnion_wf (h : Hier) (fuel : Nat) (ts : List Ty) (hw : wfTL ts = true) : (mscbUnion h fuel ts).wf = true := by
  unfold mscbUnion
  split
  · split
    · simpa [Ty.wf] using hw
    · simp only
      split
      · simp [Ty.wf]
      · simpa [Ty.wf] using hw
  · simpa [Ty.wf] using hw

mutual
theorem rewrite_wf (h : Hier) (r : RW) : ∀ t : Ty, t.wf = true → (rewrite h r t).wf = true
  | .any, _ => by simp [rewrite, Ty.wf]
  | .cls _, _ => by simp [rewrite, Ty.wf]
  | .typeOf _, _ => by simp [rewrite, Ty.wf]
  | .callable, _ => by simp [rewrite, Ty.wf]
  | .list a, hw => by simp only [Ty.wf] at hw; simp only [rewrite, Ty.wf]; exact rewrite_wf h r a hw
  | .set a, hw => by simp only [Ty.wf] at hw; simp only [rewrite, Ty.wf]; exact rewrite_wf h r a hw
  | .tupleOf a, hw => by simp only [Ty.wf] at hw; simp only [rewrite, Ty.wf]; exact rewrite_wf h r a hw
  | .iterator a, hw => by simp only [Ty.wf] at hw; simp only [rewrite, Ty.wf]; exact rewrite_wf h r a hw
  | .dict a b, hw => by
      simp only [Ty.wf, Bool.and_eq_true] at hw
      simp only [rewrite, Ty.wf, Bool.and_eq_true]; exact ⟨rewrite_wf h r a hw.1, rewrite_wf h r b hw.2⟩
  | .ddict a b, hw => by
      simp only [Ty.wf, Bool.and_eq_true] at hw
      simp only [rewrite, Ty.wf, Bool.and_eq_true]; exact ⟨rewrite_wf h r a hw.1, rewrite_wf h r b hw.2⟩
  | .generator a b c, hw => by
      simp only [Ty.wf, Bool.and_eq_true] at hw
      simp only [rewrite]
      split
      · split
        · split
          · simp only [Ty.wf]; exact hw.1.1
          · simp only [Ty.wf, Bool.and_eq_true] at hw ⊢; exact hw
        · simp only [Ty.wf, Bool.and_eq_true]; exact hw
      · simp only [Ty.wf, Bool.and_eq_true]
        exact ⟨⟨rewrite_wf h r a hw.1.1, rewrite_wf h r b hw.1.2⟩, rewrite_wf h r c hw.2⟩
  | .tuple ts, hw => by
      simp only [Ty.wf] at hw
      simp only [rewrite, Ty.wf]; exact (wfTL_iff _).mpr (rewriteL_wf h r ts hw)
  | .union ts, hw => by
      simp only [Ty.wf] at hw
      simp only [rewrite]
      split
      · exact mkUnion_wf _ (rewriteKeep_wf h _ _ ts hw)
      · exact configDictUnion_wf ts hw
      · split
        · simpa [Ty.wf] using hw
        · exact largeUnionCollapse_wf h ts hw
      · exact mscbUnion_wf h 64 ts hw
      · exact mkUnion_wf _ (rewriteL_wf h r ts hw)
  | .td req opt, hw => by
      simp only [Ty.wf, Bool.and_eq_true, decide_eq_true_eq] at hw
      simp only [rewrite]
      split
      · split
        · simp [Ty.wf]
        · simp only [Ty.wf, Bool.true_and]
          apply mkUnion_wf
          intro t ht
          rcases List.mem_append.mp ht with ht | ht
          · exact rewriteFV_wf h _ req hw.1.1.1 t ht
          · exact rewriteFV_wf h _ opt hw.1.1.2 t ht
      · simp only [Ty.wf, Bool.and_eq_true, decide_eq_true_eq, rewriteF_keys]
        exact ⟨⟨⟨rewriteF_wf h r req hw.1.1.1, rewriteF_wf h r opt hw.1.1.2⟩, hw.1.2⟩, hw.2⟩
theorem rewriteL_wf (h : Hier) (r : RW) : ∀ ts : List Ty, wfTL ts = true → ∀ t ∈ rewriteL h r ts, t.wf = true
  | [], _, t, ht => by simp [rewriteL] at ht
  | a :: as, hw, t, ht => by
      simp only [wfTL, Bool.and_eq_true] at hw
      simp only [rewriteL, List.mem_cons] at ht
      rcases ht with heq | ht
      · rw [heq]; exact rewrite_wf h r a hw.1
      · exact rewriteL_wf h r as hw.2 t ht
theorem rewriteKeep_wf (h : Hier) (r : RW) (keep : Ty → Bool) : ∀ ts : List Ty, wfTL ts = true →
    ∀ t ∈ rewriteKeep h r keep ts, t.wf = true
  | [], _, t, ht => by simp [rewriteKeep] at ht
  | a :: as, hw, t, ht => by
      simp only [wfTL, Bool.and_eq_true] at hw
      simp only [rewriteKeep] at ht
      split at ht
      · simp only [List.mem_cons] at ht
        rcases ht with heq | ht
        · rw [heq]; exact rewrite_wf h r a hw.1
        · exact rewriteKeep_wf h r keep as hw.2 t ht
      · exact rewriteKeep_wf h r keep as hw.2 t ht
theorem rewriteF_wf (h : Hier) (r : RW) : ∀ fs : List (String × Ty), wfTF fs = true → wfTF (rewriteF h r fs) = true
  | [], _ => by simp [rewriteF, wfTF]
  | (k, a) :: as, hw => by
      simp only [wfTF, Bool.and_eq_true] at hw
      simp only [rewriteF, wfTF, Bool.and_eq_true]
      exact ⟨rewrite_wf h r a hw.1, rewriteF_wf h r as hw.2⟩
theorem rewriteFV_wf (h : Hier) (r : RW) : ∀ fs : List (String × Ty), wfTF fs = true → ∀ t ∈ rewriteFV h r fs, t.wf = true
  | [], _, t, ht => by simp [rewriteFV] at ht
  | (k, a) :: as, hw, t, ht => by
      simp only [wfTF, Bool.and_eq_true] at hw
      simp only [rewriteFV, List.mem_cons] at ht
      rcases ht with heq | ht
      · rw [heq]; exact rewrite_wf h r a hw.1
      · exact rewriteFV_wf h r as hw.2 t ht
end

end MT
