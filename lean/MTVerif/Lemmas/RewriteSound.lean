/-
  Lemmas/RewriteSound.lean — the shipped rewriters never narrow.
-/
import MTVerif.Model.Rewrite
import MTVerif.Lemmas.ShrinkSound
import MTVerif.Lemmas.Beq
namespace MT
set_option linter.unusedSectionVars false
set_option linter.unusedVariables false

section
variable (sub : ClassId → ClassId → Bool)

mutual
/-- the usual reading of Any admits at least what the tight reading admits -/
theorem conforms_mono (ai ao : Bool) (hm : ai = true → ao = true) :
    ∀ (t : Ty) (v : Val), conforms sub ai t v = true → conforms sub ao t v = true
  | .any, v, h => by simp only [conforms] at h ⊢; exact hm h
  | .cls c, v, h => by simpa [conforms] using h
  | .typeOf c, v, h => by cases v <;> simp_all [conforms]
  | .callable, v, h => by cases v <;> simp_all [conforms]
  | .iterator a, v, h => by cases v <;> simp_all [conforms]
  | .generator a b c, v, h => by cases v <;> simp_all [conforms]
  | .list a, v, h => by
      cases v <;> simp [conforms] at h
      simp only [conforms, List.all_eq_true]
      intro x hx; exact conforms_mono ai ao hm a x (h x hx)
  | .set a, v, h => by
      cases v <;> simp [conforms] at h
      simp only [conforms, List.all_eq_true]
      intro x hx; exact conforms_mono ai ao hm a x (h x hx)
  | .tupleOf a, v, h => by
      cases v <;> simp [conforms] at h
      simp only [conforms, List.all_eq_true]
      intro x hx; exact conforms_mono ai ao hm a x (h x hx)
  | .dict a b, v, h => by
      cases v <;> simp [conforms] at h
      all_goals
        simp only [conforms, List.all_eq_true, Bool.and_eq_true]
        intro x hx
        have ⟨h1, h2⟩ := h x.1 x.2 hx
        exact ⟨conforms_mono ai ao hm a _ h1, conforms_mono ai ao hm b _ h2⟩
  | .ddict a b, v, h => by
      cases v <;> simp [conforms] at h
      simp only [conforms, List.all_eq_true, Bool.and_eq_true]
      intro x hx
      have ⟨h1, h2⟩ := h x.1 x.2 hx
      exact ⟨conforms_mono ai ao hm a _ h1, conforms_mono ai ao hm b _ h2⟩
  | .tuple ts, v, h => by
      cases v <;> simp [conforms] at h
      simp only [conforms]
      exact conformsL_mono ai ao hm ts _ h
  | .union ts, v, h => by
      simp only [conforms] at h ⊢
      exact conformsAny_mono ai ao hm ts v h
  | .td r o, v, h => by
      cases v <;> simp [conforms] at h
      rename_i kvs
      simp only [conforms, Bool.and_eq_true, List.all_eq_true]
      refine ⟨conformsReq_mono ai ao hm r kvs h.1, ?_⟩
      intro kv hkv
      have := h.2 kv.1 kv.2 hkv
      split at this
      · simp only [Bool.or_eq_true] at this ⊢
        rcases this with h1 | h1
        · left; exact conformsField_mono ai ao hm r _ _ h1
        · right; exact conformsField_mono ai ao hm o _ _ h1
      · simp at this
theorem conformsL_mono (ai ao : Bool) (hm : ai = true → ao = true) :
    ∀ (ts : List Ty) (vs : List Val), conformsL sub ai ts vs = true → conformsL sub ao ts vs = true
  | [], vs, h => by cases vs <;> simp_all [conformsL]
  | t :: ts, vs, h => by
      cases vs with
      | nil => simp [conformsL] at h
      | cons v vs =>
        simp only [conformsL, Bool.and_eq_true] at h ⊢
        exact ⟨conforms_mono ai ao hm t v h.1, conformsL_mono ai ao hm ts vs h.2⟩
theorem conformsAny_mono (ai ao : Bool) (hm : ai = true → ao = true) :
    ∀ (ts : List Ty) (v : Val), conformsAny sub ai ts v = true → conformsAny sub ao ts v = true
  | [], _, h => by simp [conformsAny] at h
  | t :: ts, v, h => by
      simp only [conformsAny, Bool.or_eq_true] at h ⊢
      rcases h with h | h
      · left; exact conforms_mono ai ao hm t v h
      · right; exact conformsAny_mono ai ao hm ts v h
theorem conformsReq_mono (ai ao : Bool) (hm : ai = true → ao = true) :
    ∀ (fs : List (String × Ty)) (kvs : List (Val × Val)), conformsReq sub ai fs kvs = true → conformsReq sub ao fs kvs = true
  | [], _, _ => by simp [conformsReq]
  | (k, t) :: fs, kvs, h => by
      simp only [conformsReq, Bool.and_eq_true, List.any_eq_true] at h ⊢
      obtain ⟨⟨kv, hkv, hc⟩, hr⟩ := h
      exact ⟨⟨kv, hkv, hc.1, conforms_mono ai ao hm t _ hc.2⟩, conformsReq_mono ai ao hm fs kvs hr⟩
theorem conformsField_mono (ai ao : Bool) (hm : ai = true → ao = true) :
    ∀ (fs : List (String × Ty)) (s : String) (v : Val), conformsField sub ai fs s v = true → conformsField sub ao fs s v = true
  | [], _, _, h => by simp [conformsField] at h
  | (k, t) :: fs, s, v, h => by
      simp only [conformsField] at h ⊢
      split
      · next hk => rw [if_pos hk] at h; exact conforms_mono ai ao hm t v h
      · next hk => rw [if_neg hk] at h; exact conformsField_mono ai ao hm fs s v h
end
end

/-! ### well-formedness is preserved by every rewriter -/

theorem mem_rewriteL (h : Hier) (r : RW) (ts : List Ty) : rewriteL h r ts = ts.map (rewrite h r) := by
  induction ts with
  | nil => rfl
  | cons t ts ih => simp [rewriteL, ih]

theorem rewriteF_keys (h : Hier) (r : RW) (fs : List (String × Ty)) : (rewriteF h r fs).map Prod.fst = fs.map Prod.fst := by
  induction fs with
  | nil => rfl
  | cons kt fs ih => obtain ⟨k, t⟩ := kt; simp [rewriteF, ih]

theorem configDictUnion_wf (ts : List Ty) (hw : wfTL ts = true) : (configDictUnion ts).wf = true := by
  unfold configDictUnion
  cases ts with
  | nil => simp [Ty.wf, wfTL]
  | cons t0 rest =>
    simp only
    split
    · simp only [Ty.wf, Bool.and_eq_true]
      have h0 := (wfTL_iff _).mp hw t0 (List.mem_cons_self ..)
      refine ⟨by cases t0 <;> simp_all [Ty.dictKey, Ty.wf], ?_⟩
      apply mkUnion_wf
      intro t ht
      obtain ⟨u, hu, rfl⟩ := List.mem_map.mp ht
      have := (wfTL_iff _).mp hw u hu
      cases u <;> simp_all [Ty.dictVal, Ty.wf]
    · simpa [Ty.wf] using hw

theorem firstTupleArg_wf (ts : List Ty) (hw : wfTL ts = true) (v : Ty) (h : firstTupleArg ts = some v) : v.wf = true := by
  fun_induction firstTupleArg ts with
  | case1 => simp at h
  | case2 a as rest =>
    simp only [Option.some.injEq] at h; subst h
    simp only [wfTL, Ty.wf, Bool.and_eq_true] at hw; exact hw.1.1
  | case3 a rest =>
    simp only [Option.some.injEq] at h; subst h
    simp only [wfTL, Ty.wf, Bool.and_eq_true] at hw; exact hw.1
  | case4 t ts h1 h2 ih =>
    simp only [wfTL, Bool.and_eq_true] at hw
    exact ih hw.2 h

theorem foldl_minByRank_mem (h : Hier) (as : List ClassId) (a : ClassId) :
    as.foldl (fun m b => if h.rank b < h.rank m then b else m) a = a ∨
    as.foldl (fun m b => if h.rank b < h.rank m then b else m) a ∈ as := by
  induction as generalizing a with
  | nil => exact Or.inl rfl
  | cons b bs ih =>
    simp only [List.foldl_cons]
    rcases ih (if h.rank b < h.rank a then b else a) with e | m
    · rw [e]; split
      · exact Or.inr (List.mem_cons_self)
      · exact Or.inl rfl
    · exact Or.inr (List.mem_cons_of_mem _ m)

theorem minByRank_mem (h : Hier) (l : List ClassId) (a : ClassId) (hm : minByRank h l = some a) : a ∈ l := by
  cases l with
  | nil => simp [minByRank] at hm
  | cons x xs =>
    simp only [minByRank, Option.some.injEq] at hm
    subst hm
    rcases foldl_minByRank_mem h xs x with e | m
    · rw [e]; exact List.mem_cons_self
    · exact List.mem_cons_of_mem _ m

theorem largeUnionCollapse_wf (h : Hier) (ts : List Ty) (hw : wfTL ts = true) : (largeUnionCollapse h ts).wf = true := by
  unfold largeUnionCollapse
  split
  · next t ht =>
    unfold toTupleOf at ht
    split at ht
    · split at ht
      · cases ht
      · next v hv =>
        split at ht
        · cases ht; simp only [Ty.wf]; exact firstTupleArg_wf ts hw v hv
        · cases ht
    · cases ht
  · split
    · split <;> simp [Ty.wf]
    · simp [Ty.wf]

theorem mscbUnion_wf (h : Hier) (fuel : Nat) (ts : List Ty) (hw : wfTL ts = true) : (mscbUnion h fuel ts).wf = true := by
  unfold mscbUnion
  split
  · split
    · simpa [Ty.wf] using hw
    · split
      · simp [Ty.wf]
      · simpa [Ty.wf] using hw
  · simpa [Ty.wf] using hw

mutual
theorem rewrite_wf (h : Hier) (r : RW) : ∀ t : Ty, t.wf = true → (rewrite h r t).wf = true
  | .any, _ => by simp [rewrite, Ty.wf]
  | .cls _, _ => by simp [rewrite, Ty.wf]
  | .typeOf _, _ => by simp [rewrite, Ty.wf]
  | .callable, _ => by simp [rewrite, Ty.wf]
  | .list a, hw => by simp only [Ty.wf] at hw; simp only [rewrite, Ty.wf]; exact rewrite_wf h r a hw
  | .set a, hw => by simp only [Ty.wf] at hw; simp only [rewrite, Ty.wf]; exact rewrite_wf h r a hw
  | .tupleOf a, hw => by simp only [Ty.wf] at hw; simp only [rewrite, Ty.wf]; exact rewrite_wf h r a hw
  | .iterator a, hw => by simp only [Ty.wf] at hw; simp only [rewrite, Ty.wf]; exact rewrite_wf h r a hw
  | .dict a b, hw => by
      simp only [Ty.wf, Bool.and_eq_true] at hw
      simp only [rewrite, Ty.wf, Bool.and_eq_true]; exact ⟨rewrite_wf h r a hw.1, rewrite_wf h r b hw.2⟩
  | .ddict a b, hw => by
      simp only [Ty.wf, Bool.and_eq_true] at hw
      simp only [rewrite, Ty.wf, Bool.and_eq_true]; exact ⟨rewrite_wf h r a hw.1, rewrite_wf h r b hw.2⟩
  | .generator a b c, hw => by
      simp only [Ty.wf, Bool.and_eq_true] at hw
      simp only [rewrite]
      split
      · split
        · split
          · simp only [Ty.wf]; exact hw.1.1
          · simp only [Ty.wf, Bool.and_eq_true] at hw ⊢; exact hw
        · simp only [Ty.wf, Bool.and_eq_true]; exact hw
      · simp only [Ty.wf, Bool.and_eq_true]
        exact ⟨⟨rewrite_wf h r a hw.1.1, rewrite_wf h r b hw.1.2⟩, rewrite_wf h r c hw.2⟩
  | .tuple ts, hw => by
      simp only [Ty.wf] at hw
      simp only [rewrite, Ty.wf]; exact (wfTL_iff _).mpr (rewriteL_wf h r ts hw)
  | .union ts, hw => by
      simp only [Ty.wf] at hw
      simp only [rewrite]
      split
      · exact mkUnion_wf _ (rewriteKeep_wf h _ _ ts hw)
      · exact configDictUnion_wf ts hw
      · split
        · simpa [Ty.wf] using hw
        · exact largeUnionCollapse_wf h ts hw
      · exact mscbUnion_wf h 64 ts hw
      · exact mkUnion_wf _ (rewriteL_wf h r ts hw)
  | .td req opt, hw => by
      simp only [Ty.wf, Bool.and_eq_true, decide_eq_true_eq] at hw
      simp only [rewrite]
      split
      · split
        · simp [Ty.wf]
        · simp only [Ty.wf, Bool.true_and]
          apply mkUnion_wf
          intro t ht
          rcases List.mem_append.mp ht with ht | ht
          · exact rewriteFV_wf h _ req hw.1.1.1 t ht
          · exact rewriteFV_wf h _ opt hw.1.1.2 t ht
      · simp only [Ty.wf, Bool.and_eq_true, decide_eq_true_eq, rewriteF_keys]
        exact ⟨⟨⟨rewriteF_wf h r req hw.1.1.1, rewriteF_wf h r opt hw.1.1.2⟩, hw.1.2⟩, hw.2⟩
theorem rewriteL_wf (h : Hier) (r : RW) : ∀ ts : List Ty, wfTL ts = true → ∀ t ∈ rewriteL h r ts, t.wf = true
  | [], _, t, ht => by simp [rewriteL] at ht
  | a :: as, hw, t, ht => by
      simp only [wfTL, Bool.and_eq_true] at hw
      simp only [rewriteL, List.mem_cons] at ht
      rcases ht with heq | ht
      · rw [heq]; exact rewrite_wf h r a hw.1
      · exact rewriteL_wf h r as hw.2 t ht
theorem rewriteKeep_wf (h : Hier) (r : RW) (keep : Ty → Bool) : ∀ ts : List Ty, wfTL ts = true →
    ∀ t ∈ rewriteKeep h r keep ts, t.wf = true
  | [], _, t, ht => by simp [rewriteKeep] at ht
  | a :: as, hw, t, ht => by
      simp only [wfTL, Bool.and_eq_true] at hw
      simp only [rewriteKeep] at ht
      split at ht
      · simp only [List.mem_cons] at ht
        rcases ht with heq | ht
        · rw [heq]; exact rewrite_wf h r a hw.1
        · exact rewriteKeep_wf h r keep as hw.2 t ht
      · exact rewriteKeep_wf h r keep as hw.2 t ht
theorem rewriteF_wf (h : Hier) (r : RW) : ∀ fs : List (String × Ty), wfTF fs = true → wfTF (rewriteF h r fs) = true
  | [], _ => by simp [rewriteF, wfTF]
  | (k, a) :: as, hw => by
      simp only [wfTF, Bool.and_eq_true] at hw
      simp only [rewriteF, wfTF, Bool.and_eq_true]
      exact ⟨rewrite_wf h r a hw.1, rewriteF_wf h r as hw.2⟩
theorem rewriteFV_wf (h : Hier) (r : RW) : ∀ fs : List (String × Ty), wfTF fs = true → ∀ t ∈ rewriteFV h r fs, t.wf = true
  | [], _, t, ht => by simp [rewriteFV] at ht
  | (k, a) :: as, hw, t, ht => by
      simp only [wfTF, Bool.and_eq_true] at hw
      simp only [rewriteFV, List.mem_cons] at ht
      rcases ht with heq | ht
      · rw [heq]; exact rewrite_wf h r a hw.1
      · exact rewriteFV_wf h r as hw.2 t ht
end

end MT

namespace MT
set_option linter.unusedSectionVars false
set_option linter.unusedVariables false

/-! ### node-level soundness of the union overrides -/

theorem isAny_eq (t : Ty) (h : t.isAny = true) : t = .any := by cases t <;> simp_all [Ty.isAny]

theorem dropped_has_kept (ts : List Ty) (t : Ty) (h : dropEmpty ts t = true) :
    ∃ m ∈ ts, m.isEmptyC = false ∧ m.kind = t.kind := by
  simp only [dropEmpty, Bool.and_eq_true, nonEmptyKinds, List.contains_iff_mem, List.mem_map, List.mem_filter,
    Bool.not_eq_true'] at h
  obtain ⟨_, m, ⟨hm, hne⟩, hk⟩ := h
  exact ⟨m, hm, hne, hk⟩

section
variable (sub : ClassId → ClassId → Bool)

theorem all_false_nil {α} (l : List α) (h : l.all (fun _ => false) = true) : l = [] := by
  cases l <;> simp_all

/-- under the tight reading an empty-container type `C[Any]` admits only the empty `C`, which every
    non-empty container type of the same kind admits too -/
theorem empty_same_kind (t m : Ty) (v : Val) (ht : t.isEmptyC = true) (hm : m.isEmptyC = false)
    (hk : m.kind = t.kind) (hc : conforms sub false t v = true) : conforms sub false m v = true := by
  cases t with
  | list a =>
    have := isAny_eq a (by simpa [Ty.isEmptyC] using ht); subst this
    cases v <;> simp [conforms] at hc
    rename_i vs
    have : vs = [] := by
      cases vs with
      | nil => rfl
      | cons x xs => exact absurd (List.mem_cons_self ..) (hc x)
    subst this
    cases m <;> simp [Ty.kind] at hk
    simp [conforms]
  | set a =>
    have := isAny_eq a (by simpa [Ty.isEmptyC] using ht); subst this
    cases v <;> simp [conforms] at hc
    rename_i vs
    have : vs = [] := by
      cases vs with
      | nil => rfl
      | cons x xs => exact absurd (List.mem_cons_self ..) (hc x)
    subst this
    cases m <;> simp [Ty.kind] at hk
    simp [conforms]
  | iterator a =>
    cases v <;> simp [conforms] at hc
    cases m <;> simp [Ty.kind] at hk
    simp [conforms]
  | generator a b c =>
    cases v <;> simp [conforms] at hc
    cases m <;> simp [Ty.kind] at hk
    simp [conforms]
  | dict a b =>
    simp only [Ty.isEmptyC, Bool.and_eq_true] at ht
    have h1 := isAny_eq a ht.1; have h2 := isAny_eq b ht.2; subst h1; subst h2
    cases m <;> simp [Ty.kind] at hk
    cases v <;> simp [conforms] at hc
    all_goals
      rename_i kvs
      have : kvs = [] := by
        cases kvs with
        | nil => rfl
        | cons p ps => exact absurd (List.mem_cons_self ..) (hc p.1 p.2)
      subst this
      simp [conforms]
  | ddict a b =>
    simp only [Ty.isEmptyC, Bool.and_eq_true] at ht
    have h1 := isAny_eq a ht.1; have h2 := isAny_eq b ht.2; subst h1; subst h2
    cases m <;> simp [Ty.kind] at hk
    cases v <;> simp [conforms] at hc
    rename_i kvs
    have : kvs = [] := by
      cases kvs with
      | nil => rfl
      | cons p ps => exact absurd (List.mem_cons_self ..) (hc p.1 p.2)
    subst this
    simp [conforms]
  | tuple ts =>
    exfalso
    simp only [Ty.isEmptyC, Bool.and_eq_true, Bool.not_eq_true', List.all_eq_true] at ht
    cases ts with
    | nil => simp at ht
    | cons a as =>
      have := isAny_eq a (ht.2 a (List.mem_cons_self ..)); subst this
      cases v <;> simp [conforms] at hc
      rename_i vs
      cases vs <;> simp [conformsL, conforms] at hc
  | union ts =>
    exfalso
    simp only [Ty.isEmptyC, Bool.and_eq_true, List.all_eq_true] at ht
    simp only [conforms] at hc
    obtain ⟨u, hu, hcu⟩ := (conformsAny_iff sub false ts v).mp hc
    have := isAny_eq u (ht.2 u hu); subst this
    simp [conforms] at hcu
  | any => simp [Ty.isEmptyC] at ht
  | cls _ => simp [Ty.isEmptyC] at ht
  | typeOf _ => simp [Ty.isEmptyC] at ht
  | callable => simp [Ty.isEmptyC] at ht
  | tupleOf _ => simp [Ty.isEmptyC] at ht
  | td _ _ => simp [Ty.isEmptyC] at ht

theorem configDictUnion_sound (ai ao : Bool) (hm : ai = true → ao = true) (ts : List Ty) (hw : wfTL ts = true)
    (v : Val) (h : ∃ t ∈ ts, conforms sub ai t v = true) : conforms sub ao (configDictUnion ts) v = true := by
  obtain ⟨t, ht, hc⟩ := h
  have hc' := conforms_mono sub ai ao hm t v hc
  unfold configDictUnion
  cases ts with
  | nil => cases ht
  | cons t0 rest =>
    simp only
    split
    · next hcond =>
      simp only [Bool.and_eq_true, List.all_eq_true] at hcond
      have hd := hcond.1 t ht
      have hk := hcond.2 t ht
      have hwt := (wfTL_iff _).mp hw t ht
      cases t <;> simp [Ty.isDict] at hd
      rename_i k x
      simp only [Ty.dictKey] at hk
      simp only [Ty.wf, Bool.and_eq_true] at hwt
      have hvals : ∀ u ∈ (t0 :: rest).map Ty.dictVal, u.wf = true := by
        intro u hu
        obtain ⟨w, hw', rfl⟩ := List.mem_map.mp hu
        have := (wfTL_iff _).mp hw w hw'
        cases w <;> simp_all [Ty.dictVal, Ty.wf]
      have hxm : x ∈ (t0 :: rest).map Ty.dictVal := List.mem_map.mpr ⟨_, ht, rfl⟩
      cases v <;> simp [conforms] at hc'
      all_goals
        simp only [conforms, List.all_eq_true, Bool.and_eq_true]
        intro kv hkv
        have ⟨h1, h2⟩ := hc' kv.1 kv.2 hkv
        exact ⟨(Ty.eqv_sound sub ao t0.dictKey k hk hwt.1 kv.1).mpr h1,
               mkUnion_sound sub ao _ hvals kv.2 ⟨x, hxm, h2⟩⟩
    · simp only [conforms]
      exact (conformsAny_iff sub ao _ v).mpr ⟨t, ht, hc'⟩

theorem toTupleOf_sound (ai : Bool) (ts : List Ty) (u : Ty) (hu : toTupleOf ts = some u)
    (v : Val) (h : ∃ t ∈ ts, conforms sub ai t v = true) : conforms sub ai u v = true := by
  obtain ⟨t, ht, hc⟩ := h
  unfold toTupleOf at hu
  split at hu
  · split at hu
    · cases hu
    · next w hw =>
      split at hu
      · next hall =>
        cases hu
        have := List.all_eq_true.mp hall t ht
        cases t <;> simp at this
        rename_i as
        cases v <;> simp [conforms] at hc
        rename_i vs
        simp only [conforms, List.all_eq_true]
        -- every position of the tuple has type `w`
        have key : ∀ (as : List Ty) (vs : List Val), (∀ a ∈ as, Ty.beq' a w = true) →
            conformsL sub ai as vs = true → ∀ x ∈ vs, conforms sub ai w x = true := by
          intro as
          induction as with
          | nil => intro vs _ hcl x hx; cases vs <;> simp_all [conformsL]
          | cons a as ih =>
            intro vs hall hcl x hx
            cases vs with
            | nil => cases hx
            | cons y ys =>
              simp only [conformsL, Bool.and_eq_true] at hcl
              rcases List.mem_cons.mp hx with rfl | hx
              · have := Ty.beq'_eq a w (hall a (List.mem_cons_self ..)); subst this; exact hcl.1
              · exact ih ys (fun a' ha' => hall a' (List.mem_cons_of_mem _ ha')) hcl.2 x hx
        exact key as vs this hc
      · cases hu
  · cases hu
end

section
variable (h : Hier)
variable (htrans : ∀ a b c, h.sub a b = true → h.sub b c = true → h.sub a c = true)

include htrans in
theorem largeUnionCollapse_sound (ai : Bool) (ts : List Ty) (v : Val)
    (hc : ∃ t ∈ ts, conforms h.sub ai t v = true) : conforms h.sub true (largeUnionCollapse h ts) v = true := by
  unfold largeUnionCollapse
  split
  · next u hu =>
    exact conforms_mono h.sub ai true (fun _ => rfl) u v (toTupleOf_sound h.sub ai ts u hu v hc)
  · split
    · split
      · next a ha =>
        obtain ⟨t, ht, hct⟩ := hc
        have hmem := minByRank_mem h _ a ha
        simp only [mostSpecific, commonAncestors, List.mem_filter, Bool.and_eq_true, List.all_eq_true] at hmem
        have hta := hmem.1.2.2 t ht
        cases t <;> simp at hta
        rename_i c
        simp only [conforms] at hct ⊢
        exact htrans _ _ _ hct hta
      · simp [conforms]
    · simp [conforms]

variable (hbase : ∀ c b, h.bases c = [b] → h.sub c b = true) (hrefl : ∀ c, h.sub c c = true)

include htrans hbase hrefl in
theorem baseChain_sub (fuel : Nat) (c : ClassId) : ∀ a ∈ baseChain h fuel c, h.sub c a = true := by
  induction fuel generalizing c with
  | zero => intro a ha; simp [baseChain] at ha
  | succ n ih =>
    intro a ha
    simp only [baseChain] at ha
    split at ha
    · simp at ha
    · split at ha
      · next b hb =>
        rcases List.mem_cons.mp ha with rfl | ha
        · exact hrefl _
        · exact htrans _ _ _ (hbase c b hb) (ih b a ha)
      · simp only [List.mem_singleton] at ha; subst ha; exact hrefl _

theorem mem_commonPrefix (a : ClassId) : ∀ (xs ys : List ClassId), a ∈ commonPrefix xs ys → a ∈ xs ∧ a ∈ ys
  | [], _, h => by simp [commonPrefix] at h
  | _ :: _, [], h => by simp [commonPrefix] at h
  | x :: xs, y :: ys, h => by
      simp only [commonPrefix] at h
      split at h
      · next hxy =>
        have : x = y := by simpa using hxy
        subst this
        rcases List.mem_cons.mp h with rfl | h
        · exact ⟨List.mem_cons_self .., List.mem_cons_self ..⟩
        · have := mem_commonPrefix a xs ys h
          exact ⟨List.mem_cons_of_mem _ this.1, List.mem_cons_of_mem _ this.2⟩
      · simp at h

theorem mem_foldl_commonPrefix (a : ClassId) (l : List (List ClassId)) :
    ∀ init, a ∈ l.foldl commonPrefix init → a ∈ init ∧ ∀ x ∈ l, a ∈ x := by
  induction l with
  | nil => intro init h; exact ⟨h, by simp⟩
  | cons y ys ih =>
    intro init h
    simp only [List.foldl_cons] at h
    have := ih _ h
    have h2 := mem_commonPrefix a init y this.1
    refine ⟨h2.1, ?_⟩
    intro x hx
    rcases List.mem_cons.mp hx with rfl | hx
    · exact h2.2
    · exact this.2 x hx

include htrans hbase hrefl in
theorem mscbUnion_sound (ai ao : Bool) (hm : ai = true → ao = true) (fuel : Nat) (ts : List Ty) (v : Val)
    (hc : ∃ t ∈ ts, conforms h.sub ai t v = true) : conforms h.sub ao (mscbUnion h fuel ts) v = true := by
  obtain ⟨t, ht, hct⟩ := hc
  have hmono := conforms_mono h.sub ai ao hm t v hct
  have hun : conforms h.sub ao (.union ts) v = true := by
    simp only [conforms]; exact (conformsAny_iff h.sub ao ts v).mpr ⟨t, ht, hmono⟩
  unfold mscbUnion
  split
  · next hall =>
    split
    · exact hun
    · next c0 cs hcs =>
      split
      · next a ha =>
        -- `a` lies in the chain of every member, in particular of `t`
        have htc := List.all_eq_true.mp hall t ht
        cases t <;> simp [Ty.clsId?] at htc
        rename_i c
        have hcmem : c ∈ c0 :: cs := by
          rw [← hcs]; simp only [List.mem_filterMap]; exact ⟨_, ht, rfl⟩
        have hmem := List.mem_of_getLast? ha
        have := mem_foldl_commonPrefix a _ _ hmem
        have hin : a ∈ baseChain h fuel c := by
          rcases List.mem_cons.mp hcmem with rfl | hc'
          · simpa using this.1
          · have := this.2 ((baseChain h fuel c).reverse) (List.mem_map.mpr ⟨c, hc', rfl⟩)
            simpa using this
        simp only [conforms] at hct ⊢
        exact htrans _ _ _ hct (baseChain_sub h htrans hbase hrefl fuel c a hin)
      · exact hun
  · exact hun
end

end MT

namespace MT
set_option linter.unusedSectionVars false
set_option linter.unusedVariables false

/-- the readings of `Any` under which rewriter `r` is sound: input reading `ai`, output reading `ao` -/
def RW.ok (r : RW) (ai ao : Bool) : Prop :=
  (ai = true → ao = true) ∧ (r = .removeEmpty → ai = false ∧ ao = false) ∧ (∀ n, r = .largeUnion n → ao = true)

section
variable (h : Hier)
variable (htrans : ∀ a b c, h.sub a b = true → h.sub b c = true → h.sub a c = true)
variable (hbase : ∀ c b, h.bases c = [b] → h.sub c b = true) (hrefl : ∀ c, h.sub c c = true)

include htrans hbase hrefl in
mutual
theorem rewrite_sound (r : RW) (ai ao : Bool) (hok : r.ok ai ao) :
    ∀ (t : Ty) (v : Val), t.wf = true → conforms h.sub ai t v = true → conforms h.sub ao (rewrite h r t) v = true
  | .any, v, _, hc => by simp only [rewrite, conforms] at hc ⊢; exact hok.1 hc
  | .cls c, v, _, hc => by simpa [rewrite, conforms] using hc
  | .typeOf c, v, _, hc => by cases v <;> simp_all [rewrite, conforms]
  | .callable, v, _, hc => by cases v <;> simp_all [rewrite, conforms]
  | .iterator a, v, _, hc => by cases v <;> simp_all [rewrite, conforms]
  | .generator a b c, v, _, hc => by
      cases v <;> simp [conforms] at hc
      simp only [rewrite]
      split
      · split
        · split <;> simp [conforms]
        · simp [conforms]
      · simp [conforms]
  | .list a, v, hw, hc => by
      simp only [Ty.wf] at hw
      cases v <;> simp [conforms] at hc
      simp only [rewrite, conforms, List.all_eq_true]
      intro x hx; exact rewrite_sound r ai ao hok a x hw (hc x hx)
  | .set a, v, hw, hc => by
      simp only [Ty.wf] at hw
      cases v <;> simp [conforms] at hc
      simp only [rewrite, conforms, List.all_eq_true]
      intro x hx; exact rewrite_sound r ai ao hok a x hw (hc x hx)
  | .tupleOf a, v, hw, hc => by
      simp only [Ty.wf] at hw
      cases v <;> simp [conforms] at hc
      simp only [rewrite, conforms, List.all_eq_true]
      intro x hx; exact rewrite_sound r ai ao hok a x hw (hc x hx)
  | .dict a b, v, hw, hc => by
      simp only [Ty.wf, Bool.and_eq_true] at hw
      cases v <;> simp [conforms] at hc
      all_goals
        simp only [rewrite, conforms, List.all_eq_true, Bool.and_eq_true]
        intro x hx
        have ⟨h1, h2⟩ := hc x.1 x.2 hx
        exact ⟨rewrite_sound r ai ao hok a _ hw.1 h1, rewrite_sound r ai ao hok b _ hw.2 h2⟩
  | .ddict a b, v, hw, hc => by
      simp only [Ty.wf, Bool.and_eq_true] at hw
      cases v <;> simp [conforms] at hc
      simp only [rewrite, conforms, List.all_eq_true, Bool.and_eq_true]
      intro x hx
      have ⟨h1, h2⟩ := hc x.1 x.2 hx
      exact ⟨rewrite_sound r ai ao hok a _ hw.1 h1, rewrite_sound r ai ao hok b _ hw.2 h2⟩
  | .tuple ts, v, hw, hc => by
      simp only [Ty.wf] at hw
      cases v <;> simp [conforms] at hc
      simp only [rewrite, conforms]
      exact rewriteL_sound r ai ao hok ts _ hw hc
  | .union ts, v, hw, hc => by
      simp only [Ty.wf] at hw
      simp only [conforms] at hc
      have hex := (conformsAny_iff h.sub ai ts v).mp hc
      simp only [rewrite]
      split
      · -- RemoveEmptyContainers
        have hro := (hok.2.1 rfl)
        obtain ⟨hai, hao⟩ := hro
        subst hai; subst hao
        apply mkUnion_sound h.sub false _ (rewriteKeep_wf h _ _ ts hw)
        obtain ⟨t, ht, hct⟩ := hex
        by_cases hd : dropEmpty ts t = true
        · obtain ⟨m, hm, hme, hmk⟩ := dropped_has_kept ts t hd
          have htE : t.isEmptyC = true := by
            simp only [dropEmpty, Bool.and_eq_true] at hd; exact hd.1
          have hcm := empty_same_kind h.sub t m v htE hme hmk hct
          have hkeep : (!dropEmpty ts m) = true := by simp [dropEmpty, hme]
          exact rewriteKeep_any .removeEmpty false false hok (fun t => !dropEmpty ts t) ts v hw ⟨m, hm, hkeep, hcm⟩
        · have hkeep : (!dropEmpty ts t) = true := by simpa using hd
          exact rewriteKeep_any .removeEmpty false false hok (fun t => !dropEmpty ts t) ts v hw ⟨t, ht, hkeep, hct⟩
      · exact configDictUnion_sound h.sub ai ao hok.1 ts hw v hex
      · next n =>
        split
        · simp only [conforms]
          exact conformsAny_mono h.sub ai ao hok.1 ts v hc
        · have := hok.2.2 n rfl
          subst this
          exact largeUnionCollapse_sound h htrans ai ts v hex
      · exact mscbUnion_sound h htrans hbase hrefl ai ao hok.1 64 ts v hex
      · next hne1 hne2 hne3 hne4 =>
        apply mkUnion_sound h.sub ao _ (rewriteL_wf h r ts hw)
        exact (conformsAny_iff h.sub ao _ v).mp (rewriteL_any r ai ao hok ts v hw hc)
  | .td req opt, v, hw, hc => by
      simp only [Ty.wf, Bool.and_eq_true, decide_eq_true_eq] at hw
      obtain ⟨⟨⟨hwr, hwo⟩, _⟩, _⟩ := hw
      cases v <;> simp [conforms] at hc
      rename_i kvs
      obtain ⟨hreq, hall⟩ := hc
      simp only [rewrite]
      split
      · -- RewriteAnonymousTypedDictToDict
        split
        · simp only [conforms, List.all_eq_true, Bool.and_eq_true]
          intro kv hkv
          have := hall kv.1 kv.2 hkv
          split at this <;> simp [conformsField] at this
        · have hwf : ∀ t ∈ rewriteFV h .anonTD req ++ rewriteFV h .anonTD opt, t.wf = true := by
            intro t ht
            rcases List.mem_append.mp ht with ht | ht
            · exact rewriteFV_wf h _ req hwr t ht
            · exact rewriteFV_wf h _ opt hwo t ht
          simp only [conforms, List.all_eq_true, Bool.and_eq_true]
          intro kv hkv
          have := hall kv.1 kv.2 hkv
          split at this
          · next s hs =>
            refine ⟨by rw [hs]; simp [conforms, Val.classOf, hrefl], ?_⟩
            apply mkUnion_sound h.sub ao _ hwf
            simp only [Bool.or_eq_true] at this
            rcases this with h1 | h1
            · obtain ⟨u, hu, hcu⟩ := rewriteFV_field .anonTD ai ao hok req s kv.2 hwr h1
              exact ⟨u, List.mem_append_left _ hu, hcu⟩
            · obtain ⟨u, hu, hcu⟩ := rewriteFV_field .anonTD ai ao hok opt s kv.2 hwo h1
              exact ⟨u, List.mem_append_right _ hu, hcu⟩
          · simp at this
      · simp only [conforms, Bool.and_eq_true, List.all_eq_true]
        refine ⟨rewriteF_req r ai ao hok req kvs hwr hreq, ?_⟩
        intro kv hkv
        have := hall kv.1 kv.2 hkv
        split at this
        · simp only [Bool.or_eq_true] at this ⊢
          rcases this with h1 | h1
          · left; exact rewriteF_field r ai ao hok req _ _ hwr h1
          · right; exact rewriteF_field r ai ao hok opt _ _ hwo h1
        · simp at this
theorem rewriteL_sound (r : RW) (ai ao : Bool) (hok : r.ok ai ao) :
    ∀ (ts : List Ty) (vs : List Val), wfTL ts = true → conformsL h.sub ai ts vs = true →
      conformsL h.sub ao (rewriteL h r ts) vs = true
  | [], vs, _, hc => by cases vs <;> simp_all [rewriteL, conformsL]
  | t :: ts, vs, hw, hc => by
      simp only [wfTL, Bool.and_eq_true] at hw
      cases vs with
      | nil => simp [conformsL] at hc
      | cons v vs =>
        simp only [conformsL, Bool.and_eq_true] at hc
        simp only [rewriteL, conformsL, Bool.and_eq_true]
        exact ⟨rewrite_sound r ai ao hok t v hw.1 hc.1, rewriteL_sound r ai ao hok ts vs hw.2 hc.2⟩
theorem rewriteL_any (r : RW) (ai ao : Bool) (hok : r.ok ai ao) :
    ∀ (ts : List Ty) (v : Val), wfTL ts = true → conformsAny h.sub ai ts v = true →
      conformsAny h.sub ao (rewriteL h r ts) v = true
  | [], _, _, hc => by simp [conformsAny] at hc
  | t :: ts, v, hw, hc => by
      simp only [wfTL, Bool.and_eq_true] at hw
      simp only [conformsAny, Bool.or_eq_true] at hc
      simp only [rewriteL, conformsAny, Bool.or_eq_true]
      rcases hc with hc | hc
      · left; exact rewrite_sound r ai ao hok t v hw.1 hc
      · right; exact rewriteL_any r ai ao hok ts v hw.2 hc
theorem rewriteKeep_any (r : RW) (ai ao : Bool) (hok : r.ok ai ao) (keep : Ty → Bool) :
    ∀ (ts : List Ty) (v : Val), wfTL ts = true → (∃ t ∈ ts, keep t = true ∧ conforms h.sub ai t v = true) →
      ∃ u ∈ rewriteKeep h r keep ts, conforms h.sub ao u v = true
  | [], _, _, hc => by obtain ⟨t, ht, _⟩ := hc; cases ht
  | t :: ts, v, hw, hc => by
      simp only [wfTL, Bool.and_eq_true] at hw
      obtain ⟨u, hu, hk, hcu⟩ := hc
      simp only [rewriteKeep]
      rcases List.mem_cons.mp hu with heq | hu'
      · rw [heq] at hk hcu
        rw [if_pos hk]
        exact ⟨_, List.mem_cons_self .., rewrite_sound r ai ao hok t v hw.1 hcu⟩
      · obtain ⟨w, hw', hcw⟩ := rewriteKeep_any r ai ao hok keep ts v hw.2 ⟨u, hu', hk, hcu⟩
        split
        · exact ⟨w, List.mem_cons_of_mem _ hw', hcw⟩
        · exact ⟨w, hw', hcw⟩
theorem rewriteF_req (r : RW) (ai ao : Bool) (hok : r.ok ai ao) :
    ∀ (fs : List (String × Ty)) (kvs : List (Val × Val)), wfTF fs = true → conformsReq h.sub ai fs kvs = true →
      conformsReq h.sub ao (rewriteF h r fs) kvs = true
  | [], _, _, _ => by simp [rewriteF, conformsReq]
  | (k, t) :: fs, kvs, hw, hc => by
      simp only [wfTF, Bool.and_eq_true] at hw
      simp only [conformsReq, Bool.and_eq_true, List.any_eq_true] at hc
      simp only [rewriteF, conformsReq, Bool.and_eq_true, List.any_eq_true]
      obtain ⟨⟨kv, hkv, hck⟩, hr⟩ := hc
      exact ⟨⟨kv, hkv, hck.1, rewrite_sound r ai ao hok t _ hw.1 hck.2⟩, rewriteF_req r ai ao hok fs kvs hw.2 hr⟩
theorem rewriteF_field (r : RW) (ai ao : Bool) (hok : r.ok ai ao) :
    ∀ (fs : List (String × Ty)) (s : String) (v : Val), wfTF fs = true → conformsField h.sub ai fs s v = true →
      conformsField h.sub ao (rewriteF h r fs) s v = true
  | [], _, _, _, hc => by simp [conformsField] at hc
  | (k, t) :: fs, s, v, hw, hc => by
      simp only [wfTF, Bool.and_eq_true] at hw
      simp only [conformsField] at hc
      simp only [rewriteF, conformsField]
      split
      · next hk => rw [if_pos hk] at hc; exact rewrite_sound r ai ao hok t v hw.1 hc
      · next hk => rw [if_neg hk] at hc; exact rewriteF_field r ai ao hok fs s v hw.2 hc
theorem rewriteFV_field (r : RW) (ai ao : Bool) (hok : r.ok ai ao) :
    ∀ (fs : List (String × Ty)) (s : String) (v : Val), wfTF fs = true → conformsField h.sub ai fs s v = true →
      ∃ u ∈ rewriteFV h r fs, conforms h.sub ao u v = true
  | [], _, _, _, hc => by simp [conformsField] at hc
  | (k, t) :: fs, s, v, hw, hc => by
      simp only [wfTF, Bool.and_eq_true] at hw
      simp only [conformsField] at hc
      simp only [rewriteFV, List.mem_cons, exists_eq_or_imp]
      split at hc
      · left; exact rewrite_sound r ai ao hok t v hw.1 hc
      · right; exact rewriteFV_field r ai ao hok fs s v hw.2 hc
end
end

end MT
