/-
  Lemmas/Roundtrip.lean — decode ∘ encode = id on storable types and traces.
-/
import MTVerif.Model.Encode
import MTVerif.Model.Trigger
import MTVerif.Lemmas.Beq
namespace MT

/-- class `c` can be found again under its own name, and that name is not one the decoder treats specially -/
def goodCls (env : Env) (nm : Names) (c : ClassId) : Bool :=
  (nm.cls c).1 != "typing" && !((nm.cls c).1 == "builtins" && (nm.cls c).2 == "Ellipsis") &&
  (match env.lookup (nm.cls c).1 (nm.cls c).2 with
   | some (.cls c') => c' == c
   | _ => false)

mutual
/-- every class mentioned is importable under its name; no empty union -/
def Ty.storable (env : Env) (nm : Names) : Ty → Bool
  | .cls c | .typeOf c => goodCls env nm c
  | .list t | .set t | .tupleOf t | .iterator t => t.storable env nm
  | .dict a b | .ddict a b => a.storable env nm && b.storable env nm
  | .generator a b c => a.storable env nm && b.storable env nm && c.storable env nm
  | .tuple ts => storableL env nm ts
  | .union ts => !ts.isEmpty && storableL env nm ts
  | .td r o => storableF env nm r && storableF env nm o
  | _ => true
def storableL (env : Env) (nm : Names) : List Ty → Bool
  | [] => true
  | t :: ts => t.storable env nm && storableL env nm ts
def storableF (env : Env) (nm : Names) : List (String × Ty) → Bool
  | [] => true
  | (_, t) :: fs => t.storable env nm && storableF env nm fs
end

theorem lookupType_good (env : Env) (nm : Names) (c : ClassId) (h : goodCls env nm c = true) :
    lookupType env (nm.cls c).1 (nm.cls c).2 = .ok (.cls c) := by
  simp only [goodCls, Bool.and_eq_true, bne_iff_ne, ne_eq] at h
  obtain ⟨⟨h1, _⟩, h3⟩ := h
  unfold lookupType
  have hm : ((nm.cls c).1 == "typing") = false := by simpa using h1
  simp only [hm, Bool.false_and, Bool.false_eq_true, ↓reduceIte]
  split at h3
  · next c' heq => rw [heq]; simp only; congr; simpa using h3
  · simp at h3

theorem isEllipsisJ_nameJ (env : Env) (nm : Names) (c : ClassId) (h : goodCls env nm c = true) :
    isEllipsisJ (nameJ (nm.cls c)) = false := by
  simp only [goodCls, Bool.and_eq_true, Bool.not_eq_true'] at h
  simp only [nameJ, isEllipsisJ, beq_self_eq_true, Bool.true_and]
  exact h.1.2

theorem isEllipsisJ_encode (env : Env) (nm : Names) (t : Ty) (h : t.storable env nm = true) :
    isEllipsisJ (encodeTy nm t) = false := by
  cases t <;> simp [encodeTy, typingName, typingApp, isEllipsisJ]
  · rename_i c; simp only [Ty.storable] at h; simpa [nameJ, isEllipsisJ] using isEllipsisJ_nameJ env nm c h

theorem filterMap_id_some (ts : List Ty) : (ts.map some).filterMap id = ts := by
  induction ts with
  | nil => rfl
  | cons t ts ih => simp [ih]

theorem all_isSome_map (ts : List Ty) : (ts.map some).all Option.isSome = true := by
  induction ts with
  | nil => rfl
  | cons t ts ih => simp [ih]

mutual
theorem decode_encode (env : Env) (nm : Names) : ∀ t : Ty, t.storable env nm = true → t.normal = true →
    decodeTy env (encodeTy nm t) = .ok t
  | .any, _, _ => by simp [encodeTy, typingName, decodeTy, lookupType]
  | .callable, _, _ => by simp [encodeTy, typingName, decodeTy, lookupType]
  | .cls c, hs, _ => by
      simp only [Ty.storable] at hs
      simp only [encodeTy, nameJ, decodeTy, beq_self_eq_true, Bool.and_self, ↓reduceIte]
      exact lookupType_good env nm c hs
  | .typeOf c, hs, _ => by
      simp only [Ty.storable] at hs
      have h1 := lookupType_good env nm c hs
      have h2 := isEllipsisJ_nameJ env nm c hs
      simp only [nameJ] at h1 h2
      simp [encodeTy, typingApp, nameJ, decodeTy, typingGenerics, decodeL, h1, h2, applyGeneric, Except.bind, Except.map]
  | .list a, hs, hn => by
      simp only [Ty.storable] at hs; simp only [Ty.normal] at hn
      have h1 := decode_encode env nm a hs hn
      have h2 := isEllipsisJ_encode env nm a hs
      simp [encodeTy, typingApp, decodeTy, typingGenerics, decodeL, h1, h2, applyGeneric, Except.bind, Except.map]
  | .set a, hs, hn => by
      simp only [Ty.storable] at hs; simp only [Ty.normal] at hn
      have h1 := decode_encode env nm a hs hn
      have h2 := isEllipsisJ_encode env nm a hs
      simp [encodeTy, typingApp, decodeTy, typingGenerics, decodeL, h1, h2, applyGeneric, Except.bind, Except.map]
  | .iterator a, hs, hn => by
      simp only [Ty.storable] at hs; simp only [Ty.normal] at hn
      have h1 := decode_encode env nm a hs hn
      have h2 := isEllipsisJ_encode env nm a hs
      simp [encodeTy, typingApp, decodeTy, typingGenerics, decodeL, h1, h2, applyGeneric, Except.bind, Except.map]
  | .tupleOf a, hs, hn => by
      simp only [Ty.storable] at hs; simp only [Ty.normal] at hn
      have h1 := decode_encode env nm a hs hn
      have h2 := isEllipsisJ_encode env nm a hs
      have h3 : isEllipsisJ ellipsisJ = true := by simp [ellipsisJ, isEllipsisJ]
      simp [encodeTy, typingApp, decodeTy, typingGenerics, decodeL, h1, h2, h3, applyGeneric, Except.bind, Except.map]
  | .dict a b, hs, hn => by
      simp only [Ty.storable, Bool.and_eq_true] at hs; simp only [Ty.normal, Bool.and_eq_true] at hn
      have h1 := decode_encode env nm a hs.1 hn.1
      have h2 := isEllipsisJ_encode env nm a hs.1
      have h3 := decode_encode env nm b hs.2 hn.2
      have h4 := isEllipsisJ_encode env nm b hs.2
      simp [encodeTy, typingApp, decodeTy, typingGenerics, decodeL, h1, h2, h3, h4, applyGeneric, Except.bind, Except.map]
  | .ddict a b, hs, hn => by
      simp only [Ty.storable, Bool.and_eq_true] at hs; simp only [Ty.normal, Bool.and_eq_true] at hn
      have h1 := decode_encode env nm a hs.1 hn.1
      have h2 := isEllipsisJ_encode env nm a hs.1
      have h3 := decode_encode env nm b hs.2 hn.2
      have h4 := isEllipsisJ_encode env nm b hs.2
      simp [encodeTy, typingApp, decodeTy, typingGenerics, decodeL, h1, h2, h3, h4, applyGeneric, Except.bind, Except.map]
  | .generator a b c, hs, hn => by
      simp only [Ty.storable, Bool.and_eq_true] at hs; simp only [Ty.normal, Bool.and_eq_true] at hn
      have h1 := decode_encode env nm a hs.1.1 hn.1.1
      have h2 := isEllipsisJ_encode env nm a hs.1.1
      have h3 := decode_encode env nm b hs.1.2 hn.1.2
      have h4 := isEllipsisJ_encode env nm b hs.1.2
      have h5 := decode_encode env nm c hs.2 hn.2
      have h6 := isEllipsisJ_encode env nm c hs.2
      simp [encodeTy, typingApp, decodeTy, typingGenerics, decodeL, h1, h2, h3, h4, h5, h6, applyGeneric, Except.bind, Except.map]
  | .tuple ts, hs, hn => by
      simp only [Ty.storable] at hs; simp only [Ty.normal] at hn
      have h1 := decodeL_encodeL env nm ts hs hn
      simp only [encodeTy, typingApp, decodeTy, beq_self_eq_true, Bool.and_self, ↓reduceIte, typingGenerics]
      simp only [List.contains_cons, beq_self_eq_true, Bool.or_true, Bool.true_or, ↓reduceIte, h1]
      simp only [Except.bind, applyGeneric, beq_self_eq_true, ↓reduceIte, all_isSome_map, filterMap_id_some]
      cases ts with
      | nil => rfl
      | cons a as =>
        cases as with
        | nil => rfl
        | cons b bs =>
          cases bs with
          | nil => rfl
          | cons c cs => rfl
  | .union ts, hs, hn => by
      simp only [Ty.storable, Bool.and_eq_true, Bool.not_eq_true'] at hs; simp only [Ty.normal, Bool.and_eq_true] at hn
      have h1 := decodeL_encodeL env nm ts hs.2 hn.1
      have hmk : mkUnion ts = .union ts := Ty.beq'_eq _ _ hn.2
      simp only [encodeTy, typingApp, decodeTy, beq_self_eq_true, Bool.and_self, ↓reduceIte, typingGenerics]
      simp only [List.contains_cons, beq_self_eq_true, Bool.or_true, Bool.true_or, ↓reduceIte, h1]
      simp only [Except.bind, applyGeneric, all_isSome_map, filterMap_id_some]
      cases ts with
      | nil => simp at hs
      | cons a as => simp [hmk]
  | .td r o, hs, hn => by
      simp only [Ty.storable, Bool.and_eq_true] at hs; simp only [Ty.normal, Bool.and_eq_true] at hn
      have h1 := decodeF_encodeF env nm r hs.1 hn.1
      have h2 := decodeF_encodeF env nm o hs.2 hn.2
      simp [encodeTy, decodeTy, h1, h2, Except.bind, Except.map]
theorem decodeL_encodeL (env : Env) (nm : Names) : ∀ ts : List Ty, storableL env nm ts = true → normalL ts = true →
    decodeL env (encodeL nm ts) = .ok (ts.map some)
  | [], _, _ => rfl
  | t :: ts, hs, hn => by
      simp only [storableL, Bool.and_eq_true] at hs; simp only [normalL, Bool.and_eq_true] at hn
      have h1 := decode_encode env nm t hs.1 hn.1
      have h2 := isEllipsisJ_encode env nm t hs.1
      have h3 := decodeL_encodeL env nm ts hs.2 hn.2
      simp [encodeL, decodeL, h1, h2, h3, Except.bind, Except.map]
theorem decodeF_encodeF (env : Env) (nm : Names) : ∀ fs : List (String × Ty), storableF env nm fs = true →
    normalF fs = true → decodeF env (encodeF nm fs) = .ok fs
  | [], _, _ => rfl
  | (k, t) :: fs, hs, hn => by
      simp only [storableF, Bool.and_eq_true] at hs; simp only [normalF, Bool.and_eq_true] at hn
      have h1 := decode_encode env nm t hs.1 hn.1
      have h3 := decodeF_encodeF env nm fs hs.2 hn.2
      simp [encodeF, decodeF, h1, h3, Except.bind, Except.map]
end

end MT
