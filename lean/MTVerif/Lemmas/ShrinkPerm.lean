/-
  Lemmas/ShrinkPerm.lean — `shrink_types` depends only on the *set* of its arguments, up to Python `==`:
  permuting the list, repeating members or dropping repetitions gives an `eqv` result.
-/
import MTVerif.Lemmas.EqvEquiv
import MTVerif.Lemmas.Keys
namespace MT

/-- same members (covers permutation, duplication and de-duplication) -/
def SetEq {α} (as bs : List α) : Prop := ∀ a, a ∈ as ↔ a ∈ bs

theorem SetEq.symm {α} {as bs : List α} (h : SetEq as bs) : SetEq bs as := fun a => (h a).symm

theorem SetEq.nil_iff {α} {bs : List α} (h : SetEq ([] : List α) bs) : bs = [] := by
  cases bs with
  | nil => rfl
  | cons b bs => exact absurd ((h b).mpr (List.mem_cons_self ..)) (by simp)

theorem SetEq.map {α β} (f : α → β) {as bs : List α} (h : SetEq as bs) : SetEq (as.map f) (bs.map f) := by
  intro b
  simp only [List.mem_map]
  exact ⟨fun ⟨a, ha, e⟩ => ⟨a, (h a).mp ha, e⟩, fun ⟨a, ha, e⟩ => ⟨a, (h a).mpr ha, e⟩⟩

theorem SetEq.flatMap {α β} (f : α → List β) {as bs : List α} (h : SetEq as bs) : SetEq (as.flatMap f) (bs.flatMap f) := by
  intro b
  simp only [List.mem_flatMap]
  exact ⟨fun ⟨a, ha, e⟩ => ⟨a, (h a).mp ha, e⟩, fun ⟨a, ha, e⟩ => ⟨a, (h a).mpr ha, e⟩⟩

theorem SetEq.filterMap {α β} (f : α → Option β) {as bs : List α} (h : SetEq as bs) : SetEq (as.filterMap f) (bs.filterMap f) := by
  intro b
  simp only [List.mem_filterMap]
  exact ⟨fun ⟨a, ha, e⟩ => ⟨a, (h a).mp ha, e⟩, fun ⟨a, ha, e⟩ => ⟨a, (h a).mpr ha, e⟩⟩

theorem SetEq.append {α} {as bs cs ds : List α} (h1 : SetEq as bs) (h2 : SetEq cs ds) : SetEq (as ++ cs) (bs ++ ds) := by
  intro a
  simp only [List.mem_append, h1 a, h2 a]

theorem SetEq.all {α} (p : α → Bool) {as bs : List α} (h : SetEq as bs) : as.all p = bs.all p := by
  rw [Bool.eq_iff_iff]
  simp only [List.all_eq_true]
  exact ⟨fun hp a ha => hp a ((h a).mpr ha), fun hp a ha => hp a ((h a).mp ha)⟩

/-! ### `dedupBy eqv` -/

/-- every member of the list has an `eqv` representative that survives de-duplication -/
theorem dedupBy_rep (l : List Ty) (hw : ∀ t ∈ l, t.wf = true) : ∀ x ∈ l, ∃ d ∈ dedupBy Ty.eqv l, Ty.eqv d x = true := by
  intro x hx
  exact dedupBy_sem Ty.eqv (fun t => Ty.eqv t x = true) l
    (fun a _ b _ hab hb => Ty.eqv_trans a b x hab hb) ⟨x, hx, Ty.eqv_refl x (hw x hx)⟩

/-- the de-duplicated list is a singleton exactly when the list is non-empty and all its members are `==` -/
theorem dedupBy_singleton_iff (l : List Ty) (hw : ∀ t ∈ l, t.wf = true) :
    (∃ t, dedupBy Ty.eqv l = [t]) ↔ (l ≠ [] ∧ ∀ a ∈ l, ∀ b ∈ l, Ty.eqv a b = true) := by
  constructor
  · rintro ⟨t, ht⟩
    have hne : l ≠ [] := by
      intro h; subst h; simp [dedupBy] at ht
    refine ⟨hne, fun a ha b hb => ?_⟩
    obtain ⟨da, hda, ea⟩ := dedupBy_rep l hw a ha
    obtain ⟨db, hdb, eb⟩ := dedupBy_rep l hw b hb
    rw [ht] at hda hdb
    simp only [List.mem_singleton] at hda hdb
    rw [hda] at ea; rw [hdb] at eb
    exact Ty.eqv_trans a t b (Ty.eqv_symm t a (hw a ha) ea) eb
  · rintro ⟨hne, hall⟩
    cases l with
    | nil => exact absurd rfl hne
    | cons a rest =>
      refine ⟨a, ?_⟩
      simp only [dedupBy, List.cons.injEq, true_and, List.filter_eq_nil_iff, Bool.not_eq_true', Bool.not_eq_false]
      intro b hb
      exact hall a (List.mem_cons_self ..) b (List.mem_cons_of_mem _ (dedupBy_subset _ _ b hb))

/-! ### `typing.Union[...]` -/

theorem flat1_setEq {as bs : List Ty} (h : SetEq as bs) : SetEq (flat1 as) (flat1 bs) := SetEq.flatMap _ h

/-- the union of the same set of arguments is the same type, whatever their order and multiplicity -/
theorem mkUnion_setEq (as bs : List Ty) (hw : ∀ t ∈ as, t.wf = true) (h : SetEq as bs) :
    Ty.eqv (mkUnion as) (mkUnion bs) = true := by
  have hwb : ∀ t ∈ bs, t.wf = true := fun t ht => hw t ((h t).mpr ht)
  have hL := flat1_setEq h
  have hwL := flat1_wf as hw
  have hwL' := flat1_wf bs hwb
  have hrepAB : ∀ a ∈ dedupBy Ty.eqv (flat1 as), ∃ b ∈ dedupBy Ty.eqv (flat1 bs), Ty.eqv a b = true := by
    intro a ha
    have haL := dedupBy_subset _ _ a ha
    obtain ⟨d, hd, he⟩ := dedupBy_rep (flat1 bs) hwL' a ((hL a).mp haL)
    exact ⟨d, hd, Ty.eqv_symm d a (hwL a haL) he⟩
  have hrepBA : ∀ b ∈ dedupBy Ty.eqv (flat1 bs), ∃ a ∈ dedupBy Ty.eqv (flat1 as), Ty.eqv a b = true := by
    intro b hb
    have hbL := dedupBy_subset _ _ b hb
    exact dedupBy_rep (flat1 as) hwL b ((hL b).mpr hbL)
  have hsing : (∃ t, dedupBy Ty.eqv (flat1 as) = [t]) ↔ (∃ t, dedupBy Ty.eqv (flat1 bs) = [t]) := by
    rw [dedupBy_singleton_iff _ hwL, dedupBy_singleton_iff _ hwL']
    constructor
    · rintro ⟨hne, hall⟩
      refine ⟨fun hb => hne ?_, fun a ha b hb => hall a ((hL a).mpr ha) b ((hL b).mpr hb)⟩
      rw [hb] at hL; exact SetEq.nil_iff hL.symm
    · rintro ⟨hne, hall⟩
      refine ⟨fun ha => hne ?_, fun a ha b hb => hall a ((hL a).mp ha) b ((hL b).mp hb)⟩
      rw [ha] at hL; exact SetEq.nil_iff hL
  unfold mkUnion
  split
  · next t ht =>
    obtain ⟨t', ht'⟩ := hsing.mp ⟨t, ht⟩
    rw [ht']
    obtain ⟨b, hb, he⟩ := hrepAB t (by rw [ht]; simp)
    rw [ht'] at hb
    simp only [List.mem_singleton] at hb
    subst hb
    exact he
  · next hns =>
    split
    · next t' ht' =>
      obtain ⟨t, ht⟩ := hsing.mpr ⟨t', ht'⟩
      exact absurd ht (hns t)
    · rw [eqv_union_iff]
      exact ⟨hrepAB, hrepBA⟩

/-! ### the branches of `shrink` -/

theorem shrink_td_big (k : Nat) (t0 : Ty) (rest : List Ty) (hall : (t0 :: rest).all Ty.isTD = true)
    (hbig : (reqKeys (t0 :: rest)).length + (optKeys (t0 :: rest)).length > k) :
    shrink k (t0 :: rest) = .dict (.cls strC) (shrink k (allVals (t0 :: rest))) := by
  rw [shrink]; simp only [hall, ↓reduceIte, hbig]

theorem shrink_td_small (k : Nat) (t0 : Ty) (rest : List Ty) (hall : (t0 :: rest).all Ty.isTD = true)
    (hsmall : ¬ (reqKeys (t0 :: rest)).length + (optKeys (t0 :: rest)).length > k) :
    shrink k (t0 :: rest) =
      .td ((reqKeys (t0 :: rest)).map (fun s => (s, shrink k (reqVals s (t0 :: rest) ++ optVals s (t0 :: rest)))))
          ((optKeys (t0 :: rest)).map (fun s => (s, shrink k (reqVals s (t0 :: rest) ++ optVals s (t0 :: rest))))) := by
  rw [shrink]; simp only [hall, ↓reduceIte, hsmall]

theorem shrink_alleq (k : Nat) (t0 : Ty) (rest : List Ty) (hnall : ¬ (t0 :: rest).all Ty.isTD = true)
    (heq : rest.all (fun t => Ty.eqv t t0) = true) : shrink k (t0 :: rest) = t0 := by
  rw [shrink]; simp only [hnall, Bool.false_eq_true, ↓reduceIte, heq]

theorem shrink_lists (k : Nat) (t0 : Ty) (rest : List Ty) (hnall : ¬ (t0 :: rest).all Ty.isTD = true)
    (hneq : ¬ rest.all (fun t => Ty.eqv t t0) = true) (hl : (t0 :: rest).all Ty.isList = true) :
    shrink k (t0 :: rest) = .list (shrink k ((t0 :: rest).map Ty.listArg)) := by
  rw [shrink]; simp only [hnall, Bool.false_eq_true, ↓reduceIte, hneq, hl]

theorem shrink_union (k : Nat) (t0 : Ty) (rest : List Ty) (hnall : ¬ (t0 :: rest).all Ty.isTD = true)
    (hneq : ¬ rest.all (fun t => Ty.eqv t t0) = true) (hl : ¬ (t0 :: rest).all Ty.isList = true) :
    shrink k (t0 :: rest) = mkUnion ((t0 :: rest).map tdToDict) := by
  rw [shrink]; simp only [hnall, Bool.false_eq_true, ↓reduceIte, hneq, hl]

/-! ### set-invariance of the branch conditions -/

/-- "all `==` to the first" is "pairwise `==`" -/
theorem alleq_iff (t0 : Ty) (rest : List Ty) (hw : ∀ t ∈ t0 :: rest, t.wf = true) :
    rest.all (fun t => Ty.eqv t t0) = true ↔ ∀ a ∈ t0 :: rest, ∀ b ∈ t0 :: rest, Ty.eqv a b = true := by
  simp only [List.all_eq_true]
  constructor
  · intro h a ha b hb
    have e : ∀ x ∈ t0 :: rest, Ty.eqv x t0 = true := by
      intro x hx
      rcases List.mem_cons.mp hx with rfl | hx
      · exact Ty.eqv_refl _ (hw _ (List.mem_cons_self ..))
      · exact h x hx
    exact Ty.eqv_trans a t0 b (e a ha) (Ty.eqv_symm b t0 (hw t0 (List.mem_cons_self ..)) (e b hb))
  · intro h x hx
    exact h x (List.mem_cons_of_mem _ hx) t0 (List.mem_cons_self ..)

theorem alleq_setEq (t0 t0' : Ty) (rest rest' : List Ty) (hw : ∀ t ∈ t0 :: rest, t.wf = true)
    (h : SetEq (t0 :: rest) (t0' :: rest')) :
    rest.all (fun t => Ty.eqv t t0) = true ↔ rest'.all (fun t => Ty.eqv t t0') = true := by
  have hw' : ∀ t ∈ t0' :: rest', t.wf = true := fun t ht => hw t ((h t).mpr ht)
  rw [alleq_iff t0 rest hw, alleq_iff t0' rest' hw']
  exact ⟨fun hh a ha b hb => hh a ((h a).mpr ha) b ((h b).mpr hb), fun hh a ha b hb => hh a ((h a).mp ha) b ((h b).mp hb)⟩

theorem nodup_reqKeys (ts : List Ty) : (reqKeys ts).Nodup := by
  unfold reqKeys keysOf
  exact (nodup_dedupBy_str _).filter _

theorem nodup_optKeys (ts : List Ty) : (optKeys ts).Nodup := by
  unfold optKeys
  exact nodup_dedupBy_str _

theorem reqKeys_setEq (ts ts' : List Ty) (hne : ts ≠ []) (h : SetEq ts ts') : SetEq (reqKeys ts) (reqKeys ts') := by
  have hne' : ts' ≠ [] := by
    intro e; subst e; exact hne (SetEq.nil_iff h.symm)
  intro s
  rw [mem_reqKeys_iff s ts hne, mem_reqKeys_iff s ts' hne']
  exact ⟨fun hh t ht => hh t ((h t).mpr ht), fun hh t ht => hh t ((h t).mp ht)⟩

theorem optKeys_setEq (ts ts' : List Ty) (h : SetEq ts ts') : SetEq (optKeys ts) (optKeys ts') := by
  intro s
  rw [mem_optKeys_iff, mem_optKeys_iff]
  have e1 : (∃ t ∈ ts, s ∈ t.reqKeySet) ↔ (∃ t ∈ ts', s ∈ t.reqKeySet) :=
    ⟨fun ⟨t, ht, x⟩ => ⟨t, (h t).mp ht, x⟩, fun ⟨t, ht, x⟩ => ⟨t, (h t).mpr ht, x⟩⟩
  have e2 : (∀ t ∈ ts, s ∈ t.reqKeySet) ↔ (∀ t ∈ ts', s ∈ t.reqKeySet) :=
    ⟨fun hh t ht => hh t ((h t).mpr ht), fun hh t ht => hh t ((h t).mp ht)⟩
  have e3 : (∃ t ∈ ts, s ∈ t.optKeySet) ↔ (∃ t ∈ ts', s ∈ t.optKeySet) :=
    ⟨fun ⟨t, ht, x⟩ => ⟨t, (h t).mp ht, x⟩, fun ⟨t, ht, x⟩ => ⟨t, (h t).mpr ht, x⟩⟩
  rw [e1, e2, e3]

theorem length_of_setEq_nodup {α} [DecidableEq α] (l l' : List α) (hn : l.Nodup) (hn' : l'.Nodup) (h : SetEq l l') :
    l.length = l'.length :=
  ((List.perm_ext_iff_of_nodup hn hn').mpr h).length_eq

/-! ### field lists built by mapping over a key list -/

theorem lookupF_map_key (l : List String) (G : String → Ty) (s : String) (hs : s ∈ l) :
    lookupF s (l.map (fun x => (x, G x))) = some (G s) := by
  induction l with
  | nil => cases hs
  | cons x xs ih =>
    simp only [List.map_cons, lookupF]
    by_cases hx : x = s
    · subst hx; simp
    · simp only [hx, ↓reduceIte]
      rcases List.mem_cons.mp hs with e | hs
      · exact absurd e.symm hx
      · exact ih hs

theorem eqvF_map (l l' : List String) (G G' : String → Ty)
    (h : ∀ s ∈ l, s ∈ l' ∧ Ty.eqv (G s) (G' s) = true) :
    eqvF (l.map (fun x => (x, G x))) (l'.map (fun x => (x, G' x))) = true := by
  rw [eqvF_iff]
  intro kt hkt
  obtain ⟨s, hs, rfl⟩ := List.mem_map.mp hkt
  exact ⟨G' s, lookupF_map_key l' G' s (h s hs).1, (h s hs).2⟩

theorem keysIn_map (l l' : List String) (G G' : String → Ty) (h : ∀ s ∈ l, s ∈ l') :
    keysIn (l.map (fun x => (x, G x))) (l'.map (fun x => (x, G' x))) = true := by
  rw [keysIn_iff]
  intro kt hkt
  obtain ⟨s, hs, rfl⟩ := List.mem_map.mp hkt
  rw [lookupF_map_key l' G' s (h s hs)]; rfl

/-! ### the theorem -/

/-- `shrink_types` of two lists with the same members — any permutation, any repetition — gives `==` types. -/
theorem shrink_setEq (k : Nat) (ts : List Ty) :
    (∀ t ∈ ts, t.wf = true) → ∀ ts', SetEq ts ts' → Ty.eqv (shrink k ts) (shrink k ts') = true := by
  fun_induction shrink k ts with
  | case1 =>
    intro _ ts' h
    rw [SetEq.nil_iff h]
    simp [shrink, Ty.eqv]
  | case2 t0 rest hall hbig ih =>
    intro hw ts' h
    match ts', h with
    | [], h => exact absurd (SetEq.nil_iff h.symm) (by simp)
    | t0' :: rest', h =>
      have hall' : (t0' :: rest').all Ty.isTD = true := by rw [← SetEq.all _ h]; exact hall
      have hbig' : (reqKeys (t0' :: rest')).length + (optKeys (t0' :: rest')).length > k := by
        rw [← length_of_setEq_nodup _ _ (nodup_reqKeys _) (nodup_reqKeys _) (reqKeys_setEq _ _ (by simp) h),
            ← length_of_setEq_nodup _ _ (nodup_optKeys _) (nodup_optKeys _) (optKeys_setEq _ _ h)]
        exact hbig
      rw [shrink_td_big k t0' rest' hall' hbig']
      simp only [Ty.eqv, beq_self_eq_true, Bool.true_and]
      exact ih (allVals_wf _ hw) _ (SetEq.flatMap _ h)
  | case3 t0 rest hall hsmall ih =>
    intro hw ts' h
    match ts', h with
    | [], h => exact absurd (SetEq.nil_iff h.symm) (by simp)
    | t0' :: rest', h =>
      have hall' : (t0' :: rest').all Ty.isTD = true := by rw [← SetEq.all _ h]; exact hall
      have hsmall' : ¬ (reqKeys (t0' :: rest')).length + (optKeys (t0' :: rest')).length > k := by
        rw [← length_of_setEq_nodup _ _ (nodup_reqKeys _) (nodup_reqKeys _) (reqKeys_setEq _ _ (by simp) h),
            ← length_of_setEq_nodup _ _ (nodup_optKeys _) (nodup_optKeys _) (optKeys_setEq _ _ h)]
        exact hsmall
      rw [shrink_td_small k t0' rest' hall' hsmall']
      have hvals : ∀ s, Ty.eqv (shrink k (reqVals s (t0 :: rest) ++ optVals s (t0 :: rest)))
          (shrink k (reqVals s (t0' :: rest') ++ optVals s (t0' :: rest'))) = true := by
        intro s
        exact ih s (reqVals_wf s _ hw) _ (SetEq.append (SetEq.filterMap _ h) (SetEq.filterMap _ h))
      have hr := reqKeys_setEq _ _ (by simp) h
      have ho := optKeys_setEq _ _ h
      rw [eqv_td_iff]
      exact ⟨eqvF_map _ _ _ _ (fun s hs => ⟨(hr s).mp hs, hvals s⟩), keysIn_map _ _ _ _ (fun s hs => (hr s).mpr hs),
             eqvF_map _ _ _ _ (fun s hs => ⟨(ho s).mp hs, hvals s⟩), keysIn_map _ _ _ _ (fun s hs => (ho s).mpr hs)⟩
  | case4 t0 rest hnall heq =>
    intro hw ts' h
    match ts', h with
    | [], h => exact absurd (SetEq.nil_iff h.symm) (by simp)
    | t0' :: rest', h =>
      have hnall' : ¬ (t0' :: rest').all Ty.isTD = true := by rw [← SetEq.all _ h]; exact hnall
      have heq' := (alleq_setEq t0 t0' rest rest' hw h).mp heq
      rw [shrink_alleq k t0' rest' hnall' heq']
      exact (alleq_iff t0 rest hw).mp heq t0 (List.mem_cons_self ..) t0' ((h t0').mpr (List.mem_cons_self ..))
  | case5 t0 rest hnall hneq hlist ih =>
    intro hw ts' h
    match ts', h with
    | [], h => exact absurd (SetEq.nil_iff h.symm) (by simp)
    | t0' :: rest', h =>
      have hnall' : ¬ (t0' :: rest').all Ty.isTD = true := by rw [← SetEq.all _ h]; exact hnall
      have hneq' : ¬ rest'.all (fun t => Ty.eqv t t0') = true := fun e => hneq ((alleq_setEq t0 t0' rest rest' hw h).mpr e)
      have hlist' : (t0' :: rest').all Ty.isList = true := by rw [← SetEq.all _ h]; exact hlist
      rw [shrink_lists k t0' rest' hnall' hneq' hlist']
      simp only [Ty.eqv]
      refine ih ?_ _ (SetEq.map _ h)
      intro t' ht'
      obtain ⟨u, hu, rfl⟩ := List.mem_map.mp ht'
      have := hw u hu
      cases u <;> simp_all [Ty.listArg, Ty.wf]
  | case6 t0 rest hnall hneq hnlist =>
    intro hw ts' h
    match ts', h with
    | [], h => exact absurd (SetEq.nil_iff h.symm) (by simp)
    | t0' :: rest', h =>
      have hnall' : ¬ (t0' :: rest').all Ty.isTD = true := by rw [← SetEq.all _ h]; exact hnall
      have hneq' : ¬ rest'.all (fun t => Ty.eqv t t0') = true := fun e => hneq ((alleq_setEq t0 t0' rest rest' hw h).mpr e)
      have hnlist' : ¬ (t0' :: rest').all Ty.isList = true := by rw [← SetEq.all _ h]; exact hnlist
      rw [shrink_union k t0' rest' hnall' hneq' hnlist']
      apply mkUnion_setEq _ _ _ (SetEq.map _ h)
      intro t ht
      obtain ⟨u, _, rfl⟩ := List.mem_map.mp ht
      exact tdToDict_wf u

end MT
