/-
  Lemmas/ShrinkSound.lean — `shrink_types` admits every value admitted by one of its inputs;
  `get_type` admits the value it was computed from.
-/
import MTVerif.Lemmas.Sound
namespace MT
set_option linter.unusedSectionVars false
variable (sub : ClassId → ClassId → Bool) (ao : Bool) (hrefl : ∀ c, sub c c = true)

theorem lookupF_mem_vals (s : String) (fs : List (String × Ty)) (u : Ty) (h : lookupF s fs = some u) :
    u ∈ fs.map Prod.snd ∧ s ∈ fs.map Prod.fst := by
  have := lookupF_mem s fs u h
  exact ⟨List.mem_map.mpr ⟨_, this, rfl⟩, List.mem_map.mpr ⟨_, this, rfl⟩⟩

theorem conformsReq_lookup (r : List (String × Ty)) (kvs : List (Val × Val)) (s : String) (u : Ty)
    (h : conformsReq sub ao r kvs = true) (hl : lookupF s r = some u) :
    ∃ kv ∈ kvs, kv.1 = Val.str s ∧ conforms sub ao u kv.2 = true :=
  (conformsReq_iff sub ao r kvs).mp h (s, u) (lookupF_mem s r u hl)

theorem conformsReq_map (keys : List String) (T : String → Ty) (kvs : List (Val × Val)) :
    conformsReq sub ao (keys.map (fun s => (s, T s))) kvs = true ↔
      ∀ s ∈ keys, ∃ kv ∈ kvs, kv.1 = Val.str s ∧ conforms sub ao (T s) kv.2 = true := by
  induction keys with
  | nil => simp [conformsReq]
  | cons k keys ih =>
    simp only [List.map_cons, conformsReq, Bool.and_eq_true, List.any_eq_true, ih, List.mem_cons,
      forall_eq_or_imp, Val.isStr_iff]

theorem conformsField_map (keys : List String) (T : String → Ty) (s : String) (v : Val) :
    conformsField sub ao (keys.map (fun s => (s, T s))) s v = true ↔ (s ∈ keys ∧ conforms sub ao (T s) v = true) := by
  induction keys with
  | nil => simp [conformsField]
  | cons k keys ih =>
    simp only [List.map_cons, conformsField, List.mem_cons]
    split
    · subst_vars; simp
    · rename_i hne; rw [ih]; constructor
      · rintro ⟨h1, h2⟩; exact ⟨Or.inr h1, h2⟩
      · rintro ⟨h1 | h1, h2⟩
        · exact absurd h1.symm hne
        · exact ⟨h1, h2⟩

theorem filterMap_full (f : Ty → Option Ty) (ts : List Ty) (h : (ts.filterMap f).length = ts.length) :
    ∀ t ∈ ts, ∃ u, f t = some u := by
  intro t ht
  have := (by simpa using h : ∀ a ∈ ts, (f a).isSome = true) t ht
  exact Option.isSome_iff_exists.mp this

theorem mem_keysOf (s : String) (fs : List (String × Ty)) : s ∈ keysOf fs ↔ s ∈ fs.map Prod.fst := by
  simp [keysOf, mem_dedupBy_str]

include hrefl in
theorem shrink_sound (k : Nat) (ts : List Ty) :
    (∀ t ∈ ts, t.wf = true) → ∀ v, (∃ t ∈ ts, conforms sub ao t v = true) → conforms sub ao (shrink k ts) v = true := by
  fun_induction shrink k ts with
  | case1 => intro _ v h; simp at h
  | case2 t0 rest hall hbig ih =>
    intro hw v h
    obtain ⟨t, ht, hc⟩ := h
    have htd := List.all_eq_true.mp hall t ht
    cases t <;> simp [Ty.isTD] at htd
    rename_i r o
    cases v <;> simp [conforms] at hc
    rename_i kvs
    obtain ⟨_, hfields⟩ := hc
    simp only [conforms, List.all_eq_true, Bool.and_eq_true]
    intro kv hkv
    have hf := hfields kv.1 kv.2 hkv
    split at hf
    · next s hs =>
      refine ⟨by rw [hs]; simp [conforms, Val.classOf, hrefl], ?_⟩
      apply ih (allVals_wf _ hw)
      simp only [Bool.or_eq_true, conformsField_lookup] at hf
      have hmem : ∀ u, (lookupF s r = some u ∨ lookupF s o = some u) → u ∈ allVals (t0 :: rest) := by
        intro u hu
        simp only [allVals, List.mem_flatMap]
        refine ⟨_, ht, ?_⟩
        simp only [Ty.reqF, Ty.optF, List.map_append, List.mem_append]
        rcases hu with hu | hu
        · left; exact (lookupF_mem_vals s _ u hu).1
        · right; exact (lookupF_mem_vals s _ u hu).1
      rcases hf with ⟨u, hu, hcu⟩ | ⟨u, hu, hcu⟩
      · exact ⟨u, hmem u (Or.inl hu), hcu⟩
      · exact ⟨u, hmem u (Or.inr hu), hcu⟩
    · simp at hf
  | case3 t0 rest hall hsmall ih =>
    intro hw v h
    obtain ⟨t, ht, hc⟩ := h
    have htd := List.all_eq_true.mp hall t ht
    cases t <;> simp [Ty.isTD] at htd
    rename_i r o
    cases v <;> simp [conforms] at hc
    rename_i kvs
    obtain ⟨hreq, hfields⟩ := hc
    have hmemR : ∀ s u, lookupF s r = some u → u ∈ reqVals s (t0 :: rest) ++ optVals s (t0 :: rest) := by
      intro s u hu
      apply List.mem_append_left
      simp only [reqVals, List.mem_filterMap]
      exact ⟨_, ht, by simpa [Ty.reqF] using hu⟩
    have hmemO : ∀ s u, lookupF s o = some u → u ∈ reqVals s (t0 :: rest) ++ optVals s (t0 :: rest) := by
      intro s u hu
      apply List.mem_append_right
      simp only [optVals, List.mem_filterMap]
      exact ⟨_, ht, by simpa [Ty.optF] using hu⟩
    simp only [conforms, Bool.and_eq_true, List.all_eq_true]
    constructor
    · rw [conformsReq_map]
      intro s hs
      have hs' : (reqVals s (t0 :: rest)).length = (t0 :: rest).length := by
        have := (List.mem_filter.mp hs).2; simpa using this
      obtain ⟨u, hu⟩ := filterMap_full _ _ hs' _ ht
      simp only [Ty.reqF] at hu
      obtain ⟨kv, hkv, hk, hcu⟩ := conformsReq_lookup sub ao r kvs s u hreq hu
      exact ⟨kv, hkv, hk, ih s (reqVals_wf s _ hw) kv.2 ⟨u, hmemR s u hu, hcu⟩⟩
    · intro kv hkv
      have hf := hfields kv.1 kv.2 hkv
      split at hf
      · next s hs =>
        simp only [Bool.or_eq_true, conformsField_lookup] at hf
        simp only [Bool.or_eq_true, conformsField_map]
        have hkey : s ∈ reqKeys (t0 :: rest) ∨ s ∈ optKeys (t0 :: rest) := by
          rcases hf with ⟨u, hu, _⟩ | ⟨u, hu, _⟩
          · have hr : s ∈ keysOf ((t0 :: rest).flatMap Ty.reqF) := by
              rw [mem_keysOf]
              simp only [List.mem_map, List.mem_flatMap]
              obtain ⟨x, hx⟩ := List.mem_map.mp (lookupF_mem_vals s _ u hu).2
              exact ⟨x, ⟨_, ht, by simpa [Ty.reqF] using hx.1⟩, hx.2⟩
            by_cases hcount : (reqVals s (t0 :: rest)).length = (t0 :: rest).length
            · left; exact List.mem_filter.mpr ⟨hr, by simpa using hcount⟩
            · right
              simp only [optKeys, mem_dedupBy_str, List.mem_append]
              left; exact List.mem_filter.mpr ⟨hr, by simpa using hcount⟩
          · right
            simp only [optKeys, mem_dedupBy_str, List.mem_append]
            right
            rw [mem_keysOf]
            simp only [List.mem_map, List.mem_flatMap]
            obtain ⟨x, hx⟩ := List.mem_map.mp (lookupF_mem_vals s _ u hu).2
            exact ⟨x, ⟨_, ht, by simpa [Ty.optF] using hx.1⟩, hx.2⟩
        have hval : conforms sub ao (shrink k (reqVals s (t0 :: rest) ++ optVals s (t0 :: rest))) kv.2 = true := by
          rcases hf with ⟨u, hu, hcu⟩ | ⟨u, hu, hcu⟩
          · exact ih s (reqVals_wf s _ hw) kv.2 ⟨u, hmemR s u hu, hcu⟩
          · exact ih s (reqVals_wf s _ hw) kv.2 ⟨u, hmemO s u hu, hcu⟩
        rcases hkey with hk | hk
        · left; exact ⟨hk, hval⟩
        · right; exact ⟨hk, hval⟩
      · simp at hf
  | case4 t0 rest hnall heq =>
    intro hw v h
    obtain ⟨t, ht, hc⟩ := h
    rcases List.mem_cons.mp ht with rfl | ht
    · exact hc
    · have := List.all_eq_true.mp heq t ht
      exact (Ty.eqv_sound sub ao t t0 this (hw t0 (List.mem_cons_self ..)) v).mp hc
  | case5 t0 rest hnall hneq hlist ih =>
    intro hw v h
    obtain ⟨t, ht, hc⟩ := h
    have hl := List.all_eq_true.mp hlist t ht
    cases t <;> simp [Ty.isList] at hl
    rename_i a
    cases v <;> simp [conforms] at hc
    rename_i vs
    simp only [conforms, List.all_eq_true]
    intro x hx
    refine ih ?_ x ⟨a, by simp only [List.mem_map]; exact ⟨_, ht, rfl⟩, hc x hx⟩
    intro t' ht'
    obtain ⟨u, hu, rfl⟩ := List.mem_map.mp ht'
    have := hw u hu
    cases u <;> simp_all [Ty.listArg, Ty.wf]
  | case6 t0 rest hnall hneq hnlist =>
    intro hw v h
    apply mkUnion_sound sub ao
    · intro t ht
      obtain ⟨u, _, rfl⟩ := List.mem_map.mp ht
      exact tdToDict_wf u
    · obtain ⟨t, ht, hc⟩ := h
      exact ⟨tdToDict t, by simp only [List.mem_map]; exact ⟨t, ht, rfl⟩, tdToDict_widens sub ao hrefl t v hc⟩

/-! ### get_type -/

theorem getFields_keys (k : Nat) (kvs : List (Val × Val))
    (hall : kvs.all (fun kv => kv.1.strKey?.isSome) = true) :
    (getFields k kvs).map Prod.fst = strKeys kvs := by
  induction kvs with
  | nil => simp [getFields, strKeys]
  | cons kv kvs ih =>
    obtain ⟨a, b⟩ := kv
    simp only [List.all_cons, Bool.and_eq_true] at hall
    obtain ⟨ha, hall⟩ := hall
    cases a <;> simp [Val.strKey?] at ha
    simp only [getFields, List.map_cons, strKeys, List.filterMap_cons, Val.strKey?]
    rw [ih hall]; rfl

theorem getFields_lookup (k : Nat) (kvs : List (Val × Val)) (hnd : (strKeys kvs).Nodup)
    (hall : kvs.all (fun kv => kv.1.strKey?.isSome) = true) (s : String) (b : Val)
    (hm : (Val.str s, b) ∈ kvs) : lookupF s (getFields k kvs) = some (getType k b) := by
  induction kvs with
  | nil => cases hm
  | cons kv kvs ih =>
    obtain ⟨a, b'⟩ := kv
    simp only [List.all_cons, Bool.and_eq_true] at hall
    obtain ⟨ha, hall⟩ := hall
    cases a <;> simp [Val.strKey?] at ha
    rename_i s'
    simp only [strKeys, List.filterMap_cons, Val.strKey?, List.nodup_cons] at hnd
    simp only [getFields, lookupF]
    rcases List.mem_cons.mp hm with heq | hm
    · cases heq; simp
    · have hne : s' ≠ s := by
        intro h; subst h
        apply hnd.1
        simp only [List.mem_filterMap]
        exact ⟨_, hm, rfl⟩
      simp only [hne, ↓reduceIte]
      exact ih hnd.2 hall hm

theorem conformsReq_getFields (k : Nat) (kvs : List (Val × Val))
    (hv : ∀ kv ∈ kvs, conforms sub ao (getType k kv.2) kv.2 = true) :
    ∀ l : List (Val × Val), (∀ x ∈ l, x ∈ kvs) → l.all (fun kv => kv.1.strKey?.isSome) = true →
      conformsReq sub ao (getFields k l) kvs = true := by
  intro l
  induction l with
  | nil => intros; simp [getFields, conformsReq]
  | cons x l ih =>
    intro hsub hall
    obtain ⟨a, b⟩ := x
    simp only [List.all_cons, Bool.and_eq_true] at hall
    obtain ⟨ha, hall⟩ := hall
    cases a <;> simp [Val.strKey?] at ha
    rename_i s
    simp only [getFields, conformsReq, Bool.and_eq_true, List.any_eq_true]
    refine ⟨⟨(Val.str s, b), hsub _ (List.mem_cons_self ..), ?_, hv _ (hsub _ (List.mem_cons_self ..))⟩, ?_⟩
    · simp [Val.isStr]
    · exact ih (fun x hx => hsub x (List.mem_cons_of_mem _ hx)) hall

mutual
theorem getType_wf (k : Nat) : ∀ v : Val, v.wf = true → (getType k v).wf = true
  | .inst c, _ => by simp [getType, Ty.wf]
  | .str s, _ => by simp [getType, Ty.wf]
  | .classObj c, _ => by simp [getType, Ty.wf]
  | .func, _ => by simp [getType, Ty.wf]
  | .genObj, _ => by simp [getType, Ty.wf]
  | .list vs, h => by
      simp only [Val.wf] at h
      simp only [getType, Ty.wf]
      exact shrink_wf k _ (getTypes_wf k vs h)
  | .set vs, h => by
      simp only [Val.wf] at h
      simp only [getType, Ty.wf]
      exact shrink_wf k _ (getTypes_wf k vs h)
  | .tuple vs, h => by
      simp only [Val.wf] at h
      simp only [getType, Ty.wf]
      exact (wfTL_iff _).mpr (getTypes_wf k vs h)
  | .ddict kvs, h => by
      simp only [Val.wf, Bool.and_eq_true] at h
      simp only [getType, Ty.wf, Bool.and_eq_true]
      exact ⟨shrink_wf k _ (getKeyTypes_wf k kvs h.1), shrink_wf k _ (getValTypes_wf k kvs h.1)⟩
  | .dict kvs, h => by
      simp only [Val.wf, Bool.and_eq_true, decide_eq_true_eq] at h
      cases kvs with
      | nil => simp [getType, Ty.wf]
      | cons kv0 kvs0 =>
        simp only [getType]
        split
        · next hcond =>
          simp only [Bool.and_eq_true] at hcond
          simp only [Ty.wf, Bool.and_eq_true, decide_eq_true_eq, wfTF, List.map_nil, List.nodup_nil, and_true]
          refine ⟨(wfTF_iff _).mpr (getFields_wf k _ h.1), ?_⟩
          rw [getFields_keys k _ (all_tdKeyOk_strKey _ hcond.1)]; exact h.2
        · simp only [Ty.wf, Bool.and_eq_true]
          exact ⟨shrink_wf k _ (getKeyTypes_wf k _ h.1), shrink_wf k _ (getValTypes_wf k _ h.1)⟩
theorem getTypes_wf (k : Nat) : ∀ vs : List Val, wfL vs = true → ∀ t ∈ getTypes k vs, t.wf = true
  | [], _, t, ht => by simp [getTypes] at ht
  | v0 :: vs, h, t, ht => by
      simp only [wfL, Bool.and_eq_true] at h
      simp only [getTypes, List.mem_cons] at ht
      rcases ht with heq | ht
      · rw [heq]; exact getType_wf k v0 h.1
      · exact getTypes_wf k vs h.2 t ht
theorem getKeyTypes_wf (k : Nat) : ∀ kvs : List (Val × Val), wfKV kvs = true → ∀ t ∈ getKeyTypes k kvs, t.wf = true
  | [], _, t, ht => by simp [getKeyTypes] at ht
  | (a, b) :: kvs, h, t, ht => by
      simp only [wfKV, Bool.and_eq_true] at h
      simp only [getKeyTypes, List.mem_cons] at ht
      rcases ht with heq | ht
      · rw [heq]; exact getType_wf k a h.1.1
      · exact getKeyTypes_wf k kvs h.2 t ht
theorem getValTypes_wf (k : Nat) : ∀ kvs : List (Val × Val), wfKV kvs = true → ∀ t ∈ getValTypes k kvs, t.wf = true
  | [], _, t, ht => by simp [getValTypes] at ht
  | (a, b) :: kvs, h, t, ht => by
      simp only [wfKV, Bool.and_eq_true] at h
      simp only [getValTypes, List.mem_cons] at ht
      rcases ht with heq | ht
      · rw [heq]; exact getType_wf k b h.1.2
      · exact getValTypes_wf k kvs h.2 t ht
theorem getFields_wf (k : Nat) : ∀ kvs : List (Val × Val), wfKV kvs = true → ∀ kt ∈ getFields k kvs, kt.2.wf = true
  | [], _, t, ht => by simp [getFields] at ht
  | (a, b) :: kvs, h, t, ht => by
      simp only [wfKV, Bool.and_eq_true] at h
      simp only [getFields, List.mem_cons] at ht
      rcases ht with heq | ht
      · rw [heq]; exact getType_wf k b h.1.2
      · exact getFields_wf k kvs h.2 t ht
end

include hrefl in
mutual
theorem getType_sound (k : Nat) : ∀ v : Val, v.wf = true → conforms sub ao (getType k v) v = true
  | .inst c, _ => by simp [getType, conforms, Val.classOf, hrefl]
  | .str s, _ => by simp [getType, conforms, Val.classOf, hrefl]
  | .classObj c, _ => by simp [getType, conforms, hrefl]
  | .func, _ => by simp [getType, conforms]
  | .genObj, _ => by simp [getType, conforms]
  | .list vs, h => by
      simp only [Val.wf] at h
      simp only [getType, conforms, List.all_eq_true]
      intro x hx
      exact shrink_sound sub ao hrefl k _ (getTypes_wf k vs h) x (getTypes_sound k vs h x hx)
  | .set vs, h => by
      simp only [Val.wf] at h
      simp only [getType, conforms, List.all_eq_true]
      intro x hx
      exact shrink_sound sub ao hrefl k _ (getTypes_wf k vs h) x (getTypes_sound k vs h x hx)
  | .tuple vs, h => by
      simp only [Val.wf] at h
      simp only [getType, conforms]
      exact getTypes_tuple k vs h
  | .ddict kvs, h => by
      simp only [Val.wf, Bool.and_eq_true] at h
      simp only [getType, conforms, List.all_eq_true, Bool.and_eq_true]
      intro x hx
      have := getKV_sound k kvs h.1 x hx
      exact ⟨shrink_sound sub ao hrefl k _ (getKeyTypes_wf k kvs h.1) _ this.1,
             shrink_sound sub ao hrefl k _ (getValTypes_wf k kvs h.1) _ this.2⟩
  | .dict kvs, h => by
      simp only [Val.wf, Bool.and_eq_true, decide_eq_true_eq] at h
      cases kvs with
      | nil => simp [getType, conforms]
      | cons kv0 kvs0 =>
        simp only [getType]
        split
        · next hcond =>
          simp only [Bool.and_eq_true] at hcond
          simp only [conforms, Bool.and_eq_true, List.all_eq_true]
          have hv := getVal_sound k _ h.1
          have hstr := all_tdKeyOk_strKey _ hcond.1
          refine ⟨conformsReq_getFields sub ao k _ hv _ (fun x hx => hx) hstr, ?_⟩
          intro kv hkv
          have hk := List.all_eq_true.mp hstr kv hkv
          obtain ⟨a, b⟩ := kv
          cases a <;> simp [Val.strKey?] at hk
          rename_i s
          simp only [Bool.or_eq_true]
          left
          rw [conformsField_lookup]
          exact ⟨_, getFields_lookup k _ h.2 hstr s b hkv, hv _ hkv⟩
        · simp only [conforms, List.all_eq_true, Bool.and_eq_true]
          intro x hx
          have := getKV_sound k _ h.1 x hx
          exact ⟨shrink_sound sub ao hrefl k _ (getKeyTypes_wf k _ h.1) _ this.1,
                 shrink_sound sub ao hrefl k _ (getValTypes_wf k _ h.1) _ this.2⟩
theorem getTypes_sound (k : Nat) : ∀ vs : List Val, wfL vs = true → ∀ v ∈ vs,
    ∃ t ∈ getTypes k vs, conforms sub ao t v = true
  | [], _, v, hv => by cases hv
  | v0 :: vs, h, v, hv => by
      simp only [wfL, Bool.and_eq_true] at h
      simp only [getTypes, List.mem_cons, exists_eq_or_imp]
      rcases List.mem_cons.mp hv with heq | hv
      · left; rw [heq]; exact getType_sound k v0 h.1
      · right; exact getTypes_sound k vs h.2 v hv
theorem getTypes_tuple (k : Nat) : ∀ vs : List Val, wfL vs = true → conformsL sub ao (getTypes k vs) vs = true
  | [], _ => by simp [getTypes, conformsL]
  | v0 :: vs, h => by
      simp only [wfL, Bool.and_eq_true] at h
      simp only [getTypes, conformsL, Bool.and_eq_true]
      exact ⟨getType_sound k v0 h.1, getTypes_tuple k vs h.2⟩
theorem getVal_sound (k : Nat) : ∀ kvs : List (Val × Val), wfKV kvs = true → ∀ kv ∈ kvs,
    conforms sub ao (getType k kv.2) kv.2 = true
  | [], _, kv, hkv => by cases hkv
  | (a, b) :: kvs, h, kv, hkv => by
      simp only [wfKV, Bool.and_eq_true] at h
      rcases List.mem_cons.mp hkv with heq | hkv
      · rw [heq]; exact getType_sound k b h.1.2
      · exact getVal_sound k kvs h.2 kv hkv
theorem getKV_sound (k : Nat) : ∀ kvs : List (Val × Val), wfKV kvs = true → ∀ kv ∈ kvs,
    (∃ t ∈ getKeyTypes k kvs, conforms sub ao t kv.1 = true) ∧ (∃ t ∈ getValTypes k kvs, conforms sub ao t kv.2 = true)
  | [], _, kv, hkv => by cases hkv
  | (a, b) :: kvs, h, kv, hkv => by
      simp only [wfKV, Bool.and_eq_true] at h
      simp only [getKeyTypes, getValTypes, List.mem_cons, exists_eq_or_imp]
      rcases List.mem_cons.mp hkv with heq | hkv
      · rw [heq]; exact ⟨Or.inl (getType_sound k a h.1.1), Or.inl (getType_sound k b h.1.2)⟩
      · have := getKV_sound k kvs h.2 kv hkv
        exact ⟨Or.inr this.1, Or.inr this.2⟩
end

end MT
