/-
  Lemmas/Sound.lean — `typing.Union[...]` and `RewriteAnonymousTypedDictToDict` never lose a member;
  well-formedness of everything the inference builds.
-/
import MTVerif.Lemmas.EqvSound
namespace MT
set_option linter.unusedSectionVars false

/-! ### well-formedness is preserved -/

theorem flat1_wf (ts : List Ty) (h : ∀ t ∈ ts, t.wf = true) : ∀ t ∈ flat1 ts, t.wf = true := by
  intro t ht
  simp only [flat1, List.mem_flatMap] at ht
  obtain ⟨u, hu, htu⟩ := ht
  have hw := h u hu
  cases u <;> simp at htu <;> try (subst htu; exact hw)
  rename_i us
  simp only [Ty.wf] at hw
  exact (wfTL_iff us).mp hw t htu

theorem mkUnion_wf (ts : List Ty) (h : ∀ t ∈ ts, t.wf = true) : (mkUnion ts).wf = true := by
  have hd : ∀ t ∈ dedupBy Ty.eqv (flat1 ts), t.wf = true :=
    fun t ht => flat1_wf ts h t (dedupBy_subset _ _ t ht)
  unfold mkUnion
  split
  · next u heq => exact hd u (by rw [heq]; simp)
  · simp only [Ty.wf]; exact (wfTL_iff _).mpr hd

mutual
theorem tdToDict_wf : ∀ t : Ty, (tdToDict t).wf = true
  | .any => by simp [tdToDict, Ty.wf]
  | .cls _ => by simp [tdToDict, Ty.wf]
  | .typeOf _ => by simp [tdToDict, Ty.wf]
  | .callable => by simp [tdToDict, Ty.wf]
  | .list a => by simp only [tdToDict, Ty.wf]; exact tdToDict_wf a
  | .set a => by simp only [tdToDict, Ty.wf]; exact tdToDict_wf a
  | .tupleOf a => by simp only [tdToDict, Ty.wf]; exact tdToDict_wf a
  | .iterator a => by simp only [tdToDict, Ty.wf]; exact tdToDict_wf a
  | .dict a b => by simp only [tdToDict, Ty.wf, Bool.and_eq_true]; exact ⟨tdToDict_wf a, tdToDict_wf b⟩
  | .ddict a b => by simp only [tdToDict, Ty.wf, Bool.and_eq_true]; exact ⟨tdToDict_wf a, tdToDict_wf b⟩
  | .generator a b c => by
      simp only [tdToDict, Ty.wf, Bool.and_eq_true]; exact ⟨⟨tdToDict_wf a, tdToDict_wf b⟩, tdToDict_wf c⟩
  | .tuple ts => by simp only [tdToDict, Ty.wf]; exact (wfTL_iff _).mpr (tdToDictL_wf ts)
  | .union ts => by simp only [tdToDict]; exact mkUnion_wf _ (tdToDictL_wf ts)
  | .td r o => by
      simp only [tdToDict]
      split
      · simp [Ty.wf]
      · simp only [Ty.wf, Bool.true_and]
        apply mkUnion_wf
        intro t ht
        rcases List.mem_append.mp ht with ht | ht
        · exact tdToDictF_wf r t ht
        · exact tdToDictF_wf o t ht
theorem tdToDictL_wf : ∀ ts : List Ty, ∀ t ∈ tdToDictL ts, t.wf = true
  | [], t, ht => by simp [tdToDictL] at ht
  | a :: as, t, ht => by
      simp only [tdToDictL, List.mem_cons] at ht
      rcases ht with heq | ht
      · rw [heq]; exact tdToDict_wf a
      · exact tdToDictL_wf as t ht
theorem tdToDictF_wf : ∀ fs : List (String × Ty), ∀ t ∈ tdToDictF fs, t.wf = true
  | [], t, ht => by simp [tdToDictF] at ht
  | (_, a) :: as, t, ht => by
      simp only [tdToDictF, List.mem_cons] at ht
      rcases ht with heq | ht
      · rw [heq]; exact tdToDict_wf a
      · exact tdToDictF_wf as t ht
end

theorem tdToDictL_eq_map (ts : List Ty) : tdToDictL ts = ts.map tdToDict := by
  induction ts with
  | nil => rfl
  | cons t ts ih => simp [tdToDictL, ih]

theorem reqF_wf (t : Ty) (h : t.wf = true) : ∀ kt ∈ t.reqF, kt.2.wf = true := by
  cases t <;> simp [Ty.reqF]
  simp only [Ty.wf, Bool.and_eq_true] at h
  intro a b hab; exact (wfTF_iff _).mp h.1.1.1 (a, b) hab

theorem optF_wf (t : Ty) (h : t.wf = true) : ∀ kt ∈ t.optF, kt.2.wf = true := by
  cases t <;> simp [Ty.optF]
  simp only [Ty.wf, Bool.and_eq_true] at h
  intro a b hab; exact (wfTF_iff _).mp h.1.1.2 (a, b) hab

theorem reqVals_wf (s : String) (ts : List Ty) (h : ∀ t ∈ ts, t.wf = true) :
    ∀ t ∈ reqVals s ts ++ optVals s ts, t.wf = true := by
  intro t ht
  simp only [reqVals, optVals, List.mem_append, List.mem_filterMap] at ht
  rcases ht with ⟨u, hu, hl⟩ | ⟨u, hu, hl⟩
  · exact reqF_wf u (h u hu) (s, t) (lookupF_mem _ _ _ hl)
  · exact optF_wf u (h u hu) (s, t) (lookupF_mem _ _ _ hl)

theorem allVals_wf (ts : List Ty) (h : ∀ t ∈ ts, t.wf = true) : ∀ t ∈ allVals ts, t.wf = true := by
  intro t ht
  simp only [allVals, List.mem_flatMap, List.mem_map, List.mem_append] at ht
  obtain ⟨u, hu, kt, hkt, rfl⟩ := ht
  rcases hkt with hkt | hkt
  · exact reqF_wf u (h u hu) kt hkt
  · exact optF_wf u (h u hu) kt hkt

theorem map_keys (l : List String) (f : String → Ty) : (l.map (fun s => (s, f s))).map Prod.fst = l := by
  induction l with
  | nil => rfl
  | cons a l ih => simp [ih]

theorem shrink_wf (k : Nat) (ts : List Ty) : (∀ t ∈ ts, t.wf = true) → (shrink k ts).wf = true := by
  fun_induction shrink k ts with
  | case1 => intro _; simp [Ty.wf]
  | case2 t0 rest hall hbig ih =>
    intro h
    simp only [Ty.wf, Bool.true_and]
    exact ih (allVals_wf _ h)
  | case3 t0 rest hall hsmall ih1 =>
    intro h
    simp only [Ty.wf, Bool.and_eq_true, decide_eq_true_eq, map_keys]
    refine ⟨⟨⟨?_, ?_⟩, ?_⟩, ?_⟩
    · rw [wfTF_iff]; intro kt hkt
      obtain ⟨s, _, rfl⟩ := List.mem_map.mp hkt
      exact ih1 s (reqVals_wf s _ h)
    · rw [wfTF_iff]; intro kt hkt
      obtain ⟨s, _, rfl⟩ := List.mem_map.mp hkt
      exact ih1 s (reqVals_wf s _ h)
    · exact (nodup_dedupBy_str _).sublist List.filter_sublist
    · exact nodup_dedupBy_str _
  | case4 t0 rest hnall heq => intro h; exact h t0 (List.mem_cons_self ..)
  | case5 t0 rest hnall hneq hlist ih =>
    intro h
    simp only [Ty.wf]
    apply ih
    intro t ht
    obtain ⟨u, hu, rfl⟩ := List.mem_map.mp ht
    have := h u hu
    cases u <;> simp_all [Ty.listArg, Ty.wf]
  | case6 t0 rest hnall hneq hnlist =>
    intro _
    apply mkUnion_wf
    intro t ht
    obtain ⟨u, _, rfl⟩ := List.mem_map.mp ht
    exact tdToDict_wf u

/-! ### soundness of Union and of the TypedDict → Dict rewrite -/

section
variable (sub : ClassId → ClassId → Bool) (ao : Bool)

theorem mem_flat1 (ts : List Ty) (v : Val) (h : ∃ t ∈ ts, conforms sub ao t v = true) :
    ∃ t ∈ flat1 ts, conforms sub ao t v = true := by
  obtain ⟨t, ht, hc⟩ := h
  by_cases hu : ∃ us, t = .union us
  · obtain ⟨us, rfl⟩ := hu
    obtain ⟨u, hu, hcu⟩ := (conforms_union sub ao us v).mp hc
    exact ⟨u, by simp only [flat1, List.mem_flatMap]; exact ⟨_, ht, by simpa using hu⟩, hcu⟩
  · refine ⟨t, ?_, hc⟩
    simp only [flat1, List.mem_flatMap]
    refine ⟨t, ht, ?_⟩
    cases t <;> simp_all

theorem mkUnion_sound (ts : List Ty) (hw : ∀ t ∈ ts, t.wf = true) (v : Val)
    (h : ∃ t ∈ ts, conforms sub ao t v = true) : conforms sub ao (mkUnion ts) v = true := by
  have h1 := mem_flat1 sub ao ts v h
  have hwf := flat1_wf ts hw
  obtain ⟨t, hm, hc⟩ := dedupBy_sem Ty.eqv (fun t => conforms sub ao t v = true) (flat1 ts)
    (fun a _ b hb hab hpb => (Ty.eqv_sound sub ao a b hab (hwf b hb) v).mpr hpb) h1
  unfold mkUnion
  split
  · next u heq => rw [heq] at hm; simp at hm; subst hm; exact hc
  · exact (conforms_union sub ao _ v).mpr ⟨t, hm, hc⟩
end

section
variable (sub : ClassId → ClassId → Bool) (ao : Bool) (hrefl : ∀ c, sub c c = true)
include hrefl

mutual
theorem tdToDict_widens : ∀ (t : Ty) (v : Val), conforms sub ao t v = true → conforms sub ao (tdToDict t) v = true
  | .any, v, h => by simpa [tdToDict] using h
  | .cls c, v, h => by simpa [tdToDict] using h
  | .typeOf c, v, h => by simpa [tdToDict] using h
  | .callable, v, h => by simpa [tdToDict] using h
  | .iterator a, v, h => by cases v <;> simp [conforms] at h; simp [tdToDict, conforms]
  | .generator a b c, v, h => by cases v <;> simp [conforms] at h; simp [tdToDict, conforms]
  | .list a, v, h => by
      cases v <;> simp [conforms] at h
      simp only [tdToDict, conforms, List.all_eq_true]
      intro x hx; exact tdToDict_widens a x (h x hx)
  | .set a, v, h => by
      cases v <;> simp [conforms] at h
      simp only [tdToDict, conforms, List.all_eq_true]
      intro x hx; exact tdToDict_widens a x (h x hx)
  | .tupleOf a, v, h => by
      cases v <;> simp [conforms] at h
      simp only [tdToDict, conforms, List.all_eq_true]
      intro x hx; exact tdToDict_widens a x (h x hx)
  | .dict a b, v, h => by
      cases v <;> simp [conforms] at h
      all_goals
        simp only [tdToDict, conforms, List.all_eq_true, Bool.and_eq_true]
        intro x hx
        have ⟨h1, h2⟩ := h x.1 x.2 hx
        exact ⟨tdToDict_widens a _ h1, tdToDict_widens b _ h2⟩
  | .ddict a b, v, h => by
      cases v <;> simp [conforms] at h
      simp only [tdToDict, conforms, List.all_eq_true, Bool.and_eq_true]
      intro x hx
      have ⟨h1, h2⟩ := h x.1 x.2 hx
      exact ⟨tdToDict_widens a _ h1, tdToDict_widens b _ h2⟩
  | .tuple ts, v, h => by
      cases v <;> simp [conforms] at h
      simp only [tdToDict, conforms]
      exact tdToDictL_widens ts _ h
  | .union ts, v, h => by
      simp only [tdToDict]
      apply mkUnion_sound sub ao _ (tdToDictL_wf ts)
      rw [conforms] at h
      exact (conformsAny_iff sub ao _ v).mp (tdToDictL_any ts v h)
  | .td r o, v, h => by
      cases v <;> simp [conforms] at h
      rename_i kvs
      obtain ⟨_, hall⟩ := h
      have hwf : ∀ t ∈ tdToDictF r ++ tdToDictF o, t.wf = true := by
        intro t ht
        rcases List.mem_append.mp ht with ht | ht
        · exact tdToDictF_wf r t ht
        · exact tdToDictF_wf o t ht
      have key : ∀ kv ∈ kvs, conforms sub ao (.cls strC) kv.1 = true ∧
          conforms sub ao (mkUnion (tdToDictF r ++ tdToDictF o)) kv.2 = true := by
        intro kv hkv
        have := hall kv.1 kv.2 hkv
        split at this
        · next s hs =>
          refine ⟨by rw [hs]; simp [conforms, Val.classOf, hrefl], ?_⟩
          apply mkUnion_sound sub ao _ hwf
          simp only [Bool.or_eq_true] at this
          rcases this with h1 | h1
          · obtain ⟨u, hu, hc⟩ := tdToDictF_field r s kv.2 h1
            exact ⟨u, List.mem_append_left _ hu, hc⟩
          · obtain ⟨u, hu, hc⟩ := tdToDictF_field o s kv.2 h1
            exact ⟨u, List.mem_append_right _ hu, hc⟩
        · simp at this
      simp only [tdToDict]
      split
      · -- the empty TypedDict admits only the empty dict
        simp only [conforms, List.all_eq_true, Bool.and_eq_true]
        intro kv hkv
        have := hall kv.1 kv.2 hkv
        split at this <;> simp [conformsField] at this
      · simp only [conforms, List.all_eq_true, Bool.and_eq_true]
        exact key
theorem tdToDictF_field : ∀ (fs : List (String × Ty)) (s : String) (v : Val), conformsField sub ao fs s v = true →
    ∃ u ∈ tdToDictF fs, conforms sub ao u v = true
  | [], _, _, h => by simp [conformsField] at h
  | (k, t) :: fs, s, v, h => by
      simp only [conformsField] at h
      simp only [tdToDictF, List.mem_cons, exists_eq_or_imp]
      split at h
      · left; exact tdToDict_widens t v h
      · right; exact tdToDictF_field fs s v h
theorem tdToDictL_widens : ∀ (ts : List Ty) (vs : List Val), conformsL sub ao ts vs = true → conformsL sub ao (tdToDictL ts) vs = true
  | [], vs, h => by simpa [tdToDictL] using h
  | t :: ts, vs, h => by
      cases vs with
      | nil => simp [conformsL] at h
      | cons v vs =>
        simp only [conformsL, Bool.and_eq_true] at h
        simp only [tdToDictL, conformsL, Bool.and_eq_true]
        exact ⟨tdToDict_widens t v h.1, tdToDictL_widens ts vs h.2⟩
theorem tdToDictL_any : ∀ (ts : List Ty) (v : Val), conformsAny sub ao ts v = true →
    conformsAny sub ao (tdToDictL ts) v = true
  | [], _, h => by simp [conformsAny] at h
  | t' :: ts, v, h => by
      simp only [conformsAny, Bool.or_eq_true] at h
      simp only [tdToDictL, conformsAny, Bool.or_eq_true]
      rcases h with h | h
      · left; exact tdToDict_widens t' v h
      · right; exact tdToDictL_any ts v h
end
end

end MT
