/-
  Lemmas/TdSize.lean — the TypedDict size limit is an invariant of get_type / shrink_types.
-/
import MTVerif.Model.TdSize
import MTVerif.Lemmas.Basic
namespace MT

theorem hasTDL_iff (ts : List Ty) : hasTDL ts = false ↔ ∀ t ∈ ts, t.hasTD = false := by
  induction ts with
  | nil => simp [hasTDL]
  | cons t ts ih => simp [hasTDL, ih]

theorem tdOkL_iff (k : Nat) (ts : List Ty) : tdOkL k ts = true ↔ ∀ t ∈ ts, t.tdOk k = true := by
  induction ts with
  | nil => simp [tdOkL]
  | cons t ts ih => simp [tdOkL, ih]

theorem tdOkF_iff (k : Nat) (fs : List (String × Ty)) : tdOkF k fs = true ↔ ∀ kt ∈ fs, kt.2.tdOk k = true := by
  induction fs with
  | nil => simp [tdOkF]
  | cons kt fs ih => obtain ⟨s, t⟩ := kt; simp [tdOkF, ih]

mutual
theorem noTD_tdOk (k : Nat) : ∀ t : Ty, t.hasTD = false → t.tdOk k = true
  | .any, _ => by simp [Ty.tdOk]
  | .cls _, _ => by simp [Ty.tdOk]
  | .typeOf _, _ => by simp [Ty.tdOk]
  | .callable, _ => by simp [Ty.tdOk]
  | .list a, h => by simp only [Ty.hasTD] at h; simp only [Ty.tdOk]; exact noTD_tdOk k a h
  | .set a, h => by simp only [Ty.hasTD] at h; simp only [Ty.tdOk]; exact noTD_tdOk k a h
  | .tupleOf a, h => by simp only [Ty.hasTD] at h; simp only [Ty.tdOk]; exact noTD_tdOk k a h
  | .iterator a, h => by simp only [Ty.hasTD] at h; simp only [Ty.tdOk]; exact noTD_tdOk k a h
  | .dict a b, h => by
      simp only [Ty.hasTD, Bool.or_eq_false_iff] at h
      simp only [Ty.tdOk, Bool.and_eq_true]; exact ⟨noTD_tdOk k a h.1, noTD_tdOk k b h.2⟩
  | .ddict a b, h => by
      simp only [Ty.hasTD, Bool.or_eq_false_iff] at h
      simp only [Ty.tdOk, Bool.and_eq_true]; exact ⟨noTD_tdOk k a h.1, noTD_tdOk k b h.2⟩
  | .generator a b c, h => by
      simp only [Ty.hasTD, Bool.or_eq_false_iff] at h
      simp only [Ty.tdOk, Bool.and_eq_true]; exact ⟨⟨noTD_tdOk k a h.1.1, noTD_tdOk k b h.1.2⟩, noTD_tdOk k c h.2⟩
  | .tuple ts, h => by simp only [Ty.hasTD] at h; simp only [Ty.tdOk]; exact noTDL_tdOk k ts h
  | .union ts, h => by simp only [Ty.hasTD] at h; simp only [Ty.tdOk]; exact noTDL_tdOk k ts h
  | .td _ _, h => by simp [Ty.hasTD] at h
theorem noTDL_tdOk (k : Nat) : ∀ ts : List Ty, hasTDL ts = false → tdOkL k ts = true
  | [], _ => by simp [tdOkL]
  | t :: ts, h => by
      simp only [hasTDL, Bool.or_eq_false_iff] at h
      simp only [tdOkL, Bool.and_eq_true]; exact ⟨noTD_tdOk k t h.1, noTDL_tdOk k ts h.2⟩
end

mutual
/-- with limit 0 the size invariant says there is no TypedDict node at all -/
theorem tdOk_zero : ∀ t : Ty, t.tdOk 0 = true → t.hasTD = false
  | .any, _ => by simp [Ty.hasTD]
  | .cls _, _ => by simp [Ty.hasTD]
  | .typeOf _, _ => by simp [Ty.hasTD]
  | .callable, _ => by simp [Ty.hasTD]
  | .list a, h => by simp only [Ty.tdOk] at h; simp only [Ty.hasTD]; exact tdOk_zero a h
  | .set a, h => by simp only [Ty.tdOk] at h; simp only [Ty.hasTD]; exact tdOk_zero a h
  | .tupleOf a, h => by simp only [Ty.tdOk] at h; simp only [Ty.hasTD]; exact tdOk_zero a h
  | .iterator a, h => by simp only [Ty.tdOk] at h; simp only [Ty.hasTD]; exact tdOk_zero a h
  | .dict a b, h => by
      simp only [Ty.tdOk, Bool.and_eq_true] at h
      simp only [Ty.hasTD, Bool.or_eq_false_iff]; exact ⟨tdOk_zero a h.1, tdOk_zero b h.2⟩
  | .ddict a b, h => by
      simp only [Ty.tdOk, Bool.and_eq_true] at h
      simp only [Ty.hasTD, Bool.or_eq_false_iff]; exact ⟨tdOk_zero a h.1, tdOk_zero b h.2⟩
  | .generator a b c, h => by
      simp only [Ty.tdOk, Bool.and_eq_true] at h
      simp only [Ty.hasTD, Bool.or_eq_false_iff]; exact ⟨⟨tdOk_zero a h.1.1, tdOk_zero b h.1.2⟩, tdOk_zero c h.2⟩
  | .tuple ts, h => by simp only [Ty.tdOk] at h; simp only [Ty.hasTD]; exact tdOkL_zero ts h
  | .union ts, h => by simp only [Ty.tdOk] at h; simp only [Ty.hasTD]; exact tdOkL_zero ts h
  | .td r o, h => by
      simp only [Ty.tdOk, Bool.and_eq_true, decide_eq_true_eq] at h
      omega
theorem tdOkL_zero : ∀ ts : List Ty, tdOkL 0 ts = true → hasTDL ts = false
  | [], _ => by simp [hasTDL]
  | t :: ts, h => by
      simp only [tdOkL, Bool.and_eq_true] at h
      simp only [hasTDL, Bool.or_eq_false_iff]; exact ⟨tdOk_zero t h.1, tdOkL_zero ts h.2⟩
end

/-! ### Union and the TypedDict → Dict rewrite contain no TypedDict -/

theorem flat1_noTD (ts : List Ty) (h : ∀ t ∈ ts, t.hasTD = false) : ∀ t ∈ flat1 ts, t.hasTD = false := by
  intro t ht
  simp only [flat1, List.mem_flatMap] at ht
  obtain ⟨u, hu, htu⟩ := ht
  have hw := h u hu
  cases u <;> simp at htu <;> try (subst htu; exact hw)
  rename_i us
  simp only [Ty.hasTD] at hw
  exact (hasTDL_iff us).mp hw t htu

theorem mkUnion_noTD (ts : List Ty) (h : ∀ t ∈ ts, t.hasTD = false) : (mkUnion ts).hasTD = false := by
  have hd : ∀ t ∈ dedupBy Ty.eqv (flat1 ts), t.hasTD = false :=
    fun t ht => flat1_noTD ts h t (dedupBy_subset _ _ t ht)
  unfold mkUnion
  split
  · next u heq => exact hd u (by rw [heq]; simp)
  · simp only [Ty.hasTD]; exact (hasTDL_iff _).mpr hd

mutual
theorem tdToDict_noTD : ∀ t : Ty, (tdToDict t).hasTD = false
  | .any => by simp [tdToDict, Ty.hasTD]
  | .cls _ => by simp [tdToDict, Ty.hasTD]
  | .typeOf _ => by simp [tdToDict, Ty.hasTD]
  | .callable => by simp [tdToDict, Ty.hasTD]
  | .list a => by simp only [tdToDict, Ty.hasTD]; exact tdToDict_noTD a
  | .set a => by simp only [tdToDict, Ty.hasTD]; exact tdToDict_noTD a
  | .tupleOf a => by simp only [tdToDict, Ty.hasTD]; exact tdToDict_noTD a
  | .iterator a => by simp only [tdToDict, Ty.hasTD]; exact tdToDict_noTD a
  | .dict a b => by simp only [tdToDict, Ty.hasTD, Bool.or_eq_false_iff]; exact ⟨tdToDict_noTD a, tdToDict_noTD b⟩
  | .ddict a b => by simp only [tdToDict, Ty.hasTD, Bool.or_eq_false_iff]; exact ⟨tdToDict_noTD a, tdToDict_noTD b⟩
  | .generator a b c => by
      simp only [tdToDict, Ty.hasTD, Bool.or_eq_false_iff]; exact ⟨⟨tdToDict_noTD a, tdToDict_noTD b⟩, tdToDict_noTD c⟩
  | .tuple ts => by simp only [tdToDict, Ty.hasTD]; exact (hasTDL_iff _).mpr (tdToDictL_noTD ts)
  | .union ts => by simp only [tdToDict]; exact mkUnion_noTD _ (tdToDictL_noTD ts)
  | .td r o => by
      simp only [tdToDict]
      split
      · simp [Ty.hasTD]
      · simp only [Ty.hasTD, Bool.false_or]
        apply mkUnion_noTD
        intro t ht
        rcases List.mem_append.mp ht with ht | ht
        · exact tdToDictF_noTD r t ht
        · exact tdToDictF_noTD o t ht
theorem tdToDictL_noTD : ∀ ts : List Ty, ∀ t ∈ tdToDictL ts, t.hasTD = false
  | [], t, ht => by simp [tdToDictL] at ht
  | a :: as, t, ht => by
      simp only [tdToDictL, List.mem_cons] at ht
      rcases ht with heq | ht
      · rw [heq]; exact tdToDict_noTD a
      · exact tdToDictL_noTD as t ht
theorem tdToDictF_noTD : ∀ fs : List (String × Ty), ∀ t ∈ tdToDictF fs, t.hasTD = false
  | [], t, ht => by simp [tdToDictF] at ht
  | (_, a) :: as, t, ht => by
      simp only [tdToDictF, List.mem_cons] at ht
      rcases ht with heq | ht
      · rw [heq]; exact tdToDict_noTD a
      · exact tdToDictF_noTD as t ht
end

/-! ### shrink_types and get_type keep the invariant -/

theorem reqF_tdOk (k : Nat) (t : Ty) (h : t.tdOk k = true) : ∀ kt ∈ t.reqF, kt.2.tdOk k = true := by
  cases t <;> simp [Ty.reqF]
  simp only [Ty.tdOk, Bool.and_eq_true] at h
  intro a b hab; exact (tdOkF_iff k _).mp h.1.2 (a, b) hab

theorem optF_tdOk (k : Nat) (t : Ty) (h : t.tdOk k = true) : ∀ kt ∈ t.optF, kt.2.tdOk k = true := by
  cases t <;> simp [Ty.optF]
  simp only [Ty.tdOk, Bool.and_eq_true] at h
  intro a b hab; exact (tdOkF_iff k _).mp h.2 (a, b) hab

theorem reqVals_tdOk (k : Nat) (s : String) (ts : List Ty) (h : ∀ t ∈ ts, t.tdOk k = true) :
    ∀ t ∈ reqVals s ts ++ optVals s ts, t.tdOk k = true := by
  intro t ht
  simp only [reqVals, optVals, List.mem_append, List.mem_filterMap] at ht
  rcases ht with ⟨u, hu, hl⟩ | ⟨u, hu, hl⟩
  · exact reqF_tdOk k u (h u hu) (s, t) (lookupF_mem _ _ _ hl)
  · exact optF_tdOk k u (h u hu) (s, t) (lookupF_mem _ _ _ hl)

theorem allVals_tdOk (k : Nat) (ts : List Ty) (h : ∀ t ∈ ts, t.tdOk k = true) : ∀ t ∈ allVals ts, t.tdOk k = true := by
  intro t ht
  simp only [allVals, List.mem_flatMap, List.mem_map, List.mem_append] at ht
  obtain ⟨u, hu, kt, hkt, rfl⟩ := ht
  rcases hkt with hkt | hkt
  · exact reqF_tdOk k u (h u hu) kt hkt
  · exact optF_tdOk k u (h u hu) kt hkt

/-- merging non-empty TypedDicts yields at least one key -/
theorem keys_pos (k : Nat) (t0 : Ty) (rest : List Ty) (htd : t0.isTD = true) (hok : t0.tdOk k = true) :
    0 < (reqKeys (t0 :: rest)).length + (optKeys (t0 :: rest)).length := by
  cases t0 <;> simp [Ty.isTD] at htd
  rename_i r o
  simp only [Ty.tdOk, Bool.and_eq_true, decide_eq_true_eq] at hok
  have hpos := hok.1.1.1
  -- pick a key of t0
  have : ∃ s, s ∈ reqKeys (Ty.td r o :: rest) ∨ s ∈ optKeys (Ty.td r o :: rest) := by
    cases r with
    | cons kt r' =>
      obtain ⟨s, u⟩ := kt
      refine ⟨s, ?_⟩
      have hr : s ∈ keysOf ((Ty.td ((s, u) :: r') o :: rest).flatMap Ty.reqF) := by
        simp [keysOf, mem_dedupBy_str, Ty.reqF]
      by_cases hc : (reqVals s (Ty.td ((s, u) :: r') o :: rest)).length = (Ty.td ((s, u) :: r') o :: rest).length
      · left; exact List.mem_filter.mpr ⟨hr, by simpa using hc⟩
      · right
        simp only [optKeys, mem_dedupBy_str, List.mem_append]
        left; exact List.mem_filter.mpr ⟨hr, by simpa using hc⟩
    | nil =>
      cases o with
      | nil => simp at hpos
      | cons kt o' =>
        obtain ⟨s, u⟩ := kt
        refine ⟨s, Or.inr ?_⟩
        simp only [optKeys, mem_dedupBy_str, List.mem_append]
        right
        simp [keysOf, mem_dedupBy_str, Ty.optF]
  obtain ⟨s, hs | hs⟩ := this
  · have := List.length_pos_of_mem hs; omega
  · have := List.length_pos_of_mem hs; omega

theorem shrink_tdOk (k : Nat) (ts : List Ty) : (∀ t ∈ ts, t.tdOk k = true) → (shrink k ts).tdOk k = true := by
  fun_induction shrink k ts with
  | case1 => intro _; simp [Ty.tdOk]
  | case2 t0 rest hall hbig ih =>
    intro h
    simp only [Ty.tdOk, Bool.true_and]
    exact ih (allVals_tdOk k _ h)
  | case3 t0 rest hall hsmall ih =>
    intro h
    have htd : t0.isTD = true := List.all_eq_true.mp hall t0 (List.mem_cons_self ..)
    have hpos := keys_pos k t0 rest htd (h t0 (List.mem_cons_self ..))
    simp only [Ty.tdOk, Bool.and_eq_true, decide_eq_true_eq, List.length_map]
    refine ⟨⟨⟨hpos, by omega⟩, ?_⟩, ?_⟩
    · rw [tdOkF_iff]; intro kt hkt
      obtain ⟨s, _, rfl⟩ := List.mem_map.mp hkt
      exact ih s (reqVals_tdOk k s _ h)
    · rw [tdOkF_iff]; intro kt hkt
      obtain ⟨s, _, rfl⟩ := List.mem_map.mp hkt
      exact ih s (reqVals_tdOk k s _ h)
  | case4 t0 rest hnall heq => intro h; exact h t0 (List.mem_cons_self ..)
  | case5 t0 rest hnall hneq hlist ih =>
    intro h
    simp only [Ty.tdOk]
    apply ih
    intro t ht
    obtain ⟨u, hu, rfl⟩ := List.mem_map.mp ht
    have := h u hu
    cases u <;> simp_all [Ty.listArg, Ty.tdOk]
  | case6 t0 rest hnall hneq hnlist =>
    intro _
    apply noTD_tdOk
    apply mkUnion_noTD
    intro t ht
    obtain ⟨u, _, rfl⟩ := List.mem_map.mp ht
    exact tdToDict_noTD u

theorem getFields_length (k : Nat) (kvs : List (Val × Val)) : (getFields k kvs).length = kvs.length := by
  induction kvs with
  | nil => rfl
  | cons kv kvs ih => obtain ⟨a, b⟩ := kv; simp [getFields, ih]

mutual
theorem getType_tdOk (k : Nat) : ∀ v : Val, (getType k v).tdOk k = true
  | .inst c => by simp [getType, Ty.tdOk]
  | .str s => by simp [getType, Ty.tdOk]
  | .classObj c => by simp [getType, Ty.tdOk]
  | .func => by simp [getType, Ty.tdOk]
  | .genObj => by simp [getType, Ty.tdOk]
  | .list vs => by simp only [getType, Ty.tdOk]; exact shrink_tdOk k _ (getTypes_tdOk k vs)
  | .set vs => by simp only [getType, Ty.tdOk]; exact shrink_tdOk k _ (getTypes_tdOk k vs)
  | .tuple vs => by simp only [getType, Ty.tdOk]; exact (tdOkL_iff k _).mpr (getTypes_tdOk k vs)
  | .ddict kvs => by
      simp only [getType, Ty.tdOk, Bool.and_eq_true]
      exact ⟨shrink_tdOk k _ (getKeyTypes_tdOk k kvs), shrink_tdOk k _ (getValTypes_tdOk k kvs)⟩
  | .dict kvs => by
      cases kvs with
      | nil => simp [getType, Ty.tdOk]
      | cons kv0 kvs0 =>
        simp only [getType]
        split
        · next hcond =>
          simp only [Bool.and_eq_true, decide_eq_true_eq] at hcond
          simp only [Ty.tdOk, Bool.and_eq_true, decide_eq_true_eq, getFields_length, List.length_nil, tdOkF, and_true]
          refine ⟨⟨by simp, by simpa using hcond.2⟩, ?_⟩
          exact (tdOkF_iff k _).mpr (getFields_tdOk k _)
        · simp only [Ty.tdOk, Bool.and_eq_true]
          exact ⟨shrink_tdOk k _ (getKeyTypes_tdOk k _), shrink_tdOk k _ (getValTypes_tdOk k _)⟩
theorem getTypes_tdOk (k : Nat) : ∀ vs : List Val, ∀ t ∈ getTypes k vs, t.tdOk k = true
  | [], t, ht => by simp [getTypes] at ht
  | v0 :: vs, t, ht => by
      simp only [getTypes, List.mem_cons] at ht
      rcases ht with heq | ht
      · rw [heq]; exact getType_tdOk k v0
      · exact getTypes_tdOk k vs t ht
theorem getKeyTypes_tdOk (k : Nat) : ∀ kvs : List (Val × Val), ∀ t ∈ getKeyTypes k kvs, t.tdOk k = true
  | [], t, ht => by simp [getKeyTypes] at ht
  | (a, b) :: kvs, t, ht => by
      simp only [getKeyTypes, List.mem_cons] at ht
      rcases ht with heq | ht
      · rw [heq]; exact getType_tdOk k a
      · exact getKeyTypes_tdOk k kvs t ht
theorem getValTypes_tdOk (k : Nat) : ∀ kvs : List (Val × Val), ∀ t ∈ getValTypes k kvs, t.tdOk k = true
  | [], t, ht => by simp [getValTypes] at ht
  | (a, b) :: kvs, t, ht => by
      simp only [getValTypes, List.mem_cons] at ht
      rcases ht with heq | ht
      · rw [heq]; exact getType_tdOk k b
      · exact getValTypes_tdOk k kvs t ht
theorem getFields_tdOk (k : Nat) : ∀ kvs : List (Val × Val), ∀ kt ∈ getFields k kvs, kt.2.tdOk k = true
  | [], t, ht => by simp [getFields] at ht
  | (a, b) :: kvs, t, ht => by
      simp only [getFields, List.mem_cons] at ht
      rcases ht with heq | ht
      · rw [heq]; exact getType_tdOk k b
      · exact getFields_tdOk k kvs t ht
end

end MT
