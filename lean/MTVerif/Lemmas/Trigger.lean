/-
  Lemmas/Trigger.lean — a rewriter leaves a type unchanged unless its documented trigger is present.
-/
import MTVerif.Model.Trigger
import MTVerif.Lemmas.Beq
namespace MT

theorem rewriteKeep_all (h : Hier) (r : RW) (keep : Ty → Bool) (l : List Ty) (hk : ∀ t ∈ l, keep t = true) :
    rewriteKeep h r keep l = rewriteL h r l := by
  induction l with
  | nil => rfl
  | cons t ts ih =>
    simp only [rewriteKeep, rewriteL]
    rw [if_pos (hk t (List.mem_cons_self ..)), ih (fun x hx => hk x (List.mem_cons_of_mem _ hx))]

mutual
theorem rewrite_unchanged (h : Hier) (r : RW) : ∀ t : Ty, t.normal = true → t.trig r = false → rewrite h r t = t
  | .any, _, _ => by simp [rewrite]
  | .cls _, _, _ => by simp [rewrite]
  | .typeOf _, _, _ => by simp [rewrite]
  | .callable, _, _ => by simp [rewrite]
  | .list a, hn, ht => by
      simp only [Ty.normal] at hn; simp only [Ty.trig] at ht
      simp only [rewrite]; rw [rewrite_unchanged h r a hn ht]
  | .set a, hn, ht => by
      simp only [Ty.normal] at hn; simp only [Ty.trig] at ht
      simp only [rewrite]; rw [rewrite_unchanged h r a hn ht]
  | .tupleOf a, hn, ht => by
      simp only [Ty.normal] at hn; simp only [Ty.trig] at ht
      simp only [rewrite]; rw [rewrite_unchanged h r a hn ht]
  | .iterator a, hn, ht => by
      simp only [Ty.normal] at hn; simp only [Ty.trig] at ht
      simp only [rewrite]; rw [rewrite_unchanged h r a hn ht]
  | .dict a b, hn, ht => by
      simp only [Ty.normal, Bool.and_eq_true] at hn; simp only [Ty.trig, Bool.or_eq_false_iff] at ht
      simp only [rewrite]; rw [rewrite_unchanged h r a hn.1 ht.1, rewrite_unchanged h r b hn.2 ht.2]
  | .ddict a b, hn, ht => by
      simp only [Ty.normal, Bool.and_eq_true] at hn; simp only [Ty.trig, Bool.or_eq_false_iff] at ht
      simp only [rewrite]; rw [rewrite_unchanged h r a hn.1 ht.1, rewrite_unchanged h r b hn.2 ht.2]
  | .generator a b c, hn, ht => by
      simp only [Ty.normal, Bool.and_eq_true] at hn
      simp only [Ty.trig, Bool.or_eq_false_iff] at ht
      obtain ⟨⟨⟨hg, ha⟩, hb⟩, hc⟩ := ht
      simp only [rewrite]
      split
      · -- RewriteGenerator: the node is not Generator[_, None, None]
        split
        · next c1 c2 =>
          simp only at hg
          rw [if_neg (by simpa using hg)]
        · rfl
      · rw [rewrite_unchanged h r a hn.1.1 ha, rewrite_unchanged h r b hn.1.2 hb, rewrite_unchanged h r c hn.2 hc]
  | .tuple ts, hn, ht => by
      simp only [Ty.normal] at hn; simp only [Ty.trig] at ht
      simp only [rewrite]; rw [rewriteL_unchanged h r ts hn ht]
  | .union ts, hn, ht => by
      simp only [Ty.normal, Bool.and_eq_true] at hn
      simp only [Ty.trig, Bool.or_eq_false_iff] at ht
      obtain ⟨hnode, hl⟩ := ht
      have hmk : mkUnion ts = .union ts := Ty.beq'_eq _ _ hn.2
      have hts := rewriteL_unchanged h r ts hn.1 hl
      simp only [rewrite]
      split
      · simp only [nodeTrig] at hnode
        rw [rewriteKeep_all h _ _ ts (by
          intro t ht'
          have := List.any_eq_false.mp hnode t ht'
          simpa using this), hts, hmk]
      · simp only [nodeTrig] at hnode
        unfold configDictUnion
        cases ts with
        | nil => rfl
        | cons t0 rest =>
          simp only at hnode ⊢
          rw [if_neg (by simpa using hnode)]
      · next n =>
        simp only [nodeTrig, decide_eq_false_iff_not, Nat.not_lt] at hnode
        rw [if_pos hnode]
      · simp only [nodeTrig] at hnode
        unfold mscbUnion
        rw [if_neg (by simpa using hnode)]
      · rw [hts, hmk]
  | .td a b, hn, ht => by
      simp only [Ty.normal, Bool.and_eq_true] at hn
      simp only [Ty.trig, Bool.or_eq_false_iff] at ht
      obtain ⟨⟨hr, ha⟩, hb⟩ := ht
      simp only [rewrite]
      split
      · simp at hr
      · rw [rewriteF_unchanged h r a hn.1 ha, rewriteF_unchanged h r b hn.2 hb]
theorem rewriteL_unchanged (h : Hier) (r : RW) : ∀ ts : List Ty, normalL ts = true → trigL r ts = false →
    rewriteL h r ts = ts
  | [], _, _ => rfl
  | t :: ts, hn, ht => by
      simp only [normalL, Bool.and_eq_true] at hn; simp only [trigL, Bool.or_eq_false_iff] at ht
      simp only [rewriteL]; rw [rewrite_unchanged h r t hn.1 ht.1, rewriteL_unchanged h r ts hn.2 ht.2]
theorem rewriteF_unchanged (h : Hier) (r : RW) : ∀ fs : List (String × Ty), normalF fs = true → trigF r fs = false →
    rewriteF h r fs = fs
  | [], _, _ => rfl
  | (k, t) :: fs, hn, ht => by
      simp only [normalF, Bool.and_eq_true] at hn; simp only [trigF, Bool.or_eq_false_iff] at ht
      simp only [rewriteF]; rw [rewrite_unchanged h r t hn.1 ht.1, rewriteF_unchanged h r fs hn.2 ht.2]
end

end MT
