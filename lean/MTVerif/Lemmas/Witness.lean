/-
  Lemmas/Witness.lean — tightness of inference (C05, "every alternative is inhabited") for the default TypedDict size
  limit 0, where no TypedDict is ever built: the type inferred for a non-empty collection of values is witnessed by
  those values at every nesting position.
-/
import MTVerif.Model.Witness
import MTVerif.Lemmas.Normal
import MTVerif.Lemmas.TdSize
namespace MT

/-! ### monotonicity of `witnessed` on TypedDict-free types: more observed values never hurt -/

theorem any_mono {α} (p : α → Bool) (l l' : List α) (h : ∀ a ∈ l, a ∈ l') (hp : l.any p = true) : l'.any p = true := by
  obtain ⟨a, ha, hpa⟩ := List.any_eq_true.mp hp
  exact List.any_eq_true.mpr ⟨a, h a ha, hpa⟩

theorem filterMap_sub {α β} (f : α → Option β) (l l' : List α) (h : ∀ a ∈ l, a ∈ l') : ∀ b ∈ l.filterMap f, b ∈ l'.filterMap f := by
  intro b hb
  obtain ⟨a, ha, hf⟩ := List.mem_filterMap.mp hb
  exact List.mem_filterMap.mpr ⟨a, h a ha, hf⟩

theorem flatten_sub {α} (l l' : List (List α)) (h : ∀ a ∈ l, a ∈ l') : ∀ b ∈ l.flatten, b ∈ l'.flatten := by
  intro b hb
  obtain ⟨a, ha, hba⟩ := List.mem_flatten.mp hb
  exact List.mem_flatten.mpr ⟨a, h a ha, hba⟩

theorem map_sub {α β} (f : α → β) (l l' : List α) (h : ∀ a ∈ l, a ∈ l') : ∀ b ∈ l.map f, b ∈ l'.map f := by
  intro b hb
  obtain ⟨a, ha, rfl⟩ := List.mem_map.mp hb
  exact List.mem_map.mpr ⟨a, h a ha, rfl⟩

theorem filter_sub {α} (p : α → Bool) (l l' : List α) (h : ∀ a ∈ l, a ∈ l') : ∀ b ∈ l.filter p, b ∈ l'.filter p := by
  intro b hb
  exact List.mem_filter.mpr ⟨h b (List.mem_filter.mp hb).1, (List.mem_filter.mp hb).2⟩

theorem nonempty_sub {α} (l l' : List α) (h : ∀ a ∈ l, a ∈ l') (hne : (!l.isEmpty) = true) : (!l'.isEmpty) = true := by
  cases l with
  | nil => simp at hne
  | cons a as =>
    cases l' with
    | nil => exact absurd (h a (List.mem_cons_self ..)) (by simp)
    | cons _ _ => rfl

mutual
theorem witnessed_mono : ∀ (t : Ty), t.hasTD = false → ∀ (e e' : Bool) (vs vs' : List Val),
    (e = true → e' = true) → (∀ v ∈ vs, v ∈ vs') → witnessed e vs t = true → witnessed e' vs' t = true
  | .any, _, e, e', _, _, he, _, h => by simp only [witnessed] at h ⊢; exact he h
  | .cls c, _, _, _, vs, vs', _, hs, h => by simp only [witnessed] at h ⊢; exact any_mono _ vs vs' hs h
  | .typeOf c, _, _, _, vs, vs', _, hs, h => by simp only [witnessed] at h ⊢; exact any_mono _ vs vs' hs h
  | .callable, _, _, _, vs, vs', _, hs, h => by simp only [witnessed] at h ⊢; exact any_mono _ vs vs' hs h
  | .iterator t, _, _, _, vs, vs', _, hs, h => by
      simp only [witnessed, Bool.and_eq_true] at h ⊢
      exact ⟨h.1, any_mono _ vs vs' hs h.2⟩
  | .generator _ _ _, _, _, _, _, _, _, _, h => by simp [witnessed] at h
  | .tupleOf _, _, _, _, _, _, _, _, h => by simp [witnessed] at h
  | .list t, ht, _, _, vs, vs', _, hs, h => by
      simp only [Ty.hasTD] at ht
      simp only [witnessed, Bool.and_eq_true] at h ⊢
      have hl := filterMap_sub Val.asList? vs vs' hs
      exact ⟨nonempty_sub _ _ hl h.1,
        witnessed_mono t ht _ _ _ _ (fun he => any_mono _ _ _ hl he) (flatten_sub _ _ hl) h.2⟩
  | .set t, ht, _, _, vs, vs', _, hs, h => by
      simp only [Ty.hasTD] at ht
      simp only [witnessed, Bool.and_eq_true] at h ⊢
      have hl := filterMap_sub Val.asSet? vs vs' hs
      exact ⟨nonempty_sub _ _ hl h.1,
        witnessed_mono t ht _ _ _ _ (fun he => any_mono _ _ _ hl he) (flatten_sub _ _ hl) h.2⟩
  | .dict a b, ht, _, _, vs, vs', _, hs, h => by
      simp only [Ty.hasTD, Bool.or_eq_false_iff] at ht
      simp only [witnessed, Bool.and_eq_true] at h ⊢
      have hl := filterMap_sub Val.asDict? vs vs' hs
      exact ⟨⟨nonempty_sub _ _ hl h.1.1,
        witnessed_mono a ht.1 _ _ _ _ (fun he => any_mono _ _ _ hl he) (map_sub _ _ _ (flatten_sub _ _ hl)) h.1.2⟩,
        witnessed_mono b ht.2 _ _ _ _ (fun he => any_mono _ _ _ hl he) (map_sub _ _ _ (flatten_sub _ _ hl)) h.2⟩
  | .ddict a b, ht, _, _, vs, vs', _, hs, h => by
      simp only [Ty.hasTD, Bool.or_eq_false_iff] at ht
      simp only [witnessed, Bool.and_eq_true] at h ⊢
      have hl := filterMap_sub Val.asDDict? vs vs' hs
      exact ⟨⟨nonempty_sub _ _ hl h.1.1,
        witnessed_mono a ht.1 _ _ _ _ (fun he => any_mono _ _ _ hl he) (map_sub _ _ _ (flatten_sub _ _ hl)) h.1.2⟩,
        witnessed_mono b ht.2 _ _ _ _ (fun he => any_mono _ _ _ hl he) (map_sub _ _ _ (flatten_sub _ _ hl)) h.2⟩
  | .tuple ts, ht, _, _, vs, vs', _, hs, h => by
      simp only [Ty.hasTD] at ht
      simp only [witnessed, Bool.and_eq_true] at h ⊢
      have hl := filter_sub (fun tup => tup.length == ts.length) _ _ (filterMap_sub Val.asTuple? vs vs' hs)
      exact ⟨nonempty_sub _ _ hl h.1, witnessedCols_mono ts ht _ _ hl 0 h.2⟩
  | .union ts, ht, e, e', vs, vs', he, hs, h => by
      simp only [Ty.hasTD] at ht
      simp only [witnessed, Bool.and_eq_true] at h ⊢
      exact ⟨h.1, witnessedAll_mono ts ht e e' vs vs' he hs h.2⟩
  | .td _ _, ht, _, _, _, _, _, _, _ => by simp [Ty.hasTD] at ht
theorem witnessedAll_mono : ∀ (ts : List Ty), hasTDL ts = false → ∀ (e e' : Bool) (vs vs' : List Val),
    (e = true → e' = true) → (∀ v ∈ vs, v ∈ vs') → witnessedAll e vs ts = true → witnessedAll e' vs' ts = true
  | [], _, _, _, _, _, _, _, _ => by simp [witnessedAll]
  | t :: ts, ht, e, e', vs, vs', he, hs, h => by
      simp only [hasTDL, Bool.or_eq_false_iff] at ht
      simp only [witnessedAll, Bool.and_eq_true] at h ⊢
      exact ⟨witnessed_mono t ht.1 e e' vs vs' he hs h.1, witnessedAll_mono ts ht.2 e e' vs vs' he hs h.2⟩
theorem witnessedCols_mono : ∀ (ts : List Ty), hasTDL ts = false → ∀ (tups tups' : List (List Val)),
    (∀ t ∈ tups, t ∈ tups') → ∀ i, witnessedCols tups i ts = true → witnessedCols tups' i ts = true
  | [], _, _, _, _, _, _ => by simp [witnessedCols]
  | t :: ts, ht, tups, tups', hs, i, h => by
      simp only [hasTDL, Bool.or_eq_false_iff] at ht
      simp only [witnessedCols, Bool.and_eq_true] at h ⊢
      exact ⟨witnessed_mono t ht.1 false false _ _ (fun x => x) (filterMap_sub _ _ _ hs) h.1,
             witnessedCols_mono ts ht.2 tups tups' hs (i + 1) h.2⟩
end

theorem witnessedAll_iff (e : Bool) (vs : List Val) (ts : List Ty) :
    witnessedAll e vs ts = true ↔ ∀ t ∈ ts, witnessed e vs t = true := by
  induction ts with
  | nil => simp [witnessedAll]
  | cons t ts ih => simp [witnessedAll, ih]

/-! ### `typing.Union[...]` of witnessed types is witnessed -/

theorem dedupBy_ne_nil {α} (eq : α → α → Bool) : ∀ l : List α, l ≠ [] → dedupBy eq l ≠ []
  | [], h => absurd rfl h
  | a :: as, _ => by simp [dedupBy]

theorem witnessed_mkUnion (e : Bool) (vs : List Val) (ts : List Ty) (hne : ts ≠ [])
    (h : ∀ t ∈ ts, witnessed e vs t = true) : witnessed e vs (mkUnion ts) = true := by
  have hflat : ∀ x ∈ flat1 ts, witnessed e vs x = true := by
    intro x hx
    simp only [flat1, List.mem_flatMap] at hx
    obtain ⟨t, ht, hxt⟩ := hx
    have hwt := h t ht
    cases t with
    | union us =>
      simp only at hxt
      simp only [witnessed, Bool.and_eq_true] at hwt
      exact (witnessedAll_iff e vs us).mp hwt.2 x hxt
    | _ => simp only [List.mem_singleton] at hxt; subst hxt; exact hwt
  have hfne : flat1 ts ≠ [] := by
    cases ts with
    | nil => exact absurd rfl hne
    | cons t0 rest =>
      have hw0 := h t0 (List.mem_cons_self ..)
      simp only [flat1, List.flatMap_cons]
      cases t0 with
      | union us =>
        simp only [witnessed, Bool.and_eq_true] at hw0
        cases us with
        | nil => simp at hw0
        | cons u us => simp
      | _ => simp
  have hD : ∀ x ∈ dedupBy Ty.eqv (flat1 ts), witnessed e vs x = true := fun x hx => hflat x (dedupBy_subset _ _ x hx)
  unfold mkUnion
  split
  · next t ht => exact hD t (by rw [ht]; simp)
  · simp only [witnessed, Bool.and_eq_true]
    refine ⟨?_, (witnessedAll_iff e vs _).mpr hD⟩
    have := dedupBy_ne_nil Ty.eqv _ hfne
    cases hd : dedupBy Ty.eqv (flat1 ts) with
    | nil => exact absurd hd this
    | cons _ _ => rfl

/-! ### on TypedDict-free normal types the TypedDict → Dict rewrite is the identity -/

mutual
theorem tdToDict_id : ∀ t : Ty, t.hasTD = false → t.normal = true → tdToDict t = t
  | .any, _, _ => by simp [tdToDict]
  | .cls _, _, _ => by simp [tdToDict]
  | .typeOf _, _, _ => by simp [tdToDict]
  | .callable, _, _ => by simp [tdToDict]
  | .list a, h, hn => by simp only [Ty.hasTD] at h; simp only [Ty.normal] at hn; simp only [tdToDict, tdToDict_id a h hn]
  | .set a, h, hn => by simp only [Ty.hasTD] at h; simp only [Ty.normal] at hn; simp only [tdToDict, tdToDict_id a h hn]
  | .tupleOf a, h, hn => by simp only [Ty.hasTD] at h; simp only [Ty.normal] at hn; simp only [tdToDict, tdToDict_id a h hn]
  | .iterator a, h, hn => by simp only [Ty.hasTD] at h; simp only [Ty.normal] at hn; simp only [tdToDict, tdToDict_id a h hn]
  | .dict a b, h, hn => by
      simp only [Ty.hasTD, Bool.or_eq_false_iff] at h; simp only [Ty.normal, Bool.and_eq_true] at hn
      simp only [tdToDict, tdToDict_id a h.1 hn.1, tdToDict_id b h.2 hn.2]
  | .ddict a b, h, hn => by
      simp only [Ty.hasTD, Bool.or_eq_false_iff] at h; simp only [Ty.normal, Bool.and_eq_true] at hn
      simp only [tdToDict, tdToDict_id a h.1 hn.1, tdToDict_id b h.2 hn.2]
  | .generator a b c, h, hn => by
      simp only [Ty.hasTD, Bool.or_eq_false_iff] at h; simp only [Ty.normal, Bool.and_eq_true] at hn
      simp only [tdToDict, tdToDict_id a h.1.1 hn.1.1, tdToDict_id b h.1.2 hn.1.2, tdToDict_id c h.2 hn.2]
  | .tuple ts, h, hn => by
      simp only [Ty.hasTD] at h; simp only [Ty.normal] at hn
      simp only [tdToDict, tdToDictL_id ts h hn]
  | .union ts, h, hn => by
      simp only [Ty.hasTD] at h; simp only [Ty.normal, Bool.and_eq_true] at hn
      simp only [tdToDict, tdToDictL_id ts h hn.1]
      exact Ty.beq'_eq _ _ hn.2
  | .td _ _, h, _ => by simp [Ty.hasTD] at h
theorem tdToDictL_id : ∀ ts : List Ty, hasTDL ts = false → normalL ts = true → tdToDictL ts = ts
  | [], _, _ => rfl
  | t :: ts, h, hn => by
      simp only [hasTDL, Bool.or_eq_false_iff] at h; simp only [normalL, Bool.and_eq_true] at hn
      simp only [tdToDictL, tdToDict_id t h.1 hn.1, tdToDictL_id ts h.2 hn.2]
end

theorem map_tdToDict_id (ts : List Ty) (h : ∀ t ∈ ts, t.hasTD = false ∧ t.normal = true) : ts.map tdToDict = ts := by
  induction ts with
  | nil => rfl
  | cons t ts ih =>
    have := h t (List.mem_cons_self ..)
    simp only [List.map_cons, tdToDict_id t this.1 this.2, ih (fun x hx => h x (List.mem_cons_of_mem _ hx))]

/-! ### merging witnessed types -/

/-- `shrink_types` of TypedDict-free types that are all witnessed by the same observations is witnessed by them -/
theorem shrink_witnessed (k : Nat) (ts : List Ty) :
    ts ≠ [] → (∀ t ∈ ts, t.hasTD = false ∧ t.normal = true) → ∀ (e : Bool) (vs : List Val),
      (∀ t ∈ ts, witnessed e vs t = true) → witnessed e vs (shrink k ts) = true := by
  fun_induction shrink k ts with
  | case1 => intro h; exact absurd rfl h
  | case2 t0 rest hall hbig ih =>
    intro _ hp
    have := (hp t0 (List.mem_cons_self ..)).1
    have htd := List.all_eq_true.mp hall t0 (List.mem_cons_self ..)
    cases t0 <;> simp_all [Ty.isTD, Ty.hasTD]
  | case3 t0 rest hall hsmall ih =>
    intro _ hp
    have := (hp t0 (List.mem_cons_self ..)).1
    have htd := List.all_eq_true.mp hall t0 (List.mem_cons_self ..)
    cases t0 <;> simp_all [Ty.isTD, Ty.hasTD]
  | case4 t0 rest hnall heq => intro _ _ e vs h; exact h t0 (List.mem_cons_self ..)
  | case5 t0 rest hnall hneq hlist ih =>
    intro _ hp e vs h
    -- every member is `List[a_i]`, witnessed through the same lists of `vs`
    have hmem : ∀ t ∈ t0 :: rest, ∃ a, t = .list a := by
      intro t ht
      have := List.all_eq_true.mp hlist t ht
      cases t <;> simp_all [Ty.isList]
    simp only [witnessed, Bool.and_eq_true]
    obtain ⟨a0, ha0⟩ := hmem t0 (List.mem_cons_self ..)
    have hw0 := h t0 (List.mem_cons_self ..)
    rw [ha0] at hw0
    simp only [witnessed, Bool.and_eq_true] at hw0
    refine ⟨hw0.1, ?_⟩
    apply ih (by simp)
    · intro t ht
      obtain ⟨u, hu, rfl⟩ := List.mem_map.mp ht
      obtain ⟨a, rfl⟩ := hmem u hu
      have := hp _ hu
      simpa [Ty.listArg, Ty.hasTD, Ty.normal] using this
    · intro t ht
      obtain ⟨u, hu, rfl⟩ := List.mem_map.mp ht
      obtain ⟨a, rfl⟩ := hmem u hu
      have hwu := h _ hu
      simp only [witnessed, Bool.and_eq_true] at hwu
      simpa [Ty.listArg] using hwu.2
  | case6 t0 rest hnall hneq hnlist =>
    intro hne hp e vs h
    rw [map_tdToDict_id _ hp]
    exact witnessed_mkUnion e vs _ hne h

/-! ### a single value witnesses its own type (limit 0), and so does a collection the type inferred for it -/

theorem getTypes0_props (vs : List Val) : ∀ t ∈ getTypes 0 vs, t.hasTD = false ∧ t.normal = true :=
  fun t ht => ⟨tdOk_zero t (getTypes_tdOk 0 vs t ht), getTypes_normal 0 vs t ht⟩

theorem getKeyTypes_eq (k : Nat) : ∀ kvs : List (Val × Val), getKeyTypes k kvs = getTypes k (kvs.map Prod.fst)
  | [] => rfl
  | (a, b) :: kvs => by simp [getKeyTypes, getTypes, getKeyTypes_eq k kvs]

theorem getValTypes_eq (k : Nat) : ∀ kvs : List (Val × Val), getValTypes k kvs = getTypes k (kvs.map Prod.snd)
  | [] => rfl
  | (a, b) :: kvs => by simp [getValTypes, getTypes, getValTypes_eq k kvs]

theorem getTypes_mem (k : Nat) : ∀ (vs : List Val) (t : Ty), t ∈ getTypes k vs → ∃ v ∈ vs, t = getType k v
  | [], t, h => by simp [getTypes] at h
  | v :: vs, t, h => by
      simp only [getTypes, List.mem_cons] at h
      rcases h with rfl | h
      · exact ⟨v, List.mem_cons_self .., rfl⟩
      · obtain ⟨x, hx, e⟩ := getTypes_mem k vs t h
        exact ⟨x, List.mem_cons_of_mem _ hx, e⟩

theorem getTypes_length (k : Nat) : ∀ vs : List Val, (getTypes k vs).length = vs.length
  | [] => rfl
  | _ :: vs => by simp [getTypes, getTypes_length k vs]

/-- the collection `xs` (with the empty-container flag `e`) witnesses the merge of the types of its members, as soon as
    every member witnesses its own type -/
theorem merged_witnessed0 (e : Bool) (xs : List Val) (hne : xs ≠ [] ∨ e = true)
    (hx : ∀ x ∈ xs, witnessed false [x] (getType 0 x) = true) : witnessed e xs (shrink 0 (getTypes 0 xs)) = true := by
  cases xs with
  | nil =>
    rcases hne with h | h
    · exact absurd rfl h
    · simp [getTypes, shrink, witnessed, h]
  | cons x0 rest =>
    apply shrink_witnessed 0 _ (by simp [getTypes]) (getTypes0_props _) e
    intro t ht
    obtain ⟨v, hv, rfl⟩ := getTypes_mem 0 _ t ht
    exact witnessed_mono _ (getTypes0_props _ _ ht).1 false e [v] (x0 :: rest) (fun h => by cases h)
      (fun y hy => by simp only [List.mem_singleton] at hy; subst hy; exact hv) (hx v hv)

theorem cols_singleton : ∀ (xs pre : List Val), (∀ x ∈ xs, witnessed false [x] (getType 0 x) = true) →
    witnessedCols [pre ++ xs] pre.length (getTypes 0 xs) = true
  | [], _, _ => by simp [getTypes, witnessedCols]
  | x :: rest, pre, hx => by
      simp only [getTypes, witnessedCols, Bool.and_eq_true]
      constructor
      · have : ([pre ++ x :: rest].filterMap fun tup => tup[pre.length]?) = [x] := by simp
        rw [this]
        exact hx x (List.mem_cons_self ..)
      · have := cols_singleton rest (pre ++ [x]) (fun y hy => hx y (List.mem_cons_of_mem _ hy))
        simpa using this

mutual
theorem getType_witnessed0 : ∀ v : Val, witnessed false [v] (getType 0 v) = true
  | .inst c => by simp [getType, witnessed]
  | .str s => by simp [getType, witnessed]
  | .classObj c => by simp [getType, witnessed]
  | .func => by simp [getType, witnessed]
  | .genObj => by simp [getType, witnessed]
  | .list xs => by
      simp only [getType, witnessed, List.filterMap_cons, Val.asList?, List.filterMap_nil, List.isEmpty_cons, Bool.not_false,
        Bool.true_and, List.flatten_cons, List.flatten_nil, List.append_nil, List.any_cons, List.any_nil, Bool.or_false]
      apply merged_witnessed0
      · cases xs <;> simp
      · exact getType_witnessed0_all xs
  | .set xs => by
      simp only [getType, witnessed, List.filterMap_cons, Val.asSet?, List.filterMap_nil, List.isEmpty_cons, Bool.not_false,
        Bool.true_and, List.flatten_cons, List.flatten_nil, List.append_nil, List.any_cons, List.any_nil, Bool.or_false]
      apply merged_witnessed0
      · cases xs <;> simp
      · exact getType_witnessed0_all xs
  | .tuple xs => by
      simp only [getType, witnessed, List.filterMap_cons, Val.asTuple?, List.filterMap_nil, getTypes_length, List.filter_cons,
        beq_self_eq_true, ↓reduceIte, List.filter_nil, List.isEmpty_cons, Bool.not_false, Bool.true_and]
      have := cols_singleton xs [] (getType_witnessed0_all xs)
      simpa using this
  | .ddict kvs => by
      simp only [getType, witnessed, List.filterMap_cons, Val.asDDict?, List.filterMap_nil, List.isEmpty_cons, Bool.not_false,
        Bool.true_and, List.flatten_cons, List.flatten_nil, List.append_nil, List.any_cons, List.any_nil, Bool.or_false,
        Bool.and_eq_true, getKeyTypes_eq, getValTypes_eq]
      constructor
      · apply merged_witnessed0
        · cases kvs <;> simp
        · intro x hx
          obtain ⟨kv, hkv, rfl⟩ := List.mem_map.mp hx
          exact (getType_witnessed0_kv kvs kv hkv).1
      · apply merged_witnessed0
        · cases kvs <;> simp
        · intro x hx
          obtain ⟨kv, hkv, rfl⟩ := List.mem_map.mp hx
          exact (getType_witnessed0_kv kvs kv hkv).2
  | .dict kvs => by
      cases kvs with
      | nil => simp [getType, witnessed, Val.asDict?]
      | cons kv0 kvs0 =>
        have hlen : ¬ (kv0 :: kvs0).length ≤ 0 := by simp
        simp only [getType, hlen, decide_false, Bool.and_false, Bool.false_eq_true, ↓reduceIte, witnessed, List.filterMap_cons,
          Val.asDict?, List.filterMap_nil, List.isEmpty_cons, Bool.not_false, Bool.true_and, List.flatten_cons, List.flatten_nil,
          List.append_nil, List.any_cons, List.any_nil, Bool.or_false, Bool.and_eq_true, getKeyTypes_eq, getValTypes_eq]
        constructor
        · apply merged_witnessed0
          · left; simp
          · intro x hx
            obtain ⟨kv, hkv, rfl⟩ := List.mem_map.mp hx
            exact (getType_witnessed0_kv (kv0 :: kvs0) kv hkv).1
        · apply merged_witnessed0
          · left; simp
          · intro x hx
            obtain ⟨kv, hkv, rfl⟩ := List.mem_map.mp hx
            exact (getType_witnessed0_kv (kv0 :: kvs0) kv hkv).2
theorem getType_witnessed0_all : ∀ xs : List Val, ∀ x ∈ xs, witnessed false [x] (getType 0 x) = true
  | [], _, hx => by cases hx
  | y :: ys, x, hx => by
      rcases List.mem_cons.mp hx with heq | hx
      · rw [heq]; exact getType_witnessed0 y
      · exact getType_witnessed0_all ys x hx
theorem getType_witnessed0_kv : ∀ kvs : List (Val × Val), ∀ kv ∈ kvs,
    witnessed false [kv.1] (getType 0 kv.1) = true ∧ witnessed false [kv.2] (getType 0 kv.2) = true
  | [], _, hx => by cases hx
  | (a, b) :: kvs, kv, hx => by
      rcases List.mem_cons.mp hx with heq | hx
      · rw [heq]; exact ⟨getType_witnessed0 a, getType_witnessed0 b⟩
      · exact getType_witnessed0_kv kvs kv hx
end

/-- C05, tightness, at the default size limit: the type inferred for a non-empty collection of values is witnessed by
    those values at every nesting position — every class named is the exact class of an observed value, every union
    alternative is inhabited, `Any` only below an observed empty container. -/
theorem infer_witnessed0 (vs : List Val) (hne : vs ≠ []) : witnessed false vs (infer 0 vs) = true :=
  merged_witnessed0 false vs (Or.inl hne) (getType_witnessed0_all vs)

end MT
