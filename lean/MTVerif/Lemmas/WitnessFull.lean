/-
  Lemmas/WitnessFull.lean — C05's witness statement for every TypedDict size limit: the type inferred for a non-empty
  collection of well-formed values is witnessed by those values at every nesting position.
-/
import MTVerif.Lemmas.WitnessMerge
import MTVerif.Lemmas.ShrinkSound
namespace MT

theorem wfL_mem : ∀ (xs : List Val), wfL xs = true → ∀ x ∈ xs, x.wf = true
  | [], _, _, h => by cases h
  | y :: ys, hwf, x, hx => by
      simp only [wfL, Bool.and_eq_true] at hwf
      rcases List.mem_cons.mp hx with rfl | h
      · exact hwf.1
      · exact wfL_mem ys hwf.2 x h

theorem wfL_fst : ∀ (kvs : List (Val × Val)), wfKV kvs = true → wfL (kvs.map Prod.fst) = true
  | [], _ => rfl
  | (a, b) :: kvs, h => by
      simp only [wfKV, Bool.and_eq_true] at h
      simp only [List.map_cons, wfL, Bool.and_eq_true]
      exact ⟨h.1.1, wfL_fst kvs h.2⟩

theorem wfL_snd : ∀ (kvs : List (Val × Val)), wfKV kvs = true → wfL (kvs.map Prod.snd) = true
  | [], _ => rfl
  | (a, b) :: kvs, h => by
      simp only [wfKV, Bool.and_eq_true] at h
      simp only [List.map_cons, wfL, Bool.and_eq_true]
      exact ⟨h.1.2, wfL_snd kvs h.2⟩

theorem flatMap_singleton_id (l : List Val) : l.flatMap (fun x => [x]) = l := by
  induction l <;> simp_all

theorem unique_str_key (s : String) : ∀ (kvs : List (Val × Val)), (strKeys kvs).Nodup → ∀ b b', (Val.str s, b) ∈ kvs →
    (Val.str s, b') ∈ kvs → b = b'
  | [], _, _, _, h, _ => by cases h
  | (a, c) :: kvs, hnd, b, b', h1, h2 => by
      have hin : ∀ x, (Val.str s, x) ∈ kvs → s ∈ strKeys kvs := by
        intro x hx
        simp only [strKeys, List.mem_filterMap]
        exact ⟨_, hx, rfl⟩
      have hnd' : (strKeys kvs).Nodup := by
        unfold strKeys at hnd ⊢
        simp only [List.filterMap_cons] at hnd
        cases h : a.strKey? with
        | none => simpa [h] using hnd
        | some s' => rw [h] at hnd; exact (List.nodup_cons.mp hnd).2
      rcases List.mem_cons.mp h1 with e1 | h1' <;> rcases List.mem_cons.mp h2 with e2 | h2'
      · cases e1; cases e2; rfl
      · cases e1
        simp only [strKeys, List.filterMap_cons, Val.strKey?, List.nodup_cons] at hnd
        exact absurd (hin b' h2') hnd.1
      · cases e2
        simp only [strKeys, List.filterMap_cons, Val.strKey?, List.nodup_cons] at hnd
        exact absurd (hin b h1') hnd.1
      · exact unique_str_key s kvs hnd' b b' h1' h2'

section
variable (k : Nat)

/-- the observations that produced the type `t`: the members of `xs` whose own type is `t` -/
def ownGrp (xs : List Val) (t : Ty) : Bool × List Val := (false, xs.filter (fun x => Ty.beq' (getType k x) t))

theorem cols_singleton_k : ∀ (xs pre : List Val), (∀ x ∈ xs, witnessed false [x] (getType k x) = true) →
    witnessedCols [pre ++ xs] pre.length (getTypes k xs) = true
  | [], _, _ => by simp [getTypes, witnessedCols]
  | x :: rest, pre, hx => by
      simp only [getTypes, witnessedCols, Bool.and_eq_true]
      constructor
      · have : ([pre ++ x :: rest].filterMap fun tup => tup[pre.length]?) = [x] := by simp
        rw [this]
        exact hx x (List.mem_cons_self ..)
      · have := cols_singleton_k rest (pre ++ [x]) (fun y hy => hx y (List.mem_cons_of_mem _ hy))
        simpa using this

theorem getFields_mem (kvs : List (Val × Val)) (hall : kvs.all (fun kv => kv.1.strKey?.isSome) = true) :
    ∀ kt ∈ getFields k kvs, ∃ b, (Val.str kt.1, b) ∈ kvs ∧ kt.2 = getType k b := by
  induction kvs with
  | nil => intro kt h; simp [getFields] at h
  | cons kv kvs ih =>
    obtain ⟨a, b⟩ := kv
    simp only [List.all_cons, Bool.and_eq_true] at hall
    obtain ⟨ha, hall⟩ := hall
    cases a <;> simp [Val.strKey?] at ha
    rename_i s
    intro kt hkt
    simp only [getFields, List.mem_cons] at hkt
    rcases hkt with rfl | hkt
    · exact ⟨b, List.mem_cons_self .., rfl⟩
    · obtain ⟨b', hb', e⟩ := ih hall kt hkt
      exact ⟨b', List.mem_cons_of_mem _ hb', e⟩

end

section
variable (sub : ClassId → ClassId → Bool) (hrefl : ∀ c, sub c c = true) (k : Nat)

include hrefl in
/-- a well-formed value that witnesses its own type comes with all the invariants of inferred types -/
theorem good_of_witnessed (v : Val) (hwf : v.wf = true) (hw : witnessed false [v] (getType k v) = true) :
    Good sub k (getType k v) (false, [v]) :=
  ⟨hw, fun x hx => by simp only [List.mem_singleton] at hx; subst hx; exact getType_sound sub false hrefl k x hwf,
   getType_wf k v hwf, getType_normal k v, getType_plain k v, getType_tdOk k v, getType_djk k v⟩

include hrefl in
theorem merged_witnessed (e : Bool) (xs : List Val) (hne : xs ≠ [] ∨ e = true) (hwf : wfL xs = true)
    (hx : ∀ x ∈ xs, witnessed false [x] (getType k x) = true) : witnessed e xs (shrink k (getTypes k xs)) = true := by
  cases hxs : xs with
  | nil =>
    rcases hne with h | h
    · exact absurd hxs h
    · simp [getTypes, shrink, witnessed, h]
  | cons x0 rest =>
    rw [← hxs]
    have hwfm : ∀ x ∈ xs, x.wf = true := wfL_mem xs hwf
    have hgood : ∀ t ∈ getTypes k xs, Good sub k t (ownGrp k xs t) := by
      intro t ht
      obtain ⟨x1, hx1, rfl⟩ := getTypes_mem k xs t ht
      have hmem1 : x1 ∈ xs.filter (fun x => Ty.beq' (getType k x) (getType k x1)) :=
        List.mem_filter.mpr ⟨hx1, Ty.beq'_refl _⟩
      have hall : ∀ x ∈ xs.filter (fun x => Ty.beq' (getType k x) (getType k x1)),
          Good sub k (getType k x1) (false, [x]) := by
        intro x hxf
        obtain ⟨hxm, hb⟩ := List.mem_filter.mp hxf
        have := Ty.beq'_eq _ _ hb
        rw [← this]
        exact good_of_witnessed sub hrefl k x (hwfm x hxm) (hx x hxm)
      have h1 := hall x1 hmem1
      refine ⟨?_, ?_, h1.2.2.1, h1.2.2.2.1, h1.2.2.2.2.1, h1.2.2.2.2.2.1, h1.2.2.2.2.2.2⟩
      · have := witnessed_pool_list (getType k x1) (fun _ : Val => false) (fun x => [x]) _ (List.ne_nil_of_mem hmem1)
          (fun x hxf => (hall x hxf).1)
        simpa [ownGrp, any_const_false, flatMap_singleton_id] using this
      · intro x hxf
        exact (hall x hxf).2.1 x (by simp)
    have hne' : getTypes k xs ≠ [] := by rw [hxs]; simp [getTypes]
    have h1 := shrink_witnessed_groups sub k (getTypes k xs) hne' (ownGrp k xs) hgood
    have hflag : (getTypes k xs).any (fun t => (ownGrp k xs t).1) = false := any_const_false _
    have hset : SetEq ((getTypes k xs).flatMap (fun t => (ownGrp k xs t).2)) xs := by
      intro x
      simp only [List.mem_flatMap, ownGrp, List.mem_filter]
      constructor
      · rintro ⟨_, _, hxm, _⟩; exact hxm
      · intro hxm
        refine ⟨getType k x, ?_, hxm, Ty.beq'_refl _⟩
        rw [getTypes_eq_map]; exact List.mem_map.mpr ⟨x, hxm, rfl⟩
    rw [hflag, witnessed_setEq _ _ _ _ hset] at h1
    exact witnessed_flag _ false e xs (fun h => by cases h) h1

include hrefl in
mutual
theorem getType_witnessed : ∀ v : Val, v.wf = true → witnessed false [v] (getType k v) = true
  | .inst c, _ => by simp [getType, witnessed]
  | .str s, _ => by simp [getType, witnessed]
  | .classObj c, _ => by simp [getType, witnessed]
  | .func, _ => by simp [getType, witnessed]
  | .genObj, _ => by simp [getType, witnessed]
  | .list xs, hwf => by
      simp only [Val.wf] at hwf
      simp only [getType, witnessed, List.filterMap_cons, Val.asList?, List.filterMap_nil, List.isEmpty_cons, Bool.not_false,
        Bool.true_and, List.flatten_cons, List.flatten_nil, List.append_nil, List.any_cons, List.any_nil, Bool.or_false]
      apply merged_witnessed sub hrefl k _ xs _ hwf (getType_witnessed_all xs hwf)
      cases xs <;> simp
  | .set xs, hwf => by
      simp only [Val.wf] at hwf
      simp only [getType, witnessed, List.filterMap_cons, Val.asSet?, List.filterMap_nil, List.isEmpty_cons, Bool.not_false,
        Bool.true_and, List.flatten_cons, List.flatten_nil, List.append_nil, List.any_cons, List.any_nil, Bool.or_false]
      apply merged_witnessed sub hrefl k _ xs _ hwf (getType_witnessed_all xs hwf)
      cases xs <;> simp
  | .tuple xs, hwf => by
      simp only [Val.wf] at hwf
      simp only [getType, witnessed, List.filterMap_cons, Val.asTuple?, List.filterMap_nil, getTypes_length, List.filter_cons,
        beq_self_eq_true, ↓reduceIte, List.filter_nil, List.isEmpty_cons, Bool.not_false, Bool.true_and]
      have := cols_singleton_k k xs [] (getType_witnessed_all xs hwf)
      simpa using this
  | .ddict kvs, hwf => by
      simp only [Val.wf, Bool.and_eq_true] at hwf
      have hkv := getType_witnessed_kv kvs hwf.1
      simp only [getType, witnessed, List.filterMap_cons, Val.asDDict?, List.filterMap_nil, List.isEmpty_cons, Bool.not_false,
        Bool.true_and, List.flatten_cons, List.flatten_nil, List.append_nil, List.any_cons, List.any_nil, Bool.or_false,
        Bool.and_eq_true, getKeyTypes_eq, getValTypes_eq]
      constructor
      · apply merged_witnessed sub hrefl k _ _ _ (wfL_fst kvs hwf.1)
        · intro x hx
          obtain ⟨kv, hkvm, rfl⟩ := List.mem_map.mp hx
          exact (hkv kv hkvm).1
        · cases kvs <;> simp
      · apply merged_witnessed sub hrefl k _ _ _ (wfL_snd kvs hwf.1)
        · intro x hx
          obtain ⟨kv, hkvm, rfl⟩ := List.mem_map.mp hx
          exact (hkv kv hkvm).2
        · cases kvs <;> simp
  | .dict kvs, hwf => by
      simp only [Val.wf, Bool.and_eq_true, decide_eq_true_eq] at hwf
      have hkv := getType_witnessed_kv kvs hwf.1
      cases hk : kvs with
      | nil => simp [getType, witnessed, Val.asDict?]
      | cons kv0 kvs0 =>
        rw [← hk]
        have hne : kvs ≠ [] := by rw [hk]; simp
        have hgt : getType k (.dict kvs) =
            (if kvs.all (fun kv => kv.1.tdKeyOk) && decide (kvs.length ≤ k) then .td (getFields k kvs) []
             else .dict (shrink k (getKeyTypes k kvs)) (shrink k (getValTypes k kvs))) := by
          rw [hk]; simp only [getType]
        rw [hgt]
        split
        · next hcond =>
          simp only [Bool.and_eq_true] at hcond
          simp only [witnessed, List.filterMap_cons, Val.asDict?, List.filterMap_nil, List.isEmpty_cons, Bool.not_false,
            Bool.true_and, witnessedOpt, Bool.and_true]
          rw [witnessedReq_iff]
          intro kt hkt
          obtain ⟨b, hb, ht⟩ := getFields_mem k kvs (all_tdKeyOk_strKey kvs hcond.1) kt hkt
          constructor
          · simp only [List.all_cons, List.all_nil, Bool.and_true]
            exact (hasKey_iff kt.1 kvs).mpr ⟨_, hb, rfl⟩
          · have hset : SetEq (column kt.1 [kvs]) [b] := by
              intro x
              rw [mem_column]
              simp only [List.mem_singleton, exists_eq_left]
              constructor
              · rintro ⟨kv, hkvm, hks, rfl⟩
                have : (Val.str kt.1, kv.2) ∈ kvs := by rw [← hks]; exact hkvm
                exact unique_str_key kt.1 kvs hwf.2 _ _ this hb
              · rintro rfl; exact ⟨_, hb, rfl, rfl⟩
            rw [witnessed_setEq _ _ _ _ hset, ht]
            exact (hkv _ hb).2
        · simp only [witnessed, List.filterMap_cons, Val.asDict?, List.filterMap_nil, List.isEmpty_cons, Bool.not_false,
            Bool.true_and, List.flatten_cons, List.flatten_nil, List.append_nil, List.any_cons, List.any_nil, Bool.or_false,
            Bool.and_eq_true, getKeyTypes_eq, getValTypes_eq]
          constructor
          · apply merged_witnessed sub hrefl k _ _ _ (wfL_fst kvs hwf.1)
            · intro x hx
              obtain ⟨kv, hkvm, rfl⟩ := List.mem_map.mp hx
              exact (hkv kv hkvm).1
            · left; simpa using hne
          · apply merged_witnessed sub hrefl k _ _ _ (wfL_snd kvs hwf.1)
            · intro x hx
              obtain ⟨kv, hkvm, rfl⟩ := List.mem_map.mp hx
              exact (hkv kv hkvm).2
            · left; simpa using hne
theorem getType_witnessed_all : ∀ xs : List Val, wfL xs = true → ∀ x ∈ xs, witnessed false [x] (getType k x) = true
  | [], _, _, hx => by cases hx
  | y :: ys, hwf, x, hx => by
      simp only [wfL, Bool.and_eq_true] at hwf
      rcases List.mem_cons.mp hx with heq | hx
      · rw [heq]; exact getType_witnessed y hwf.1
      · exact getType_witnessed_all ys hwf.2 x hx
theorem getType_witnessed_kv : ∀ kvs : List (Val × Val), wfKV kvs = true → ∀ kv ∈ kvs,
    witnessed false [kv.1] (getType k kv.1) = true ∧ witnessed false [kv.2] (getType k kv.2) = true
  | [], _, _, hx => by cases hx
  | (a, b) :: kvs, hwf, kv, hx => by
      simp only [wfKV, Bool.and_eq_true] at hwf
      rcases List.mem_cons.mp hx with heq | hx
      · rw [heq]; exact ⟨getType_witnessed a hwf.1.1, getType_witnessed b hwf.1.2⟩
      · exact getType_witnessed_kv kvs hwf.2 kv hx
end

include hrefl in
/-- C05, tightness, every limit: the type inferred for a non-empty collection of well-formed values is witnessed by those
    values at every nesting position. -/
theorem infer_witnessed (vs : List Val) (hne : vs ≠ []) (hwf : wfL vs = true) : witnessed false vs (infer k vs) = true :=
  merged_witnessed sub hrefl k false vs (Or.inl hne) hwf (getType_witnessed_all sub hrefl k vs hwf)

end
end MT
