/-
  Lemmas/WitnessMerge.lean — towards C05's witness statement for k > 0: the TypedDict → Dict rewrite that precedes every
  union keeps a type witnessed.
-/
import MTVerif.Lemmas.WitnessTD
import MTVerif.Lemmas.PlainUnions
import MTVerif.Lemmas.DisjointKeys
namespace MT

theorem tdToDictL_length (ts : List Ty) : (tdToDictL ts).length = ts.length := by
  rw [tdToDictL_eq_map]; simp

theorem tdToDictF_mem : ∀ (fs : List (String × Ty)) (m : Ty), m ∈ tdToDictF fs → ∃ kt ∈ fs, m = tdToDict kt.2
  | [], _, h => by simp [tdToDictF] at h
  | (k, t) :: fs, m, h => by
      simp only [tdToDictF, List.mem_cons] at h
      rcases h with rfl | h
      · exact ⟨(k, t), List.mem_cons_self .., rfl⟩
      · obtain ⟨kt, hkt, e⟩ := tdToDictF_mem fs m h
        exact ⟨kt, List.mem_cons_of_mem _ hkt, e⟩

/-- the values stored under key `s` are among all the values -/
theorem column_sub_values (s : String) (ds : List (List (Val × Val))) : ∀ v ∈ column s ds, v ∈ ds.flatten.map Prod.snd := by
  intro v hv
  simp only [column, List.mem_flatMap, List.mem_map, List.mem_filter] at hv
  obtain ⟨d, hd, kv, ⟨hkv, _⟩, rfl⟩ := hv
  exact List.mem_map.mpr ⟨kv, List.mem_flatten.mpr ⟨d, hd, hkv⟩, rfl⟩

/-- a dict that has the string key `s` contributes a `str` to the keys -/
theorem str_key_of_hasKey (s : String) (ds : List (List (Val × Val))) (h : ds.any (hasKey s) = true) :
    (ds.flatten.map Prod.fst).any (fun v => match v with | .inst c' => c' == strC | .str _ => strC == strC | _ => false) = true := by
  obtain ⟨d, hd, hk⟩ := List.any_eq_true.mp h
  obtain ⟨kv, hkv, hs⟩ := List.any_eq_true.mp hk
  refine List.any_eq_true.mpr ⟨kv.1, List.mem_map.mpr ⟨kv, List.mem_flatten.mpr ⟨d, hd, hkv⟩, rfl⟩, ?_⟩
  cases hk1 : kv.1 <;> simp_all [Val.isStr]

mutual
/-- turning the anonymous TypedDicts of a type into `Dict[str, …]` keeps it witnessed by the same observations -/
theorem tdToDict_witnessed (k : Nat) : ∀ (t : Ty), t.normal = true → t.plainUnions = true → t.tdOk k = true →
    ∀ (e : Bool) (g : List Val), witnessed e g t = true → witnessed e g (tdToDict t) = true
  | .any, _, _, _, _, _, h => by simpa [tdToDict] using h
  | .cls _, _, _, _, _, _, h => by simpa [tdToDict] using h
  | .typeOf _, _, _, _, _, _, h => by simpa [tdToDict] using h
  | .callable, _, _, _, _, _, h => by simpa [tdToDict] using h
  | .generator _ _ _, _, _, _, _, _, h => by simp [witnessed] at h
  | .tupleOf _, _, _, _, _, _, h => by simp [witnessed] at h
  | .iterator a, _, _, _, _, _, h => by
      simp only [witnessed, Bool.and_eq_true] at h
      have ha : a = .any := by
        have := h.1
        cases a <;> simp_all
      subst ha
      simpa [tdToDict, witnessed] using h.2
  | .list a, hn, hp, hk, _, _, h => by
      simp only [Ty.normal] at hn; simp only [Ty.plainUnions] at hp; simp only [Ty.tdOk] at hk
      simp only [witnessed, Bool.and_eq_true] at h
      simp only [tdToDict, witnessed, Bool.and_eq_true]
      exact ⟨h.1, tdToDict_witnessed k a hn hp hk _ _ h.2⟩
  | .set a, hn, hp, hk, _, _, h => by
      simp only [Ty.normal] at hn; simp only [Ty.plainUnions] at hp; simp only [Ty.tdOk] at hk
      simp only [witnessed, Bool.and_eq_true] at h
      simp only [tdToDict, witnessed, Bool.and_eq_true]
      exact ⟨h.1, tdToDict_witnessed k a hn hp hk _ _ h.2⟩
  | .dict a b, hn, hp, hk, _, _, h => by
      simp only [Ty.normal, Bool.and_eq_true] at hn; simp only [Ty.plainUnions, Bool.and_eq_true] at hp
      simp only [Ty.tdOk, Bool.and_eq_true] at hk
      simp only [witnessed, Bool.and_eq_true] at h
      simp only [tdToDict, witnessed, Bool.and_eq_true]
      exact ⟨⟨h.1.1, tdToDict_witnessed k a hn.1 hp.1 hk.1 _ _ h.1.2⟩, tdToDict_witnessed k b hn.2 hp.2 hk.2 _ _ h.2⟩
  | .ddict a b, hn, hp, hk, _, _, h => by
      simp only [Ty.normal, Bool.and_eq_true] at hn; simp only [Ty.plainUnions, Bool.and_eq_true] at hp
      simp only [Ty.tdOk, Bool.and_eq_true] at hk
      simp only [witnessed, Bool.and_eq_true] at h
      simp only [tdToDict, witnessed, Bool.and_eq_true]
      exact ⟨⟨h.1.1, tdToDict_witnessed k a hn.1 hp.1 hk.1 _ _ h.1.2⟩, tdToDict_witnessed k b hn.2 hp.2 hk.2 _ _ h.2⟩
  | .tuple ts, hn, hp, hk, _, _, h => by
      simp only [Ty.normal] at hn; simp only [Ty.plainUnions] at hp; simp only [Ty.tdOk] at hk
      simp only [witnessed, Bool.and_eq_true] at h
      simp only [tdToDict, witnessed, Bool.and_eq_true, tdToDictL_length]
      exact ⟨h.1, tdToDictL_witnessedCols k ts hn hp hk _ 0 h.2⟩
  | .union ts, hn, hp, _, _, _, h => by
      simp only [Ty.normal, Bool.and_eq_true] at hn
      simp only [Ty.plainUnions, Bool.not_eq_true'] at hp
      simp only [tdToDict, tdToDictL_id ts hp hn.1]
      rw [Ty.beq'_eq _ _ hn.2]
      exact h
  | .td r o, hn, hp, hk, _, g, h => by
      simp only [Ty.normal, Bool.and_eq_true] at hn; simp only [Ty.plainUnions, Bool.and_eq_true] at hp
      simp only [Ty.tdOk, Bool.and_eq_true, decide_eq_true_eq] at hk
      obtain ⟨⟨⟨hpos, _⟩, hkr⟩, hko⟩ := hk
      simp only [witnessed, Bool.and_eq_true] at h
      obtain ⟨⟨hne, hreq⟩, hopt⟩ := h
      have hreq' := (witnessedReq_iff _ r).mp hreq
      have hopt' := (witnessedOpt_iff _ o).mp hopt
      -- some observed dict has a string key
      have hkey : ((g.filterMap Val.asDict?).flatten.map Prod.fst).any
          (fun v => match v with | .inst c' => c' == strC | .str _ => strC == strC | _ => false) = true := by
        cases r with
        | cons kt r' =>
          have := (hreq' kt (List.mem_cons_self ..)).1
          apply str_key_of_hasKey kt.1
          cases hds : g.filterMap Val.asDict? with
          | nil => simp [hds] at hne
          | cons d ds => rw [hds] at this; simp only [List.all_cons, Bool.and_eq_true] at this; simp [this.1]
        | nil =>
          cases o with
          | nil => simp at hpos
          | cons kt o' => exact str_key_of_hasKey kt.1 _ (hopt' kt (List.mem_cons_self ..)).2.1
      have hvals : ∀ m ∈ tdToDictF r ++ tdToDictF o,
          witnessed ((g.filterMap Val.asDict?).any List.isEmpty) ((g.filterMap Val.asDict?).flatten.map Prod.snd) m = true := by
        intro m hm
        rcases List.mem_append.mp hm with hm | hm
        · obtain ⟨kt, hkt, rfl⟩ := tdToDictF_mem r m hm
          have hw := tdToDict_witnessed_memF k r kt hkt ((normalF_iff r).mp hn.1 kt hkt) ((plainUnionsF_iff r).mp hp.1 kt hkt)
            ((tdOkF_iff k r).mp hkr kt hkt) false _ (hreq' kt hkt).2
          exact witnessed_mono _ (tdToDict_noTD kt.2) false _ _ _ (fun x => by cases x) (column_sub_values kt.1 _) hw
        · obtain ⟨kt, hkt, rfl⟩ := tdToDictF_mem o m hm
          have hw := tdToDict_witnessed_memF k o kt hkt ((normalF_iff o).mp hn.2 kt hkt) ((plainUnionsF_iff o).mp hp.2 kt hkt)
            ((tdOkF_iff k o).mp hko kt hkt) false _ (hopt' kt hkt).2.2
          exact witnessed_mono _ (tdToDict_noTD kt.2) false _ _ _ (fun x => by cases x) (column_sub_values kt.1 _) hw
      have hLne : tdToDictF r ++ tdToDictF o ≠ [] := by
        cases r with
        | cons kt r' => obtain ⟨k', t'⟩ := kt; simp [tdToDictF]
        | nil =>
          cases o with
          | nil => simp at hpos
          | cons kt o' => obtain ⟨k', t'⟩ := kt; simp [tdToDictF]
      simp only [tdToDict]
      split
      · next hr ho => simp at hpos
      · simp only [witnessed, Bool.and_eq_true]
        exact ⟨⟨hne, hkey⟩, witnessed_mkUnion _ _ _ hLne hvals⟩
theorem tdToDictL_witnessedCols (k : Nat) : ∀ (ts : List Ty), normalL ts = true → plainUnionsL ts = true → tdOkL k ts = true →
    ∀ (tups : List (List Val)) (i : Nat), witnessedCols tups i ts = true → witnessedCols tups i (tdToDictL ts) = true
  | [], _, _, _, _, _, _ => by simp [tdToDictL, witnessedCols]
  | t :: ts, hn, hp, hk, tups, i, h => by
      simp only [normalL, Bool.and_eq_true] at hn; simp only [plainUnionsL, Bool.and_eq_true] at hp
      simp only [tdOkL, Bool.and_eq_true] at hk
      simp only [witnessedCols, Bool.and_eq_true] at h
      simp only [tdToDictL, witnessedCols, Bool.and_eq_true]
      exact ⟨tdToDict_witnessed k t hn.1 hp.1 hk.1 _ _ h.1, tdToDictL_witnessedCols k ts hn.2 hp.2 hk.2 tups (i + 1) h.2⟩
theorem tdToDict_witnessed_memF (k : Nat) : ∀ (fs : List (String × Ty)), ∀ kt ∈ fs, kt.2.normal = true → kt.2.plainUnions = true →
    kt.2.tdOk k = true → ∀ (e : Bool) (g : List Val), witnessed e g kt.2 = true → witnessed e g (tdToDict kt.2) = true
  | [], _, hk, _, _, _, _, _, _ => by cases hk
  | (_, t) :: fs, kt, hkt, hn, hp, hk, e, g, h => by
      rcases List.mem_cons.mp hkt with heq | hkt
      · rw [heq] at hn hp hk h ⊢; exact tdToDict_witnessed k t hn hp hk e g h
      · exact tdToDict_witnessed_memF k fs kt hkt hn hp hk e g h
end

end MT

namespace MT

/-! ### merging types that come with their own observations -/

section
variable (sub : ClassId → ClassId → Bool) (k : Nat)

/-- a type together with the observations recorded for it (an empty-container flag and the values): the values witness the
    type, are tight members of it, and the type has the invariants of inferred types -/
def Good (t : Ty) (p : Bool × List Val) : Prop :=
  witnessed p.1 p.2 t = true ∧ (∀ x ∈ p.2, conforms sub false t x = true) ∧ t.wf = true ∧ t.normal = true ∧
    t.plainUnions = true ∧ t.tdOk k = true ∧ t.djk = true

theorem mem_flatMap_grp (ts : List Ty) (G : Ty → Bool × List Val) (t : Ty) (ht : t ∈ ts) :
    ∀ v ∈ (G t).2, v ∈ ts.flatMap (fun t => (G t).2) :=
  fun v hv => List.mem_flatMap.mpr ⟨t, ht, hv⟩

theorem any_flag_of_mem (ts : List Ty) (G : Ty → Bool × List Val) (t : Ty) (ht : t ∈ ts) :
    (G t).1 = true → ts.any (fun t => (G t).1) = true :=
  fun h => List.any_eq_true.mpr ⟨t, ht, h⟩

/-- all members `==` the first: the first is witnessed by everybody's observations together -/
theorem alleq_witnessed (t0 : Ty) (rest : List Ty) (G : Ty → Bool × List Val)
    (hg : ∀ t ∈ t0 :: rest, Good sub k t (G t)) (heq : rest.all (fun t => Ty.eqv t t0) = true) :
    witnessed ((t0 :: rest).any (fun t => (G t).1)) ((t0 :: rest).flatMap (fun t => (G t).2)) t0 = true := by
  apply witnessed_pool_list t0 (fun t => (G t).1) (fun t => (G t).2) (t0 :: rest) (by simp)
  intro t ht
  have hw0 := (hg t0 (List.mem_cons_self ..)).2.2.1
  rcases List.mem_cons.mp ht with rfl | ht'
  · exact (hg _ ht).1
  · exact witnessed_eqv t t0 (List.all_eq_true.mp heq t ht') hw0 _ _ (hg t ht).1

/-- the union branch -/
theorem union_witnessed (ts : List Ty) (hne : ts ≠ []) (G : Ty → Bool × List Val) (hg : ∀ t ∈ ts, Good sub k t (G t)) :
    witnessed (ts.any (fun t => (G t).1)) (ts.flatMap (fun t => (G t).2)) (mkUnion (ts.map tdToDict)) = true := by
  apply witnessed_mkUnion _ _ _ (by simpa using hne)
  intro m hm
  obtain ⟨t, ht, rfl⟩ := List.mem_map.mp hm
  obtain ⟨hw, _, _, hn, hp, hk, _⟩ := hg t ht
  exact witnessed_mono _ (tdToDict_noTD t) _ _ _ _ (any_flag_of_mem ts G t ht) (mem_flatMap_grp ts G t ht)
    (tdToDict_witnessed k t hn hp hk _ _ hw)

/-! #### the all-lists branch -/

/-- the observations recorded for the element type of `List[a]`: the elements of the observed lists -/
def listGrp (G : Ty → Bool × List Val) (a : Ty) : Bool × List Val :=
  (((G (.list a)).2.filterMap Val.asList?).any List.isEmpty, ((G (.list a)).2.filterMap Val.asList?).flatten)

theorem listGrp_good (G : Ty → Bool × List Val) (a : Ty) (h : Good sub k (.list a) (G (.list a))) : Good sub k a (listGrp G a) := by
  obtain ⟨hw, hc, hwf, hn, hp, hk, hd⟩ := h
  simp only [witnessed, Bool.and_eq_true] at hw
  refine ⟨hw.2, ?_, by simpa [Ty.wf] using hwf, by simpa [Ty.normal] using hn, by simpa [Ty.plainUnions] using hp,
    by simpa [Ty.tdOk] using hk, by simpa [Ty.djk] using hd⟩
  intro x hx
  simp only [listGrp, List.mem_flatten, List.mem_filterMap] at hx
  obtain ⟨l, ⟨v, hv, hvl⟩, hxl⟩ := hx
  have hcv := hc v hv
  cases v <;> simp [Val.asList?] at hvl
  subst hvl
  simp only [conforms, List.all_eq_true] at hcv
  exact hcv x hxl

theorem lists_witnessed (ts : List Ty) (G : Ty → Bool × List Val) (T : Ty)
    (hlist : ∀ t ∈ ts, ∃ a, t = .list a) (t0 : Ty) (ht0 : t0 ∈ ts) (hw0 : ∃ a, t0 = .list a ∧ witnessed (G t0).1 (G t0).2 (.list a) = true)
    (ih : witnessed ((ts.map Ty.listArg).any (fun a => (listGrp G a).1)) ((ts.map Ty.listArg).flatMap (fun a => (listGrp G a).2)) T = true) :
    witnessed (ts.any (fun t => (G t).1)) (ts.flatMap (fun t => (G t).2)) (.list T) = true := by
  simp only [witnessed, Bool.and_eq_true]
  constructor
  · obtain ⟨a0, rfl, hw⟩ := hw0
    simp only [witnessed, Bool.and_eq_true] at hw
    exact nonempty_sub _ _ (filterMap_sub _ _ _ (mem_flatMap_grp ts G _ ht0)) hw.1
  · have hset : SetEq ((ts.map Ty.listArg).flatMap (fun a => (listGrp G a).2))
        ((ts.flatMap (fun t => (G t).2)).filterMap Val.asList?).flatten := by
      intro x
      simp only [List.flatMap_map, List.mem_flatMap, List.mem_flatten, List.mem_filterMap]
      constructor
      · rintro ⟨t, ht, hx⟩
        obtain ⟨a, rfl⟩ := hlist t ht
        simp only [Ty.listArg, listGrp, List.mem_flatten, List.mem_filterMap] at hx
        obtain ⟨l, ⟨v, hv, hvl⟩, hxl⟩ := hx
        exact ⟨l, ⟨v, ⟨_, ht, hv⟩, hvl⟩, hxl⟩
      · rintro ⟨l, ⟨v, ⟨t, ht, hv⟩, hvl⟩, hxl⟩
        refine ⟨t, ht, ?_⟩
        obtain ⟨a, rfl⟩ := hlist t ht
        simp only [Ty.listArg, listGrp, List.mem_flatten, List.mem_filterMap]
        exact ⟨l, ⟨v, hv, hvl⟩, hxl⟩
    have h1 : witnessed ((ts.map Ty.listArg).any (fun a => (listGrp G a).1))
        ((ts.flatMap (fun t => (G t).2)).filterMap Val.asList?).flatten T = true := by
      rw [← witnessed_setEq T _ _ _ hset]; exact ih
    apply witnessed_flag T _ _ _ ?_ h1
    intro hf
    simp only [List.any_map, List.any_eq_true, Function.comp] at hf
    obtain ⟨t, ht, hl⟩ := hf
    obtain ⟨a, rfl⟩ := hlist t ht
    simp only [Ty.listArg, listGrp, List.any_eq_true] at hl
    obtain ⟨l, hl, he⟩ := hl
    exact List.any_eq_true.mpr ⟨l, filterMap_sub _ _ _ (mem_flatMap_grp ts G _ ht) l hl, he⟩

/-! #### TypedDict members: what their observations say key by key -/

theorem mem_column (s : String) (ds : List (List (Val × Val))) (x : Val) :
    x ∈ column s ds ↔ ∃ d ∈ ds, ∃ kv ∈ d, kv.1 = Val.str s ∧ kv.2 = x := by
  simp only [column, List.mem_flatMap, List.mem_map, List.mem_filter, Val.isStr_iff]
  constructor
  · rintro ⟨d, hd, kv, ⟨hkv, hs⟩, rfl⟩; exact ⟨d, hd, kv, hkv, hs, rfl⟩
  · rintro ⟨d, hd, kv, hkv, hs, rfl⟩; exact ⟨d, hd, kv, ⟨hkv, hs⟩, rfl⟩

theorem hasKey_iff (s : String) (d : List (Val × Val)) : hasKey s d = true ↔ ∃ kv ∈ d, kv.1 = Val.str s := by
  simp [hasKey, Val.isStr_iff]

theorem mem_dicts (g : List Val) (d : List (Val × Val)) : d ∈ g.filterMap Val.asDict? ↔ Val.dict d ∈ g := by
  simp only [List.mem_filterMap]
  constructor
  · rintro ⟨v, hv, hd⟩
    cases v <;> simp [Val.asDict?] at hd
    subst hd; exact hv
  · intro h; exact ⟨_, h, rfl⟩

theorem djk_td (r o : List (String × Ty)) (h : (Ty.td r o).djk = true) : ∀ s, s ∈ r.map Prod.fst → s ∉ o.map Prod.fst := by
  simp only [Ty.djk, Bool.and_eq_true, decide_eq_true_eq] at h
  exact h.1.1

/-- an entry of a dict that is a tight member of a TypedDict type: its key is a field, and its value a tight member of that
    field's type -/
theorem td_entry (r o : List (String × Ty)) (hdj : (Ty.td r o).djk = true) (d : List (Val × Val))
    (hc : conforms sub false (.td r o) (.dict d) = true) : ∀ kv ∈ d, ∃ s, kv.1 = Val.str s ∧
      ((∃ u, lookupF s r = some u ∧ conforms sub false u kv.2 = true) ∨
       (lookupF s r = none ∧ ∃ u, lookupF s o = some u ∧ conforms sub false u kv.2 = true)) := by
  intro kv hkv
  simp only [conforms, Bool.and_eq_true, List.all_eq_true] at hc
  have := hc.2 kv hkv
  cases hk : kv.1 <;> simp only [hk, Bool.false_eq_true] at this
  rename_i s
  refine ⟨s, rfl, ?_⟩
  simp only [Bool.or_eq_true, conformsField_lookup] at this
  cases hl : lookupF s r with
  | some u =>
    left
    rcases this with ⟨u', hu', hcu⟩ | ⟨u', hu', _⟩
    · rw [hl] at hu'; cases hu'; exact ⟨u, rfl, hcu⟩
    · exact absurd (lookupF_mem_vals s o u' hu').2 (djk_td r o hdj s (lookupF_mem_vals s r u hl).2)
  | none =>
    right
    rcases this with ⟨u', hu', _⟩ | ⟨u', hu', hcu⟩
    · rw [hl] at hu'; cases hu'
    · exact ⟨rfl, u', hu', hcu⟩

/-- the observations of a field of a TypedDict member: the values stored under that key -/
theorem field_good (r o : List (String × Ty)) (p : Bool × List Val) (hg : Good sub k (.td r o) p) (s : String) (u : Ty)
    (hf : lookupF s r = some u ∨ lookupF s o = some u) : Good sub k u (false, column s (p.2.filterMap Val.asDict?)) := by
  obtain ⟨hw, hc, hwf, hn, hp, hk, hd⟩ := hg
  simp only [witnessed, Bool.and_eq_true] at hw
  have hmem : (s, u) ∈ r ∨ (s, u) ∈ o := hf.imp (lookupF_mem s r u) (lookupF_mem s o u)
  refine ⟨?_, ?_, ?_, ?_, ?_, ?_, ?_⟩
  · rcases hmem with h | h
    · exact ((witnessedReq_iff _ r).mp hw.1.2 (s, u) h).2
    · exact ((witnessedOpt_iff _ o).mp hw.2 (s, u) h).2.2
  · intro x hx
    obtain ⟨d, hdm, kv, hkv, hks, rfl⟩ := (mem_column s _ x).mp hx
    obtain ⟨s', hs', hcase⟩ := td_entry sub r o hd d (hc _ ((mem_dicts p.2 d).mp hdm)) kv hkv
    rw [hks] at hs'; cases hs'
    rcases hcase with ⟨u', hu', hcu⟩ | ⟨hnone, u', hu', hcu⟩
    · rcases hf with h | h
      · rw [h] at hu'; cases hu'; exact hcu
      · exact absurd (lookupF_mem_vals s o u h).2 (djk_td r o hd s (lookupF_mem_vals s r u' hu').2)
    · rcases hf with h | h
      · rw [h] at hnone; cases hnone
      · rw [h] at hu'; cases hu'; exact hcu
  · rcases hmem with h | h
    · exact reqF_wf (.td r o) hwf (s, u) h
    · exact optF_wf (.td r o) hwf (s, u) h
  · rcases hmem with h | h
    · exact reqF_normal (.td r o) hn (s, u) h
    · exact optF_normal (.td r o) hn (s, u) h
  · rcases hmem with h | h
    · exact reqF_plain (.td r o) hp (s, u) h
    · exact optF_plain (.td r o) hp (s, u) h
  · rcases hmem with h | h
    · exact reqF_tdOk k (.td r o) hk (s, u) h
    · exact optF_tdOk k (.td r o) hk (s, u) h
  · rcases hmem with h | h
    · exact reqF_djk (.td r o) hd (s, u) h
    · exact optF_djk (.td r o) hd (s, u) h

/-- a dict observed for a TypedDict member that has the key `s`: `s` is one of the member's fields -/
theorem key_is_field (r o : List (String × Ty)) (p : Bool × List Val) (hg : Good sub k (.td r o) p) (s : String)
    (d : List (Val × Val)) (hd : d ∈ p.2.filterMap Val.asDict?) (hk : hasKey s d = true) :
    (∃ u, lookupF s r = some u) ∨ (∃ u, lookupF s o = some u) := by
  obtain ⟨kv, hkv, hks⟩ := (hasKey_iff s d).mp hk
  obtain ⟨s', hs', hcase⟩ := td_entry sub r o hg.2.2.2.2.2.2 d (hg.2.1 _ ((mem_dicts p.2 d).mp hd)) kv hkv
  rw [hks] at hs'; cases hs'
  rcases hcase with ⟨u, hu, _⟩ | ⟨_, u, hu, _⟩
  · exact Or.inl ⟨u, hu⟩
  · exact Or.inr ⟨u, hu⟩

/-! #### the TypedDict merge: observations per key -/

/-- member `t` has the field `(s, u)` (required or optional) -/
def fieldIs (s : String) (u : Ty) (t : Ty) : Bool :=
  (match lookupF s t.reqF with | some u' => Ty.beq' u' u | none => false) ||
  (match lookupF s t.optF with | some u' => Ty.beq' u' u | none => false)

theorem fieldIs_iff (s : String) (u t : Ty) :
    fieldIs s u t = true ↔ lookupF s t.reqF = some u ∨ lookupF s t.optF = some u := by
  unfold fieldIs
  constructor
  · intro h
    rcases Bool.or_eq_true_iff.mp h with h | h
    · left; cases hl : lookupF s t.reqF with
      | none => simp [hl] at h
      | some u' => rw [hl] at h; rw [Ty.beq'_eq _ _ h]
    · right; cases hl : lookupF s t.optF with
      | none => simp [hl] at h
      | some u' => rw [hl] at h; rw [Ty.beq'_eq _ _ h]
  · rintro (h | h)
    · simp [h, Ty.beq'_refl]
    · simp [h, Ty.beq'_refl]

/-- the observations for the field type `u` under key `s`, pooled over every member that has that field -/
def fieldGrp (G : Ty → Bool × List Val) (ts : List Ty) (s : String) (u : Ty) : Bool × List Val :=
  (false, (ts.filter (fieldIs s u)).flatMap (fun t => column s ((G t).2.filterMap Val.asDict?)))

theorem isTD_iff (t : Ty) : t.isTD = true ↔ ∃ r o, t = .td r o := by
  cases t <;> simp [Ty.isTD]

theorem mem_vals_iff (s : String) (ts : List Ty) (u : Ty) :
    u ∈ reqVals s ts ++ optVals s ts ↔ ∃ t ∈ ts, lookupF s t.reqF = some u ∨ lookupF s t.optF = some u := by
  simp only [reqVals, optVals, List.mem_append, List.mem_filterMap]
  constructor
  · rintro (⟨t, ht, h⟩ | ⟨t, ht, h⟩)
    · exact ⟨t, ht, Or.inl h⟩
    · exact ⟨t, ht, Or.inr h⟩
  · rintro ⟨t, ht, h | h⟩
    · exact Or.inl ⟨t, ht, h⟩
    · exact Or.inr ⟨t, ht, h⟩

theorem any_const_false {α} (l : List α) : l.any (fun _ => false) = false := by
  induction l <;> simp_all

theorem fieldGrp_good (G : Ty → Bool × List Val) (ts : List Ty) (hall : ts.all Ty.isTD = true)
    (hg : ∀ t ∈ ts, Good sub k t (G t)) (s : String) (u : Ty) (hu : u ∈ reqVals s ts ++ optVals s ts) :
    Good sub k u (fieldGrp G ts s u) := by
  obtain ⟨t1, ht1, hf1⟩ := (mem_vals_iff s ts u).mp hu
  have hfld : ∀ t ∈ ts.filter (fieldIs s u), Good sub k u (false, column s ((G t).2.filterMap Val.asDict?)) := by
    intro t ht
    obtain ⟨htm, hfi⟩ := List.mem_filter.mp ht
    obtain ⟨r, o, rfl⟩ := (isTD_iff t).mp (List.all_eq_true.mp hall t htm)
    exact field_good sub k r o (G _) (hg _ htm) s u (by simpa [Ty.reqF, Ty.optF] using (fieldIs_iff s u _).mp hfi)
  have hmem1 : t1 ∈ ts.filter (fieldIs s u) := List.mem_filter.mpr ⟨ht1, (fieldIs_iff s u t1).mpr hf1⟩
  have h1 := hfld t1 hmem1
  refine ⟨?_, ?_, h1.2.2.1, h1.2.2.2.1, h1.2.2.2.2.1, h1.2.2.2.2.2.1, h1.2.2.2.2.2.2⟩
  · have := witnessed_pool_list u (fun _ : Ty => false) (fun t => column s ((G t).2.filterMap Val.asDict?))
      (ts.filter (fieldIs s u)) (List.ne_nil_of_mem hmem1) (fun t ht => (hfld t ht).1)
    simpa [fieldGrp, any_const_false] using this
  · intro x hx
    simp only [fieldGrp, List.mem_flatMap] at hx
    obtain ⟨t, ht, hxt⟩ := hx
    exact (hfld t ht).2.1 x hxt

/-- the values under key `s` in all observed dicts are the pooled observations of the field types under `s` -/
theorem columns_setEq (G : Ty → Bool × List Val) (ts : List Ty) (hall : ts.all Ty.isTD = true)
    (hg : ∀ t ∈ ts, Good sub k t (G t)) (s : String) :
    SetEq ((reqVals s ts ++ optVals s ts).flatMap (fun u => (fieldGrp G ts s u).2))
      (column s ((ts.flatMap (fun t => (G t).2)).filterMap Val.asDict?)) := by
  intro x
  rw [mem_column]
  simp only [List.mem_flatMap, fieldGrp, List.mem_filter, List.mem_filterMap]
  constructor
  · rintro ⟨u, _, t, ⟨ht, _⟩, hx⟩
    obtain ⟨d, hd, kv, hkv, hks, hx⟩ := (mem_column s _ x).mp hx
    obtain ⟨v, hv, hvd⟩ := List.mem_filterMap.mp hd
    exact ⟨d, ⟨v, ⟨t, ht, hv⟩, hvd⟩, kv, hkv, hks, hx⟩
  · rintro ⟨d, ⟨v, ⟨t, ht, hv⟩, hvd⟩, kv, hkv, hks, hx⟩
    obtain ⟨r, o, rfl⟩ := (isTD_iff t).mp (List.all_eq_true.mp hall t ht)
    have hdm : d ∈ (G (Ty.td r o)).2.filterMap Val.asDict? := List.mem_filterMap.mpr ⟨v, hv, hvd⟩
    have hkey : hasKey s d = true := (hasKey_iff s d).mpr ⟨kv, hkv, hks⟩
    have hfield := key_is_field sub k r o (G _) (hg _ ht) s d hdm hkey
    obtain ⟨u, hu⟩ : ∃ u, lookupF s r = some u ∨ lookupF s o = some u := by
      rcases hfield with ⟨u, h⟩ | ⟨u, h⟩
      · exact ⟨u, Or.inl h⟩
      · exact ⟨u, Or.inr h⟩
    refine ⟨u, (mem_vals_iff s ts u).mpr ⟨_, ht, by simpa [Ty.reqF, Ty.optF] using hu⟩, Ty.td r o,
      ⟨ht, (fieldIs_iff s u _).mpr (by simpa [Ty.reqF, Ty.optF] using hu)⟩, ?_⟩
    exact (mem_column s _ x).mpr ⟨d, hdm, kv, hkv, hks, hx⟩

theorem mem_all_dicts (G : Ty → Bool × List Val) (ts : List Ty) (d : List (Val × Val)) :
    d ∈ (ts.flatMap (fun t => (G t).2)).filterMap Val.asDict? ↔ ∃ t ∈ ts, d ∈ (G t).2.filterMap Val.asDict? := by
  simp only [List.mem_filterMap, List.mem_flatMap]
  constructor
  · rintro ⟨v, ⟨t, ht, hv⟩, hd⟩; exact ⟨t, ht, v, hv, hd⟩
  · rintro ⟨t, ht, v, hv, hd⟩; exact ⟨v, ⟨t, ht, hv⟩, hd⟩

/-- a TypedDict member has at least one observed dict -/
theorem td_dicts_ne (r o : List (String × Ty)) (p : Bool × List Val) (hg : Good sub k (.td r o) p) :
    ∃ d, d ∈ p.2.filterMap Val.asDict? := by
  have hw := hg.1
  simp only [witnessed, Bool.and_eq_true] at hw
  cases h : p.2.filterMap Val.asDict? with
  | nil => simp [h] at hw
  | cons d _ => exact ⟨d, by simp⟩

/-- the merged TypedDict is witnessed by all the observed dicts, given that each merged field type is witnessed by the
    values stored under its key -/
theorem td_small_witnessed (G : Ty → Bool × List Val) (t0 : Ty) (rest : List Ty) (hall : (t0 :: rest).all Ty.isTD = true)
    (hg : ∀ t ∈ t0 :: rest, Good sub k t (G t)) (F : String → Ty)
    (hF : ∀ s, (∃ t ∈ t0 :: rest, (∃ u, lookupF s t.reqF = some u) ∨ (∃ u, lookupF s t.optF = some u)) →
      witnessed false (column s (((t0 :: rest).flatMap (fun t => (G t).2)).filterMap Val.asDict?)) (F s) = true) :
    witnessed ((t0 :: rest).any (fun t => (G t).1)) ((t0 :: rest).flatMap (fun t => (G t).2))
      (.td ((reqKeys (t0 :: rest)).map (fun s => (s, F s))) ((optKeys (t0 :: rest)).map (fun s => (s, F s)))) = true := by
  have htd : ∀ t ∈ t0 :: rest, ∃ r o, t = .td r o := fun t ht => (isTD_iff t).mp (List.all_eq_true.mp hall t ht)
  -- per member: what its own dicts say about a key
  have hreqAll : ∀ t ∈ t0 :: rest, ∀ s, s ∈ t.reqKeySet → ∀ d ∈ (G t).2.filterMap Val.asDict?, hasKey s d = true := by
    intro t ht s hs d hd
    obtain ⟨r, o, rfl⟩ := htd t ht
    have hw := (hg _ ht).1
    simp only [witnessed, Bool.and_eq_true] at hw
    obtain ⟨kt, hkt, hks⟩ := List.mem_map.mp (by simpa [Ty.reqKeySet, Ty.reqF] using hs : s ∈ r.map Prod.fst)
    have := ((witnessedReq_iff _ r).mp hw.1.2 kt hkt).1
    rw [hks] at this
    exact List.all_eq_true.mp this d hd
  have hoptBoth : ∀ t ∈ t0 :: rest, ∀ s, s ∈ t.optKeySet →
      (∃ d ∈ (G t).2.filterMap Val.asDict?, hasKey s d = false) ∧ (∃ d ∈ (G t).2.filterMap Val.asDict?, hasKey s d = true) := by
    intro t ht s hs
    obtain ⟨r, o, rfl⟩ := htd t ht
    have hw := (hg _ ht).1
    simp only [witnessed, Bool.and_eq_true] at hw
    obtain ⟨kt, hkt, hks⟩ := List.mem_map.mp (by simpa [Ty.optKeySet, Ty.optF] using hs : s ∈ o.map Prod.fst)
    have := (witnessedOpt_iff _ o).mp hw.2 kt hkt
    rw [hks] at this
    obtain ⟨d1, hd1, h1⟩ := List.any_eq_true.mp this.1
    obtain ⟨d2, hd2, h2⟩ := List.any_eq_true.mp this.2.1
    exact ⟨⟨d1, hd1, by simpa using h1⟩, ⟨d2, hd2, h2⟩⟩
  have hnoKey : ∀ t ∈ t0 :: rest, ∀ s, s ∉ t.reqKeySet → s ∉ t.optKeySet → ∀ d ∈ (G t).2.filterMap Val.asDict?, hasKey s d = false := by
    intro t ht s h1 h2 d hd
    obtain ⟨r, o, rfl⟩ := htd t ht
    cases hk : hasKey s d with
    | false => rfl
    | true =>
      exfalso
      rcases key_is_field sub k r o (G _) (hg _ ht) s d hd hk with ⟨u, hu⟩ | ⟨u, hu⟩
      · exact h1 (by simpa [Ty.reqKeySet, Ty.reqF] using (lookupF_mem_vals s r u hu).2)
      · exact h2 (by simpa [Ty.optKeySet, Ty.optF] using (lookupF_mem_vals s o u hu).2)
  have hne : ∀ t ∈ t0 :: rest, ∃ d, d ∈ (G t).2.filterMap Val.asDict? := by
    intro t ht
    obtain ⟨r, o, rfl⟩ := htd t ht
    exact td_dicts_ne sub k r o (G _) (hg _ ht)
  simp only [witnessed, Bool.and_eq_true]
  refine ⟨⟨?_, ?_⟩, ?_⟩
  · obtain ⟨d, hd⟩ := hne t0 (List.mem_cons_self ..)
    have : d ∈ ((t0 :: rest).flatMap (fun t => (G t).2)).filterMap Val.asDict? :=
      (mem_all_dicts G _ d).mpr ⟨t0, List.mem_cons_self .., hd⟩
    cases h : ((t0 :: rest).flatMap (fun t => (G t).2)).filterMap Val.asDict? with
    | nil => rw [h] at this; cases this
    | cons _ _ => rfl
  · rw [witnessedReq_iff]
    intro kt hkt
    obtain ⟨s, hs, rfl⟩ := List.mem_map.mp hkt
    have hreq := (mem_reqKeys_iff s (t0 :: rest) (by simp)).mp hs
    constructor
    · rw [List.all_eq_true]
      intro d hd
      obtain ⟨t, ht, hdt⟩ := (mem_all_dicts G _ d).mp hd
      exact hreqAll t ht s (hreq t ht) d hdt
    · apply hF s
      refine ⟨t0, List.mem_cons_self .., Or.inl ?_⟩
      have := hreq t0 (List.mem_cons_self ..)
      simp only [Ty.reqKeySet] at this
      exact Option.isSome_iff_exists.mp ((lookupF_isSome_iff s t0.reqF).mpr this)
  · rw [witnessedOpt_iff]
    intro kt hkt
    obtain ⟨s, hs, rfl⟩ := List.mem_map.mp hkt
    have hopt := (mem_optKeys_iff s (t0 :: rest)).mp hs
    have lift : ∀ t ∈ t0 :: rest, ∀ d ∈ (G t).2.filterMap Val.asDict?,
        d ∈ ((t0 :: rest).flatMap (fun t => (G t).2)).filterMap Val.asDict? :=
      fun t ht d hd => (mem_all_dicts G _ d).mpr ⟨t, ht, hd⟩
    refine ⟨?_, ?_, ?_⟩
    · -- some observed dict lacks the key
      rcases hopt with ⟨_, hnall⟩ | ⟨t, ht, hto⟩
      · obtain ⟨t, hnt⟩ := Classical.not_forall.mp hnall
        obtain ⟨ht, hnr⟩ := Classical.not_imp.mp hnt
        by_cases hto : s ∈ t.optKeySet
        · obtain ⟨⟨d, hd, hk⟩, _⟩ := hoptBoth t ht s hto
          exact List.any_eq_true.mpr ⟨d, lift t ht d hd, by simp [hk]⟩
        · obtain ⟨d, hd⟩ := hne t ht
          exact List.any_eq_true.mpr ⟨d, lift t ht d hd, by simp [hnoKey t ht s hnr hto d hd]⟩
      · obtain ⟨⟨d, hd, hk⟩, _⟩ := hoptBoth t ht s hto
        exact List.any_eq_true.mpr ⟨d, lift t ht d hd, by simp [hk]⟩
    · -- some observed dict has the key
      rcases hopt with ⟨⟨t, ht, htr⟩, _⟩ | ⟨t, ht, hto⟩
      · obtain ⟨d, hd⟩ := hne t ht
        exact List.any_eq_true.mpr ⟨d, lift t ht d hd, hreqAll t ht s htr d hd⟩
      · obtain ⟨_, ⟨d, hd, hk⟩⟩ := hoptBoth t ht s hto
        exact List.any_eq_true.mpr ⟨d, lift t ht d hd, hk⟩
    · apply hF s
      rcases hopt with ⟨⟨t, ht, htr⟩, _⟩ | ⟨t, ht, hto⟩
      · refine ⟨t, ht, Or.inl ?_⟩
        simp only [Ty.reqKeySet] at htr
        exact Option.isSome_iff_exists.mp ((lookupF_isSome_iff s t.reqF).mpr htr)
      · refine ⟨t, ht, Or.inr ?_⟩
        simp only [Ty.optKeySet] at hto
        exact Option.isSome_iff_exists.mp ((lookupF_isSome_iff s t.optF).mpr hto)

/-! #### the oversize TypedDict merge (`Dict[str, merge of all value types]`) -/

/-- the (member, key) pairs under which the field type `u` occurs -/
def allPairs (ts : List Ty) (u : Ty) : List (Ty × String) :=
  ts.flatMap (fun t => ((t.reqF ++ t.optF).filter (fun kt => Ty.beq' kt.2 u)).map (fun kt => (t, kt.1)))

def valGrp (G : Ty → Bool × List Val) (ts : List Ty) (u : Ty) : Bool × List Val :=
  (false, (allPairs ts u).flatMap (fun p => column p.2 ((G p.1).2.filterMap Val.asDict?)))

theorem mem_allPairs (ts : List Ty) (u : Ty) (t : Ty) (s : String) :
    (t, s) ∈ allPairs ts u ↔ t ∈ ts ∧ ((s, u) ∈ t.reqF ∨ (s, u) ∈ t.optF) := by
  simp only [allPairs, List.mem_flatMap, List.mem_map, List.mem_filter, List.mem_append, Prod.mk.injEq]
  constructor
  · rintro ⟨t', ht', kt, ⟨hkt, hb⟩, rfl, rfl⟩
    have := Ty.beq'_eq _ _ hb
    obtain ⟨k', u'⟩ := kt
    simp only at this; subst this
    exact ⟨ht', hkt⟩
  · rintro ⟨ht, hkt⟩
    exact ⟨t, ht, (s, u), ⟨hkt, Ty.beq'_refl u⟩, rfl, rfl⟩

theorem field_lookup (r o : List (String × Ty)) (hwf : (Ty.td r o).wf = true) (s : String) (u : Ty)
    (h : (s, u) ∈ r ∨ (s, u) ∈ o) : lookupF s r = some u ∨ lookupF s o = some u := by
  obtain ⟨_, _, hnr, hno⟩ := wf_td r o hwf
  exact h.imp (lookupF_of_mem_nodup s r u hnr) (lookupF_of_mem_nodup s o u hno)

theorem valGrp_good (G : Ty → Bool × List Val) (ts : List Ty) (hall : ts.all Ty.isTD = true)
    (hg : ∀ t ∈ ts, Good sub k t (G t)) (u : Ty) (hu : u ∈ allVals ts) : Good sub k u (valGrp G ts u) := by
  have hpair : ∀ p ∈ allPairs ts u, Good sub k u (false, column p.2 ((G p.1).2.filterMap Val.asDict?)) := by
    rintro ⟨t, s⟩ hp
    obtain ⟨ht, hf⟩ := (mem_allPairs ts u t s).mp hp
    obtain ⟨r, o, rfl⟩ := (isTD_iff t).mp (List.all_eq_true.mp hall t ht)
    exact field_good sub k r o (G _) (hg _ ht) s u (field_lookup r o (hg _ ht).2.2.1 s u (by simpa [Ty.reqF, Ty.optF] using hf))
  obtain ⟨p1, hp1⟩ : ∃ p, p ∈ allPairs ts u := by
    simp only [allVals, List.mem_flatMap, List.mem_map, List.mem_append] at hu
    obtain ⟨t, ht, kt, hkt, rfl⟩ := hu
    exact ⟨(t, kt.1), (mem_allPairs ts kt.2 t kt.1).mpr ⟨ht, hkt⟩⟩
  have h1 := hpair p1 hp1
  refine ⟨?_, ?_, h1.2.2.1, h1.2.2.2.1, h1.2.2.2.2.1, h1.2.2.2.2.2.1, h1.2.2.2.2.2.2⟩
  · have := witnessed_pool_list u (fun _ : Ty × String => false) (fun p => column p.2 ((G p.1).2.filterMap Val.asDict?))
      (allPairs ts u) (List.ne_nil_of_mem hp1) (fun p hp => (hpair p hp).1)
    simpa [valGrp, any_const_false] using this
  · intro x hx
    simp only [valGrp, List.mem_flatMap] at hx
    obtain ⟨p, hp, hxp⟩ := hx
    exact (hpair p hp).2.1 x hxp

/-- all the values of all observed dicts are the pooled observations of all the field types -/
theorem values_setEq (G : Ty → Bool × List Val) (ts : List Ty) (hall : ts.all Ty.isTD = true)
    (hg : ∀ t ∈ ts, Good sub k t (G t)) :
    SetEq ((allVals ts).flatMap (fun u => (valGrp G ts u).2))
      (((ts.flatMap (fun t => (G t).2)).filterMap Val.asDict?).flatten.map Prod.snd) := by
  intro x
  simp only [List.mem_flatMap, valGrp, List.mem_map, List.mem_flatten]
  constructor
  · rintro ⟨u, _, ⟨t, s⟩, hp, hx⟩
    obtain ⟨ht, _⟩ := (mem_allPairs ts u t s).mp hp
    obtain ⟨d, hd, kv, hkv, _, hx⟩ := (mem_column s _ x).mp hx
    exact ⟨kv, ⟨d, (mem_all_dicts G ts d).mpr ⟨t, ht, hd⟩, hkv⟩, hx⟩
  · rintro ⟨kv, ⟨d, hd, hkv⟩, rfl⟩
    obtain ⟨t, ht, hdt⟩ := (mem_all_dicts G ts d).mp hd
    obtain ⟨r, o, rfl⟩ := (isTD_iff t).mp (List.all_eq_true.mp hall t ht)
    obtain ⟨s, hs, hcase⟩ := td_entry sub r o (hg _ ht).2.2.2.2.2.2 d ((hg _ ht).2.1 _ ((mem_dicts _ d).mp hdt)) kv hkv
    obtain ⟨u, hu⟩ : ∃ u, (s, u) ∈ r ∨ (s, u) ∈ o := by
      rcases hcase with ⟨u, hu, _⟩ | ⟨_, u, hu, _⟩
      · exact ⟨u, Or.inl (lookupF_mem s r u hu)⟩
      · exact ⟨u, Or.inr (lookupF_mem s o u hu)⟩
    have hua : u ∈ allVals ts := by
      simp only [allVals, List.mem_flatMap, List.mem_map, List.mem_append]
      exact ⟨_, ht, (s, u), by simpa [Ty.reqF, Ty.optF] using hu, rfl⟩
    refine ⟨u, hua, (Ty.td r o, s), (mem_allPairs ts u _ s).mpr ⟨ht, by simpa [Ty.reqF, Ty.optF] using hu⟩, ?_⟩
    exact (mem_column s _ kv.2).mpr ⟨d, hdt, kv, hkv, hs, rfl⟩

theorem td_big_witnessed (G : Ty → Bool × List Val) (t0 : Ty) (rest : List Ty) (hall : (t0 :: rest).all Ty.isTD = true)
    (hg : ∀ t ∈ t0 :: rest, Good sub k t (G t)) (T : Ty)
    (hT : witnessed false ((((t0 :: rest).flatMap (fun t => (G t).2)).filterMap Val.asDict?).flatten.map Prod.snd) T = true) :
    witnessed ((t0 :: rest).any (fun t => (G t).1)) ((t0 :: rest).flatMap (fun t => (G t).2)) (.dict (.cls strC) T) = true := by
  obtain ⟨r, o, h0⟩ := (isTD_iff t0).mp (List.all_eq_true.mp hall t0 (List.mem_cons_self ..))
  have hg0 := hg t0 (List.mem_cons_self ..)
  rw [h0] at hg0
  have lift : ∀ d ∈ (G t0).2.filterMap Val.asDict?, d ∈ ((t0 :: rest).flatMap (fun t => (G t).2)).filterMap Val.asDict? :=
    fun d hd => (mem_all_dicts G _ d).mpr ⟨t0, List.mem_cons_self .., hd⟩
  obtain ⟨d0, hd0⟩ := td_dicts_ne sub k r o (G t0) (by rw [h0]; exact hg0)
  have hw0 := hg0.1
  simp only [witnessed, Bool.and_eq_true] at hw0
  -- some observed dict has a string key
  have hsome : ∃ s, (((t0 :: rest).flatMap (fun t => (G t).2)).filterMap Val.asDict?).any (hasKey s) = true := by
    have hk0 := hg0.2.2.2.2.2.1
    simp only [Ty.tdOk, Bool.and_eq_true, decide_eq_true_eq] at hk0
    cases r with
    | cons kt r' =>
      have := ((witnessedReq_iff _ (kt :: r')).mp hw0.1.2 kt (List.mem_cons_self ..)).1
      rw [h0] at hd0
      exact ⟨kt.1, List.any_eq_true.mpr ⟨d0, lift d0 (by rw [h0]; exact hd0), List.all_eq_true.mp this d0 hd0⟩⟩
    | nil =>
      cases o with
      | nil => simp at hk0
      | cons kt o' =>
        have := ((witnessedOpt_iff _ (kt :: o')).mp hw0.2 kt (List.mem_cons_self ..)).2.1
        obtain ⟨d, hd, hk⟩ := List.any_eq_true.mp this
        exact ⟨kt.1, List.any_eq_true.mpr ⟨d, lift d (by rw [h0]; exact hd), hk⟩⟩
  obtain ⟨s, hs⟩ := hsome
  simp only [witnessed, Bool.and_eq_true]
  refine ⟨⟨?_, str_key_of_hasKey s _ hs⟩, witnessed_flag T false _ _ (fun h => by cases h) hT⟩
  have := lift d0 hd0
  cases h : ((t0 :: rest).flatMap (fun t => (G t).2)).filterMap Val.asDict? with
  | nil => rw [h] at this; cases this
  | cons _ _ => rfl

/-! #### the merge theorem -/

/-- `shrink_types` of types that each come with observations witnessing them is witnessed by all the observations together -/
theorem shrink_witnessed_groups (ts : List Ty) : ts ≠ [] → ∀ G : Ty → Bool × List Val, (∀ t ∈ ts, Good sub k t (G t)) →
    witnessed (ts.any (fun t => (G t).1)) (ts.flatMap (fun t => (G t).2)) (shrink k ts) = true := by
  fun_induction shrink k ts with
  | case1 => intro h; exact absurd rfl h
  | case2 t0 rest hall hbig ih =>
    intro _ G hg
    apply td_big_witnessed sub k G t0 rest hall hg
    have hne : allVals (t0 :: rest) ≠ [] := by
      obtain ⟨r, o, h0⟩ := (isTD_iff t0).mp (List.all_eq_true.mp hall t0 (List.mem_cons_self ..))
      have hk0 := (hg t0 (List.mem_cons_self ..)).2.2.2.2.2.1
      rw [h0] at hk0
      simp only [Ty.tdOk, Bool.and_eq_true, decide_eq_true_eq] at hk0
      intro hnil
      have : ∀ u, u ∉ allVals (t0 :: rest) := by rw [hnil]; simp
      rw [h0] at this
      cases r with
      | cons kt r' => exact this kt.2 (by simp [allVals, Ty.reqF])
      | nil =>
        cases o with
        | nil => simp at hk0
        | cons kt o' => exact this kt.2 (by simp [allVals, Ty.reqF, Ty.optF])
    have h1 := ih hne (valGrp G (t0 :: rest)) (fun u hu => valGrp_good sub k G _ hall hg u hu)
    have hflag : (allVals (t0 :: rest)).any (fun u => (valGrp G (t0 :: rest) u).1) = false := any_const_false _
    rw [hflag, witnessed_setEq _ _ _ _ (values_setEq sub k G _ hall hg)] at h1
    exact h1
  | case3 t0 rest hall hsmall ih1 =>
    intro _ G hg
    apply td_small_witnessed sub k G t0 rest hall hg
      (fun s => shrink k (reqVals s (t0 :: rest) ++ optVals s (t0 :: rest)))
    intro s hs
    have hne : reqVals s (t0 :: rest) ++ optVals s (t0 :: rest) ≠ [] := by
      obtain ⟨t, ht, hl⟩ := hs
      obtain ⟨u, hu⟩ : ∃ u, lookupF s t.reqF = some u ∨ lookupF s t.optF = some u := by
        rcases hl with ⟨u, h⟩ | ⟨u, h⟩
        · exact ⟨u, Or.inl h⟩
        · exact ⟨u, Or.inr h⟩
      exact List.ne_nil_of_mem ((mem_vals_iff s _ u).mpr ⟨t, ht, hu⟩)
    have h1 := ih1 s hne (fieldGrp G (t0 :: rest) s) (fun u hu => fieldGrp_good sub k G _ hall hg s u hu)
    have hflag : (reqVals s (t0 :: rest) ++ optVals s (t0 :: rest)).any (fun u => (fieldGrp G (t0 :: rest) s u).1) = false :=
      any_const_false _
    rw [hflag, witnessed_setEq _ _ _ _ (columns_setEq sub k G _ hall hg s)] at h1
    exact h1
  | case4 t0 rest hnall heq =>
    intro _ G hg
    exact alleq_witnessed sub k t0 rest G hg heq
  | case5 t0 rest hnall hneq hlist ih =>
    intro _ G hg
    have hl : ∀ t ∈ t0 :: rest, ∃ a, t = .list a := by
      intro t ht
      have := List.all_eq_true.mp hlist t ht
      cases t <;> simp_all [Ty.isList]
    have hgl : ∀ a ∈ (t0 :: rest).map Ty.listArg, Good sub k a (listGrp G a) := by
      intro a ha
      obtain ⟨t, ht, rfl⟩ := List.mem_map.mp ha
      obtain ⟨a', rfl⟩ := hl t ht
      exact listGrp_good sub k G a' (hg _ ht)
    have h1 := ih (by simp) (listGrp G) hgl
    obtain ⟨a0, ha0⟩ := hl t0 (List.mem_cons_self ..)
    exact lists_witnessed (t0 :: rest) G _ hl t0 (List.mem_cons_self ..)
      ⟨a0, ha0, by have := (hg t0 (List.mem_cons_self ..)).1; rw [ha0] at this ⊢; exact this⟩ h1
  | case6 t0 rest hnall hneq hnlist =>
    intro hne G hg
    exact union_witnessed sub k (t0 :: rest) hne G hg

end
end MT
