/-
  Lemmas/WitnessMerge.lean — towards C05's witness statement for k > 0: the TypedDict → Dict rewrite that precedes every
  union keeps a type witnessed.
-/
import MTVerif.Lemmas.WitnessTD
import MTVerif.Lemmas.PlainUnions
import MTVerif.Lemmas.DisjointKeys
namespace MT

theorem tdToDictL_length (ts : List Ty) : (tdToDictL ts).length = ts.length := by
  rw [tdToDictL_eq_map]; simp

theorem tdToDictF_mem : ∀ (fs : List (String × Ty)) (m : Ty), m ∈ tdToDictF fs → ∃ kt ∈ fs, m = tdToDict kt.2
  | [], _, h => by simp [tdToDictF] at h
  | (k, t) :: fs, m, h => by
      simp only [tdToDictF, List.mem_cons] at h
      rcases h with rfl | h
      · exact ⟨(k, t), List.mem_cons_self .., rfl⟩
      · obtain ⟨kt, hkt, e⟩ := tdToDictF_mem fs m h
        exact ⟨kt, List.mem_cons_of_mem _ hkt, e⟩

/-- the values stored under key `s` are among all the values -/
theorem column_sub_values (s : String) (ds : List (List (Val × Val))) : ∀ v ∈ column s ds, v ∈ ds.flatten.map Prod.snd := by
  intro v hv
  simp only [column, List.mem_flatMap, List.mem_map, List.mem_filter] at hv
  obtain ⟨d, hd, kv, ⟨hkv, _⟩, rfl⟩ := hv
  exact List.mem_map.mpr ⟨kv, List.mem_flatten.mpr ⟨d, hd, hkv⟩, rfl⟩

/-- a dict that has the string key `s` contributes a `str` to the keys -/
theorem str_key_of_hasKey (s : String) (ds : List (List (Val × Val))) (h : ds.any (hasKey s) = true) :
    (ds.flatten.map Prod.fst).any (fun v => match v with | .inst c' => c' == strC | .str _ => strC == strC | _ => false) = true := by
  obtain ⟨d, hd, hk⟩ := List.any_eq_true.mp h
  obtain ⟨kv, hkv, hs⟩ := List.any_eq_true.mp hk
  refine List.any_eq_true.mpr ⟨kv.1, List.mem_map.mpr ⟨kv, List.mem_flatten.mpr ⟨d, hd, hkv⟩, rfl⟩, ?_⟩
  cases hk1 : kv.1 <;> simp_all [Val.isStr]

mutual
/-- turning the anonymous TypedDicts of a type into `Dict[str, …]` keeps it witnessed by the same observations -/
theorem tdToDict_witnessed (k : Nat) : ∀ (t : Ty), t.normal = true → t.plainUnions = true → t.tdOk k = true →
    ∀ (e : Bool) (g : List Val), witnessed e g t = true → witnessed e g (tdToDict t) = true
  | .any, _, _, _, _, _, h => by simpa [tdToDict] using h
  | .cls _, _, _, _, _, _, h => by simpa [tdToDict] using h
  | .typeOf _, _, _, _, _, _, h => by simpa [tdToDict] using h
  | .callable, _, _, _, _, _, h => by simpa [tdToDict] using h
  | .generator _ _ _, _, _, _, _, _, h => by simp [witnessed] at h
  | .tupleOf _, _, _, _, _, _, h => by simp [witnessed] at h
  | .iterator a, _, _, _, _, _, h => by
      simp only [witnessed, Bool.and_eq_true] at h
      have ha : a = .any := by
        have := h.1
        cases a <;> simp_all
      subst ha
      simpa [tdToDict, witnessed] using h.2
  | .list a, hn, hp, hk, _, _, h => by
      simp only [Ty.normal] at hn; simp only [Ty.plainUnions] at hp; simp only [Ty.tdOk] at hk
      simp only [witnessed, Bool.and_eq_true] at h
      simp only [tdToDict, witnessed, Bool.and_eq_true]
      exact ⟨h.1, tdToDict_witnessed k a hn hp hk _ _ h.2⟩
  | .set a, hn, hp, hk, _, _, h => by
      simp only [Ty.normal] at hn; simp only [Ty.plainUnions] at hp; simp only [Ty.tdOk] at hk
      simp only [witnessed, Bool.and_eq_true] at h
      simp only [tdToDict, witnessed, Bool.and_eq_true]
      exact ⟨h.1, tdToDict_witnessed k a hn hp hk _ _ h.2⟩
  | .dict a b, hn, hp, hk, _, _, h => by
      simp only [Ty.normal, Bool.and_eq_true] at hn; simp only [Ty.plainUnions, Bool.and_eq_true] at hp
      simp only [Ty.tdOk, Bool.and_eq_true] at hk
      simp only [witnessed, Bool.and_eq_true] at h
      simp only [tdToDict, witnessed, Bool.and_eq_true]
      exact ⟨⟨h.1.1, tdToDict_witnessed k a hn.1 hp.1 hk.1 _ _ h.1.2⟩, tdToDict_witnessed k b hn.2 hp.2 hk.2 _ _ h.2⟩
  | .ddict a b, hn, hp, hk, _, _, h => by
      simp only [Ty.normal, Bool.and_eq_true] at hn; simp only [Ty.plainUnions, Bool.and_eq_true] at hp
      simp only [Ty.tdOk, Bool.and_eq_true] at hk
      simp only [witnessed, Bool.and_eq_true] at h
      simp only [tdToDict, witnessed, Bool.and_eq_true]
      exact ⟨⟨h.1.1, tdToDict_witnessed k a hn.1 hp.1 hk.1 _ _ h.1.2⟩, tdToDict_witnessed k b hn.2 hp.2 hk.2 _ _ h.2⟩
  | .tuple ts, hn, hp, hk, _, _, h => by
      simp only [Ty.normal] at hn; simp only [Ty.plainUnions] at hp; simp only [Ty.tdOk] at hk
      simp only [witnessed, Bool.and_eq_true] at h
      simp only [tdToDict, witnessed, Bool.and_eq_true, tdToDictL_length]
      exact ⟨h.1, tdToDictL_witnessedCols k ts hn hp hk _ 0 h.2⟩
  | .union ts, hn, hp, _, _, _, h => by
      simp only [Ty.normal, Bool.and_eq_true] at hn
      simp only [Ty.plainUnions, Bool.not_eq_true'] at hp
      simp only [tdToDict, tdToDictL_id ts hp hn.1]
      rw [Ty.beq'_eq _ _ hn.2]
      exact h
  | .td r o, hn, hp, hk, _, g, h => by
      simp only [Ty.normal, Bool.and_eq_true] at hn; simp only [Ty.plainUnions, Bool.and_eq_true] at hp
      simp only [Ty.tdOk, Bool.and_eq_true, decide_eq_true_eq] at hk
      obtain ⟨⟨⟨hpos, _⟩, hkr⟩, hko⟩ := hk
      simp only [witnessed, Bool.and_eq_true] at h
      obtain ⟨⟨hne, hreq⟩, hopt⟩ := h
      have hreq' := (witnessedReq_iff _ r).mp hreq
      have hopt' := (witnessedOpt_iff _ o).mp hopt
      -- some observed dict has a string key
      have hkey : ((g.filterMap Val.asDict?).flatten.map Prod.fst).any
          (fun v => match v with | .inst c' => c' == strC | .str _ => strC == strC | _ => false) = true := by
        cases r with
        | cons kt r' =>
          have := (hreq' kt (List.mem_cons_self ..)).1
          apply str_key_of_hasKey kt.1
          cases hds : g.filterMap Val.asDict? with
          | nil => simp [hds] at hne
          | cons d ds => rw [hds] at this; simp only [List.all_cons, Bool.and_eq_true] at this; simp [this.1]
        | nil =>
          cases o with
          | nil => simp at hpos
          | cons kt o' => exact str_key_of_hasKey kt.1 _ (hopt' kt (List.mem_cons_self ..)).2.1
      have hvals : ∀ m ∈ tdToDictF r ++ tdToDictF o,
          witnessed ((g.filterMap Val.asDict?).any List.isEmpty) ((g.filterMap Val.asDict?).flatten.map Prod.snd) m = true := by
        intro m hm
        rcases List.mem_append.mp hm with hm | hm
        · obtain ⟨kt, hkt, rfl⟩ := tdToDictF_mem r m hm
          have hw := tdToDict_witnessed_memF k r kt hkt ((normalF_iff r).mp hn.1 kt hkt) ((plainUnionsF_iff r).mp hp.1 kt hkt)
            ((tdOkF_iff k r).mp hkr kt hkt) false _ (hreq' kt hkt).2
          exact witnessed_mono _ (tdToDict_noTD kt.2) false _ _ _ (fun x => by cases x) (column_sub_values kt.1 _) hw
        · obtain ⟨kt, hkt, rfl⟩ := tdToDictF_mem o m hm
          have hw := tdToDict_witnessed_memF k o kt hkt ((normalF_iff o).mp hn.2 kt hkt) ((plainUnionsF_iff o).mp hp.2 kt hkt)
            ((tdOkF_iff k o).mp hko kt hkt) false _ (hopt' kt hkt).2.2
          exact witnessed_mono _ (tdToDict_noTD kt.2) false _ _ _ (fun x => by cases x) (column_sub_values kt.1 _) hw
      have hLne : tdToDictF r ++ tdToDictF o ≠ [] := by
        cases r with
        | cons kt r' => obtain ⟨k', t'⟩ := kt; simp [tdToDictF]
        | nil =>
          cases o with
          | nil => simp at hpos
          | cons kt o' => obtain ⟨k', t'⟩ := kt; simp [tdToDictF]
      simp only [tdToDict]
      split
      · next hr ho => simp at hpos
      · simp only [witnessed, Bool.and_eq_true]
        exact ⟨⟨hne, hkey⟩, witnessed_mkUnion _ _ _ hLne hvals⟩
theorem tdToDictL_witnessedCols (k : Nat) : ∀ (ts : List Ty), normalL ts = true → plainUnionsL ts = true → tdOkL k ts = true →
    ∀ (tups : List (List Val)) (i : Nat), witnessedCols tups i ts = true → witnessedCols tups i (tdToDictL ts) = true
  | [], _, _, _, _, _, _ => by simp [tdToDictL, witnessedCols]
  | t :: ts, hn, hp, hk, tups, i, h => by
      simp only [normalL, Bool.and_eq_true] at hn; simp only [plainUnionsL, Bool.and_eq_true] at hp
      simp only [tdOkL, Bool.and_eq_true] at hk
      simp only [witnessedCols, Bool.and_eq_true] at h
      simp only [tdToDictL, witnessedCols, Bool.and_eq_true]
      exact ⟨tdToDict_witnessed k t hn.1 hp.1 hk.1 _ _ h.1, tdToDictL_witnessedCols k ts hn.2 hp.2 hk.2 tups (i + 1) h.2⟩
theorem tdToDict_witnessed_memF (k : Nat) : ∀ (fs : List (String × Ty)), ∀ kt ∈ fs, kt.2.normal = true → kt.2.plainUnions = true →
    kt.2.tdOk k = true → ∀ (e : Bool) (g : List Val), witnessed e g kt.2 = true → witnessed e g (tdToDict kt.2) = true
  | [], _, hk, _, _, _, _, _, _ => by cases hk
  | (_, t) :: fs, kt, hkt, hn, hp, hk, e, g, h => by
      rcases List.mem_cons.mp hkt with heq | hkt
      · rw [heq] at hn hp hk h ⊢; exact tdToDict_witnessed k t hn hp hk e g h
      · exact tdToDict_witnessed_memF k fs kt hkt hn hp hk e g h
end

end MT

namespace MT

/-! ### merging types that come with their own observations -/

section
variable (sub : ClassId → ClassId → Bool) (k : Nat)

/-- a type together with the observations recorded for it (an empty-container flag and the values): the values witness the
    type, are tight members of it, and the type has the invariants of inferred types -/
def Good (t : Ty) (p : Bool × List Val) : Prop :=
  witnessed p.1 p.2 t = true ∧ (∀ x ∈ p.2, conforms sub false t x = true) ∧ t.wf = true ∧ t.normal = true ∧
    t.plainUnions = true ∧ t.tdOk k = true ∧ t.djk = true

theorem mem_flatMap_grp (ts : List Ty) (G : Ty → Bool × List Val) (t : Ty) (ht : t ∈ ts) :
    ∀ v ∈ (G t).2, v ∈ ts.flatMap (fun t => (G t).2) :=
  fun v hv => List.mem_flatMap.mpr ⟨t, ht, hv⟩

theorem any_flag_of_mem (ts : List Ty) (G : Ty → Bool × List Val) (t : Ty) (ht : t ∈ ts) :
    (G t).1 = true → ts.any (fun t => (G t).1) = true :=
  fun h => List.any_eq_true.mpr ⟨t, ht, h⟩

/-- all members `==` the first: the first is witnessed by everybody's observations together -/
theorem alleq_witnessed (t0 : Ty) (rest : List Ty) (G : Ty → Bool × List Val)
    (hg : ∀ t ∈ t0 :: rest, Good sub k t (G t)) (heq : rest.all (fun t => Ty.eqv t t0) = true) :
    witnessed ((t0 :: rest).any (fun t => (G t).1)) ((t0 :: rest).flatMap (fun t => (G t).2)) t0 = true := by
  apply witnessed_pool_list t0 (fun t => (G t).1) (fun t => (G t).2) (t0 :: rest) (by simp)
  intro t ht
  have hw0 := (hg t0 (List.mem_cons_self ..)).2.2.1
  rcases List.mem_cons.mp ht with rfl | ht'
  · exact (hg _ ht).1
  · exact witnessed_eqv t t0 (List.all_eq_true.mp heq t ht') hw0 _ _ (hg t ht).1

/-- the union branch -/
theorem union_witnessed (ts : List Ty) (hne : ts ≠ []) (G : Ty → Bool × List Val) (hg : ∀ t ∈ ts, Good sub k t (G t)) :
    witnessed (ts.any (fun t => (G t).1)) (ts.flatMap (fun t => (G t).2)) (mkUnion (ts.map tdToDict)) = true := by
  apply witnessed_mkUnion _ _ _ (by simpa using hne)
  intro m hm
  obtain ⟨t, ht, rfl⟩ := List.mem_map.mp hm
  obtain ⟨hw, _, _, hn, hp, hk, _⟩ := hg t ht
  exact witnessed_mono _ (tdToDict_noTD t) _ _ _ _ (any_flag_of_mem ts G t ht) (mem_flatMap_grp ts G t ht)
    (tdToDict_witnessed k t hn hp hk _ _ hw)

/-! #### the all-lists branch -/

/-- the observations recorded for the element type of `List[a]`: the elements of the observed lists -/
def listGrp (G : Ty → Bool × List Val) (a : Ty) : Bool × List Val :=
  (((G (.list a)).2.filterMap Val.asList?).any List.isEmpty, ((G (.list a)).2.filterMap Val.asList?).flatten)

theorem listGrp_good (G : Ty → Bool × List Val) (a : Ty) (h : Good sub k (.list a) (G (.list a))) : Good sub k a (listGrp G a) := by
  obtain ⟨hw, hc, hwf, hn, hp, hk, hd⟩ := h
  simp only [witnessed, Bool.and_eq_true] at hw
  refine ⟨hw.2, ?_, by simpa [Ty.wf] using hwf, by simpa [Ty.normal] using hn, by simpa [Ty.plainUnions] using hp,
    by simpa [Ty.tdOk] using hk, by simpa [Ty.djk] using hd⟩
  intro x hx
  simp only [listGrp, List.mem_flatten, List.mem_filterMap] at hx
  obtain ⟨l, ⟨v, hv, hvl⟩, hxl⟩ := hx
  have hcv := hc v hv
  cases v <;> simp [Val.asList?] at hvl
  subst hvl
  simp only [conforms, List.all_eq_true] at hcv
  exact hcv x hxl

theorem lists_witnessed (ts : List Ty) (G : Ty → Bool × List Val) (T : Ty)
    (hlist : ∀ t ∈ ts, ∃ a, t = .list a) (t0 : Ty) (ht0 : t0 ∈ ts) (hw0 : ∃ a, t0 = .list a ∧ witnessed (G t0).1 (G t0).2 (.list a) = true)
    (ih : witnessed ((ts.map Ty.listArg).any (fun a => (listGrp G a).1)) ((ts.map Ty.listArg).flatMap (fun a => (listGrp G a).2)) T = true) :
    witnessed (ts.any (fun t => (G t).1)) (ts.flatMap (fun t => (G t).2)) (.list T) = true := by
  simp only [witnessed, Bool.and_eq_true]
  constructor
  · obtain ⟨a0, rfl, hw⟩ := hw0
    simp only [witnessed, Bool.and_eq_true] at hw
    exact nonempty_sub _ _ (filterMap_sub _ _ _ (mem_flatMap_grp ts G _ ht0)) hw.1
  · have hset : SetEq ((ts.map Ty.listArg).flatMap (fun a => (listGrp G a).2))
        ((ts.flatMap (fun t => (G t).2)).filterMap Val.asList?).flatten := by
      intro x
      simp only [List.flatMap_map, List.mem_flatMap, List.mem_flatten, List.mem_filterMap]
      constructor
      · rintro ⟨t, ht, hx⟩
        obtain ⟨a, rfl⟩ := hlist t ht
        simp only [Ty.listArg, listGrp, List.mem_flatten, List.mem_filterMap] at hx
        obtain ⟨l, ⟨v, hv, hvl⟩, hxl⟩ := hx
        exact ⟨l, ⟨v, ⟨_, ht, hv⟩, hvl⟩, hxl⟩
      · rintro ⟨l, ⟨v, ⟨t, ht, hv⟩, hvl⟩, hxl⟩
        refine ⟨t, ht, ?_⟩
        obtain ⟨a, rfl⟩ := hlist t ht
        simp only [Ty.listArg, listGrp, List.mem_flatten, List.mem_filterMap]
        exact ⟨l, ⟨v, hv, hvl⟩, hxl⟩
    have h1 : witnessed ((ts.map Ty.listArg).any (fun a => (listGrp G a).1))
        ((ts.flatMap (fun t => (G t).2)).filterMap Val.asList?).flatten T = true := by
      rw [← witnessed_setEq T _ _ _ hset]; exact ih
    apply witnessed_flag T _ _ _ ?_ h1
    intro hf
    simp only [List.any_map, List.any_eq_true, Function.comp] at hf
    obtain ⟨t, ht, hl⟩ := hf
    obtain ⟨a, rfl⟩ := hlist t ht
    simp only [Ty.listArg, listGrp, List.any_eq_true] at hl
    obtain ⟨l, hl, he⟩ := hl
    exact List.any_eq_true.mpr ⟨l, filterMap_sub _ _ _ (mem_flatMap_grp ts G _ ht) l hl, he⟩

end
end MT
