/-
  Lemmas/WitnessTD.lean — towards C05's witness statement for k > 0 (types with TypedDicts): `witnessed` depends on the
  observations only as a set, is closed under merging observations of one type, and respects Python `==`.
-/
import MTVerif.Lemmas.Witness
import MTVerif.Lemmas.ShrinkPerm
namespace MT

theorem SetEq.any {α} (p : α → Bool) {as bs : List α} (h : SetEq as bs) : as.any p = bs.any p := by
  rw [Bool.eq_iff_iff]
  simp only [List.any_eq_true]
  exact ⟨fun ⟨a, ha, hp⟩ => ⟨a, (h a).mp ha, hp⟩, fun ⟨a, ha, hp⟩ => ⟨a, (h a).mpr ha, hp⟩⟩

theorem SetEq.isEmpty {α} {as bs : List α} (h : SetEq as bs) : as.isEmpty = bs.isEmpty := by
  cases as with
  | nil => rw [SetEq.nil_iff h]
  | cons a as =>
    cases bs with
    | nil => exact absurd ((h a).mp (List.mem_cons_self ..)) (by simp)
    | cons _ _ => rfl

theorem SetEq.flatten {α} {as bs : List (List α)} (h : SetEq as bs) : SetEq as.flatten bs.flatten := by
  intro x
  simp only [List.mem_flatten]
  exact ⟨fun ⟨l, hl, hx⟩ => ⟨l, (h l).mp hl, hx⟩, fun ⟨l, hl, hx⟩ => ⟨l, (h l).mpr hl, hx⟩⟩

theorem SetEq.filter {α} (p : α → Bool) {as bs : List α} (h : SetEq as bs) : SetEq (as.filter p) (bs.filter p) := by
  intro x
  simp only [List.mem_filter, h x]

theorem column_setEq (s : String) {ds ds' : List (List (Val × Val))} (h : SetEq ds ds') : SetEq (column s ds) (column s ds') :=
  SetEq.flatMap _ h

theorem witnessedReq_iff (ds : List (List (Val × Val))) (r : List (String × Ty)) :
    witnessedReq ds r = true ↔ ∀ kt ∈ r, ds.all (hasKey kt.1) = true ∧ witnessed false (column kt.1 ds) kt.2 = true := by
  induction r with
  | nil => simp [witnessedReq]
  | cons kt r ih => obtain ⟨k, t⟩ := kt; simp [witnessedReq, ih, and_assoc]

theorem witnessedOpt_iff (ds : List (List (Val × Val))) (o : List (String × Ty)) :
    witnessedOpt ds o = true ↔ ∀ kt ∈ o, ds.any (fun d => !hasKey kt.1 d) = true ∧ ds.any (hasKey kt.1) = true ∧
      witnessed false (column kt.1 ds) kt.2 = true := by
  induction o with
  | nil => simp [witnessedOpt]
  | cons kt o ih => obtain ⟨k, t⟩ := kt; simp [witnessedOpt, ih, and_assoc]

theorem witnessedCols_iff (tups : List (List Val)) : ∀ (ts : List Ty) (i : Nat),
    witnessedCols tups i ts = true ↔ ∀ j (hj : j < ts.length), witnessed false (tups.filterMap (fun tup => tup[i + j]?)) ts[j] = true
  | [], i => by simp [witnessedCols]
  | t :: ts, i => by
      simp only [witnessedCols, Bool.and_eq_true, witnessedCols_iff tups ts (i + 1), List.length_cons]
      constructor
      · rintro ⟨h0, hr⟩ j hj
        cases j with
        | zero => simpa using h0
        | succ j =>
          have := hr j (by omega)
          simpa [Nat.add_assoc, Nat.add_comm 1 j] using this
      · intro h
        refine ⟨by simpa using h 0 (by omega), fun j hj => ?_⟩
        have := h (j + 1) (by omega)
        simpa [Nat.add_assoc, Nat.add_comm 1 j] using this

/-! ### `witnessed` sees the observations only as a set -/

mutual
theorem witnessed_setEq : ∀ (t : Ty) (e : Bool) (vs vs' : List Val), SetEq vs vs' → witnessed e vs t = witnessed e vs' t
  | .any, _, _, _, _ => by simp [witnessed]
  | .cls c, _, vs, vs', h => by simp only [witnessed]; exact SetEq.any _ h
  | .typeOf c, _, vs, vs', h => by simp only [witnessed]; exact SetEq.any _ h
  | .callable, _, vs, vs', h => by simp only [witnessed]; exact SetEq.any _ h
  | .iterator t, _, vs, vs', h => by simp only [witnessed, SetEq.any _ h]
  | .generator _ _ _, _, _, _, _ => by simp [witnessed]
  | .tupleOf _, _, _, _, _ => by simp [witnessed]
  | .list t, _, vs, vs', h => by
      have hl := SetEq.filterMap Val.asList? h
      simp only [witnessed, SetEq.isEmpty hl, SetEq.any List.isEmpty hl, witnessed_setEq t _ _ _ (SetEq.flatten hl)]
  | .set t, _, vs, vs', h => by
      have hl := SetEq.filterMap Val.asSet? h
      simp only [witnessed, SetEq.isEmpty hl, SetEq.any List.isEmpty hl, witnessed_setEq t _ _ _ (SetEq.flatten hl)]
  | .dict a b, _, vs, vs', h => by
      have hl := SetEq.filterMap Val.asDict? h
      simp only [witnessed, SetEq.isEmpty hl, SetEq.any List.isEmpty hl,
        witnessed_setEq a _ _ _ (SetEq.map Prod.fst (SetEq.flatten hl)), witnessed_setEq b _ _ _ (SetEq.map Prod.snd (SetEq.flatten hl))]
  | .ddict a b, _, vs, vs', h => by
      have hl := SetEq.filterMap Val.asDDict? h
      simp only [witnessed, SetEq.isEmpty hl, SetEq.any List.isEmpty hl,
        witnessed_setEq a _ _ _ (SetEq.map Prod.fst (SetEq.flatten hl)), witnessed_setEq b _ _ _ (SetEq.map Prod.snd (SetEq.flatten hl))]
  | .tuple ts, _, vs, vs', h => by
      have hl := SetEq.filter (fun tup : List Val => tup.length == ts.length) (SetEq.filterMap Val.asTuple? h)
      simp only [witnessed, SetEq.isEmpty hl, witnessedCols_setEq ts _ _ hl 0]
  | .union ts, e, vs, vs', h => by simp only [witnessed, witnessedAll_setEq ts e vs vs' h]
  | .td r o, _, vs, vs', h => by
      have hl := SetEq.filterMap Val.asDict? h
      simp only [witnessed, SetEq.isEmpty hl, witnessedReq_setEq r _ _ hl, witnessedOpt_setEq o _ _ hl]
theorem witnessedAll_setEq : ∀ (ts : List Ty) (e : Bool) (vs vs' : List Val), SetEq vs vs' → witnessedAll e vs ts = witnessedAll e vs' ts
  | [], _, _, _, _ => by simp [witnessedAll]
  | t :: ts, e, vs, vs', h => by simp only [witnessedAll, witnessed_setEq t e vs vs' h, witnessedAll_setEq ts e vs vs' h]
theorem witnessedCols_setEq : ∀ (ts : List Ty) (tups tups' : List (List Val)), SetEq tups tups' → ∀ i,
    witnessedCols tups i ts = witnessedCols tups' i ts
  | [], _, _, _, _ => by simp [witnessedCols]
  | t :: ts, tups, tups', h, i => by
      simp only [witnessedCols, witnessed_setEq t false _ _ (SetEq.filterMap (fun tup : List Val => tup[i]?) h),
        witnessedCols_setEq ts tups tups' h (i + 1)]
theorem witnessedReq_setEq : ∀ (r : List (String × Ty)) (ds ds' : List (List (Val × Val))), SetEq ds ds' →
    witnessedReq ds r = witnessedReq ds' r
  | [], _, _, _ => by simp [witnessedReq]
  | (s, t) :: r, ds, ds', h => by
      simp only [witnessedReq, SetEq.all (hasKey s) h, witnessed_setEq t false _ _ (column_setEq s h), witnessedReq_setEq r ds ds' h]
theorem witnessedOpt_setEq : ∀ (o : List (String × Ty)) (ds ds' : List (List (Val × Val))), SetEq ds ds' →
    witnessedOpt ds o = witnessedOpt ds' o
  | [], _, _, _ => by simp [witnessedOpt]
  | (s, t) :: o, ds, ds', h => by
      simp only [witnessedOpt, SetEq.any (fun d => !hasKey s d) h, SetEq.any (hasKey s) h,
        witnessed_setEq t false _ _ (column_setEq s h), witnessedOpt_setEq o ds ds' h]
end

/-! ### observations of one type can be pooled -/

theorem column_append (s : String) (ds1 ds2 : List (List (Val × Val))) : column s (ds1 ++ ds2) = column s ds1 ++ column s ds2 := by
  simp [column]

theorem nonempty_append_left {α} (l1 l2 : List α) (h : (!l1.isEmpty) = true) : (!(l1 ++ l2).isEmpty) = true := by
  cases l1 <;> simp_all

mutual
theorem witnessed_pool : ∀ (t : Ty) (e1 e2 : Bool) (g1 g2 : List Val),
    witnessed e1 g1 t = true → witnessed e2 g2 t = true → witnessed (e1 || e2) (g1 ++ g2) t = true
  | .any, e1, e2, _, _, h1, _ => by simp only [witnessed] at h1 ⊢; simp [h1]
  | .cls c, _, _, g1, g2, h1, _ => by simp only [witnessed, List.any_append, Bool.or_eq_true] at h1 ⊢; exact Or.inl h1
  | .typeOf c, _, _, g1, g2, h1, _ => by simp only [witnessed, List.any_append, Bool.or_eq_true] at h1 ⊢; exact Or.inl h1
  | .callable, _, _, g1, g2, h1, _ => by simp only [witnessed, List.any_append, Bool.or_eq_true] at h1 ⊢; exact Or.inl h1
  | .iterator t, _, _, g1, g2, h1, _ => by
      simp only [witnessed, List.any_append, Bool.and_eq_true, Bool.or_eq_true] at h1 ⊢
      exact ⟨h1.1, Or.inl h1.2⟩
  | .generator _ _ _, _, _, _, _, h1, _ => by simp [witnessed] at h1
  | .tupleOf _, _, _, _, _, h1, _ => by simp [witnessed] at h1
  | .list t, _, _, g1, g2, h1, h2 => by
      simp only [witnessed, Bool.and_eq_true] at h1 h2 ⊢
      simp only [List.filterMap_append, List.flatten_append, List.any_append]
      exact ⟨nonempty_append_left _ _ h1.1, witnessed_pool t _ _ _ _ h1.2 h2.2⟩
  | .set t, _, _, g1, g2, h1, h2 => by
      simp only [witnessed, Bool.and_eq_true] at h1 h2 ⊢
      simp only [List.filterMap_append, List.flatten_append, List.any_append]
      exact ⟨nonempty_append_left _ _ h1.1, witnessed_pool t _ _ _ _ h1.2 h2.2⟩
  | .dict a b, _, _, g1, g2, h1, h2 => by
      simp only [witnessed, Bool.and_eq_true] at h1 h2 ⊢
      simp only [List.filterMap_append, List.flatten_append, List.any_append, List.map_append]
      exact ⟨⟨nonempty_append_left _ _ h1.1.1, witnessed_pool a _ _ _ _ h1.1.2 h2.1.2⟩, witnessed_pool b _ _ _ _ h1.2 h2.2⟩
  | .ddict a b, _, _, g1, g2, h1, h2 => by
      simp only [witnessed, Bool.and_eq_true] at h1 h2 ⊢
      simp only [List.filterMap_append, List.flatten_append, List.any_append, List.map_append]
      exact ⟨⟨nonempty_append_left _ _ h1.1.1, witnessed_pool a _ _ _ _ h1.1.2 h2.1.2⟩, witnessed_pool b _ _ _ _ h1.2 h2.2⟩
  | .tuple ts, _, _, g1, g2, h1, h2 => by
      simp only [witnessed, Bool.and_eq_true] at h1 h2 ⊢
      simp only [List.filterMap_append, List.filter_append]
      exact ⟨nonempty_append_left _ _ h1.1, witnessedCols_pool ts _ _ 0 h1.2 h2.2⟩
  | .union ts, e1, e2, g1, g2, h1, h2 => by
      simp only [witnessed, Bool.and_eq_true] at h1 h2 ⊢
      exact ⟨h1.1, witnessedAll_pool ts e1 e2 g1 g2 h1.2 h2.2⟩
  | .td r o, _, _, g1, g2, h1, h2 => by
      simp only [witnessed, Bool.and_eq_true] at h1 h2 ⊢
      simp only [List.filterMap_append]
      exact ⟨⟨nonempty_append_left _ _ h1.1.1, witnessedReq_pool r _ _ h1.1.2 h2.1.2⟩, witnessedOpt_pool o _ _ h1.2 h2.2⟩
theorem witnessedAll_pool : ∀ (ts : List Ty) (e1 e2 : Bool) (g1 g2 : List Val),
    witnessedAll e1 g1 ts = true → witnessedAll e2 g2 ts = true → witnessedAll (e1 || e2) (g1 ++ g2) ts = true
  | [], _, _, _, _, _, _ => by simp [witnessedAll]
  | t :: ts, e1, e2, g1, g2, h1, h2 => by
      simp only [witnessedAll, Bool.and_eq_true] at h1 h2 ⊢
      exact ⟨witnessed_pool t e1 e2 g1 g2 h1.1 h2.1, witnessedAll_pool ts e1 e2 g1 g2 h1.2 h2.2⟩
theorem witnessedCols_pool : ∀ (ts : List Ty) (t1 t2 : List (List Val)) (i : Nat),
    witnessedCols t1 i ts = true → witnessedCols t2 i ts = true → witnessedCols (t1 ++ t2) i ts = true
  | [], _, _, _, _, _ => by simp [witnessedCols]
  | t :: ts, t1, t2, i, h1, h2 => by
      simp only [witnessedCols, Bool.and_eq_true] at h1 h2 ⊢
      simp only [List.filterMap_append]
      exact ⟨by simpa using witnessed_pool t false false _ _ h1.1 h2.1, witnessedCols_pool ts t1 t2 (i + 1) h1.2 h2.2⟩
theorem witnessedReq_pool : ∀ (r : List (String × Ty)) (d1 d2 : List (List (Val × Val))),
    witnessedReq d1 r = true → witnessedReq d2 r = true → witnessedReq (d1 ++ d2) r = true
  | [], _, _, _, _ => by simp [witnessedReq]
  | (s, t) :: r, d1, d2, h1, h2 => by
      simp only [witnessedReq, Bool.and_eq_true] at h1 h2 ⊢
      simp only [List.all_append, Bool.and_eq_true, column_append]
      exact ⟨⟨⟨h1.1.1, h2.1.1⟩, by simpa using witnessed_pool t false false _ _ h1.1.2 h2.1.2⟩, witnessedReq_pool r d1 d2 h1.2 h2.2⟩
theorem witnessedOpt_pool : ∀ (o : List (String × Ty)) (d1 d2 : List (List (Val × Val))),
    witnessedOpt d1 o = true → witnessedOpt d2 o = true → witnessedOpt (d1 ++ d2) o = true
  | [], _, _, _, _ => by simp [witnessedOpt]
  | (s, t) :: o, d1, d2, h1, h2 => by
      simp only [witnessedOpt, Bool.and_eq_true] at h1 h2 ⊢
      simp only [List.any_append, Bool.or_eq_true, column_append]
      exact ⟨⟨⟨Or.inl h1.1.1.1, Or.inl h1.1.1.2⟩, by simpa using witnessed_pool t false false _ _ h1.1.2 h2.1.2⟩,
             witnessedOpt_pool o d1 d2 h1.2 h2.2⟩
end

/-! ### `witnessed` respects Python `==` on types -/

theorem eqvL_length : ∀ (as bs : List Ty), eqvL as bs = true → as.length = bs.length
  | [], [], _ => rfl
  | _ :: as, _ :: bs, h => by
      simp only [eqvL, Bool.and_eq_true] at h
      simp [eqvL_length as bs h.2]
  | [], _ :: _, h => by simp [eqvL] at h
  | _ :: _, [], h => by simp [eqvL] at h

/-- transfer of a witnessed field list along `==` of the field lists (dict comparison), given the transfer for the field
    types of the first list -/
theorem fields_transfer (r r' : List (String × Ty)) (hnd' : (r'.map Prod.fst).Nodup) (hwf' : wfTF r' = true)
    (h1 : eqvF r r' = true) (h2 : keysIn r' r = true) (P : String → Ty → Prop)
    (ih : ∀ kt ∈ r, ∀ b, Ty.eqv kt.2 b = true → b.wf = true → P kt.1 kt.2 → P kt.1 b)
    (hP : ∀ kt ∈ r, P kt.1 kt.2) : ∀ kt ∈ r', P kt.1 kt.2 := by
  intro kt' hkt'
  obtain ⟨s, u'⟩ := kt'
  have hs := (keysIn_iff r' r).mp h2 (s, u') hkt'
  cases hl : lookupF s r with
  | none => simp [hl] at hs
  | some u =>
    have hmem := lookupF_mem s r u hl
    obtain ⟨b, hlb, he⟩ := (eqvF_iff r r').mp h1 (s, u) hmem
    have : lookupF s r' = some u' := lookupF_of_mem_nodup s r' u' hnd' hkt'
    rw [this] at hlb
    cases hlb
    exact ih (s, u) hmem u' he ((wfTF_iff r').mp hwf' (s, u') hkt') (hP (s, u) hmem)

mutual
theorem witnessed_eqv : ∀ (t t' : Ty), Ty.eqv t t' = true → t'.wf = true → ∀ (e : Bool) (g : List Val),
    witnessed e g t = true → witnessed e g t' = true
  | .any, t', h, _, _, _, hw => by cases t' <;> simp_all [Ty.eqv]
  | .cls _, t', h, _, _, _, hw => by cases t' <;> simp_all [Ty.eqv]
  | .typeOf _, t', h, _, _, _, hw => by cases t' <;> simp_all [Ty.eqv]
  | .callable, t', h, _, _, _, hw => by cases t' <;> simp_all [Ty.eqv]
  | .generator _ _ _, _, _, _, _, _, hw => by simp [witnessed] at hw
  | .tupleOf _, _, _, _, _, _, hw => by simp [witnessed] at hw
  | .iterator a, t', h, hwf, _, _, hw => by
      cases t' <;> first | (simp only [Ty.eqv, Bool.false_eq_true] at h; done) | skip
      rename_i b
      clear hwf
      simp only [Ty.eqv] at h
      simp only [witnessed, Bool.and_eq_true] at hw ⊢
      refine ⟨?_, hw.2⟩
      have ha : a = .any := by
        have := hw.1
        cases a <;> simp_all
      subst ha
      cases b <;> simp_all [Ty.eqv]
  | .list a, t', h, hwf, _, _, hw => by
      cases t' <;> first | (simp only [Ty.eqv, Bool.false_eq_true] at h; done) | skip
      rename_i b
      simp only [Ty.eqv] at h; simp only [Ty.wf] at hwf
      simp only [witnessed, Bool.and_eq_true] at hw ⊢
      exact ⟨hw.1, witnessed_eqv a b h hwf _ _ hw.2⟩
  | .set a, t', h, hwf, _, _, hw => by
      cases t' <;> first | (simp only [Ty.eqv, Bool.false_eq_true] at h; done) | skip
      rename_i b
      simp only [Ty.eqv] at h; simp only [Ty.wf] at hwf
      simp only [witnessed, Bool.and_eq_true] at hw ⊢
      exact ⟨hw.1, witnessed_eqv a b h hwf _ _ hw.2⟩
  | .dict a a', t', h, hwf, _, _, hw => by
      cases t' <;> first | (simp only [Ty.eqv, Bool.false_eq_true] at h; done) | skip
      rename_i b b'
      simp only [Ty.eqv, Bool.and_eq_true] at h; simp only [Ty.wf, Bool.and_eq_true] at hwf
      simp only [witnessed, Bool.and_eq_true] at hw ⊢
      exact ⟨⟨hw.1.1, witnessed_eqv a b h.1 hwf.1 _ _ hw.1.2⟩, witnessed_eqv a' b' h.2 hwf.2 _ _ hw.2⟩
  | .ddict a a', t', h, hwf, _, _, hw => by
      cases t' <;> first | (simp only [Ty.eqv, Bool.false_eq_true] at h; done) | skip
      rename_i b b'
      simp only [Ty.eqv, Bool.and_eq_true] at h; simp only [Ty.wf, Bool.and_eq_true] at hwf
      simp only [witnessed, Bool.and_eq_true] at hw ⊢
      exact ⟨⟨hw.1.1, witnessed_eqv a b h.1 hwf.1 _ _ hw.1.2⟩, witnessed_eqv a' b' h.2 hwf.2 _ _ hw.2⟩
  | .tuple as, t', h, hwf, _, _, hw => by
      cases t' <;> first | (simp only [Ty.eqv, Bool.false_eq_true] at h; done) | skip
      rename_i bs
      simp only [Ty.eqv] at h; simp only [Ty.wf] at hwf
      simp only [witnessed, Bool.and_eq_true] at hw ⊢
      rw [← eqvL_length as bs h]
      exact ⟨hw.1, witnessedCols_eqv as bs h hwf _ 0 hw.2⟩
  | .union as, t', h, hwf, e, g, hw => by
      cases t' <;> first | (simp only [Ty.eqv, Bool.false_eq_true] at h; done) | skip
      rename_i bs
      rw [eqv_union_iff] at h
      simp only [Ty.wf] at hwf
      simp only [witnessed, Bool.and_eq_true] at hw ⊢
      have hall := (witnessedAll_iff e g as).mp hw.2
      constructor
      · cases as with
        | nil => simp at hw
        | cons a0 _ =>
          obtain ⟨b, hb, _⟩ := h.1 a0 (List.mem_cons_self ..)
          cases bs with
          | nil => cases hb
          | cons _ _ => rfl
      · rw [witnessedAll_iff]
        intro b hb
        obtain ⟨a, ha, he⟩ := h.2 b hb
        exact witnessed_eqv_mem as a ha b he ((wfTL_iff bs).mp hwf b hb) e g (hall a ha)
  | .td r o, t', h, hwf, _, g, hw => by
      cases t' <;> first | (simp only [Ty.eqv, Bool.false_eq_true] at h; done) | skip
      rename_i r' o'
      obtain ⟨hwr, hwo, hnr, hno⟩ := wf_td r' o' hwf
      rw [eqv_td_iff] at h
      obtain ⟨h1, h2, h3, h4⟩ := h
      simp only [witnessed, Bool.and_eq_true] at hw ⊢
      refine ⟨⟨hw.1.1, ?_⟩, ?_⟩
      · rw [witnessedReq_iff] at hw ⊢
        exact fields_transfer r r' hnr hwr h1 h2
          (fun s u => (g.filterMap Val.asDict?).all (hasKey s) = true ∧ witnessed false (column s (g.filterMap Val.asDict?)) u = true)
          (fun kt hkt b he hb hp => ⟨hp.1, witnessed_eqv_memF r kt hkt b he hb _ _ hp.2⟩) hw.1.2
      · have hw2 := hw.2
        rw [witnessedOpt_iff] at hw2 ⊢
        exact fields_transfer o o' hno hwo h3 h4
          (fun s u => (g.filterMap Val.asDict?).any (fun d => !hasKey s d) = true ∧ (g.filterMap Val.asDict?).any (hasKey s) = true ∧
            witnessed false (column s (g.filterMap Val.asDict?)) u = true)
          (fun kt hkt b he hb hp => ⟨hp.1, hp.2.1, witnessed_eqv_memF o kt hkt b he hb _ _ hp.2.2⟩) hw2
theorem witnessedCols_eqv : ∀ (as bs : List Ty), eqvL as bs = true → wfTL bs = true → ∀ (tups : List (List Val)) (i : Nat),
    witnessedCols tups i as = true → witnessedCols tups i bs = true
  | [], [], _, _, _, _, _ => by simp [witnessedCols]
  | a :: as, b :: bs, h, hwf, tups, i, hw => by
      simp only [eqvL, Bool.and_eq_true] at h
      simp only [wfTL, Bool.and_eq_true] at hwf
      simp only [witnessedCols, Bool.and_eq_true] at hw ⊢
      exact ⟨witnessed_eqv a b h.1 hwf.1 _ _ hw.1, witnessedCols_eqv as bs h.2 hwf.2 tups (i + 1) hw.2⟩
  | [], _ :: _, h, _, _, _, _ => by simp [eqvL] at h
  | _ :: _, [], h, _, _, _, _ => by simp [eqvL] at h
theorem witnessed_eqv_mem : ∀ (as : List Ty), ∀ a ∈ as, ∀ b, Ty.eqv a b = true → b.wf = true → ∀ (e : Bool) (g : List Val),
    witnessed e g a = true → witnessed e g b = true
  | [], _, ha, _, _, _, _, _, _ => by cases ha
  | x :: xs, a, ha, b, he, hb, e, g, hw => by
      rcases List.mem_cons.mp ha with heq | ha
      · rw [heq] at he hw; exact witnessed_eqv x b he hb e g hw
      · exact witnessed_eqv_mem xs a ha b he hb e g hw
theorem witnessed_eqv_memF : ∀ (fs : List (String × Ty)), ∀ kt ∈ fs, ∀ b, Ty.eqv kt.2 b = true → b.wf = true →
    ∀ (e : Bool) (g : List Val), witnessed e g kt.2 = true → witnessed e g b = true
  | [], _, hk, _, _, _, _, _, _ => by cases hk
  | (_, t) :: fs, kt, hk, b, he, hb, e, g, hw => by
      rcases List.mem_cons.mp hk with heq | hk
      · rw [heq] at he hw; exact witnessed_eqv t b he hb e g hw
      · exact witnessed_eqv_memF fs kt hk b he hb e g hw
end

end MT

namespace MT

/-! ### the flag only ever helps -/

mutual
theorem witnessed_flag : ∀ (t : Ty) (e e' : Bool) (g : List Val), (e = true → e' = true) → witnessed e g t = true → witnessed e' g t = true
  | .any, e, e', _, he, h => by simp only [witnessed] at h ⊢; exact he h
  | .union ts, e, e', g, he, h => by
      simp only [witnessed, Bool.and_eq_true] at h ⊢
      exact ⟨h.1, witnessedAll_flag ts e e' g he h.2⟩
  | .cls _, _, _, _, _, h => by simpa [witnessed] using h
  | .typeOf _, _, _, _, _, h => by simpa [witnessed] using h
  | .callable, _, _, _, _, h => by simpa [witnessed] using h
  | .iterator _, _, _, _, _, h => by simpa [witnessed] using h
  | .generator _ _ _, _, _, _, _, h => by simp [witnessed] at h
  | .tupleOf _, _, _, _, _, h => by simp [witnessed] at h
  | .list _, _, _, _, _, h => by simpa [witnessed] using h
  | .set _, _, _, _, _, h => by simpa [witnessed] using h
  | .dict _ _, _, _, _, _, h => by simpa [witnessed] using h
  | .ddict _ _, _, _, _, _, h => by simpa [witnessed] using h
  | .tuple _, _, _, _, _, h => by simpa [witnessed] using h
  | .td _ _, _, _, _, _, h => by simpa [witnessed] using h
theorem witnessedAll_flag : ∀ (ts : List Ty) (e e' : Bool) (g : List Val), (e = true → e' = true) →
    witnessedAll e g ts = true → witnessedAll e' g ts = true
  | [], _, _, _, _, _ => by simp [witnessedAll]
  | t :: ts, e, e', g, he, h => by
      simp only [witnessedAll, Bool.and_eq_true] at h ⊢
      exact ⟨witnessed_flag t e e' g he h.1, witnessedAll_flag ts e e' g he h.2⟩
end

/-- pooling the observations of several groups that all witness one type -/
theorem witnessed_pool_list {α} (T : Ty) (flag : α → Bool) (grp : α → List Val) : ∀ (xs : List α), xs ≠ [] →
    (∀ x ∈ xs, witnessed (flag x) (grp x) T = true) → witnessed (xs.any flag) (xs.flatMap grp) T = true
  | [], h, _ => absurd rfl h
  | [x], _, h => by simpa using h x (List.mem_cons_self ..)
  | x :: y :: rest, _, h => by
      have ih := witnessed_pool_list T flag grp (y :: rest) (by simp) (fun z hz => h z (List.mem_cons_of_mem _ hz))
      have := witnessed_pool T _ _ _ _ (h x (List.mem_cons_self ..)) ih
      simpa [List.flatMap_cons, List.any_cons] using this

end MT
