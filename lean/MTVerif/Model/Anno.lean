/-
  Model/Anno.lean — how existing source annotations and traced types are combined
  (`update_signature_args`, `update_signature_return`, the Optional wrapping of `render_parameter`;
   monkeytype/stubs.py:159-219, 385-412).
-/
import MTVerif.Model.Infer
namespace MT.Anno
open MT

inductive Strategy where | replicate | ignore | omit
  deriving DecidableEq, Repr

/-- an annotation in the stub: the one written in the source (opaque, identified by a number) or a traced type -/
inductive Ann where
  | src (id : Nat)
  | ty (t : Ty)
  deriving Repr, BEq

/-- one parameter position -/
structure Pos where
  src : Option Nat          -- annotation in the source, if any
  traced : Option Ty        -- shrunken traced type for this name, if any
  isSelf : Bool             -- first parameter of an instance/class method or property
  deriving Repr

/-- `update_signature_args` for one parameter -/
def updateArg (st : Strategy) (p : Pos) : Option Ann :=
  let annotated := p.src.isSome
  -- "generate no annotation for already-annotated args" under OMIT
  let kept : Option Ann := if annotated && st == .omit then none else p.src.map .src
  if !p.isSelf && (st == .ignore || !annotated) then p.traced.map .ty else kept

def updateArgs (st : Strategy) (ps : List Pos) : List (Option Ann) := ps.map (updateArg st)

def noneTy : Ty := .cls noneC

/-- `update_signature_return` -/
def updateReturn (st : Strategy) (src : Option Nat) (ret yld : Option Ty) : Option Ann :=
  if src.isSome && st == .omit then none
  else if src.isSome && st == .replicate then src.map .src
  else match yld, ret with
    | some y, none => some (.ty (.iterator y))
    | some y, some r => if Ty.eqv r noneTy then some (.ty (.iterator y)) else some (.ty (.generator y noneTy r))
    | none, some r => some (.ty r)
    | none, none => src.map .src

/-- `render_parameter`: an annotation that is not already Optional is shown as Optional[...] when the default is None -/
def showsOptional (isOptionalAlready defaultIsNone : Bool) (a : Option Ann) : Bool :=
  a.isSome && !isOptionalAlready && defaultIsNone

end MT.Anno
