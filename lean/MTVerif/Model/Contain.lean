/-
  Model/Contain.lean — how failures inside the tracer are contained (tracing.py: CallTracer.__call__,
  handle_call / handle_return ordering, trace_calls), and which objects `get_type` touches (typing.py:210-247).
-/
import MTVerif.Model.Tracer
namespace MT.Contain
open MT MT.Tracer

/-- how a piece of code ends -/
inductive Outcome where
  | ok
  | exc          -- raises an `Exception`
  | baseExc      -- raises a BaseException that is not an Exception (KeyboardInterrupt, SystemExit)
  deriving DecidableEq, Repr

/-- `try: <handler> except Exception: logger.exception(...)` of `CallTracer.__call__` -/
def guarded : Outcome → Outcome
  | .exc => .ok
  | o => o

/-- which of the operations an event handler performs fail (raise an `Exception`) this time -/
structure Faults where
  getFunc : Bool := false      -- _get_func / get_func
  getType : Bool := false      -- get_type on an argument / the returned value
  log : Bool := false          -- logger.log
  deriving Repr

/-- `handle_call` / `handle_return` with faults: new tracer state and how the handler ended.
    Order of operations as in the source: for a call — resumption test, sampling draw, function lookup,
    "already traced" test, argument types, store; for a return — type of the value first, then lookup,
    then `del self.traces[frame]` BEFORE `self.logger.log(trace)`. -/
def handler (cfg : Cfg) (s : State) (fl : Faults) : Ev → State × Outcome
  | .other _ _ => (s, .ok)
  | .call fid code resumed args =>
    if !cfg.admits code then (s, .ok)
    else if resumed then (s, .ok)
    else
      let d := sampleDraw cfg.rate s.draws
      let s1 := { s with draws := d.2 }
      if d.1 then (s1, .ok)
      else if fl.getFunc then (s1, .exc)
      else match cfg.resolve code with
        | none => (s1, .ok)
        | some _ =>
          if (lookupT fid s1.traces).isSome then (s1, .ok)
          else if fl.getType && !args.isEmpty then (s1, .exc)
          else (beginTrace cfg s1 fid code args, .ok)
  | .ret fid code op coro _ ty =>
    if !cfg.admits code then (s, .ok)
    else if fl.getType then (s, .exc)
    else match lookupT fid s.traces with
      | none => (s, .ok)
      | some t =>
        if op == .yieldValue then (endEvent s fid t op coro ty, .ok)
        else if fl.log then ({ s with traces := eraseT fid s.traces }, .exc)   -- deleted, then log() raised
        else (endEvent s fid t op coro ty, .ok)

/-- `CallTracer.__call__` -/
def tracerCall (cfg : Cfg) (s : State) (fl : Faults) (e : Ev) : State × Outcome :=
  let r := handler cfg s fl e
  (r.1, guarded r.2)

/-- the world around `trace_calls`: which profiler is installed, how often the logger was flushed -/
structure World where
  profiler : Nat
  flushes : Nat
  deriving DecidableEq, Repr

/-- `with trace_calls(...): body` — `old = getprofile(); setprofile(tracer); try: body finally: setprofile(old);
    try: logger.flush() except Exception: log` -/
def traceCalls (w : World) (tracer : Nat) (body flush : Outcome) : World × Outcome :=
  let _inside : World := { w with profiler := tracer }
  let w' : World := { profiler := w.profiler, flushes := w.flushes + 1 }
  (w', match guarded flush with
       | .ok => body
       | o => o)       -- only a non-Exception BaseException from flush() can replace the body's outcome

/-- the primitive operations `get_type` performs on the objects it is given -/
inductive Probe where
  | typeOf           -- type(obj) (and issubclass on that type): never dispatches to the object
  | iterExact        -- iterate an exact list / set / tuple
  | itemsExact       -- len / keys / values / items of an exact dict / defaultdict
  | hashClass        -- `Type[obj]` for a class object goes through typing's subscription cache, which hashes `obj`:
                     -- `type.__hash__` for an ordinary class, a user-defined `__hash__` if the metaclass has one
  deriving DecidableEq, Repr

def isExact : Val → Bool
  | .list _ | .set _ | .tuple _ | .dict _ | .ddict _ => true
  | _ => false

mutual
/-- (object, operation) pairs of `get_type(v)`; `.inst` covers every user object, container-subclass instances included -/
def probes : Val → List (Val × Probe)
  | .list vs => (.list vs, .typeOf) :: (.list vs, .iterExact) :: probesL vs
  | .set vs => (.set vs, .typeOf) :: (.set vs, .iterExact) :: probesL vs
  | .tuple vs => (.tuple vs, .typeOf) :: (.tuple vs, .iterExact) :: probesL vs
  | .dict kvs => (.dict kvs, .typeOf) :: (.dict kvs, .itemsExact) :: probesKV kvs
  | .ddict kvs => (.ddict kvs, .typeOf) :: (.ddict kvs, .itemsExact) :: probesKV kvs
  | .classObj c => [(.classObj c, .typeOf), (.classObj c, .hashClass)]
  | v => [(v, .typeOf)]
def probesL : List Val → List (Val × Probe)
  | [] => []
  | v :: vs => probes v ++ probesL vs
def probesKV : List (Val × Val) → List (Val × Probe)
  | [] => []
  | (k, v) :: kvs => probes k ++ probes v ++ probesKV kvs
end

end MT.Contain
