/-
  Model/Encode.lean — `type_to_dict` / `type_from_dict`, `CallTraceRow.from_trace` / `to_trace`
  (monkeytype/encoding.py:40-206, monkeytype/util.py:23-76).

  JSON objects are association lists in the key order of `json.dumps(..., sort_keys=True)` — which is also the
  iteration order of the dict `json.loads` gives back.  The decoder recognises exactly the shapes the encoder
  emits (all rows MonkeyType itself writes); anything else is `.malformed` ("outside the model").
-/
import MTVerif.Model.Infer
namespace MT

inductive Json where
  | null
  | bool (b : Bool)
  | str (s : String)
  | arr (xs : List Json)
  | obj (kvs : List (String × Json))
  deriving Repr, Inhabited, BEq

/-- the exceptions the decoder can raise -/
inductive PyErr where
  | nameLookup      -- monkeytype.exceptions.NameLookupError   (a MonkeyTypeError)
  | invalidType     -- monkeytype.exceptions.InvalidTypeError  (a MonkeyTypeError)
  | malformed       -- anything else (TypeError, KeyError, JSONDecodeError …): propagates out of `stub`
  deriving Repr, BEq, DecidableEq, Inhabited

def PyErr.isMonkeyTypeError : PyErr → Bool
  | .nameLookup | .invalidType => true
  | .malformed => false

abbrev FuncId := Nat

/-- what `get_name_in_module(module, qualname)` finds -/
inductive Obj where
  | cls (c : ClassId)                        -- a class
  | func (f : FuncId)                        -- a Python function

  | boundMethod (f : FuncId)                 -- types.MethodType (classmethod accessed through the class)
  | prop (fget : Option FuncId) (fset fdel : Bool)   -- a property object
  | wrapped (outer : FuncId) (inner : Obj)   -- has `__wrapped__` (functools.wraps); inspect.unwrap follows it
  | other                                    -- any non-type, non-function value (int, module, instance, a builtin function …)
  deriving Repr, Inhabited

/-- abstract import system: `none` = the module cannot be imported or an attribute on the path is missing -/
structure Env where
  lookup : String → String → Option Obj
  /-- `f.__qualname__` of the function object `f` (what the name it is found under is compared with) -/
  funcQual : FuncId → String

/-- module and qualified name under which each class / function is reachable -/
structure Names where
  cls : ClassId → String × String
  func : FuncId → String × String

def typingName (q : String) : Json := .obj [("module", .str "typing"), ("qualname", .str q)]
def typingApp (q : String) (es : List Json) : Json :=
  .obj [("elem_types", .arr es), ("module", .str "typing"), ("qualname", .str q)]
def nameJ (mq : String × String) : Json := .obj [("module", .str mq.1), ("qualname", .str mq.2)]
def ellipsisJ : Json := .obj [("module", .str "builtins"), ("qualname", .str "Ellipsis")]

def tdModule : String := "monkeytype.typing"

mutual
/-- `type_to_dict` (after `json.dumps(sort_keys=True)` / `json.loads`) -/
def encodeTy (nm : Names) : Ty → Json
  | .any => typingName "Any"
  | .callable => typingName "Callable"
  | .cls c => nameJ (nm.cls c)
  | .typeOf c => typingApp "Type" [nameJ (nm.cls c)]
  | .list t => typingApp "List" [encodeTy nm t]
  | .set t => typingApp "Set" [encodeTy nm t]
  | .iterator t => typingApp "Iterator" [encodeTy nm t]
  | .tupleOf t => typingApp "Tuple" [encodeTy nm t, ellipsisJ]
  | .dict k v => typingApp "Dict" [encodeTy nm k, encodeTy nm v]
  | .ddict k v => typingApp "DefaultDict" [encodeTy nm k, encodeTy nm v]
  | .generator y s r => typingApp "Generator" [encodeTy nm y, encodeTy nm s, encodeTy nm r]
  | .tuple ts => typingApp "Tuple" (encodeL nm ts)
  | .union ts => typingApp "Union" (encodeL nm ts)
  | .td req opt =>
      .obj [("elem_types", .obj [
              ("optional_fields", .obj [("elem_types", .obj (encodeF nm opt)), ("is_typed_dict", .bool true),
                                        ("module", .str tdModule), ("qualname", .str "OPTIONAL_TYPED_DICT_NAME")]),
              ("required_fields", .obj [("elem_types", .obj (encodeF nm req)), ("is_typed_dict", .bool true),
                                        ("module", .str tdModule), ("qualname", .str "REQUIRED_TYPED_DICT_NAME")])]),
            ("is_typed_dict", .bool true), ("module", .str tdModule), ("qualname", .str "DUMMY_NAME")]
def encodeL (nm : Names) : List Ty → List Json
  | [] => []
  | t :: ts => encodeTy nm t :: encodeL nm ts
def encodeF (nm : Names) : List (String × Ty) → List (String × Json)
  | [] => []
  | (k, t) :: fs => (k, encodeTy nm t) :: encodeF nm fs
end

/-- `typ[elem_types]` for the typing generics; `none` stands for a decoded `Ellipsis` -/
def applyGeneric (q : String) (args : List (Option Ty)) : Except PyErr Ty :=
  if q == "Tuple" then
    match args with
    | [some t, none] => .ok (.tupleOf t)
    | _ => if args.all Option.isSome then .ok (.tuple (args.filterMap id)) else .error .malformed
  else if !args.all Option.isSome then .error .malformed
  else
    match q, args.filterMap id with
    | "List", [t] => .ok (.list t)
    | "Set", [t] => .ok (.set t)
    | "Iterator", [t] => .ok (.iterator t)
    | "Dict", [k, v] => .ok (.dict k v)
    | "DefaultDict", [k, v] => .ok (.ddict k v)
    | "Generator", [y, s, r] => .ok (.generator y s r)
    | "Type", [.cls c] => .ok (.typeOf c)
    | "Union", [] => .error .malformed
    | "Union", ts => .ok (mkUnion ts)
    | _, _ => .error .malformed

def typingGenerics : List String :=
  ["List", "Set", "Iterator", "Dict", "DefaultDict", "Generator", "Type", "Tuple", "Union"]

/-- `get_name_in_module` + the "is it a type" test of `type_from_dict` -/
def lookupType (env : Env) (m q : String) : Except PyErr Ty :=
  if m == "typing" && q == "Any" then .ok .any
  else if m == "typing" && q == "Callable" then .ok .callable
  else match env.lookup m q with
    | none => .error .nameLookup
    | some (.cls c) => .ok (.cls c)
    | some _ => .error .invalidType

def isEllipsisJ : Json → Bool
  | .obj [(k1, .str m), (k2, .str q)] => k1 == "module" && k2 == "qualname" && m == "builtins" && q == "Ellipsis"
  | _ => false

mutual
/-- `type_from_dict` -/
def decodeTy (env : Env) : Json → Except PyErr Ty
  | .obj [(k1, .str m), (k2, .str q)] =>
      if k1 == "module" && k2 == "qualname" then lookupType env m q else .error .malformed
  | .obj [(k1, .arr es), (k2, .str m), (k3, .str q)] =>
      if k1 == "elem_types" && k2 == "module" && k3 == "qualname" then
        if m == "typing" then
          -- the name is looked up before the arguments are decoded
          if typingGenerics.contains q then (decodeL env es).bind (applyGeneric q) else .error .nameLookup
        else
          -- a non-generic with elem_types: the arguments are decoded first and then ignored
          (match env.lookup m q with
           | none => .error .nameLookup
           | some (.cls c) => (decodeL env es).map (fun _ => .cls c)
           | some _ => .error .invalidType)
      else .error .malformed
  | .obj [(k1, .obj [(a1, .obj [(b1, .obj ofs), (b2, .bool bt), (b3, .str _), (b4, .str _)]),
                     (a2, .obj [(c1, .obj rfs), (c2, .bool ct), (c3, .str _), (c4, .str _)])]),
          (k2, .bool tt), (k3, .str _), (k4, .str q)] =>
      if k1 == "elem_types" && a1 == "optional_fields" && a2 == "required_fields"
          && b1 == "elem_types" && b2 == "is_typed_dict" && b3 == "module" && b4 == "qualname"
          && c1 == "elem_types" && c2 == "is_typed_dict" && c3 == "module" && c4 == "qualname"
          && k2 == "is_typed_dict" && k3 == "module" && k4 == "qualname"
          && bt && ct && tt && q == "DUMMY_NAME" then
        -- `elem_types` is iterated in key order: optional_fields is decoded before required_fields
        (decodeF env ofs).bind (fun o => (decodeF env rfs).map (fun r => .td r o))
      else .error .malformed
  | _ => .error .malformed
def decodeL (env : Env) : List Json → Except PyErr (List (Option Ty))
  | [] => .ok []
  | j :: js =>
      if isEllipsisJ j then (decodeL env js).map (fun ts => none :: ts)
      else (decodeTy env j).bind (fun t => (decodeL env js).map (fun ts => some t :: ts))
def decodeF (env : Env) : List (String × Json) → Except PyErr (List (String × Ty))
  | [] => .ok []
  | (k, j) :: fs => (decodeTy env j).bind (fun t => (decodeF env fs).map (fun ts => (k, t) :: ts))
end

/-! ### call traces -/

structure Trace where
  func : FuncId
  args : List (String × Ty)
  ret : Option Ty
  yld : Option Ty
  deriving Repr, Inhabited

/-- a stored row: SQL NULL is `none` -/
structure Row where
  module : String
  qualname : String
  argTypes : Json
  returnType : Option Json
  yieldType : Option Json
  deriving Repr, Inhabited

/-- `CallTraceRow.from_trace` -/
def rowOfTrace (nm : Names) (t : Trace) : Row :=
  { module := (nm.func t.func).1, qualname := (nm.func t.func).2,
    argTypes := .obj (encodeF nm t.args),
    returnType := t.ret.map (encodeTy nm), yieldType := t.yld.map (encodeTy nm) }

/-- `inspect.unwrap` -/
def unwrapObj : Obj → Obj
  | .wrapped _ inner => unwrapObj inner
  | o => o

/-- `get_func_in_module` -/
def funcOf (env : Env) (m q : String) : Except PyErr FuncId :=
  match env.lookup m q with
  | none => .error .nameLookup
  | some o =>
    -- the function found must be the one that was named: a name now bound to another function (the inner function of a
    -- decorator without functools.wraps) is stale
    let named (f : FuncId) : Except PyErr FuncId := if env.funcQual f == q then .ok f else .error .invalidType
    match unwrapObj o with
    | .func f => named f
    | .boundMethod f => named f
    | .prop (some g) false false => named g
    | .prop _ _ _ => .error .invalidType
    | _ => .error .invalidType

/-- `maybe_decode_type`: NULL and the JSON text `null` both mean "absent" -/
def maybeDecode (env : Env) : Option Json → Except PyErr (Option Ty)
  | none => .ok none
  | some .null => .ok none
  | some j => (decodeTy env j).map some

/-- `CallTraceRow.to_trace` (function first, then argument types, then return, then yield) -/
def traceOfRow (env : Env) (r : Row) : Except PyErr Trace :=
  (funcOf env r.module r.qualname).bind fun f =>
    (match r.argTypes with
     | .obj kvs => decodeF env kvs
     | _ => .error .malformed).bind fun args =>
      (maybeDecode env r.returnType).bind fun ret =>
        (maybeDecode env r.yieldType).map fun yld => { func := f, args := args, ret := ret, yld := yld }

end MT
