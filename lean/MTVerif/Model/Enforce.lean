/-
  Model/Enforce.lean — `RewriteOversizeTypedDictToDict(k)` (monkeytype/typing.py), applied by `shrink_traced_types` to every
  stored type before merging: the size limit in force when a stub is generated may be smaller than the one the traces were
  recorded under.  A TypedDict with more than `k` keys becomes `Dict[str, Union[its value types]]` with every TypedDict below it
  rewritten the same way (`tdToDict`), at every depth the generic rewriter reaches; everything else is rebuilt as it is.
-/
import MTVerif.Model.Infer
namespace MT

mutual
def enforce (k : Nat) : Ty → Ty
  | .list t => .list (enforce k t)
  | .set t => .set (enforce k t)
  | .dict a b => .dict (enforce k a) (enforce k b)
  | .ddict a b => .ddict (enforce k a) (enforce k b)
  | .tuple ts => .tuple (enforceL k ts)
  | .tupleOf t => .tupleOf (enforce k t)
  | .iterator t => .iterator (enforce k t)
  | .generator y s r => .generator (enforce k y) (enforce k s) (enforce k r)
  | .union ts => mkUnion (enforceL k ts)
  | .td r o =>
      -- oversize: `RewriteAnonymousTypedDictToDict` on the whole subtree (no TypedDict is left below it)
      if r.length + o.length > k then tdToDict (.td r o)
      else .td (enforceF k r) (enforceF k o)
  | t => t
def enforceL (k : Nat) : List Ty → List Ty
  | [] => []
  | t :: ts => enforce k t :: enforceL k ts
/-- a field list with its value types rewritten -/
def enforceF (k : Nat) : List (String × Ty) → List (String × Ty)
  | [] => []
  | (s, t) :: fs => (s, enforce k t) :: enforceF k fs
end

end MT
