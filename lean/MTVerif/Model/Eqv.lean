/-
  Model/Eqv.lean — Python `==` on typing objects (`types_equal`, compat.py:100-104) for
  types without a hash-opaque member: structural, except that union members are compared
  as sets (`_UnionGenericAlias.__eq__`) and TypedDict fields as dicts (key order irrelevant;
  compat.py:81-97 patched onto the TypedDict metaclass).
-/
import MTVerif.Model.Ty
namespace MT

/-- every key of the first field list is a key of the second -/
def keysIn (as bs : List (String × Ty)) : Bool := as.all (fun kb => (lookupF kb.1 bs).isSome)

mutual
def Ty.eqv : Ty → Ty → Bool
  | .any, .any => true
  | .cls a, .cls b => a == b
  | .typeOf a, .typeOf b => a == b
  | .callable, .callable => true
  | .list a, .list b => Ty.eqv a b
  | .set a, .set b => Ty.eqv a b
  | .tupleOf a, .tupleOf b => Ty.eqv a b
  | .iterator a, .iterator b => Ty.eqv a b
  | .dict a b, .dict c d => Ty.eqv a c && Ty.eqv b d
  | .ddict a b, .ddict c d => Ty.eqv a c && Ty.eqv b d
  | .generator a b c, .generator a' b' c' => Ty.eqv a a' && Ty.eqv b b' && Ty.eqv c c'
  | .tuple as, .tuple bs => eqvL as bs
  | .union as, .union bs => eqvSub as bs && bs.all (fun b => eqvAny as b)
  | .td r o, .td r' o' => eqvF r r' && keysIn r' r && eqvF o o' && keysIn o' o
  | _, _ => false
def eqvL : List Ty → List Ty → Bool
  | [], [] => true
  | a :: as, b :: bs => Ty.eqv a b && eqvL as bs
  | _, _ => false
/-- some member of `as` is `eqv` to `b` -/
def eqvAny : List Ty → Ty → Bool
  | [], _ => false
  | a :: as, b => Ty.eqv a b || eqvAny as b
/-- every member of `as` is `eqv` to some member of `bs` -/
def eqvSub : List Ty → List Ty → Bool
  | [], _ => true
  | a :: as, bs => bs.any (fun b => Ty.eqv a b) && eqvSub as bs
/-- every field of the first list has an `eqv` field under the same key in the second -/
def eqvF : List (String × Ty) → List (String × Ty) → Bool
  | [], _ => true
  | (k, a) :: as, bs => (match lookupF k bs with | some b => Ty.eqv a b | none => false) && eqvF as bs
end

mutual
/-- strict structural equality (stands for object identity `is` of hash-consed typing objects, typing.py:436) -/
def Ty.beq' : Ty → Ty → Bool
  | .any, .any => true
  | .cls a, .cls b => a == b
  | .typeOf a, .typeOf b => a == b
  | .callable, .callable => true
  | .list a, .list b => Ty.beq' a b
  | .set a, .set b => Ty.beq' a b
  | .tupleOf a, .tupleOf b => Ty.beq' a b
  | .iterator a, .iterator b => Ty.beq' a b
  | .dict a b, .dict c d => Ty.beq' a c && Ty.beq' b d
  | .ddict a b, .ddict c d => Ty.beq' a c && Ty.beq' b d
  | .generator a b c, .generator a' b' c' => Ty.beq' a a' && Ty.beq' b b' && Ty.beq' c c'
  | .tuple as, .tuple bs => beqL as bs
  | .union as, .union bs => beqL as bs
  | .td r o, .td r' o' => beqF r r' && beqF o o'
  | _, _ => false
def beqL : List Ty → List Ty → Bool
  | [], [] => true
  | a :: as, b :: bs => Ty.beq' a b && beqL as bs
  | _, _ => false
def beqF : List (String × Ty) → List (String × Ty) → Bool
  | [], [] => true
  | (k, a) :: as, (k', b) :: bs => k == k' && Ty.beq' a b && beqF as bs
  | _, _ => false
end

end MT
