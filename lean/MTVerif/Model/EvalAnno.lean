/-
  Model/EvalAnno.lean — what a rendered annotation *means* in the namespace a stub provides.

  `FunctionStub.render` strips, from every dotted name, the prefix `mod.` of each module the function's imports mention
  (longest module first; `stripParts`).  The stub is then read in the namespace built by executing its import block top
  to bottom over builtins and the target module's own classes (`NS`, `resolve`); `evalE` evaluates an annotation
  expression there, the way `typing` does (`Optional[X]` = `Union[X, None]`, `Tuple[X, ...]`, `Tuple[()]`).
-/
import MTVerif.Model.Render
namespace MT.Render
open MT

/-- sequential `re.sub` of `(?<![\w.])mod\.` for each module, in the given order: a module is removed from a dotted name
    when it is a proper prefix of it (the regex needs the dot that follows) -/
def stripParts (mods : List (List String)) (parts : List String) : List String :=
  mods.foldl (fun ps m => if m.isPrefixOf ps && decide (m.length < ps.length) then ps.drop m.length else ps) parts

mutual
def stripE (mods : List (List String)) : Expr → Expr
  | .name ps => .name (stripParts mods ps)
  | .str s => .str s
  | .emptyTuple => .emptyTuple
  | .app h as => .app (stripE mods h) (stripL mods as)
def stripL (mods : List (List String)) : List Expr → List Expr
  | [] => []
  | e :: es => stripE mods e :: stripL mods es
end

/-- the namespace of a stub -/
structure NS where
  imports : List (String × String)                   -- `from m import n`, in execution order (later shadows earlier)
  own : String                                       -- the target module: its classes are visible unqualified
  inv : String → List String → Option ClassId        -- the class found at (module, attribute path), if any

/-- the module of the last import that binds `root` -/
def lastImport (imports : List (String × String)) (root : String) : Option String :=
  (imports.reverse.find? (fun mq => mq.2 == root)).map (·.1)

inductive Ref where
  | typing (n : String)
  | cls (c : ClassId)
  | ellipsis
  deriving Repr, DecidableEq

/-- what a dotted name denotes: `None` is a keyword; otherwise the last import of its root, else a class of the target
    module, else a builtin -/
def resolve (ns : NS) (parts : List String) : Option Ref :=
  match parts with
  | [] => none
  | root :: rest =>
    if parts == ["None"] then some (.cls noneC)
    else match lastImport ns.imports root with
      | some m => if m == "typing" then (if rest.isEmpty then some (.typing root) else none)
                  else (ns.inv m parts).map .cls
      | none =>
        match ns.inv ns.own parts with
        | some c => some (.cls c)
        | none => if parts == ["Ellipsis"] then some .ellipsis else (ns.inv "builtins" parts).map .cls

def isEllipsisName (ns : NS) : Expr → Bool
  | .name ps => resolve ns ps == some .ellipsis
  | _ => false

mutual
/-- evaluation of an annotation expression with the names of `ns` -/
def evalE (ns : NS) : Expr → Option Ty
  | .name ps =>
      (match resolve ns ps with
       | some (.cls c) => some (.cls c)
       | some (.typing n) =>
           if n == "Any" then some .any else if n == "Callable" then some .callable
           -- a bare generic: every parameter is Any
           else if n == "List" then some (.list .any) else if n == "Set" then some (.set .any)
           else if n == "Dict" then some (.dict .any .any) else if n == "Tuple" then some (.tupleOf .any) else none
       | _ => none)
  | .app h as =>
      let vs := evalL ns as
      let hd := evalHead ns as
      (match h with
       | .name [hn] =>
         (match resolve ns [hn] with
          | some (.typing n) =>
            if n == "List" then (match vs with | some [a] => some (.list a) | _ => none)
            else if n == "Set" then (match vs with | some [a] => some (.set a) | _ => none)
            else if n == "Iterator" then (match vs with | some [a] => some (.iterator a) | _ => none)
            else if n == "Dict" then (match vs with | some [a, b] => some (.dict a b) | _ => none)
            else if n == "DefaultDict" then (match vs with | some [a, b] => some (.ddict a b) | _ => none)
            else if n == "Generator" then (match vs with | some [a, b, c] => some (.generator a b c) | _ => none)
            else if n == "Type" then (match vs with | some [.cls c] => some (.typeOf c) | _ => none)
            else if n == "Union" then vs.map mkUnion
            else if n == "Optional" then (match vs with | some [a] => some (mkUnion [a, .cls noneC]) | _ => none)
            else if n == "Tuple" then
              (match as with
               | [.emptyTuple] => some (.tuple [])
               | [_, b] => if isEllipsisName ns b then hd.map .tupleOf else vs.map .tuple
               | _ => vs.map .tuple)
            else none
          | _ => none)
       | _ => none)
  | .str _ => none
  | .emptyTuple => none
def evalL (ns : NS) : List Expr → Option (List Ty)
  | [] => some []
  | e :: es => (match evalE ns e, evalL ns es with
                | some t, some ts => some (t :: ts)
                | _, _ => none)
def evalHead (ns : NS) : List Expr → Option Ty
  | [] => none
  | e :: _ => evalE ns e
end

/-! ### the decidable side conditions: every name the rendered annotation uses denotes what was rendered -/

/-- the parts `renderE` prints for a class -/
def clsParts (nm : Names) (c : ClassId) : List String :=
  let (m, q) := nm.cls c
  if m == "builtins" then (if q == "NoneType" then ["None"] else dotted q) else dotted m ++ dotted q

def clsOk (ns : NS) (nm : Names) (mods : List (List String)) (c : ClassId) : Bool :=
  resolve ns (stripParts mods (clsParts nm c)) == some (.cls c)

/-- a typing constructor name is what it says (it is single-part, so stripping leaves it alone) -/
def typingOk (ns : NS) (mods : List (List String)) (n : String) : Bool :=
  stripParts mods [n] == [n] && resolve ns [n] == some (.typing n)

mutual
def namesOk (ns : NS) (nm : Names) (mods : List (List String)) : Ty → Bool
  | .any => typingOk ns mods "Any"
  | .callable => typingOk ns mods "Callable"
  | .cls c => clsOk ns nm mods c
  | .typeOf c => typingOk ns mods "Type" && clsOk ns nm mods c
  | .list t => typingOk ns mods "List" && namesOk ns nm mods t
  | .set t => typingOk ns mods "Set" && namesOk ns nm mods t
  | .iterator t => typingOk ns mods "Iterator" && namesOk ns nm mods t
  | .tupleOf t => typingOk ns mods "Tuple" && stripParts mods ["Ellipsis"] == ["Ellipsis"] &&
      resolve ns ["Ellipsis"] == some .ellipsis && namesOk ns nm mods t
  | .dict k v => typingOk ns mods "Dict" && namesOk ns nm mods k && namesOk ns nm mods v
  | .ddict k v => typingOk ns mods "DefaultDict" && namesOk ns nm mods k && namesOk ns nm mods v
  | .generator y s r => typingOk ns mods "Generator" && namesOk ns nm mods y && namesOk ns nm mods s && namesOk ns nm mods r
  | .tuple ts => typingOk ns mods "Tuple" && namesOkL ns nm mods ts
  | .union ts =>
      (if ts.any isNoneTy then typingOk ns mods "Optional" && (decide ((ts.filter (fun t => !isNoneTy t)).length = 1) || typingOk ns mods "Union")
       else typingOk ns mods "Union") && namesOkL ns nm mods ts
  | .td _ _ => false
def namesOkL (ns : NS) (nm : Names) (mods : List (List String)) : List Ty → Bool
  | [] => true
  | t :: ts => namesOk ns nm mods t && namesOkL ns nm mods ts
end

end MT.Render
