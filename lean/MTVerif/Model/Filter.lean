/-
  Model/Filter.lean — `default_code_filter` (monkeytype/config.py) and `CallTraceStoreLogger.log` (db/base.py:66-68).

  Path resolution (`Path.resolve`, symlinks), `sysconfig` and the environment are the runtime's: the resolved path
  arrives as its list of components, the file stem as a string, the library roots as component lists.
-/
namespace MT.Filter

structure CodeInfo where
  filename : String            -- co_filename as written in the code object
  parts : List String          -- components of Path(co_filename).resolve()  ("/" first for absolute paths)
  stem : String                -- final component without its suffix
  deriving Repr

/-- `not code.co_filename or code.co_filename[0] == "<"` -/
def synthetic (ci : CodeInfo) : Bool := ci.filename.isEmpty || ci.filename.front == '<'

/-- `filename.relative_to(lib_path)` for the first library root that contains the file -/
def stripLib : List (List String) → List String → List String
  | [], parts => parts
  | l :: ls, parts => if l.isPrefixOf parts then parts.drop l.length else stripLib ls parts

/-- `default_code_filter(code)`; `allow` = MONKEYTYPE_TRACE_MODULES split on commas (none when unset) -/
def defaultFilter (libs : List (List String)) (allow : Option (List String)) (ci : CodeInfo) : Bool :=
  if synthetic ci then false
  else match allow with
    | none => !libs.any (fun l => l.isPrefixOf ci.parts)
    | some ms =>
      let rel := stripLib libs ci.parts
      -- the stem of the relative path is the stem of the file, unless nothing is left of the path
      ms.any (fun m => m == (if rel.isEmpty then "" else ci.stem) || rel.contains m)

/-- `CallTraceStoreLogger.log` keeps a trace unless the function's module is `__main__` -/
def storeKeeps (module : String) : Bool := module != "__main__"

end MT.Filter
