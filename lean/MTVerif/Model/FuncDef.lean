/-
  Model/FuncDef.lean — one function, from its decoded call traces to its stub definition
  (monkeytype/stubs.py: `shrink_traced_types`, `get_updated_definition`, `FunctionDefinition.from_callable_and_traced_types`
   without the TypedDict class extraction (Model/TDStub), `FunctionKind.from_callable`, `FunctionDefinition.has_self`,
   the decorator / `async` head of `FunctionStub.render`).
-/
import MTVerif.Model.Anno
import MTVerif.Model.Enforce
import MTVerif.Model.Rewrite
namespace MT.FuncDef
open MT MT.Anno

/-- a decoded call trace of one function: `arg_types` (a dict, in insertion order), `return_type`, `yield_type` -/
structure CTrace where
  args : List (String × Ty)
  ret : Option Ty
  yld : Option Ty
  deriving Repr

/-- `arg_types[name].add(t)` on a `defaultdict(set)` kept in insertion order -/
def addArg : List (String × List Ty) → String → Ty → List (String × List Ty)
  | [], name, t => [(name, [t])]
  | (n, ts) :: rest, name, t => if n == name then (n, ts ++ [t]) :: rest else (n, ts) :: addArg rest name t

/-- the `(name, type)` pairs of all traces in the order the two loops of `shrink_traced_types` meet them, each type with the
    size limit of this run applied (`limit.rewrite(typ)`) -/
def allArgs (k : Nat) (traces : List CTrace) : List (String × Ty) :=
  traces.flatMap (fun tr => tr.args.map (fun a => (a.1, enforce k a.2)))

def groupFrom (acc : List (String × List Ty)) (ps : List (String × Ty)) : List (String × List Ty) :=
  ps.foldl (fun acc a => addArg acc a.1 a.2) acc

/-- `arg_types` after the loop -/
def groupArgs (k : Nat) (traces : List CTrace) : List (String × List Ty) := groupFrom [] (allArgs k traces)

def retTypes (k : Nat) (traces : List CTrace) : List Ty := traces.filterMap (fun t => t.ret.map (enforce k))
def yldTypes (k : Nat) (traces : List CTrace) : List Ty := traces.filterMap (fun t => t.yld.map (enforce k))

def shrinkOpt (k : Nat) (ts : List Ty) : Option Ty := if ts.isEmpty then none else some (shrink k ts)

/-- `shrink_traced_types(traces, k)` -/
def shrinkTraced (k : Nat) (traces : List CTrace) : List (String × Ty) × Option Ty × Option Ty :=
  ((groupArgs k traces).map (fun nts => (nts.1, shrink k nts.2)), shrinkOpt k (retTypes k traces), shrinkOpt k (yldTypes k traces))

/-! ### function kinds -/

/-- what `inspect.getattr_static` finds under the function's qualified name -/
inductive Desc where | plain | classmethod | staticmethod | property | cachedProperty
  deriving DecidableEq, Repr

inductive FKind where | module | cls | instance | static | property | cachedProperty
  deriving DecidableEq, Repr

/-- `FunctionKind.from_callable` -/
def kindOf (qualnameHasDot : Bool) (d : Desc) : FKind :=
  if !qualnameHasDot then .module
  else match d with
    | .classmethod => .cls
    | .staticmethod => .static
    | .property => .property
    | .cachedProperty => .cachedProperty
    | .plain => .instance

/-- `FunctionDefinition.has_self` -/
def FKind.hasSelf : FKind → Bool
  | .cls | .instance | .property | .cachedProperty => true
  | .module | .static => false

/-- the decorator line of `FunctionStub.render` -/
def FKind.decorator : FKind → Option String
  | .cls => some "@classmethod"
  | .static => some "@staticmethod"
  | .property => some "@property"
  | .cachedProperty => some "@cached_property"
  | .module | .instance => none

/-- the lines of `FunctionStub.render` before the parameter list: the decorator (if any), then `[async ]def name` -/
def headLines (kind : FKind) (isAsync : Bool) (name : String) : List String :=
  (match kind.decorator with | some d => [d] | none => []) ++ [(if isAsync then "async " else "") ++ "def " ++ name]

/-! ### the definition -/

structure SrcParam where
  name : String
  src : Option Nat            -- the annotation written in the source, if any
  deriving Repr

structure FuncSrc where
  params : List SrcParam
  retSrc : Option Nat
  kind : FKind
  isAsync : Bool
  deriving Repr

structure Definition where
  params : List (String × Option Ann)
  ret : Option Ann
  kind : FKind
  isAsync : Bool
  deriving Repr

/-- what `update_signature_args` looks at for the parameter `p` at index `i` -/
def posOf (f : FuncSrc) (args : List (String × Ty)) (p : SrcParam) (i : Nat) : Pos :=
  { src := p.src, traced := args.lookup p.name, isSelf := f.kind.hasSelf && i == 0 }

/-- `get_updated_definition(func, traces, k, rewriter, strategy)`: merge per position, rewrite, combine with the source -/
def updatedDefinition (h : Hier) (chain : List RW) (k : Nat) (st : Strategy) (f : FuncSrc) (traces : List CTrace) : Definition :=
  let s := shrinkTraced k traces
  let args := s.1.map (fun nt => (nt.1, rewriteChain h chain nt.2))
  { params := f.params.zipIdx.map (fun pi => (pi.1.name, updateArg st (posOf f args pi.1 pi.2))),
    ret := updateReturn st f.retSrc (s.2.1.map (rewriteChain h chain)) (s.2.2.map (rewriteChain h chain)),
    kind := f.kind, isAsync := f.isAsync }

end MT.FuncDef
