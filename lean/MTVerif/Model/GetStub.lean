/-
  Model/GetStub.lean — the decode loop of `cli.get_stub` and what `stub` / `apply` report
  (monkeytype/cli.py:67-80, 110-142, 259-272).
-/
import MTVerif.Model.Encode
namespace MT

inductive StderrLine where
  | warning (e : PyErr)          -- "WARNING: Failed decoding trace: …"   (with -v, one per skipped row)
  | summary (n : Nat)            -- "<n> traces failed to decode; use -v for details"
  | noTraces                     -- "No traces found for …"
  deriving Repr, BEq, DecidableEq

structure StubOutcome where
  traces : List Trace            -- what is handed to build_module_stubs_from_traces (empty: no stub is printed)
  stderr : List StderrLine
  exitCode : Nat
  deriving Repr

/-- the loop: decode thunk by thunk, catching exactly the MonkeyTypeError family -/
def decodeLoop (env : Env) (verbose : Bool) : List Row → Except PyErr (List Trace × List StderrLine × Nat)
  | [] => .ok ([], [], 0)
  | r :: rs =>
    match traceOfRow env r with
    | .ok t => (decodeLoop env verbose rs).map (fun (ts, ls, n) => (t :: ts, ls, n))
    | .error e =>
      if e.isMonkeyTypeError then
        (decodeLoop env verbose rs).map (fun (ts, ls, n) => (ts, (if verbose then .warning e :: ls else ls), n + 1))
      else .error e              -- anything else propagates: the command dies with a traceback

/-- `print_stub_handler` / `apply_stub_handler` around `get_stub` -/
def getStub (env : Env) (verbose : Bool) (rows : List Row) : Except PyErr StubOutcome :=
  (decodeLoop env verbose rows).map fun (ts, ls, n) =>
    let ls := if n > 0 && !verbose then ls ++ [.summary n] else ls
    { traces := ts, stderr := if ts.isEmpty then ls ++ [.noTraces] else ls, exitCode := 0 }

def decodesOk (env : Env) (r : Row) : Bool := match traceOfRow env r with | .ok _ => true | .error _ => false
def decodesStale (env : Env) (r : Row) : Bool :=
  match traceOfRow env r with | .ok _ => false | .error e => e.isMonkeyTypeError

end MT
