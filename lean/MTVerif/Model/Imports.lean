/-
  Model/Imports.lean — MonkeyType's own part of `--pep_563`: which stub imports are "new", which of them are moved under
  `if TYPE_CHECKING:`, and what `RemoveImportsTransformer` deletes (monkeytype/cli.py:149-162,
  monkeytype/type_checking_imports_transformer.py).  libcst's visitors (apply annotations, add imports) are outside the model.
-/
namespace MT.Imports

/-- libcst `ImportItem` -/
structure Item where
  module : String
  obj : Option String          -- `from module import obj`; none for `import module`
  alias : Option String
  deriving DecidableEq, Repr

/-- one name of an import statement -/
structure ImpName where
  name : String
  asname : Option String
  deriving DecidableEq, Repr

inductive Stmt where
  | importMod (names : List ImpName)                       -- import a.b as c, d
  | importFrom (module : String) (names : List ImpName)    -- from m import x as y, z
  | importStar (module : String)                           -- from m import *
  | other (id : Nat)                                       -- any other simple statement
  | block (id : Nat) (body : List Stmt)                    -- def / class / if / try …: statements nested inside
  deriving Repr

/-- `get_newly_imported_items`: stub imports that the source does not already have — neither as the same item (alias
    included) in any import statement, nor as a name of a module the source star-imports -/
def newlyImported (stub src : List Item) (stars : List String) : List Item :=
  stub.filter (fun i => !src.contains i && !(i.obj.isSome && stars.contains i.module))

/-- what is moved under TYPE_CHECKING: not typing names, not the base class of generated TypedDict classes -/
def movable (items : List Item) : List Item :=
  items.filter (fun i => i.module != "typing" && !(i.module == "mypy_extensions" && i.obj == some "TypedDict"))

def removesMod (moved : List Item) (n : ImpName) : Bool :=
  moved.any (fun i => i.module == n.name && i.obj.isNone)

def removesFrom (moved : List Item) (module : String) (n : ImpName) : Bool :=
  moved.any (fun i => i.module == module && i.obj == some n.name && i.alias == n.asname)

mutual
/-- `RemoveImportsTransformer` on one statement (it visits the whole tree, nested bodies included); `none` = statement removed -/
def removeStmt (moved : List Item) : Stmt → Option Stmt
  | .importMod names =>
      let keep := names.filter (fun n => !removesMod moved n)
      if keep.isEmpty && !names.isEmpty then none else some (.importMod keep)   -- (an import statement always has a name)
  | .importFrom m names =>
      let keep := names.filter (fun n => !removesFrom moved m n)
      if keep.isEmpty && !names.isEmpty then none else some (.importFrom m keep)
  | .importStar m => some (.importStar m)
  | .other i => some (.other i)
  | .block i body => some (.block i (removeStmts moved body))
def removeStmts (moved : List Item) : List Stmt → List Stmt
  | [] => []
  | s :: ss => (match removeStmt moved s with | none => removeStmts moved ss | some s' => s' :: removeStmts moved ss)
end

mutual
/-- every import item written anywhere in the module (GatherImportsVisitor descends into nested bodies) -/
def itemsOf : Stmt → List Item
  | .importMod names => names.map (fun n => { module := n.name, obj := none, alias := n.asname })
  | .importFrom m names => names.map (fun n => { module := m, obj := some n.name, alias := n.asname })
  | .importStar _ => []
  | .other _ => []
  | .block _ body => itemsOfL body
def itemsOfL : List Stmt → List Item
  | [] => []
  | s :: ss => itemsOf s ++ itemsOfL ss
end

mutual
/-- the modules the source star-imports, anywhere -/
def starsOf : Stmt → List String
  | .importStar m => [m]
  | .block _ body => starsOfL body
  | .importMod _ => []
  | .importFrom _ _ => []
  | .other _ => []
def starsOfL : List Stmt → List String
  | [] => []
  | s :: ss => starsOf s ++ starsOfL ss
end

end MT.Imports
