/-
  Model/Infer.lean — `get_type`, `get_dict_type`, `shrink_types`, `shrink_typed_dict_types`,
  `RewriteAnonymousTypedDictToDict` and `typing.Union[...]` (monkeytype/typing.py:85-242, 459-469).
-/
import MTVerif.Model.Eqv
namespace MT

def Ty.isTD : Ty → Bool | .td _ _ => true | _ => false
def Ty.isList : Ty → Bool | .list _ => true | _ => false
def Ty.isUnion : Ty → Bool | .union _ => true | _ => false
def Ty.listArg : Ty → Ty | .list t => t | t => t
def Ty.reqF : Ty → List (String × Ty) | .td r _ => r | _ => []
def Ty.optF : Ty → List (String × Ty) | .td _ o => o | _ => []

/-- keep the first of each `eq`-class (`dict.fromkeys` in `typing._deduplicate`) -/
def dedupBy (eq : α → α → Bool) : List α → List α
  | [] => []
  | a :: as => a :: (dedupBy eq as).filter (fun b => !eq a b)

/-- flatten one level of unions (`typing._remove_dups_flatten`) -/
def flat1 (ts : List Ty) : List Ty :=
  ts.flatMap (fun t => match t with | .union us => us | t => [t])

/-- `typing.Union[ts]`: flatten one level, drop later duplicates, collapse a singleton.
    (`Union[()]` raises in Python; no caller in the modelled code passes an empty tuple.) -/
def mkUnion (ts : List Ty) : Ty :=
  match dedupBy Ty.eqv (flat1 ts) with
  | [t] => t
  | us => .union us

-- RewriteAnonymousTypedDictToDict over the GenericTypeRewriter recursion
-- (Dict, DefaultDict, List, Set, Tuple, Iterator, Generator, Union, TypedDict).
mutual
def tdToDict : Ty → Ty
  | .list t => .list (tdToDict t)
  | .set t => .set (tdToDict t)
  | .dict k v => .dict (tdToDict k) (tdToDict v)
  | .ddict k v => .ddict (tdToDict k) (tdToDict v)
  | .tuple ts => .tuple (tdToDictL ts)
  | .tupleOf t => .tupleOf (tdToDict t)
  | .iterator t => .iterator (tdToDict t)
  | .generator y s r => .generator (tdToDict y) (tdToDict s) (tdToDict r)
  | .union ts => mkUnion (tdToDictL ts)
  | .td r o =>
      match r, o with
      | [], [] => .dict .any .any
      | _, _ => .dict (.cls strC) (mkUnion (tdToDictF r ++ tdToDictF o))
  | t => t
def tdToDictL : List Ty → List Ty
  | [] => []
  | t :: ts => tdToDict t :: tdToDictL ts
def tdToDictF : List (String × Ty) → List Ty
  | [] => []
  | (_, t) :: fs => tdToDict t :: tdToDictF fs
end

def keysOf (fs : List (String × Ty)) : List String := dedupBy (· == ·) (fs.map Prod.fst)

def reqVals (s : String) (tds : List Ty) : List Ty :=
  tds.filterMap (fun t => lookupF s t.reqF)
def optVals (s : String) (tds : List Ty) : List Ty :=
  tds.filterMap (fun t => lookupF s t.optF)
/-- every field value type of every member, required first (a permutation of the
    `chain(required.values(), optional.values())` list of typing.py:114-119) -/
def allVals (tds : List Ty) : List Ty :=
  tds.flatMap (fun t => (t.reqF ++ t.optF).map Prod.snd)

theorem sizeL_append (a b : List Ty) : sizeL (a ++ b) = sizeL a + sizeL b := by
  induction a with
  | nil => simp [sizeL]
  | cons x xs ih => simp [sizeL, ih]; omega

theorem Ty.size_pos (t : Ty) : 0 < t.size := by cases t <;> simp [Ty.size] <;> omega

theorem lookupF_size (s : String) (fs : List (String × Ty)) (t : Ty) (h : lookupF s fs = some t) :
    t.size < sizeF fs + 1 := by
  induction fs with
  | nil => simp [lookupF] at h
  | cons kv fs ih =>
    obtain ⟨k, u⟩ := kv
    simp only [lookupF] at h
    split at h
    · cases h; simp [sizeF]; omega
    · have := ih h; simp [sizeF]; omega

theorem fields_size (t : Ty) : sizeF t.reqF + sizeF t.optF < t.size := by
  cases t <;> simp [Ty.optF, Ty.reqF, Ty.size, sizeF] <;> omega

theorem opt_size (s : String) (fs : List (String × Ty)) :
    sizeL ((lookupF s fs).toList) ≤ sizeF fs := by
  cases h : lookupF s fs with
  | none => simp [sizeL]
  | some u => have := lookupF_size _ _ _ h; simp [sizeL]; omega

theorem filterMap_cons_toList (f : Ty → Option Ty) (t : Ty) (ts : List Ty) :
    (t :: ts).filterMap f = (f t).toList ++ ts.filterMap f := by
  simp only [List.filterMap_cons]; cases f t <;> simp

theorem vals_size2 (s : String) (tds : List Ty) :
    sizeL (reqVals s tds) + sizeL (optVals s tds) ≤ sizeL tds := by
  induction tds with
  | nil => simp [reqVals, optVals, sizeL]
  | cons t ts ih =>
    have hf := fields_size t
    have h1 := opt_size s t.reqF
    have h2 := opt_size s t.optF
    simp only [reqVals, optVals] at *
    rw [filterMap_cons_toList, filterMap_cons_toList]
    simp only [sizeL_append, sizeL]
    omega

theorem reqVals_optVals_size (s : String) (t : Ty) (tds : List Ty) :
    sizeL (reqVals s (t :: tds) ++ optVals s (t :: tds)) < sizeL (t :: tds) := by
  have ih := vals_size2 s tds
  have hf := fields_size t
  have h1 := opt_size s t.reqF
  have h2 := opt_size s t.optF
  simp only [reqVals, optVals] at *
  rw [filterMap_cons_toList, filterMap_cons_toList]
  simp only [sizeL_append, sizeL]
  omega

theorem sizeF_vals (fs : List (String × Ty)) : sizeL (fs.map Prod.snd) ≤ sizeF fs := by
  induction fs with
  | nil => simp [sizeL, sizeF]
  | cons kv fs ih => obtain ⟨k, u⟩ := kv; simp [sizeL, sizeF]; omega

theorem sizeF_append (a b : List (String × Ty)) : sizeF (a ++ b) = sizeF a + sizeF b := by
  induction a with
  | nil => simp [sizeF]
  | cons x xs ih => obtain ⟨k, u⟩ := x; simp [sizeF, ih]; omega

theorem allVals_size (t : Ty) (tds : List Ty) : sizeL (allVals (t :: tds)) < sizeL (t :: tds) := by
  have key : ∀ ts : List Ty, sizeL (allVals ts) ≤ sizeL ts := by
    intro ts
    induction ts with
    | nil => simp [allVals, sizeL]
    | cons t ts ih =>
      simp only [allVals, List.flatMap_cons] at *
      rw [sizeL_append]
      have := sizeF_vals (t.reqF ++ t.optF)
      rw [sizeF_append] at this
      have := fields_size t
      simp only [sizeL]; omega
  have := key tds
  simp only [allVals, List.flatMap_cons] at *
  rw [sizeL_append]
  have := sizeF_vals (t.reqF ++ t.optF)
  rw [sizeF_append] at this
  have := fields_size t
  simp only [sizeL]; omega

theorem sizeLArgs_lt (t : Ty) (ts : List Ty) (h : (t :: ts).all Ty.isList = true) :
    sizeL ((t :: ts).map Ty.listArg) < sizeL (t :: ts) := by
  have key : ∀ ts : List Ty, sizeL (ts.map Ty.listArg) ≤ sizeL ts := by
    intro ts
    induction ts with
    | nil => simp [sizeL]
    | cons t ts ih => cases t <;> simp [sizeL, Ty.listArg, Ty.size] <;> omega
  have := key ts
  cases t <;> simp [Ty.isList] at h
  simp only [List.map_cons, sizeL, Ty.listArg, Ty.size]; omega

/-- keys that are a required field of every member -/
def reqKeys (ts : List Ty) : List String :=
  (keysOf (ts.flatMap Ty.reqF)).filter (fun s => (reqVals s ts).length == ts.length)
/-- keys required in only some members, then keys optional in some member -/
def optKeys (ts : List Ty) : List String :=
  dedupBy (· == ·) ((keysOf (ts.flatMap Ty.reqF)).filter (fun s => (reqVals s ts).length != ts.length)
    ++ keysOf (ts.flatMap Ty.optF))

/-- `shrink_types` (typing.py:136-163) with `shrink_typed_dict_types` (85-133) inlined. -/
def shrink (k : Nat) (ts : List Ty) : Ty :=
  match ts with
  | [] => .any
  | t0 :: rest =>
    if (t0 :: rest).all Ty.isTD then
      if (reqKeys (t0 :: rest)).length + (optKeys (t0 :: rest)).length > k then
        .dict (.cls strC) (shrink k (allVals (t0 :: rest)))
      else
        .td ((reqKeys (t0 :: rest)).map (fun s => (s, shrink k (reqVals s (t0 :: rest) ++ optVals s (t0 :: rest)))))
            ((optKeys (t0 :: rest)).map (fun s => (s, shrink k (reqVals s (t0 :: rest) ++ optVals s (t0 :: rest)))))
    else if rest.all (fun t => Ty.eqv t t0) then t0
    else if (t0 :: rest).all Ty.isList then .list (shrink k ((t0 :: rest).map Ty.listArg))
    else mkUnion ((t0 :: rest).map tdToDict)
termination_by sizeL ts
decreasing_by
  · exact allVals_size _ _
  · exact reqVals_optVals_size _ _ _
  · exact reqVals_optVals_size _ _ _
  · apply sizeLArgs_lt; assumption

mutual
/-- `get_type` / `get_dict_type` (typing.py:183-242). `k` is `max_typed_dict_size`. -/
def getType (k : Nat) : Val → Ty
  | .inst c => .cls c
  | .str _ => .cls strC
  | .classObj c => .typeOf c
  | .func => .callable
  | .genObj => .iterator .any
  | .list vs => .list (shrink k (getTypes k vs))
  | .set vs => .set (shrink k (getTypes k vs))
  | .tuple vs => .tuple (getTypes k vs)
  | .ddict kvs => .ddict (shrink k (getKeyTypes k kvs)) (shrink k (getValTypes k kvs))
  | .dict kvs =>
      match kvs with
      | [] => .dict .any .any
      | _ =>
        if kvs.all (fun kv => kv.1.tdKeyOk) && kvs.length ≤ k then
          .td (getFields k kvs) []
        else .dict (shrink k (getKeyTypes k kvs)) (shrink k (getValTypes k kvs))
def getTypes (k : Nat) : List Val → List Ty
  | [] => []
  | v :: vs => getType k v :: getTypes k vs
def getKeyTypes (k : Nat) : List (Val × Val) → List Ty
  | [] => []
  | (a, _) :: kvs => getType k a :: getKeyTypes k kvs
def getValTypes (k : Nat) : List (Val × Val) → List Ty
  | [] => []
  | (_, b) :: kvs => getType k b :: getValTypes k kvs
def getFields (k : Nat) : List (Val × Val) → List (String × Ty)
  | [] => []
  | (a, b) :: kvs => (match a with | .str s => s | _ => "", getType k b) :: getFields k kvs
end

/-- the single type inferred for a collection of values -/
def infer (k : Nat) (vs : List Val) : Ty := shrink k (getTypes k vs)

end MT
