/-
  Model/ModuleBuild.lean — where `build_module_stubs` (monkeytype/stubs.py:859-899) puts the function stubs of one module.

  A module stub is a tree of dicts: `function_stubs` (name → stub) and `class_stubs` (name → class stub, which again has
  `function_stubs` and `class_stubs`).  An entry with qualified name `A.B.m` walks the class path `[A, B]`, creating the class
  stubs that are missing, and assigns `function_stubs["m"]` there (a later entry with the same qualified name replaces the
  earlier one: dict assignment).  `Tree` is that structure with Python's dict semantics on association lists (keys unique,
  insertion order kept); the payload of a function is the index of the entry it came from.
-/
namespace MT.Build

inductive Tree where
  | node (funcs : List (String × Nat)) (classes : List (String × Tree))
  deriving Repr, Inhabited

def Tree.funcs : Tree → List (String × Nat) | .node fs _ => fs
def Tree.classes : Tree → List (String × Tree) | .node _ cs => cs

def Tree.empty : Tree := .node [] []

/-- `d[k] = v` on an association list: replace in place, else append -/
def setKV (k : String) (v : Nat) : List (String × Nat) → List (String × Nat)
  | [] => [(k, v)]
  | (k', v') :: rest => if k' = k then (k', v) :: rest else (k', v') :: setKV k v rest

def getKV (k : String) : List (String × Nat) → Option Nat
  | [] => none
  | (k', v') :: rest => if k' = k then some v' else getKV k rest

def getC (k : String) : List (String × Tree) → Option Tree
  | [] => none
  | (k', c) :: rest => if k' = k then some c else getC k rest

/-- replace the class stub under `k` (or append it) -/
def setC (k : String) (c : Tree) : List (String × Tree) → List (String × Tree)
  | [] => [(k, c)]
  | (k', c') :: rest => if k' = k then (k', c) :: rest else (k', c') :: setC k c rest

/-- one entry: walk / create the class path, then `function_stubs[name] = stub` -/
def Tree.insert (t : Tree) : List String → String → Nat → Tree
  | [], name, p => .node (setKV name p t.funcs) t.classes
  | k :: path, name, p =>
      let child := match getC k t.classes with | some c => c | none => Tree.empty
      .node t.funcs (setC k (child.insert path name p) t.classes)

/-- the stub of the function `name` in the class at `path`, if there is one -/
def Tree.lookup (t : Tree) : List String → String → Option Nat
  | [], name => getKV name t.funcs
  | k :: path, name => match getC k t.classes with
      | some c => c.lookup path name
      | none => none

structure Entry where
  path : List String      -- the class path: `qualname.split(".")[:-1]`
  name : String
  deriving Repr, DecidableEq

/-- `build_module_stubs` for the entries of one module, in order; the payload is the entry's index -/
def buildFrom (t : Tree) (i : Nat) : List Entry → Tree
  | [] => t
  | e :: es => buildFrom (t.insert e.path e.name i) (i + 1) es

def build (es : List Entry) : Tree := buildFrom Tree.empty 0 es

mutual
/-- every (class path, function name) the tree holds, each dict item once -/
def Tree.items : Tree → List (List String × String)
  | .node fs cs => fs.map (fun kv => ([], kv.1)) ++ itemsC cs
def itemsC : List (String × Tree) → List (List String × String)
  | [] => []
  | (k, c) :: rest => (c.items.map (fun pn => (k :: pn.1, pn.2))) ++ itemsC rest
end

mutual
/-- dict invariant: keys unique at every level -/
def Tree.wfT : Tree → Prop
  | .node fs cs => (fs.map Prod.fst).Nodup ∧ (cs.map Prod.fst).Nodup ∧ wfC cs
def wfC : List (String × Tree) → Prop
  | [] => True
  | (_, c) :: rest => c.wfT ∧ wfC rest
end

end MT.Build
