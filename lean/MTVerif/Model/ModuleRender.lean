/-
  Model/ModuleRender.lean — the order in which `ModuleStub.render` (monkeytype/stubs.py) emits its blocks.

  The generated TypedDict classes are emitted `sorted((stub.name, stub.render()))` — Python's tuple order: by name, ties
  by the class text (strings compare by code point, as Lean's `String` order does); function and class stubs live in
  dicts keyed by name and are emitted `sorted(..., key=name)`.  The blocks are joined with two blank lines.
-/
namespace MT

/-- Python's `<=` on `(str, str)` tuples. -/
def blockLe (a b : String × String) : Bool :=
  decide (a.1 < b.1) || (a.1 == b.1 && decide (a.2 ≤ b.2))

/-- `sorted(key=lambda s: s.name)` on (name, text) pairs. -/
def nameLe (a b : String × String) : Bool := decide (a.1 ≤ b.1)

/-- the TypedDict class block: texts in the order `sorted((name, text))` gives -/
def classBlocks (stubs : List (String × String)) : List String :=
  (stubs.mergeSort blockLe).map (·.2)

/-- function stubs / class stubs: texts sorted by name (stable) -/
def namedBlocks (stubs : List (String × String)) : List String :=
  (stubs.mergeSort nameLe).map (·.2)

/-- `ModuleStub.render`: imports (if any), TypedDict classes, functions, classes, joined by two blank lines -/
def renderModule (imports : Option String) (tds funcs classes : List (String × String)) : String :=
  "\n\n\n".intercalate ((match imports with | some i => [i] | none => []) ++ classBlocks tds ++ namedBlocks funcs ++ namedBlocks classes)

end MT
