/-
  Model/Render.lean — `RenderAnnotation`, `get_imports_for_annotation`, `ReplaceTypedDictsWithStubs` naming and the
  module-prefix stripping of `FunctionStub.render` (monkeytype/stubs.py:104-143, 304-382, 513-531, 578-667).

  Annotations are rendered to an expression tree (`Expr`) and printed; the tree is what the theorems talk about, the
  printed text is what is compared with the implementation.
-/
import MTVerif.Model.Encode
namespace MT.Render
open MT

inductive Expr where
  | name (parts : List String)            -- dotted name
  | str (s : String)                      -- a quoted forward reference 'X'
  | app (head : Expr) (args : List Expr)  -- head[args]
  | emptyTuple                            -- ()
  deriving Repr, Inhabited, BEq

/-- split at dots (`str.split(".")`); structural, so that closed examples reduce in the kernel -/
def splitDotsAux : List Char → List Char → List (List Char)
  | [], cur => [cur.reverse]
  | c :: cs, cur => if c == '.' then cur.reverse :: splitDotsAux cs [] else splitDotsAux cs (c :: cur)

def dotted (s : String) : List String := (splitDotsAux s.toList []).map String.ofList

/-- `typ.__module__ + "." + typ.__qualname__`, builtins unqualified, NoneType as `None` -/
def clsExpr (nm : Names) (c : ClassId) : Expr :=
  let (m, q) := nm.cls c
  if m == "builtins" then (if q == "NoneType" then .name ["None"] else .name (dotted q))
  else .name (dotted m ++ dotted q)

def isNoneTy : Ty → Bool | .cls c => c == noneC | _ => false

mutual
/-- `RenderAnnotation().rewrite(typ)` for a type without anonymous TypedDicts (those have been replaced by forward
    references: `renderWith` takes the names); all `typing.` prefixes already removed -/
def renderE (nm : Names) : Ty → Expr
  | .any => .name ["Any"]
  | .callable => .name ["Callable"]
  | .cls c => clsExpr nm c
  | .typeOf c => .app (.name ["Type"]) [clsExpr nm c]
  | .list t => .app (.name ["List"]) [renderE nm t]
  | .set t => .app (.name ["Set"]) [renderE nm t]
  | .iterator t => .app (.name ["Iterator"]) [renderE nm t]
  | .tupleOf t => .app (.name ["Tuple"]) [renderE nm t, .name ["Ellipsis"]]
  | .dict k v => .app (.name ["Dict"]) [renderE nm k, renderE nm v]
  | .ddict k v => .app (.name ["DefaultDict"]) [renderE nm k, renderE nm v]
  | .generator y s r => .app (.name ["Generator"]) [renderE nm y, renderE nm s, renderE nm r]
  | .tuple ts => (match ts with
                  | [] => .app (.name ["Tuple"]) [.emptyTuple]
                  | _ => .app (.name ["Tuple"]) (renderL nm ts))
  | .union ts =>
      -- `_is_optional`: NoneType among the members → Optional[the other member, or Union[the others]]
      if ts.any isNoneTy then
        (match renderNonNone nm ts with
         | [e] => .app (.name ["Optional"]) [e]
         | es => .app (.name ["Optional"]) [.app (.name ["Union"]) es])
      else .app (.name ["Union"]) (renderL nm ts)
  | .td _ _ => .str "<anonymous TypedDict>"       -- never reaches the renderer (RenderAnnotation raises)
def renderL (nm : Names) : List Ty → List Expr
  | [] => []
  | t :: ts => renderE nm t :: renderL nm ts
def renderNonNone (nm : Names) : List Ty → List Expr
  | [] => []
  | t :: ts => if isNoneTy t then renderNonNone nm ts else renderE nm t :: renderNonNone nm ts
end

mutual
partial def printE : Expr → String
  | .name ps => ".".intercalate ps
  | .str s => "'" ++ s ++ "'"
  | .emptyTuple => "()"
  | .app h as => printE h ++ "[" ++ ", ".intercalate (as.map printE) ++ "]"
end

/-- `get_imports_for_annotation`: (module, name) pairs; class names by the root of their qualified name -/
def clsImport (nm : Names) (c : ClassId) : List (String × String) :=
  let (m, q) := nm.cls c
  if m == "builtins" then [] else [(m, (dotted q).headD q)]

mutual
def importsOf (nm : Names) : Ty → List (String × String)
  | .any => [("typing", "Any")]
  | .callable => [("typing", "Callable")]
  | .cls c => clsImport nm c
  | .typeOf c => ("typing", "Type") :: clsImport nm c
  | .list t => ("typing", "List") :: importsOf nm t
  | .set t => ("typing", "Set") :: importsOf nm t
  | .iterator t => ("typing", "Iterator") :: importsOf nm t
  | .tupleOf t => ("typing", "Tuple") :: importsOf nm t
  | .dict k v => ("typing", "Dict") :: (importsOf nm k ++ importsOf nm v)
  | .ddict k v => ("typing", "DefaultDict") :: (importsOf nm k ++ importsOf nm v)
  | .generator y s r => ("typing", "Generator") :: (importsOf nm y ++ importsOf nm s ++ importsOf nm r)
  | .tuple ts => ("typing", "Tuple") :: importsL nm ts
  | .union ts =>
      if ts.any isNoneTy then
        -- Optional, then the imports of `_get_optional_elem`: the single other member, or Union[the others]
        ("typing", "Optional") ::
          ((if (ts.filter (fun t => !isNoneTy t)).length == 1 then [] else [("typing", "Union")]) ++ importsNonNone nm ts)
      else ("typing", "Union") :: importsL nm ts
  | .td req opt => importsF nm req ++ importsF nm opt   -- the fields of the generated classes (stubs.py, build_module_stubs)
def importsF (nm : Names) : List (String × Ty) → List (String × String)
  | [] => []
  | (_, t) :: fs => importsOf nm t ++ importsF nm fs
def importsL (nm : Names) : List Ty → List (String × String)
  | [] => []
  | t :: ts => importsOf nm t ++ importsL nm ts
def importsNonNone (nm : Names) : List Ty → List (String × String)
  | [] => []
  | t :: ts => if isNoneTy t then importsNonNone nm ts else importsOf nm t ++ importsNonNone nm ts
end

/-! ### names of the classes `ReplaceTypedDictsWithStubs` generates -/

def isAlnumAscii (c : Char) : Bool := c.isAlphanum

/-- `pascal_case` (util.py:78-82) on ASCII identifiers: split at non-alphanumerics, capitalise each piece -/
def pascalCase (s : String) : String :=
  let pieces := (s.toList.splitBy (fun a b => isAlnumAscii a == isAlnumAscii b)).filter (fun p => p.all isAlnumAscii)
  String.join (pieces.map (fun p => match p with
    | [] => ""
    | c :: cs => String.ofList (c.toUpper :: cs)))

def tdClassName (hint : String) : String := pascalCase hint ++ "TypedDict__RENAME_ME__"

def hintAt (hint : String) (index : Nat) : String := if index == 0 then hint else hint ++ toString (index + 1)

mutual
/-- names of the class stubs generated for `t` under class-name hint `hint`, in emission order -/
def tdNames (hint : String) : Ty → List String
  | .list t | .set t | .iterator t => tdNames hint t
  | .tupleOf t => tdNames hint t
  | .dict k v | .ddict k v => tdNames hint k ++ tdNames (hintAt hint 1) v
  | .generator y s r => tdNames hint y ++ tdNames (hintAt hint 1) s ++ tdNames (hintAt hint 2) r
  | .tuple ts | .union ts => tdNamesL hint 0 ts
  | .td req opt =>
      let cn := tdClassName hint
      match req, opt with
      | [], [] => []
      | _, [] => tdNamesF req ++ [cn]
      | [], _ => tdNamesF opt ++ [cn]
      | _, _ => tdNamesF req ++ [cn] ++ tdNamesF opt ++ [cn ++ "NonTotal"]
  | _ => []
def tdNamesL (hint : String) : Nat → List Ty → List String
  | _, [] => []
  | i, t :: ts => tdNames (hintAt hint i) t ++ tdNamesL hint (i + 1) ts
def tdNamesF : List (String × Ty) → List String
  | [] => []
  | (k, t) :: fs => tdNames k t ++ tdNamesF fs
end

/-- two generated classes of one stub get the same name -/
def hasNameCollision (names : List String) : Bool := names.eraseDups.length != names.length

/-- two different modules contribute the same imported name to one stub (`from utils import B` and
    `from pkg.utils import B`; or `from shapes import List` and `from typing import List`): the later import shadows the
    earlier one -/
def rootClash (imports : List (String × String)) : Bool :=
  imports.any (fun a => imports.any (fun b => a.2 == b.2 && a.1 != b.1))

end MT.Render
