/-
  Model/Rewrite.lean — the shipped TypeRewriters (monkeytype/typing.py:253-576) over `Ty`.

  One traversal (`GenericTypeRewriter.rewrite` / `_rewrite_container`: descends into Dict, DefaultDict, List, Set,
  Tuple, Iterator, Generator, Union and anonymous TypedDict; rebuilds unions through `typing.Union[...]`) with the
  per-rewriter overrides of `rewrite_Union` / `rewrite_Generator` / `rewrite_anonymous_TypedDict`.
-/
import MTVerif.Model.Infer
namespace MT

/-- class table: C3 MRO and direct bases of every class (computed by Python, passed in as data) -/
structure Hier where
  mro : ClassId → List ClassId
  bases : ClassId → List ClassId
  /-- position of the class in the order of `(__module__, __qualname__)` (the key `RewriteLargeUnion` breaks ties with) -/
  rank : ClassId → Nat := fun c => c
  /-- `issubclass(_, a)` raises TypeError for this class (a `typing.Protocol` that is not runtime-checkable) -/
  unchk : ClassId → Bool := fun _ => false

def Hier.sub (h : Hier) (c d : ClassId) : Bool := (h.mro c).contains d

inductive RW where
  | removeEmpty
  | configDict
  | largeUnion (n : Nat)
  | generator
  | mscb
  | anonTD          -- RewriteAnonymousTypedDictToDict
  | generic         -- the bare TypeRewriter traversal (rebuilds every container)
  deriving Repr, BEq, Inhabited

/-- `typ.__origin__` as far as RemoveEmptyContainers cares: the kind of a generic, `none` for everything else -/
inductive Kind where | list | set | dict | ddict | tuple | iterator | generator | union | type
  deriving DecidableEq, Repr

def Ty.kind : Ty → Option Kind
  | .list _ => some .list | .set _ => some .set | .dict _ _ => some .dict | .ddict _ _ => some .ddict
  | .tuple _ => some .tuple | .tupleOf _ => some .tuple | .iterator _ => some .iterator
  | .generator _ _ _ => some .generator | .union _ => some .union | .typeOf _ => some .type
  | _ => none

def Ty.isAny : Ty → Bool | .any => true | _ => false

/-- `RemoveEmptyContainers._is_empty`: `args and all(is_any(e) for e in args)` -/
def Ty.isEmptyC : Ty → Bool
  | .list t | .set t | .iterator t => t.isAny
  | .dict k v | .ddict k v => k.isAny && v.isAny
  | .generator y s r => y.isAny && s.isAny && r.isAny
  | .tuple ts => !ts.isEmpty && ts.all Ty.isAny
  | .union ts => !ts.isEmpty && ts.all Ty.isAny
  | _ => false

/-- kinds of the members that are not empty containers -/
def nonEmptyKinds (ts : List Ty) : List (Option Kind) := (ts.filter (fun t => !t.isEmptyC)).map Ty.kind

/-- an empty container is dropped only next to a non-empty member of the same kind -/
def dropEmpty (ts : List Ty) (t : Ty) : Bool := t.isEmptyC && (nonEmptyKinds ts).contains t.kind

def Ty.isDict : Ty → Bool | .dict _ _ => true | _ => false
def Ty.dictKey : Ty → Ty | .dict k _ => k | t => t
def Ty.dictVal : Ty → Ty | .dict _ v => v | t => t

/-- `RewriteConfigDict.rewrite_Union` -/
def configDictUnion (ts : List Ty) : Ty :=
  match ts with
  | [] => .union ts
  | t0 :: _ =>
    if ts.all Ty.isDict && ts.all (fun t => Ty.eqv t0.dictKey t.dictKey) then
      .dict t0.dictKey (mkUnion (ts.map Ty.dictVal))
    else .union ts

def Ty.isTuple : Ty → Bool | .tuple _ => true | .tupleOf _ => true | _ => false

/-- first element type of the first non-empty fixed tuple -/
def firstTupleArg : List Ty → Option Ty
  | [] => none
  | .tuple (a :: _) :: _ => some a
  | .tupleOf a :: _ => some a
  | _ :: ts => firstTupleArg ts

/-- `RewriteLargeUnion._rewrite_to_tuple`: all members are tuples whose elements are all the (identical) type `V` -/
def toTupleOf (ts : List Ty) : Option Ty :=
  if ts.all Ty.isTuple then
    match firstTupleArg ts with
    | none => none
    | some v =>
      if ts.all (fun t => match t with
          | .tuple as => as.all (fun a => Ty.beq' a v)
          | _ => false) then some (.tupleOf v) else none
  else none

def Ty.clsId? : Ty → Option ClassId | .cls c => some c | _ => none

/-- the MROs of the class members, concatenated -/
def classMros (h : Hier) (ts : List Ty) : List ClassId :=
  ts.flatMap (fun t => match t with | .cls c => h.mro c | _ => [])

/-- the ancestors of any member (other than `object`, each once, in first-seen order) that every member is a subclass of;
    a class `issubclass` refuses is no candidate -/
def commonAncestors (h : Hier) (ts : List Ty) : List ClassId :=
  (classMros h ts).eraseDups.filter
    (fun a => a != objectC && !h.unchk a && ts.all (fun t => match t with | .cls c => h.sub c a | _ => false))

/-- those with no other member of the list below them -/
def mostSpecific (h : Hier) (cs : List ClassId) : List ClassId :=
  cs.filter (fun a => !cs.any (fun b => b != a && h.sub b a))

/-- Python's `min(xs, key=rank)`: the first element with the least key -/
def minByRank (h : Hier) : List ClassId → Option ClassId
  | [] => none
  | a :: as => some (as.foldl (fun m b => if h.rank b < h.rank m then b else m) a)

/-- `RewriteLargeUnion.rewrite_Union` for a union with more than `n` members: a tuple of one element type, else the most
    specific common ancestor of a union of classes — by name when multiple inheritance leaves several — else `Any` -/
def largeUnionCollapse (h : Hier) (ts : List Ty) : Ty :=
  match toTupleOf ts with
  | some t => t
  | none =>
    if ts.all (fun t => t.clsId?.isSome) then
      match minByRank h (mostSpecific h (commonAncestors h ts)) with
      | some a => .cls a
      | none => .any
    else .any

/-- `RewriteMostSpecificCommonBase._compute_bases`, most specific first (the Python list reversed):
    follow single inheritance upwards, stop at `object` or after a class with several (or no) bases -/
def baseChain (h : Hier) : Nat → ClassId → List ClassId
  | 0, _ => []
  | fuel + 1, c =>
    if c == objectC then []
    else match h.bases c with
      | [b] => c :: baseChain h fuel b
      | _ => [c]

/-- longest common prefix -/
def commonPrefix : List ClassId → List ClassId → List ClassId
  | a :: as, b :: bs => if a == b then a :: commonPrefix as bs else []
  | _, _ => []

/-- `RewriteMostSpecificCommonBase.rewrite_Union` (general → specific chains, common prefix of all, last element) -/
def mscbUnion (h : Hier) (fuel : Nat) (ts : List Ty) : Ty :=
  if ts.all (fun t => t.clsId?.isSome) then
    match ts.filterMap Ty.clsId? with
    | [] => .union ts
    | c0 :: cs =>
      match ((cs.map (fun c => (baseChain h fuel c).reverse)).foldl commonPrefix (baseChain h fuel c0).reverse).getLast? with
      | some a => .cls a
      | none => .union ts
  else .union ts

mutual
def rewrite (h : Hier) (r : RW) : Ty → Ty
  | .list t => .list (rewrite h r t)
  | .set t => .set (rewrite h r t)
  | .dict k v => .dict (rewrite h r k) (rewrite h r v)
  | .ddict k v => .ddict (rewrite h r k) (rewrite h r v)
  | .tuple ts => .tuple (rewriteL h r ts)
  | .tupleOf t => .tupleOf (rewrite h r t)
  | .iterator t => .iterator (rewrite h r t)
  | .generator y s r' =>
      match r with
      | .generator =>
          (match s, r' with
           | .cls c1, .cls c2 => if c1 == noneC && c2 == noneC then .iterator y else .generator y s r'
           | _, _ => .generator y s r')
      | _ => .generator (rewrite h r y) (rewrite h r s) (rewrite h r r')
  | .union ts =>
      match r with
      | .removeEmpty => mkUnion (rewriteKeep h r (fun t => !dropEmpty ts t) ts)
      | .configDict => configDictUnion ts
      | .largeUnion n => if ts.length ≤ n then .union ts else largeUnionCollapse h ts
      | .mscb => mscbUnion h 64 ts
      | _ => mkUnion (rewriteL h r ts)
  | .td req opt =>
      match r with
      | .anonTD =>
          (match req, opt with
           | [], [] => .dict .any .any
           | _, _ => .dict (.cls strC) (mkUnion (rewriteFV h r req ++ rewriteFV h r opt)))
      | _ => .td (rewriteF h r req) (rewriteF h r opt)
  | t => t
def rewriteL (h : Hier) (r : RW) : List Ty → List Ty
  | [] => []
  | t :: ts => rewrite h r t :: rewriteL h r ts
/-- rewrite the members that are kept -/
def rewriteKeep (h : Hier) (r : RW) (keep : Ty → Bool) : List Ty → List Ty
  | [] => []
  | t :: ts => if keep t then rewrite h r t :: rewriteKeep h r keep ts else rewriteKeep h r keep ts
def rewriteF (h : Hier) (r : RW) : List (String × Ty) → List (String × Ty)
  | [] => []
  | (k, t) :: fs => (k, rewrite h r t) :: rewriteF h r fs
def rewriteFV (h : Hier) (r : RW) : List (String × Ty) → List Ty
  | [] => []
  | (_, t) :: fs => rewrite h r t :: rewriteFV h r fs
end

/-- `ChainedRewriter` -/
def rewriteChain (h : Hier) (rs : List RW) (t : Ty) : Ty := rs.foldl (fun t r => rewrite h r t) t

/-- `DEFAULT_REWRITER` (typing.py:569-576) -/
def defaultChain : List RW := [.removeEmpty, .configDict, .largeUnion 5, .generator]

end MT
