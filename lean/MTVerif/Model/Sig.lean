/-
  Model/Sig.lean — `render_parameter` / `render_signature` (monkeytype/stubs.py:385-479) at token level, and the
  parameter-list grammar of Python as the inverse.
-/
namespace MT.Sig

inductive PKind where | posOnly | posOrKw | varPos | kwOnly | varKw
  deriving DecidableEq, Repr

structure Param where
  name : String
  kind : PKind
  hasDefault : Bool
  anno : Option String          -- rendered annotation text (opaque here; C11)
  deriving DecidableEq, Repr

/-- tokens of a rendered parameter list -/
inductive Tok where
  | slash                       -- "/"
  | star                        -- bare "*"
  | item (stars : Nat) (name : String) (anno : Option String) (hasDefault : Bool)   -- "name: anno = ...", "*args", "**kw"
  deriving DecidableEq, Repr

def itemOf (p : Param) : Tok :=
  .item (match p.kind with | .varPos => 1 | .varKw => 2 | _ => 0) p.name p.anno p.hasDefault

/-- the loop of `render_signature`: `posSep` = render_pos_only_separator, `kwSep` = render_kw_only_separator -/
def renderLoop : Bool → Bool → List Param → List Tok
  | posSep, _, [] => if posSep then [.slash] else []
  | posSep, kwSep, p :: ps =>
    let (pre1, posSep') :=
      if p.kind = .posOnly then ([], true)
      else if posSep then ([Tok.slash], false) else ([], false)
    let (pre2, kwSep') :=
      if p.kind = .varPos then ([], false)
      else if p.kind = .kwOnly ∧ kwSep then ([Tok.star], false) else ([], kwSep)
    pre1 ++ pre2 ++ [itemOf p] ++ renderLoop posSep' kwSep' ps

def renderToks (ps : List Param) : List Tok := renderLoop false true ps

/-- both layouts of `render_signature` (one line, or one parameter per line when longer than the limit) join the very
    same `formatted_params`: the token sequence does not depend on the line width -/
def layout (_width : Nat) (ps : List Param) : List Tok := renderToks ps

/-- Python's parameter-list grammar, read off a token list.  State: parameters read so far that may still turn out to be
    positional-only (no "/" seen yet), whether "/" and whether "*" / "*args" have been seen. -/
def parseLoop : (sawSlash sawStar sawKw : Bool) → List Param → List Tok → Option (List Param)
  | _, _, _, acc, [] => some acc
  | sawSlash, sawStar, sawKw, acc, .slash :: rest =>
      if sawSlash || sawStar || sawKw || acc.isEmpty then none
      else parseLoop true sawStar sawKw (acc.map (fun p => { p with kind := .posOnly })) rest
  | sawSlash, sawStar, sawKw, acc, .star :: rest =>
      if sawStar || sawKw then none
      else match rest with
        | .item 0 _ _ _ :: _ => parseLoop sawSlash true sawKw acc rest     -- a bare * must be followed by a keyword-only parameter
        | _ => none
  | sawSlash, sawStar, sawKw, acc, .item stars n a d :: rest =>
      if sawKw then none
      else match stars with
        | 0 => parseLoop sawSlash sawStar sawKw (acc ++ [{ name := n, kind := if sawStar then .kwOnly else .posOrKw, hasDefault := d, anno := a }]) rest
        | 1 => if sawStar then none else parseLoop sawSlash true sawKw (acc ++ [{ name := n, kind := .varPos, hasDefault := d, anno := a }]) rest
        | _ => parseLoop sawSlash sawStar true (acc ++ [{ name := n, kind := .varKw, hasDefault := d, anno := a }]) rest

def parseToks (ts : List Tok) : Option (List Param) := parseLoop false false false [] ts

/-- kinds appear in the order Python requires: positional-only*, positional-or-keyword*, *args?, keyword-only*, **kwargs? -/
def kindRank : PKind → Nat | .posOnly => 0 | .posOrKw => 1 | .varPos => 2 | .kwOnly => 3 | .varKw => 4

def validKinds : List Param → Bool
  | [] => true
  | [_] => true
  | p :: q :: rest =>
      (kindRank p.kind < kindRank q.kind || (p.kind = q.kind && p.kind ≠ .varPos && p.kind ≠ .varKw)) && validKinds (q :: rest)

end MT.Sig
